"""C36 Era dispatch is consistent across every entry point (S2, TB + RP)."""
import os

import tb_common
import vlib

ERAS = ["Byron", "Shelley", "Allegra", "Mary", "Alonzo", "Babbage", "Conway", "Dijkstra"]


def entry_name(tables, row):
    k, a, b = row["k"], row["a"], row["b"]
    if k == "era":
        return "era=%s" % ERAS[a - 1]
    if k == "dispatch":
        return "dispatch:layout=%d:major=%d" % (a, b)
    if k == "b2h":
        return "b2h:block_type=%d" % tables["b2h"][a - 1][0]
    if k == "h2b":
        return "h2b:header_type=%d" % tables["h2b"][a - 1][0]
    if k == "mapdom":
        return "maps:era=%s" % ERAS[a - 1]
    if k == "eraid":
        return "eraid=%d" % a
    return "%s:%s:%s" % (k, a, b)


def entry_value(tables, row):
    k, a, b = row["k"], row["a"], row["b"]
    if k == "era":
        return tables["byron"] if a == 1 else tables["eras"][a - 2]
    if k == "dispatch":
        return [d for d in tables["dispatch"] if d["layout"] == a and d["major"] == b]
    if k in ("b2h", "h2b"):
        return tables[k][a - 1]
    if k == "mapdom":
        return {"b2h": tables["b2h"], "h2b": tables["h2b"]}
    if k == "eraid":
        return tables["era_by_id"][a]
    return None


def tb(chk, drv, cfg, max_major):
    import json
    d = vlib.scratch("c36-")
    tables = os.path.join(d, "era_tables.json")
    vlib.run_driver(chk, drv, ["dump", vlib.REPO, tables, str(max_major)], timeout=120)
    t = json.load(open(tables))
    r, rows = tb_common.run_tb(
        chk, "ledger/EraDispatch", cfg, tables,
        lambda row, law: "tb:%s:%s" % (entry_name(t, row), law),
        lambda row, law: "the code's own table entry %s = %s violates law %s of spec/ledger/EraDispatch.tla"
                         % (entry_name(t, row), json.dumps(entry_value(t, row)), law))
    return r, rows, tables, t


def corruptions():
    def swap_b2h(t):
        t["b2h"][1][1], t["b2h"][2][1] = t["b2h"][2][1], t["b2h"][1][1]

    def alonzo_max(t):
        t["eras"][3]["max"] -= 1

    def disp_wrong(t):
        for d in t["dispatch"]:
            if d["layout"] == 10 and d["major"] == 8:
                d["type"] = 7

    def disp_accepts_undeclared(t):
        for d in t["dispatch"]:
            if d["layout"] == 10 and d["major"] == 40:
                d["ok"], d["type"] = True, 8

    return [("swap two BlockToBlockHeaderTypeMap values", swap_b2h, "inverse"),
            ("Alonzo max major - 1", alonzo_max, "range_anchor"),
            ("ten-field major 8 classified Conway", disp_wrong, "result_range_contains_major"),
            ("ten-field major 40 classified Dijkstra", disp_accepts_undeclared, "undeclared_major_rejected")]


def run(chk, replay=None):
    chk.rule = ("TB: the era packages' declared major ranges and wire codes, DetermineBlockType for both header "
                "layouts x majors 0..N, both block/header type maps and the era registry are dumped from the running "
                "code and become the constants of EraDispatch.tla; TLC evaluates every law (ranges ordered/disjoint "
                "and containing the ledger's fixed majors, inferred type's declared range contains the major, "
                "native-layout majors classified, undeclared majors rejected, maps mutually inverse and equal to the "
                "era index) on every table entry = one state each. RP: TLC emits what decoding a block of kind K as "
                "type T must/may report and how a header (fields, major) must be classified; every fixture block "
                "(and a re-issue with every major of its era) goes through 10 entry points x 10 requested types. "
                "A case is (fixture, requested type, entry point); non-trivial when a block came out or the type is the block's own.")
    chk.assumptions = [
        "reference era order, era indices and block/header type codes are the Cardano hard-fork-combinator ones; "
        "majors 2..10 and 12 are tied to their era by the ledger, majors 11 and 13+ only by the declared ranges",
        "a real header's protocol version is the issuer's signal: the inferred type must be range-consistent, "
        "it need not be the block's own era (mainnet Allegra/Mary/Alonzo fixtures carry the next era's major)",
        "the property is silent on a declared major met in the other header layout (ten-field Mary/Alonzo): "
        "rejection and the declaring era are both accepted, another era is not",
        "the property quantifies over the two header layouts (15-field TPraos, 10-field Praos) and over what a "
        "successful decode reports: an error from DetermineBlockType on another layout (the twelve-field Leios "
        "Dijkstra body) and a refusal of an entry point to decode a block are 'no inference', accepted and listed "
        "in c36_headers_outside_the_two_stated_layouts / c36_own_type_decodes_refused_by_an_entry_point; a wrong "
        "type or era from any entry point still alarms",
    ]
    thorough = chk.tier != "quick"
    cfg = "EraDispatchThorough.cfg" if thorough else "EraDispatch.cfg"
    drv = vlib.go_build("c36")
    r, rows, tables, t = tb(chk, drv, cfg, 255 if thorough else 64)
    chk.traces = 1  # one table dump of the running code validated by TLC
    chk.extra["c36_table_entries_checked"] = len(rows)
    chk.extra["c36_dispatch_entries_property_silent"] = sum(1 for x in rows if x.get("silent"))
    chk.sample({"tlc_verdict_rows": [x for x in rows if x["k"] == "dispatch" and x["a"] == 10 and 4 <= x["b"] <= 9]})
    cases = os.path.join(r.dir, "cases36.ndjson")
    if not os.path.exists(cases):
        raise vlib.MachineryError("TLC wrote no cases36.ndjson")
    vlib.run_driver(chk, drv, ["replay36", vlib.REPO, cases], timeout=300)
    if thorough:
        tb_common.self_test(chk, "ledger/EraDispatch", cfg, tables, corruptions())
    chk.exhaustive = False
