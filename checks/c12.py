"""C12 Outbound messages keep their order and drive the state machine in that order (S1)."""
import engine_common


def run(chk, replay=None):
    engine_common.run_engine(chk, "C12", ["conv.ndjson", "adv.ndjson", "misuse.ndjson", "sendlim.ndjson", "mib.ndjson"],
                             select=lambda p: p["kind"] == "conv" or p["role"] == "client",
                             mc=["EngineClient.cfg", "EngineConv.cfg"], mc_thorough=["EngineClientThorough.cfg"])
