"""C19 A client never settles on a version it did not offer (S2)."""
import json
import os
import shutil
from concurrent.futures import ThreadPoolExecutor

import vlib

INVS = "TypeOK ClientSafe ClientComplete OnlyAcceptSelects SentOfConfigured UnsentNeverSettles SentDecides SentOnlyJudgesAccepts"


def run(chk, replay=None):
    chk.rule = ("Handshake.tla with the adversarial responder: for every initiator table over a 3- (quick) / 4-version window with "
                "per-version magics, every format threshold and query flag, the responder may answer with any accept (each window "
                "version proposed or not, an unknown version number, a version of a foreign table; data in either format of the "
                "table, in a foreign format, a non-version-data CBOR item, or non-CBOR bytes; either magic), any refusal and any query "
                "reply. 'Proposed' is what the ProposeVersions message held: the sent set snt is a dimension of the case (a subset of "
                "the configured table; HandshakeAdvSent*.cfg enumerate every proper subset) and every verdict is taken on it. TLC checks "
                "ClientSafe (finished => version was sent, data well-formed for it, magic = the one proposed for it), ClientComplete, "
                "OnlyAcceptSelects, UnsentNeverSettles, SentDecides (the verdict is that of an initiator configured with exactly what "
                "was sent) on the repaired design, and must find the counterexample on the legacy design (HandshakeAdvLegacy.cfg) and "
                "on the design that checks an accept against its configuration whatever it sent (HandshakeAdvConfigured.cfg). Every "
                "run in which the whole table is sent is replayed: a scripted raw peer on net.Pipe reads the ProposeVersions segment and "
                "writes the hand-built reply segment, against handshake.Client (tables cut out of the node-to-node / node-to-client / "
                "DMQ tables, threshold placed as in the case) and against ouroboros.NewConnection (full tables); the proposal read off "
                "the wire is mapped back into the window and the run is judged by the specification's row with that sent set (the rows "
                "with a proper subset are reached only by code that does not send its whole table). A case is one "
                "(run, binding, table); non-trivial when the reply is an accept")
    chk.assumptions = [
        "well-formed = the CBOR shape of the version's data format (the three wire shapes of the handshake CDDL); value ranges inside a well-formed item (e.g. peer-sharing 2 on v13) are not part of the model",
        "how a refusal is worded by the initiator is C18's subject: here a refusal / query reply only must not select a version (differences are listed as observations)",
        "an initiator that did not ask and receives a query reply: the property is silent; observed behaviour is recorded, not judged",
        "whether the proposal on the wire must be the configured table is C18's subject: a difference is recorded (coverage.observations), and the acceptance is judged against what was sent; an accept of a version the initiator sent without being configured with it (or with another magic than configured) is not judged",
    ]
    drv = vlib.go_build("c19")
    if replay:
        vlib.run_driver(chk, drv, ["-replay", replay], timeout=300)
        return
    cfg = "HandshakeAdv.cfg" if chk.tier == "quick" else "HandshakeAdvThorough.cfg"
    # the dimension "what was sent": the runs in which a proper part of the configured table is on the wire
    cfg_sent = "HandshakeAdvSent.cfg" if chk.tier == "quick" else "HandshakeAdvSentThorough.cfg"

    def tlc(c):
        return vlib.run_tlc("net/Handshake", cfg=c, timeout=400, workers=2)
    with ThreadPoolExecutor(max_workers=4) as ex:
        r, rs, legacy, configured = list(ex.map(tlc, [cfg, cfg_sent, "HandshakeAdvLegacy.cfg", "HandshakeAdvConfigured.cfg"]))
    files = []
    for c, res in ((cfg, r), (cfg_sent, rs)):
        vlib.tlc_must_pass(res, "Handshake/" + c)
        chk.add_tlc(c, res)
        src = os.path.join(res.dir, "rows.ndjson")
        if not os.path.exists(src) or os.path.getsize(src) == 0:
            raise vlib.MachineryError("Handshake/%s emitted no runs" % c)
        dst = os.path.join(res.dir, c[:-4] + ".ndjson")
        shutil.move(src, dst)
        files.append(dst)
    rows = files[0]
    # the invariant is not vacuous: the design the code had when the check was written violates it in the model,
    # and so does the design that looks an accepted version up in its configuration although it sent only a part of it
    for name, res in (("legacy", legacy), ("configured", configured)):
        if res.ok or not res.violation or "ClientSafe" not in res.violation:
            raise vlib.MachineryError("HandshakeAdv%s.cfg should violate ClientSafe: %r" % (name.capitalize(), res))
        chk.extra[name + "_design_counterexample"] = "TLC: Invariant ClientSafe is violated by ClientDesign = %s (after %d states)" % (name, res.distinct)
    vlib.run_driver(chk, drv, files, timeout=900)
    if chk.tier == "thorough":
        # binding self-test: declare one honest-looking accept illegal and require the driver to object
        victim = None
        with open(rows) as f:
            for line in f:
                row = json.loads(line)
                if row["cres"]["kind"] == "ok":
                    row["cres"]["kind"] = "error"
                    row["why"] = ["selftest"]
                    victim = row
                    break
        if victim is None:
            raise vlib.MachineryError("binding self-test: no accepted run")
        path = os.path.join(vlib.scratch("c19-selftest-"), "selftest.ndjson")
        with open(path, "w") as f:
            f.write(json.dumps(victim) + "\n")
        p = vlib.run_cmd([drv, path], timeout=300, env={"VERIF_SEED": chk.seed, "VERIF_TIER": chk.tier})
        n = sum(1 for l in p.stdout.splitlines() if l.startswith("{") and json.loads(l).get("t") == "disagree")
        if n == 0:
            raise vlib.MachineryError("binding self-test: a flipped expected verdict was not noticed by the driver")
        chk.extra["binding_selftest"] = "one legitimate accept declared illegal: driver reported %d disagreement(s)" % n
    chk.extra["invariants"] = INVS.split()
    chk.exhaustive = False
