"""C19 A client never settles on a version it did not offer (S2)."""
import json
import os
import shutil
from concurrent.futures import ThreadPoolExecutor

import vlib

INVS = "TypeOK ClientSafe ClientComplete OnlyAcceptSelects"


def run(chk, replay=None):
    chk.rule = ("Handshake.tla with the adversarial responder: for every initiator table over a 3- (quick) / 4-version window with "
                "per-version magics, every format threshold and query flag, the responder may answer with any accept (each window "
                "version proposed or not, an unknown version number, a version of a foreign table; data in either format of the "
                "table, in a foreign format, a non-version-data CBOR item, or non-CBOR bytes; either magic), any refusal and any query "
                "reply. TLC checks ClientSafe (finished => version proposed, data well-formed for it, magic = the one proposed for it), "
                "ClientComplete and OnlyAcceptSelects on the repaired design, and must find the counterexample on the legacy design "
                "(HandshakeAdvLegacy.cfg). Every run is replayed: a scripted raw peer on net.Pipe reads the ProposeVersions segment and "
                "writes the hand-built reply segment, against handshake.Client (tables cut out of the node-to-node / node-to-client / "
                "DMQ tables, threshold placed as in the case) and against ouroboros.NewConnection (full tables). A case is one "
                "(run, binding, table); non-trivial when the reply is an accept")
    chk.assumptions = [
        "well-formed = the CBOR shape of the version's data format (the three wire shapes of the handshake CDDL); value ranges inside a well-formed item (e.g. peer-sharing 2 on v13) are not part of the model",
        "how a refusal is worded by the initiator is C18's subject: here a refusal / query reply only must not select a version (differences are listed as observations)",
        "an initiator that did not ask and receives a query reply: the property is silent; observed behaviour is recorded, not judged",
    ]
    drv = vlib.go_build("c19")
    if replay:
        vlib.run_driver(chk, drv, ["-replay", replay], timeout=300)
        return
    cfg = "HandshakeAdv.cfg" if chk.tier == "quick" else "HandshakeAdvThorough.cfg"

    def tlc(c):
        return vlib.run_tlc("net/Handshake", cfg=c, timeout=400, workers=2)
    with ThreadPoolExecutor(max_workers=2) as ex:
        r, legacy = list(ex.map(tlc, [cfg, "HandshakeAdvLegacy.cfg"]))
    vlib.tlc_must_pass(r, "Handshake/" + cfg)
    chk.add_tlc(cfg, r)
    # the invariant is not vacuous: the design the code had when the check was written violates it in the model
    if legacy.ok or not legacy.violation or "ClientSafe" not in legacy.violation:
        raise vlib.MachineryError("HandshakeAdvLegacy.cfg should violate ClientSafe: %r" % legacy)
    chk.extra["legacy_design_counterexample"] = "TLC: Invariant ClientSafe is violated by ClientDesign = legacy (after %d states)" % legacy.distinct
    src = os.path.join(r.dir, "rows.ndjson")
    if not os.path.exists(src) or os.path.getsize(src) == 0:
        raise vlib.MachineryError("Handshake/%s emitted no runs" % cfg)
    rows = os.path.join(r.dir, cfg[:-4] + ".ndjson")
    shutil.move(src, rows)
    vlib.run_driver(chk, drv, [rows], timeout=900)
    if chk.tier == "thorough":
        # binding self-test: declare one honest-looking accept illegal and require the driver to object
        victim = None
        with open(rows) as f:
            for line in f:
                row = json.loads(line)
                if row["cres"]["kind"] == "ok":
                    row["cres"]["kind"] = "error"
                    row["why"] = ["selftest"]
                    victim = row
                    break
        if victim is None:
            raise vlib.MachineryError("binding self-test: no accepted run")
        path = os.path.join(vlib.scratch("c19-selftest-"), "selftest.ndjson")
        with open(path, "w") as f:
            f.write(json.dumps(victim) + "\n")
        p = vlib.run_cmd([drv, path], timeout=300, env={"VERIF_SEED": chk.seed, "VERIF_TIER": chk.tier})
        n = sum(1 for l in p.stdout.splitlines() if l.startswith("{") and json.loads(l).get("t") == "disagree")
        if n == 0:
            raise vlib.MachineryError("binding self-test: a flipped expected verdict was not noticed by the driver")
        chk.extra["binding_selftest"] = "one legitimate accept declared illegal: driver reported %d disagreement(s)" % n
    chk.extra["invariants"] = INVS.split()
    chk.exhaustive = False
