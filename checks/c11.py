"""C11 Received messages are checked against the protocol state machine (S1)."""
import engine_common


def run(chk, replay=None):
    engine_common.run_engine(chk, "C11", ["adv.ndjson"])
