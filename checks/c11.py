"""C11 Received messages are checked against the protocol state machine (S1)."""
import engine_common


def run(chk, replay=None):
    engine_common.run_engine(chk, "C11", ["adv.ndjson"],
                             mc=["EngineServer.cfg", "EngineClient.cfg"],
                             mc_thorough=["EngineClientLive.cfg", "EngineServerThorough.cfg", "EngineClientThorough.cfg"],
                             must_fail=["EngineBadToken.cfg"])
    engine_common.real_protocol_traces(chk, "C11")
