"""C11 Received messages are checked against the protocol state machine (S1)."""
import engine_common


def run(chk, replay=None):
    engine_common.run_engine(chk, "C11", ["adv.ndjson"],
                             mc=["EngineServer.cfg", "EngineClient.cfg", "EngineClientLive.cfg"],
                             mc_thorough=["EngineServerThorough.cfg", "EngineClientThorough.cfg"],
                             must_fail=["EngineBadToken.cfg"])
