"""C03 tagged-sum decoding follows the tag, whatever the array-header form (S3)."""
import os
import vlib


def run(chk, replay=None):
    chk.rule = ("CborHead.tla is the RFC 8949 head grammar over byte sequences with ListId (the variant tag a "
                "tagged list names). TLC proves ListId(Encode(arrayform, n, uintform, v)) = v for every admissible "
                "array-header form (minimal, 0x98/0x99/0x9a/0x9b, indefinite) and uint form, that re-heading a "
                "minimal list never changes its id, and that empty lists / non-uint first elements / non-lists / "
                "ill-formed lists name no id. Every emitted encoding is fed to cbor.DecodeIdFromList (oracle: the "
                "spec's ListId); then each variant of every tagged-sum decoder the property names is re-headed "
                "with each header form the spec emitted for its length and decoded: same variant as the minimal "
                "form or an error. A case = one (encoding) or one (decoder, variant, header form); non-trivial = "
                "the header is not the minimal one the fixtures use, or the input names no variant.")
    chk.assumptions = [
        "ids/lengths are exact below 2^24 in the model (TLC 32-bit integers); larger arguments are the abstract value Big and are not emitted",
        "a decode error on a non-minimal or indefinite header is accepted: the property forbids reinterpretation as another variant, not rejection",
        "variant identity is observed through the decoder's public result (Go type, wrapper Type field, NativeScript.Evaluate), not through DecodeIdFromList",
    ]
    cfg = "CborHead.cfg" if chk.tier == "quick" else "CborHeadThorough.cfg"
    r = vlib.run_tlc("ledger/CborHead", cfg=cfg, timeout=420)
    vlib.tlc_must_pass(r, "CborHead")
    chk.add_tlc(cfg, r)
    cases = os.path.join(r.dir, "cases.ndjson")
    heads = os.path.join(r.dir, "heads.ndjson")
    for p in (cases, heads):
        if not os.path.exists(p) or os.path.getsize(p) == 0:
            raise vlib.MachineryError("TLC did not emit %s" % os.path.basename(p))
    drv = vlib.go_build("c03")
    vlib.run_driver(chk, drv, [cases, heads], timeout=300)
    # exhaustive over the finite case space of the model; the model's bounds are stated above
    chk.exhaustive = False
