"""C39 KES signatures are forward-secure and period-bound (S2, symbolic crypto)."""
import json
import os
from concurrent.futures import ThreadPoolExecutor

import vlib

INVS = "TypeOK PkConstant ForwardSecure Evolved PeriodBound NoRelabel SignCurrentOnly Exhaustion"


def _tlc_all(chk, cfgs, timeout):
    """Run the configs concurrently (separate JVMs, separate scratch dirs); returns their rows files in order."""
    def one(cfg):
        return vlib.run_tlc("consensus/Kes", cfg=cfg, timeout=timeout, workers=1, deadlock=False)
    with ThreadPoolExecutor(max_workers=len(cfgs)) as ex:
        results = list(ex.map(one, cfgs))
    files = []
    for cfg, r in zip(cfgs, results):
        vlib.tlc_must_pass(r, "Kes/" + cfg)
        chk.add_tlc(cfg, r)
        rows = os.path.join(r.dir, "rows.ndjson")
        if not os.path.exists(rows) or os.path.getsize(rows) == 0:
            raise vlib.MachineryError("Kes/%s produced no behaviours" % cfg)
        files.append(rows)
    return files


def _binding_selftest(chk, drv, rows_path, flippable):
    """Thorough tier: flip one expected verdict of one behaviour and require the driver to object
    (guards against a replay that compares nothing)."""
    victim = None
    with open(rows_path) as f:
        for line in f:
            row = json.loads(line)
            if isinstance(row, str):
                row = json.loads(row)
            idx = [i for i, s in enumerate(row.get("steps", [])) if flippable(s)]
            if idx:
                row["steps"][idx[-1]]["e"]["ok"] = not row["steps"][idx[-1]]["e"]["ok"]
                row.pop("fan", None)
                row["kind"] = "hist"
                victim = row
                break
    if victim is None:
        raise vlib.MachineryError("binding self-test: no behaviour with a flippable step")
    path = os.path.join(vlib.scratch("selftest-"), "rows.ndjson")
    with open(path, "w") as f:
        f.write(json.dumps(victim) + "\n")
    p = vlib.run_cmd([drv, path], timeout=120, env={"VERIF_SEED": chk.seed, "VERIF_TIER": chk.tier})
    n = sum(1 for l in p.stdout.splitlines() if l.startswith("{") and json.loads(l).get("t") == "disagree")
    if n == 0:
        raise vlib.MachineryError("binding self-test: a flipped expected verdict was not noticed by the driver")
    chk.extra["binding_selftest"] = "one expected verdict flipped in one behaviour: driver reported %d disagreement(s)" % n


def run(chk, replay=None):
    chk.rule = ("Kes.tla transcribes key generation / update / sign / verify of the sum composition over symbolic "
                "leaf keys; TLC checks in every reachable key state (every period of every depth) that a signature "
                "verifies for exactly its period, message and public key with no corrupted component, that the "
                "public key is constant, that exactly the periods >= t are derivable from the key material, that "
                "only the current period signs and that the key is exhausted at 2^d-1. TLC emits an access history "
                "for every state-changing transition and, per state, every state-preserving call with its result; "
                "the driver replays them on the real kes package (real Ed25519, corruption = seeded bit flip in the "
                "component's byte range; depth 6 also through VerifySignedKES and ledger.VerifyKesComponents) and "
                "compares result, period, public key and sign-ability after every call. A case is one "
                "(depth, period, call) triple; all are non-trivial")
    chk.assumptions = [
        "Blake2b-256 is collision free and Ed25519 is unforgeable (symbolic in the model: Hash injective, leaf signature a term)",
        "depths 4-6 (quick) / 5-6 (thorough): every key period is visited, but verify periods are the extremes, t-1, t, t+1, 2^d, 2^d+t, -1 and every period one bit away from t, not all 2^d",
        "key material bytes (SecretKey.Data) are observed only through PublicKey and Sign, residual copies in memory are out of scope",
    ]
    drv = vlib.go_build("c39")
    if replay:
        obj = json.load(open(replay))
        row = obj["row"]
        row["rseed"] = obj.get("rseed")
        path = os.path.join(vlib.scratch("c39-replay-"), "rows.ndjson")
        with open(path, "w") as f:
            f.write(json.dumps(row) + "\n")
        vlib.run_driver(chk, drv, [path], timeout=300)
        return
    if chk.tier == "quick":
        files = _tlc_all(chk, ["KesSmall.cfg", "Kes.cfg"], 240)
    else:
        files = _tlc_all(chk, ["KesSmall.cfg", "KesThorough.cfg", "KesHist.cfg"], 560)
    vlib.run_driver(chk, drv, files, timeout=400)
    if chk.tier == "thorough":
        _binding_selftest(chk, drv, files[0], lambda s: s["c"]["op"] == "sign" and s["e"]["ok"])
    chk.extra["invariants"] = INVS.split()
    chk.exhaustive = False
