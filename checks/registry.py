"""Registry of claimed checks; bin/gen-manifest turns it into MANIFEST.json."""

# id -> dict(technique, text, note, design_ref, engine)
CLAIMED = {
    "C35": dict(
        technique="TLA+ transcription of the merkle construction, TLC meta-properties + enumeration, replay of every shape against byron.MerkleRoot",
        text="The reference construction is a TLA+ recursive definition; TLC checks its structural laws for every "
             "list length in the bound and emits each tree shape; every shape is folded with real Blake2b-256 on "
             "seeded random items and compared with the implementation (spec verdict is the oracle).",
        note="Blake2b-256 collision freedom; bound N=70 (quick) / 300 (thorough) list lengths; random item contents.",
        design_ref="§5 C35", engine="ledger-decision"),
    "C03": dict(
        technique="TLA+ transcription of the RFC 8949 head grammar (CborHead.tla), TLC proves ListId(Encode(form,n,v)) = v over all header forms and enumerates every encoding; replay on cbor.DecodeIdFromList and on every tagged-sum decoder re-headed in each form",
        text="The head grammar and ListId are a TLA+ definition; TLC checks its self-consistency for every admissible array-header form and emits each encoding with the expected id; the driver feeds them to DecodeIdFromList and re-heads a valid minimal encoding of each variant of 28 tagged-sum decoders in every form (same variant or an error is required).",
        note="bounded list lengths / ids (n in {1,2,3,23,24,25}, ids up to 65536); variants taken from library constructors and fixtures.",
        design_ref="§5 C03", engine="ledger-decision"),
    "C05": dict(
        technique="TLA+ decision structure of the address header/layout/length/HRP/pointer-varint rules (Address.tla), TLC enumeration of all 256 header bytes x length deviations x pointer triples x HRPs, replay on the address API",
        text="Address.tla is the decision structure (types 0-7,14,15; networks; exact lengths; trailer whitelist; HRP table; minimal base-128 pointers; Byron wrapper/CRC/root). TLC checks decode.encode = id on the abstract address and emits every case with verdict and projected fields; the driver materialises them with seeded hashes and compares accept/reject, every accessor and both round trips.",
        note="bech32/base58 character-level fidelity only exercised; pointer components from a 5-value boundary set.",
        design_ref="§5 C05", engine="ledger-decision"),
    "C20": dict(
        technique="TB: version tables dumped from the running code become CONSTANTS of VersionTable.tla, TLC checks the table laws; replay of every (version, magic, flags) through that version's own codec",
        text="GetProtocolVersion is scanned over all 65536 version numbers, the two lists and the generated version maps are dumped; TLC checks class bits, ascending order, era-prefix monotonicity and flag representability against expectations written from the network specification; every (version, magic, diffusion, peer-sharing, query) is encoded/decoded with the version's own decoder.",
        note="reference expectations (which version carries which flags / eras) are my transcription of the network spec.",
        design_ref="§5 C20", engine="tables"),
    "C22": dict(
        technique="TB+RP: block/header type maps as TLC constants (EraDispatch.tla), real fixture blocks of every era served through chain-sync roll-forward to a real client over the engine in NtC and NtN mode",
        text="TLC checks H2B(B2H(T)) = T and the identity laws on the dumped maps; 19 real blocks are served through Server.RollForward over two real Connections on net.Pipe (and through the constructors/wrappers directly) and the callback's type, bytes and hash are compared with what was served.",
        note="thin model; Byron over NtN is refused by the server and recorded as an observation.",
        design_ref="§5 C22", engine="tables"),
    "C36": dict(
        technique="TB: era version ranges, DetermineBlockType results for both header layouts and majors 0..64, block/header maps dumped from the code as TLC constants (EraDispatch.tla); replay of fixture blocks through every decode entry point",
        text="TLC checks range disjointness, that a dispatch result's range contains the major and matches the layout, that the maps are mutually inverse and type->era functional; 26 blocks are decoded through 10 entry points and must report the requested type and its era.",
        note="only the two header layouts the property names are required to classify; errors on other layouts / refused decodes are recorded as observations.",
        design_ref="§5 C36", engine="tables"),
    "C39": dict(
        technique="TLA+ model of the KES sum composition over symbolic leaf keys (Kes.tla), TLC invariants over all key/period/message/corruption combinations, behaviours replayed on the real kes package with bit-flip corruption",
        text="Kes.tla transcribes KeyGen/Update/Sign/Verify; TLC checks PkConstant, ForwardSecure, PeriodBound, SignCurrentOnly, Exhaustion exhaustively for depth <= 3 (and period extremes for depth 4-6) and emits API histories with the expected result of every call; the driver replays them on real keys (depth 1..6).",
        note="symbolic crypto in the model (hashes injective, signatures unforgeable); corruption = one seeded bit flip in the named component.",
        design_ref="§5 C39", engine="consensus"),
    "C46": dict(
        technique="TLA+ model of the DMQ authenticator (DmqAuth.tla: registered pools, op-cert counter cache, verifier, insecure flag), TLC invariants + transition cover + bounded histories, replayed on the real authenticator with real keys",
        text="TLC checks OnlyAuthentic, RejectKeepsState, Monotone, CacheIsLastAccepted over 2 pools x 3 counters x 8 validity triples and all 3-call histories, and emits 13k behaviours (incl. seeded 24-call chains) with the expected verdict and abstract state after every call; the driver replays them with real ed25519 cold keys, op-cert signatures and depth-6 KES.",
        note="symbolic crypto in the model; counters mapped order-isomorphically onto 0..2^64-1.",
        design_ref="§5 C46", engine="dmq"),
    "C42": dict(
        technique="TLA+ spec of the pipeline goroutines (Pipeline.tla), TLC safety+liveness, TLC-simulated schedules forced on the real pipeline through blocking gates",
        text="Pipeline.tla models Submit, stage workers, the apply runner, Stop and WaitForDrain at the grain of the verif gates; "
             "TLC checks order/exactly-once/no-send-on-closed/termination exhaustively for small constants; TLC-simulated behaviours are "
             "forced step by step on the real pipeline (each goroutine released gate by gate) and every step's observable outcome is compared "
             "with the specification, plus monitors on the real run (applied order, exactly once, results, Stop returns, no goroutine left).",
        note="small TLC constants; gates sequentialise the goroutines (true parallel races are outside the forced replays); application drains Results/Errors; validated-and-applied path only model-checked.",
        design_ref="§5 C42, Appendix B", engine="pipeline"),
    "C43": dict(
        technique="TLA+ spec of the pipeline (Pipeline.tla) with WaitForDrain/PendingCount as separate reads, TLC invariant DrainSound + liveness, gate-forced replay of TLC schedules with a drain monitor on the real run",
        text="DrainSound (WaitForDrain returned nil => every block submitted before the wait is finished) is model-checked over all interleavings "
             "of small configurations, including blocks held inside decode/validate/apply; the same schedules are forced on the real pipeline and "
             "a monitor checks the real run at the moment WaitForDrain returns.",
        note="as C42; the monitor observes 'finished' for good blocks through ApplyFunc returning.",
        design_ref="§5 C43, Appendix B", engine="pipeline"),
    "C44": dict(
        technique="TLA+ spec of the pipeline (Pipeline.tla) with expiring submit contexts, TLC invariants DenseSeq/QuiescentComplete + liveness OkEventuallyApplied, gate-forced replay with forced context expiry under backpressure",
        text="Submissions whose context expires while the channel is full (forced through the gates) are interleaved with successful ones; "
             "TLC proves on the model that successful submissions get dense sequence numbers and are eventually applied; the real run must reach "
             "the specification's quiescent state with every successfully submitted good block applied.",
        note="as C42.",
        design_ref="§5 C44, Appendix B", engine="pipeline"),
}

NOT_APPLICABLE = {
    "C01": "byte-for-byte preservation/hashing of arbitrary admissible encodings is encode/decode fidelity: no state or decision structure for a TLA+ specification to carry, the whole oracle would be Go byte comparison (DESIGN §8)",
    "C02": "decoder totality (no panic/hang/over-allocation) on arbitrary bytes is fuzzing / memory-safety territory, not expressible as specification state (DESIGN §8)",
    "C04": "per-message codec round trip and shape rejection is codec fidelity; its only state-machine clause (every permitted message is decodable) is decided under C16 (DESIGN §8)",
    "C07": "byte offsets into arbitrary admissible encodings: same reason as C01 (DESIGN §8)",
    "C37": "exact floor of a transcendental expression at 256/512 bits: numeric accuracy beyond TLC's 32-bit integers (DESIGN §8)",
    "C38": "soundness of an elliptic-curve VRF primitive under bit flips: a symbolic model is a tautology (DESIGN §8)",
    "C45": "exact-sum identities of a big-rational reward formula at 10^16 scale: numeric, the oracle would be a Go sum (DESIGN §8)",
}

ALL_IDS = ["C%02d" % i for i in range(1, 47)]
