"""Registry of claimed checks; bin/gen-manifest turns it into MANIFEST.json."""

# id -> dict(technique, text, note, design_ref, engine)
CLAIMED = {
    "C35": dict(
        technique="TLA+ transcription of the merkle construction, TLC meta-properties + enumeration, replay of every shape against byron.MerkleRoot",
        text="The reference construction is a TLA+ recursive definition; TLC checks its structural laws for every "
             "list length in the bound and emits each tree shape; every shape is folded with real Blake2b-256 on "
             "seeded random items and compared with the implementation (spec verdict is the oracle).",
        note="Blake2b-256 collision freedom; bound N=70 (quick) / 300 (thorough) list lengths; random item contents.",
        design_ref="§5 C35", engine="ledger-decision"),
}

NOT_APPLICABLE = {
    "C01": "byte-for-byte preservation/hashing of arbitrary admissible encodings is encode/decode fidelity: no state or decision structure for a TLA+ specification to carry, the whole oracle would be Go byte comparison (DESIGN §8)",
    "C02": "decoder totality (no panic/hang/over-allocation) on arbitrary bytes is fuzzing / memory-safety territory, not expressible as specification state (DESIGN §8)",
    "C04": "per-message codec round trip and shape rejection is codec fidelity; its only state-machine clause (every permitted message is decodable) is decided under C16 (DESIGN §8)",
    "C07": "byte offsets into arbitrary admissible encodings: same reason as C01 (DESIGN §8)",
    "C37": "exact floor of a transcendental expression at 256/512 bits: numeric accuracy beyond TLC's 32-bit integers (DESIGN §8)",
    "C38": "soundness of an elliptic-curve VRF primitive under bit flips: a symbolic model is a tautology (DESIGN §8)",
    "C45": "exact-sum identities of a big-rational reward formula at 10^16 scale: numeric, the oracle would be a Go sum (DESIGN §8)",
}

ALL_IDS = ["C%02d" % i for i in range(1, 47)]
