"""Registry of claimed checks; bin/gen-manifest turns it into MANIFEST.json."""

# id -> dict(technique, text, note, design_ref, engine)
CLAIMED = {
    "C35": dict(
        technique="TLA+ transcription of the merkle construction, TLC meta-properties + enumeration, replay of every shape against byron.MerkleRoot",
        text="The reference construction is a TLA+ recursive definition; TLC checks its structural laws for every "
             "list length in the bound and emits each tree shape; every shape is folded with real Blake2b-256 on "
             "seeded random items and compared with the implementation (spec verdict is the oracle).",
        note="Blake2b-256 collision freedom; bound N=70 (quick) / 300 (thorough) list lengths; random item contents.",
        design_ref="§5 C35", engine="ledger-decision"),
    "C42": dict(
        technique="TLA+ spec of the pipeline goroutines (Pipeline.tla), TLC safety+liveness, TLC-simulated schedules forced on the real pipeline through blocking gates",
        text="Pipeline.tla models Submit, stage workers, the apply runner, Stop and WaitForDrain at the grain of the verif gates; "
             "TLC checks order/exactly-once/no-send-on-closed/termination exhaustively for small constants; TLC-simulated behaviours are "
             "forced step by step on the real pipeline (each goroutine released gate by gate) and every step's observable outcome is compared "
             "with the specification, plus monitors on the real run (applied order, exactly once, results, Stop returns, no goroutine left).",
        note="small TLC constants; gates sequentialise the goroutines (true parallel races are outside the forced replays); application drains Results/Errors; validated-and-applied path only model-checked.",
        design_ref="§5 C42, Appendix B", engine="pipeline"),
    "C43": dict(
        technique="TLA+ spec of the pipeline (Pipeline.tla) with WaitForDrain/PendingCount as separate reads, TLC invariant DrainSound + liveness, gate-forced replay of TLC schedules with a drain monitor on the real run",
        text="DrainSound (WaitForDrain returned nil => every block submitted before the wait is finished) is model-checked over all interleavings "
             "of small configurations, including blocks held inside decode/validate/apply; the same schedules are forced on the real pipeline and "
             "a monitor checks the real run at the moment WaitForDrain returns.",
        note="as C42; the monitor observes 'finished' for good blocks through ApplyFunc returning.",
        design_ref="§5 C43, Appendix B", engine="pipeline"),
    "C44": dict(
        technique="TLA+ spec of the pipeline (Pipeline.tla) with expiring submit contexts, TLC invariants DenseSeq/QuiescentComplete + liveness OkEventuallyApplied, gate-forced replay with forced context expiry under backpressure",
        text="Submissions whose context expires while the channel is full (forced through the gates) are interleaved with successful ones; "
             "TLC proves on the model that successful submissions get dense sequence numbers and are eventually applied; the real run must reach "
             "the specification's quiescent state with every successfully submitted good block applied.",
        note="as C42.",
        design_ref="§5 C44, Appendix B", engine="pipeline"),
}

NOT_APPLICABLE = {
    "C01": "byte-for-byte preservation/hashing of arbitrary admissible encodings is encode/decode fidelity: no state or decision structure for a TLA+ specification to carry, the whole oracle would be Go byte comparison (DESIGN §8)",
    "C02": "decoder totality (no panic/hang/over-allocation) on arbitrary bytes is fuzzing / memory-safety territory, not expressible as specification state (DESIGN §8)",
    "C04": "per-message codec round trip and shape rejection is codec fidelity; its only state-machine clause (every permitted message is decodable) is decided under C16 (DESIGN §8)",
    "C07": "byte offsets into arbitrary admissible encodings: same reason as C01 (DESIGN §8)",
    "C37": "exact floor of a transcendental expression at 256/512 bits: numeric accuracy beyond TLC's 32-bit integers (DESIGN §8)",
    "C38": "soundness of an elliptic-curve VRF primitive under bit flips: a symbolic model is a tautology (DESIGN §8)",
    "C45": "exact-sum identities of a big-rational reward formula at 10^16 scale: numeric, the oracle would be a Go sum (DESIGN §8)",
}

ALL_IDS = ["C%02d" % i for i in range(1, 47)]
