"""Registry of claimed checks; bin/gen-manifest turns it into MANIFEST.json."""

# id -> dict(technique, text, note, design_ref, engine)
CLAIMED = {
    "C35": dict(
        technique="TLA+ transcription of the merkle construction, TLC meta-properties + enumeration, replay of every shape against byron.MerkleRoot",
        text="The reference construction is a TLA+ recursive definition; TLC checks its structural laws for every "
             "list length in the bound and emits each tree shape; every shape is folded with real Blake2b-256 on "
             "seeded random items and compared with the implementation (spec verdict is the oracle).",
        note="Blake2b-256 collision freedom; bound N=70 (quick) / 300 (thorough) list lengths; random item contents. Item size classes (0 ... 70000 bytes) are a dimension.",
        design_ref="§5 C35", engine="ledger-decision"),
    "C03": dict(
        technique="TLA+ transcription of the RFC 8949 head grammar (CborHead.tla), TLC proves ListId(Encode(form,n,v)) = v over all header forms and enumerates every encoding; replay on cbor.DecodeIdFromList and on every tagged-sum decoder re-headed in each form",
        text="The head grammar and ListId are a TLA+ definition; TLC checks its self-consistency for every admissible array-header form and emits each encoding with the expected id; the driver feeds them to DecodeIdFromList and re-heads a valid minimal encoding of each variant of 28 tagged-sum decoders in every form (same variant or an error is required).",
        note="bounded list lengths / ids (n in {1,2,3,23,24,25}, ids up to 65536); variants taken from library constructors and fixtures. Reading decision: every admissible header form must decode to the named variant; a refusal is reported (keys :refused).",
        design_ref="§5 C03", engine="ledger-decision"),
    "C05": dict(
        technique="TLA+ decision structure of the address header/layout/length/HRP/pointer-varint rules (Address.tla), TLC enumeration of all 256 header bytes x length deviations x pointer triples x HRPs, replay on the address API",
        text="Address.tla is the decision structure (types 0-7,14,15; networks; exact lengths; trailer whitelist; HRP table; minimal base-128 pointers; Byron wrapper/CRC/root). TLC checks decode.encode = id on the abstract address and emits every case with verdict and projected fields; the driver materialises them with seeded hashes and compares accept/reject, every accessor and both round trips.",
        note="bech32/base58 character-level fidelity only exercised; pointer components from a 5-value boundary set.",
        design_ref="§5 C05", engine="ledger-decision"),
    "C20": dict(
        technique="TB: version tables dumped from the running code become CONSTANTS of VersionTable.tla, TLC checks the table laws; replay of every (version, magic, flags) through that version's own codec",
        text="GetProtocolVersion is scanned over all 65536 version numbers, the two lists and the generated version maps are dumped; TLC checks class bits, ascending order, era-prefix monotonicity and flag representability against expectations written from the network specification; every (version, magic, diffusion, peer-sharing, query) is encoded/decoded with the version's own decoder.",
        note="reference expectations (which version carries which flags / eras) are my transcription of the network spec.",
        design_ref="§5 C20", engine="tables"),
    "C22": dict(
        technique="TB+RP: block/header type maps as TLC constants (EraDispatch.tla), real fixture blocks of every era served through chain-sync roll-forward to a real client over the engine in NtC and NtN mode",
        text="TLC checks H2B(B2H(T)) = T and the identity laws on the dumped maps; 19 real blocks are served through Server.RollForward over two real Connections on net.Pipe (and through the constructors/wrappers directly) and the callback's type, bytes and hash are compared with what was served.",
        note="thin model; Byron over NtN is refused by the server and recorded as an observation.",
        design_ref="§5 C22", engine="tables"),
    "C36": dict(
        technique="TB: era version ranges, DetermineBlockType results for both header layouts and majors 0..64, block/header maps dumped from the code as TLC constants (EraDispatch.tla); replay of fixture blocks through every decode entry point",
        text="TLC checks range disjointness, that a dispatch result's range contains the major and matches the layout, that the maps are mutually inverse and type->era functional; 26 blocks are decoded through 10 entry points and must report the requested type and its era.",
        note="only the two header layouts the property names are required to classify; errors on other layouts / refused decodes are recorded as observations.",
        design_ref="§5 C36", engine="tables"),
    "C39": dict(
        technique="TLA+ model of the KES sum composition over symbolic leaf keys (Kes.tla), TLC invariants over all key/period/message/corruption combinations, behaviours replayed on the real kes package with bit-flip corruption",
        text="Kes.tla transcribes KeyGen/Update/Sign/Verify; TLC checks PkConstant, ForwardSecure, PeriodBound, SignCurrentOnly, Exhaustion exhaustively for depth <= 3 (and period extremes for depth 4-6) and emits API histories with the expected result of every call; the driver replays them on real keys (depth 1..6).",
        note="symbolic crypto in the model (hashes injective, signatures unforgeable); corruption = one seeded bit flip in the named component.",
        design_ref="§5 C39", engine="consensus"),
    "C46": dict(
        technique="TLA+ model of the DMQ authenticator (DmqAuth.tla: registered pools, op-cert counter cache, verifier, insecure flag), TLC invariants + transition cover + bounded histories, replayed on the real authenticator with real keys",
        text="TLC checks OnlyAuthentic, RejectKeepsState, Monotone, CacheIsLastAccepted over 2 pools x 3 counters x 8 validity triples and all 3-call histories, and emits 13k behaviours (incl. seeded 24-call chains) with the expected verdict and abstract state after every call; the driver replays them with real ed25519 cold keys, op-cert signatures and depth-6 KES.",
        note="symbolic crypto in the model; counters mapped order-isomorphically onto 0..2^64-1. Replayed components and registration churn (probes after every state-changing call) are dimensions.",
        design_ref="§5 C46", engine="dmq"),
    "C06": dict(
        technique="TLA+ model of multi-asset values as partial maps (MultiAsset.tla), TLC proves the group laws / canonical encoding on the model and enumerates pairs and triples; replay on MultiAsset[*big.Int] at homomorphic scales up to 2^64+1",
        text="Eq/Add/Norm/Enc are TLA+ definitions; TLC checks equivalence, commutativity, associativity, Dec(Enc(a)) = Norm(a) and injectivity of Enc on Norm-classes exhaustively over a small key/quantity domain and emits every pair (sampled triples); each case is replayed on the real type (Add, Compare, Asset, CBOR encode/decode, byte-exact against the spec's canonical encoding) at scales 1, 2^31, 2^62, 2^63, 2^64+1.",
        note="small key universe (2 policies x 2 names) and quantities -2..2 in TLC; addition-preserving scaling makes the spec result exact at large magnitudes; the int64/uint64 instantiations and the nil zero value are outside the property's domain (evidence only).",
        design_ref="§5 C06", engine="ledger-decision"),
    "C09": dict(
        technique="TLA+ model of the muxer's read/route/deliver/unregister steps and per-protocol senders (Muxer.tla, TLC safety+liveness over every inbound stream of <= 2-3 segments), observer specification MuxObs.tla validated by TLC on traces of real muxers (incl. an independent wire tap), TLC-enumerated adversarial inbound streams (MuxPlans.tla), TLC-enumerated API histories (MuxerApi.tla: start gate, registration, diffusion mode, Stop, peer close) replayed on a real muxer",
        text="Muxer.tla models Route and Deliver as separate steps (the code releases the map lock between them), so TLC explores the unregister race; invariants: routed only to the registered receiver of (protocol, direction), in order, nothing after an error, the read loop never ends silently, zero length is an error. Real muxers are traced: every Recv must be the next segment the peer wrote (id, direction, length, content hash), the tapped wire bytes must be the Send events each in one piece, payload 1..65535, deliveries as the specification predicts for every enumerated inbound stream and diffusion mode.",
        note="fragmentation below the model's grain (exercised by the fragmenting conn); hashes are FNV-64; the race scenario is forced through the Route gate.",
        design_ref="§5 C09, Appendix C", engine="muxer"),
    "C15": dict(
        technique="TLA+ model of the blocking API layer over the engine's shutdown (ClientApi.tla), instantiated from a table whose deciding attributes are extracted from the tree under test (go/ast); TLC liveness per (API call, adversarial peer script); each case executed by a raw peer against the real client/server inside a real Connection; plus four life-cycle models (ServerRestart.tla, ClientStop.tla, KeepAliveTimer.tla, BulkSend.tla) whose TLC-enumerated behaviours are replayed the same way",
        text="Call/handler/cleanup goroutines, DoneChan closing only after recvLoop exits, handlers running inside recvLoop; liveness ConnEnded ~> CallReturned, CloseCalled ~> CloseReturned and ErrorChanClosed and NoGoroutines; TLC decides for every (API, script of <= 2-3 steps over correct / wrong-kind / forbidden / surplus reply, silence, truncation, malformed bytes, stalled reader, close) whether the call returns and what leaks; prediction and observation (return within a generous deadline, Close returns, ErrorChan closed, goroutine snapshot diff) must agree both ways.",
        note="17 blocking calls of the 7 anchored files; a hang verdict needs deadline + peer wrote everything + two goroutine dumps showing the caller parked in the library; server restarts after Done, client Stop() paths, the keep-alive timer chain and bulk sends (>= 1 MiB) to a stalled peer that then closes are covered by the life-cycle models; Leios/DMQ clients not in the table. Silence that outlasts a state timeout (tmo scripts, timeouts scaled down through the public options) is part of the case space.",
        design_ref="§5 C15", engine="clients"),
    "C16": dict(
        technique="TLA+ reference automata of all mini-protocols (MiniProtocols.tla) and product construction with the implementation's state maps as TLC constants (ProtoEquiv.tla, TB); TLC-emitted label sequences with one-step deviations replayed through the real engine in both roles",
        text="The product of each dumped implementation automaton (MatchFuncs evaluated on constructor-built messages) with the independent reference automaton is explored exhaustively: same agency and same enabled labels in every reachable product state, terminal iff terminal; all reference sequences up to a bound plus every one-step deviation are driven through protocol.New with the package's state map and codec by a raw peer sending real encodings.",
        note="reference automata for the six Leios/DMQ protocols come from the package READMEs (limited independence).",
        design_ref="§5 C16, Appendix D", engine="protocols"),
    "C17": dict(
        technique="TLA+ specification of which protocols a Connection constructs/registers/starts per configuration and of the muxer's direction gate (Connection.tla), TLC enumeration of all configurations x versions x inbound segments, replayed on real Connections against a raw handshake peer",
        text="280 configurations (client/server, NtN/NtC/DMQ, duplex requested or not, peer's mode, version flags) x one request and one response segment per protocol id; observed: accessor nil-ness, handler invocation, connection error; oracle = the specification written from the network spec.",
        note="Leios protocol ids treated as unspecified on NtN; ConnectionLegacy.cfg keeps the pre-fix design and must be rejected by TLC. Local options that never go on the wire (WithKeepAlive) are a dimension of a configuration.",
        design_ref="§5 C17", engine="connection"),
    "C21": dict(
        technique="TLA+ model of the chain-sync client (ChainSyncClient.tla: Sync, syncLoop, handlers, Stop over the engine's bounded send queue) sharing its observer (ChainSyncObs.tla) with the trace validator (ChainSyncTrace.tla); traces of the real client against the library's server validated by TLC",
        text="Invariants Outstanding <= EffLimit, callback order = server order, one callback per RollForward/RollBackward with its tip, none for AwaitReply, Stop ends cleanly; TLC checks them on the model for limits 0..3 and histories <= 3 (thorough 6) and emits server histories; 141 (thorough 1366) real conversations with limits {0,1,2,50,100}, NtN and NtC, slow callbacks are traced and validated.",
        note="known findings F-C21z, F-C21-stopfull, F-C21-orphan; conversations with Config.Pipeline set (blocks handed to a real pipeline, held inside its workers) are part of the case space since wave 5.",
        design_ref="§5 C21", engine="chainsync"),
    "C24": dict(
        technique="TLA+ model of the tx-submission acknowledgement window (TxSubmission.tla), TLC invariants + emitted API histories and single wire requests, replayed on a real Server and Client over real muxers and by a raw peer",
        text="acked <= received, 0 <= ack,req <= 65535, Done only as the answer to a blocking request, out-of-range requests refused locally; 6334 histories with the expected (blocking, ack, req) wire values (read from the engine's trace events) and call results, counts mapped order-isomorphically onto 0..65536 and beyond; Done is followed through the server's restart.",
        note="state-map timeouts multiplied by 60 in the driver; a timeout that still fires is a machinery error.",
        design_ref="§5 C24", engine="txsubmission"),
    "C10": dict(
        technique="TLA+ observer specification of the protocol engine (EngineObs.tla): traces recorded at the engine's linearization points on both endpoints validated line by line by TLC (EngineTrace.tla); TLC-generated conversation plans (EnginePlans.tla)",
        text="Both endpoints of real conversations (real Protocol instances, real muxers, fragmenting pipe) are traced with one recorder; TLC checks on every trace that the messages admitted by the receiver are exactly the messages dequeued by the sender (64-bit content hash, length, order), that segment lengths read equal segment lengths written, and the split/reassembly arithmetic (payload buffer, 65535 split, leftover data).",
        note="test protocol vproto over the public protocol.New API; message sizes 1..200000 bytes around the 65535 boundary; content compared by FNV-64 hash; schedules: seeded perturbation in the hooks + fragmented reads. Since the seeding waves: the raw peer's segmentation (each/one/bytes/straddle) is a plan dimension, messages are compared again at the application (type, payload, Cbor() intact), conversations of several MiB and longer than every queue.",
        design_ref="§5 C10, Appendix A", engine="engine"),
    "C11": dict(
        technique="TLA+ reference semantics of an endpoint under adversarial scripts (EnginePlans.tla) + observer specification (EngineObs.tla); TLC enumerates every script up to a bound with the predicted outcome, replayed by a raw segment-level peer on the real engine; traces validated by TLC",
        text="Every sequence of <= 3 (thorough: 4) raw messages over {Req, Resp, Data, Chunk, Done, unknown type, malformed CBOR} is written by a raw peer to a real server and a real client endpoint; the specification predicts error/no error and how many messages reach the application; the recorded trace must satisfy: receive transition only with peer agency and a permitted message, handler only after it, nothing handled after a receive-side error, error => stop => all loops exit.",
        note="a decode-level error raised by the read loop may overtake queued permitted messages (documented race, the specification gives a range); vproto state map.",
        design_ref="§5 C11, Appendix A", engine="engine"),
    "C12": dict(
        technique="TLA+ observer specification (EngineObs.tla) validated on traces of TLC-generated conforming conversations with and without client pipelining (EnginePlans.tla)",
        text="TLC checks on every trace: dequeue order is enqueue order per sender and exactly once, send transitions follow dequeue order each exactly once (queued transitions of pipelined batches included), nothing is written before the first message's transition or after a refused one, batch size <= 20, and conforming (pipelined) conversations complete cleanly on both sides.",
        note="vproto; conversations of <= 2 (thorough 3) operations x sizes x pipelining; schedules by seeded perturbation. Plans misuse-* (a first message the sender may not send is refused and never written) and sendlim-* (send-side byte accounting over long multi-segment conversations).",
        design_ref="§5 C12, Appendix A", engine="engine"),
    "C13": dict(
        technique="TLA+ observer specification (EngineObs.tla): admission events logged under the pending-bytes mutex validated by TLC; TLC-generated back-pressure scenarios (fill / at limit / over limit, slow consumer)",
        text="For limits 200/4000/70000 bytes and a slow consumer, every admission event must show len <= limit, pending <= limit, the limit of the state that was read, and exact pending-byte accounting against releases; a message one byte over the limit must end the protocol with an error; conversations at and below the limit must complete (no deadlock).",
        note="the 16 MiB read-buffer clause is exercised by three rows in both tiers; receive queues of capacity 1 and 3 (plans bpq-*); limits are applied by the engine to the sender's queue too, so each endpoint is given only its receive-side limit. Goroutine-level model with a receive queue of capacity 1 (EngineSmallQueue.cfg; EngineLockAcross.cfg must be rejected).",
        design_ref="§5 C13, Appendix A", engine="engine"),
    "C14": dict(
        technique="TLA+ observer specification (EngineObs.tla) with timer events stamped by the stateLoop's clock; TLC-generated stall scenarios",
        text="TimerArm only for the current non-initial state with that state's timeout; Timeout only when armed, for the current state and not before the timeout elapsed; every state change disarms; a stall of 2.6x the timeout in a timed state must end with a timeout error and stop, a stall in the initial state must not.",
        note="timeouts scaled to 150 ms; only lower bounds on elapsed time are asserted (no upper bounds, which would be load dependent). No expectation depends on the machine being fast: only stalls of 16 T demand a timeout, spurious timeouts are judged per Timeout event by the observer; plans timer-self-* make the local holder of agency stall.",
        design_ref="§5 C14, Appendix A", engine="engine"),
    "C27": dict(
        technique="TLA+ reference model of the ledger's consumed/produced balance (ValueConservation.tla), TLC invariants + seeded enumeration over certificate multisets; replay on each era's UtxoValidateValueNotConservedUtxo",
        text="Consumed and produced are TLA+ definitions written from the ledger specification (inputs, withdrawals, refunds, mint; outputs, fee, stake/pool/DRep deposits, proposals, donation), coin and per asset; TLC emits balanced / off-by-one cases for every certificate multiset; each is built as a concrete era transaction + mock ledger state and replayed at three scales and after a CBOR round trip.",
        note="legacy deregistration refund = current keyDeposit (mock ledger state has no per-credential deposits); sampled grid seeded by VERIF_SEED; known finding F-C27-b (all-zero policy id treated as ada). The phase-2 flag and the ledger-state history of a registered pool (unknown / registered / retiring) are dimensions.",
        design_ref="§5 C27", engine="ledger-decision"),
    "C32": dict(
        technique="TLA+ decision structure of the collateral rules (Collateral.tla), TLC grid around the exact threshold, replay on CBOR-decoded Alonzo..Dijkstra transactions through each era's rule functions and rule list",
        text="Enough <=> balance*100 >= fee*pct (balance = inputs - return), ada-only unless returned, >= 1 input when scripts run, count <= max; TLC enumerates fees, percentages and balances around the threshold (including products not divisible by 100) and the driver replays them at three scales on the four eras.",
        note="grid fee 0..7 x pct {0,1,50,99,100,150}; over-rejections by side conditions the property does not name are observations only.",
        design_ref="§5 C32", engine="ledger-decision"),
    "C33": dict(
        technique="TLA+ decision table of the withdrawal gate (Withdrawals.tla), TLC enumeration PV 0..20 x amount x ledger capability x validity x parameter type, replay on conway.UtxoValidateWithdrawals, the Conway/Dijkstra rule lists and VerifyTransaction",
        text="The gate (NotDelegated / StateUnavailable / ok) is a TLA+ function of protocol major version, amount, delegation state, phase-2 validity and parameter type; every case is replayed on signed balanced Conway and Dijkstra transactions.",
        note="zero-amount withdrawals of undelegated accounts: either outcome accepted (property silent).",
        design_ref="§5 C33", engine="ledger-decision"),
    "C41": dict(
        technique="TLA+ transcription of chain comparison (Selection.tla), TLC proves antisymmetry, transitivity, shallow/deep rules and order independence of Preferred on the model; all pairs and permutation cases replayed on the real selector in several concrete worlds",
        text="Compare / IsDeepFork / CompareWithDensity / Preferred written from the property and the consensus design; TLC checks the order laws over all pairs and triples of a small tip universe and emits them; the driver replays every pair in small, top-of-uint64 and mainnet-like worlds and calls Preferred in all candidate orders.",
        note="homogeneous tip sets (all windowed or all simple); small universe in TLC. Legacy density ratios with spans up to 3e8 (exact order by cross-multiplication) are a dimension.",
        design_ref="§5 C41", engine="consensus"),
    "C08": dict(
        technique="TLA+ decision structure of output-quantity admissibility (OutputValue.tla) incl. the PairForge scenario, TLC enumeration of quantity class x CBOR integer form x era x output form; replay through the era decoders and rule lists",
        text="Admissible(class) and the PairForge scenario (+q and -q of an unminted token) are TLA+ definitions; TLC proves Accepted => Admissible on the model (and refutes NoForge for the design without a range check) and emits every combination; the driver hand-encodes the outputs, decodes with the era decoder and runs the era's rules with a mock ledger state.",
        note="quantity classes at the signed/unsigned/bignum boundaries; in-range tag-2 bignums are property-silent.",
        design_ref="§5 C08", engine="ledger-decision"),
    "C18": dict(
        technique="TLA+ model of the handshake (Handshake.tla): TLC checks agreement on max common version / refusal / query over all pairs of version subsets, magics and flags; every row replayed on real handshake client+server over real muxers and on whole Connections",
        text="Outcomes Accept(v)/Refuse(VersionMismatch, sorted)/Refuse(Refused)/QueryReply are specified; TLC enumerates every pair of subsets of a version window with 2 magics, flags and query mode; the driver runs each row with handshake.New client and server (custom version maps slid over the NtN, NtC, DMQ tables) and ouroboros.NewConnection pairs, comparing both sides' results.",
        note="4-version window in quick, 5 in thorough.",
        design_ref="§5 C18", engine="handshake"),
    "C19": dict(
        technique="TLA+ model of the handshake client against an adversarial responder (Handshake.tla, ClientSafe), TLC enumeration of every acceptance message; replayed by a raw scripted responder on handshake.Client and NewConnection",
        text="ClientDoneOk => v proposed, data well-formed for v, magic equal; TLC enumerates known/unknown, proposed/unproposed versions x data shapes x magics; a raw segment-level responder sends each acceptance to the real client.",
        note="HandshakeAdvLegacy.cfg keeps the pre-fix design and must fail ClientSafe. The set of versions actually sent (read off the wire) is a dimension; an acceptance is judged against what was sent, not against the configuration.",
        design_ref="§5 C19", engine="handshake"),
    "C23": dict(
        technique="TLA+ model of the block-fetch client calls (BlockFetchClient.tla: GetBlock, GetBlockRange, handlers, busy lock) against every server response shape, TLC invariants + termination; each (call, point, shape, close, follow-up) case replayed by a raw peer serving real blocks to the real client",
        text="GetBlockSound/GetBlockExact (a block is returned only if exactly one block with the point's hash was served), RangeOrder/RangeReturn, BusyLock, and liveness Termination are model-checked for all shapes (NoBlocks; StartBatch.BatchDone; one matching / non-matching block; several blocks; each optionally followed by close); the real client's observed outcome must be one of the specification's terminal outcomes, a follow-up call proves the lock and Idle state were given back.",
        note="a 'hang' verdict needs the deadline, the peer having written everything, and two goroutine dumps showing the caller parked in GetBlock; the as-code cfgs keep the pre-fix design and must fail. Client configuration (which callbacks are set) and two-request histories on one client are dimensions.",
        design_ref="§5 C23", engine="clients"),
    "C25": dict(
        technique="TLA+ model of concurrent request/response callers with and without a call mutex (ReqResp.tla, invariant OwnAnswer), TLC exhaustive for 3 goroutines x 2 calls + emitted schedules; replayed on the four real clients against the library's servers with tagging callbacks",
        text="Every returned call must carry its own request's tag (query echo, HasTx parity, NextTx/GetSizes counters, SubmitTx parity, GetPeers(n) -> n peers), across acquire/re-acquire/release; schedules are issued in each history's happens-before order with seeded delays at the Enqd hook (between enqueue and wait), followed by barrier-released stress rounds.",
        note="ReqRespNoMutex.cfg keeps the design without a call mutex and must violate OwnAnswer. The form of the reply (a well-formed reply the typed decoder refuses) is a dimension.",
        design_ref="§5 C25", engine="clients"),
    "C26": dict(
        technique="TLA+ decision function of the validity interval per era (Validity.tla), TLC full grid, replay under order-isomorphic time maps through VerifyTransaction and rule by rule",
        text="Accept = (start absent or s >= start) and (end absent or s < end) from Allegra on, s <= ttl in Shelley; TLC emits the full grid era x start x end x slot; each case is replayed under 6 monotone maps onto concrete slots (including 0, 2^63, 2^64-1) in 7 eras on the whole rule list.",
        note="known finding F-C26z (a present bound of 0 is indistinguishable from absent in the Transaction interface). The phase-2 flag (is_valid = false) is a case dimension (FlagIrrelevant).",
        design_ref="§5 C26", engine="ledger-decision"),
    "C28": dict(
        technique="TLA+ model of witness requirements with symbolic signatures (Witness.tla), TLC enumeration of lock kinds x witnesses x validity; replay with real ed25519 keys and Byron roots through each era's signature / required-signer / collateral-witness rules",
        text="Accept <=> all supplied signatures valid and owners(inputs + collateral) and required signers witnessed; TLC checks 8 meta-invariants and emits ~29k cases; the driver builds signed transactions (corruption = flipped bit / other key / other message) in 7 eras.",
        note="symbolic crypto in the model; over-rejections (Byron-locked collateral with bootstrap witness) are observations. The phase-2 flag and the multiplicity of listed witnesses / signers are dimensions.",
        design_ref="§5 C28", engine="ledger-decision"),
    "C29": dict(
        technique="TLA+ recursive evaluator of native scripts (NativeScript.tla), TLC enumeration of scripts x contexts with monotonicity invariants; replay on decoded scripts (several encodings) through NativeScript.Evaluate and the era rules, hashes checked",
        text="Eval(script, ctx) with the ledger semantics (absent start fails invalid-before, absent end fails invalid-hereafter) over trees of depth <= 3; TLC emits 81k (script, context) pairs; replayed under 5 time maps and 3-4 encodings, and at rule level on signed transactions.",
        note="known findings F-C29-* (0 / MaxUint64 stand for absent bounds in the API). The phase-2 flag at rule level is a dimension.",
        design_ref="§5 C29", engine="ledger-decision"),
    "C30": dict(
        technique="TLA+ model of the fee/size rules parametric in the word size (Fee.tla): TLC full grid at W=2^3 and edge grid at W=2^8 with overflow classes; replay at 64 bits (homogeneous scaling) on CalculateMinFee and real transactions of every era with non-canonical padding",
        text="Size(tx) = |orig| - [Alonzo..Conway and 4-element envelope]; MinFee = a*Size + b with overflow reported; AcceptFee, AcceptSize; TLC proves the boundary behaviour and tags each case with its class; the driver scales the grid to 64 bits and builds real transactions whose original encoding differs from the re-encoding.",
        note="over-estimated size for indefinite-length envelopes is an observation (errs on the strict side); Dijkstra's four-element envelope is property-silent. The phase-2 flag is a dimension.",
        design_ref="§5 C30", engine="ledger-decision"),
    "C31": dict(
        technique="TLA+ token-level model of the language-views encoding and the script-data-hash decision table (LangViews.tla); TLC enumeration; independent byte writer compared with EncodeLangViews, rule rows executed on real Alonzo..Dijkstra transactions",
        text="Language views as abstract CBOR token sequences (length-then-lex key order, V1 double-wrapped indefinite list) for every subset of Plutus versions, and (redeemers?, datums?, declared hash kind) -> accept/reject; hashes computed with Blake2b-256 in the driver over non-canonical original bytes.",
        note="languages used = Plutus scripts in the witness set (reference scripts not exercised). The phase-2 flag and the encoding shape of decoded redeemers / datums (OriginalBytes) are dimensions.",
        design_ref="§5 C31", engine="ledger-decision"),
    "C34": dict(
        technique="TLA+ commitment structure per era with a symbolic hash (BodyHash.tla); TLC era x mutated component x validation flag; replay: byte/structural mutations of real blocks that still decode without validation must fail with validation on",
        text="DecodeOk <=> every component's commitment = H(component) for Shelley-Mary (3 segments), Alonzo-Conway (4), Dijkstra (body hash), Byron main (tx count, merkle root, witness, delegation, update) and EBB; the driver mutates inside each component's byte range on 17 real blocks and also recomputes all commitments independently with Blake2b.",
        note="Byron ssc payload excluded as the property states.",
        design_ref="§5 C34", engine="ledger-decision"),
    "C40": dict(
        technique="TLA+ model of header validation with symbolic crypto (HeaderValidation.tla): field x mutation x KES period offset; replay on BlockBuilder.BuildHeader / ValidateHeader / VerifyBlock for Praos and TPraos layouts",
        text="Valid(build(ctx)) and each single-field mutation falsifies exactly the checks covering the field; TLC enumerates tamper and insider mutations and period offsets {-1, 0, max-1, max}; the driver builds real headers with real VRF/KES/op-cert keys and applies the mutations.",
        note="symbolic crypto in the model; VerifyBlock is not given maxKESEvolutions (documented).",
        design_ref="§5 C40", engine="consensus"),
    "C42": dict(
        technique="TLA+ spec of the pipeline goroutines (Pipeline.tla), TLC safety+liveness, TLC-simulated schedules forced on the real pipeline through blocking gates",
        text="Pipeline.tla models Submit, stage workers, the apply runner, Stop and WaitForDrain at the grain of the verif gates; "
             "TLC checks order/exactly-once/no-send-on-closed/termination exhaustively for small constants; TLC-simulated behaviours are "
             "forced step by step on the real pipeline (each goroutine released gate by gate) and every step's observable outcome is compared "
             "with the specification, plus monitors on the real run (applied order, exactly once, results, Stop returns, no goroutine left).",
        note="small TLC constants; gates sequentialise the goroutines (true parallel races are outside the forced replays); application drains Results/Errors; validated-and-applied path only model-checked.",
        design_ref="§5 C42, Appendix B", engine="pipeline"),
    "C43": dict(
        technique="TLA+ spec of the pipeline (Pipeline.tla) with WaitForDrain/PendingCount as separate reads, TLC invariant DrainSound + liveness, gate-forced replay of TLC schedules with a drain monitor on the real run",
        text="DrainSound (WaitForDrain returned nil => every block submitted before the wait is finished) is model-checked over all interleavings "
             "of small configurations, including blocks held inside decode/validate/apply; the same schedules are forced on the real pipeline and "
             "a monitor checks the real run at the moment WaitForDrain returns.",
        note="as C42; the monitor observes 'finished' for good blocks through ApplyFunc returning. The Stop scenarios (Stop and WaitForDrain together) are replayed as well.",
        design_ref="§5 C43, Appendix B", engine="pipeline"),
    "C44": dict(
        technique="TLA+ spec of the pipeline (Pipeline.tla) with expiring submit contexts, TLC invariants DenseSeq/QuiescentComplete + liveness OkEventuallyApplied, gate-forced replay with forced context expiry under backpressure",
        text="Submissions whose context expires while the channel is full (forced through the gates) are interleaved with successful ones; "
             "TLC proves on the model that successful submissions get dense sequence numbers and are eventually applied; the real run must reach "
             "the specification's quiescent state with every successfully submitted good block applied.",
        note="as C42.",
        design_ref="§5 C44, Appendix B", engine="pipeline"),
}

NOT_APPLICABLE = {
    "C01": "byte-for-byte preservation/hashing of arbitrary admissible encodings is encode/decode fidelity: no state or decision structure for a TLA+ specification to carry, the whole oracle would be Go byte comparison (DESIGN §8)",
    "C02": "decoder totality (no panic/hang/over-allocation) on arbitrary bytes is fuzzing / memory-safety territory, not expressible as specification state (DESIGN §8)",
    "C04": "per-message codec round trip and shape rejection is codec fidelity; its only state-machine clause (every permitted message is decodable) is decided under C16 (DESIGN §8)",
    "C07": "byte offsets into arbitrary admissible encodings: same reason as C01 (DESIGN §8)",
    "C37": "exact floor of a transcendental expression at 256/512 bits: numeric accuracy beyond TLC's 32-bit integers (DESIGN §8)",
    "C38": "soundness of an elliptic-curve VRF primitive under bit flips: a symbolic model is a tautology (DESIGN §8)",
    "C45": "exact-sum identities of a big-rational reward formula at 10^16 scale: numeric, the oracle would be a Go sum (DESIGN §8)",
}

ALL_IDS = ["C%02d" % i for i in range(1, 47)]
