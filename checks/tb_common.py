"""Helpers shared by the table-bound (TB) checks C20, C22, C36.

A TB spec reads the tables dumped from the running Go code, evaluates every law
on every table entry (one TLC state per entry, the laws are the INVARIANT) and
writes the verdict of each entry to verdicts.ndjson.  TLC's own verdict and the
rows must agree; a violated law is a disagreement between the code's tables and
the reference written in the specification (exit 1), anything else that stops
TLC is a machinery failure (exit 2).
"""
import json
import os

import vlib


def run_tb(chk, module, cfg, tables, key_of, desc_of, timeout=180, add=True):
    """Run TLC on `module` with the dumped `tables` file; report violated laws.

    key_of(row, law) -> stable disagreement key; desc_of(row, law) -> text.
    Returns (TlcResult, rows).
    """
    # -continue: evaluate the invariant on every table entry even after a violation (honest state counts)
    r = vlib.run_tlc(module, cfg=cfg, files=[tables], timeout=timeout, extra=["-continue"])
    if add:
        chk.add_tlc(cfg, r)
    # with -continue TLC ends with "No error has been found" even after violations: classify from the log
    errs = [l for l in r.out.splitlines() if l.startswith("Error:")]
    other = [l for l in errs if not ("Invariant" in l and "is violated" in l)]
    if other or (r.error and not errs):
        raise vlib.MachineryError("TLC failed on %s/%s: %s" % (module, cfg, other[0] if other else r.error))
    violated_states = len(errs)
    path = os.path.join(r.dir, "verdicts.ndjson")
    if not os.path.exists(path):
        raise vlib.MachineryError("TLC wrote no verdicts.ndjson on %s/%s:\n%s" % (module, cfg, r.out[-1500:]))
    rows = vlib.read_ndjson(path)
    if "Model checking completed" not in r.out:
        raise vlib.MachineryError("TLC did not complete on %s/%s:\n%s" % (module, cfg, r.out[-1500:]))
    if r.distinct != len(rows):
        raise vlib.MachineryError("%s/%s: %d states but %d verdict rows" % (module, cfg, r.distinct, len(rows)))
    bad = [(row, law) for row in rows for law in row.get("viol", [])]
    bad_rows = sum(1 for row in rows if row.get("viol"))
    if bad_rows != violated_states:
        raise vlib.MachineryError("%s/%s: TLC reports %d violating states, the verdict rows %d"
                                  % (module, cfg, violated_states, bad_rows))
    r.ok = not bad
    if add:
        for row, law in bad:
            chk.disagree(key_of(row, law), desc_of(row, law),
                         {"table_entry": row, "violated_law": law, "what": desc_of(row, law)})
    return r, rows


def self_test(chk, module, cfg, tables, corruptions, timeout=180):
    """Binding self-test: each corruption of the dumped tables must be rejected
    by TLC with the named law; otherwise the spec is vacuous (machinery error)."""
    base = json.load(open(tables))
    done = []
    for name, mutate, law in corruptions:
        t = json.loads(json.dumps(base))
        mutate(t)
        d = vlib.scratch("tbself-")
        p = os.path.join(d, os.path.basename(tables))
        with open(p, "w") as f:
            json.dump(t, f)
        r, rows = run_tb(chk, module, cfg, p, None, None, timeout=timeout, add=False)
        laws = {l for row in rows for l in row.get("viol", [])}
        if r.ok or law not in laws:
            raise vlib.MachineryError("binding self-test %r: corrupted tables were not rejected with law %r (got %s)"
                                      % (name, law, sorted(laws)))
        done.append("%s -> %s" % (name, law))
    chk.extra["binding_self_test"] = done
