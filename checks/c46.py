"""C46 DMQ messages are accepted only when fully authenticated (S2, symbolic crypto)."""
import json
import os
from concurrent.futures import ThreadPoolExecutor

import vlib

INVS = ("TypeOK OnlyAuthentic NoVerifierRejects RealNotBypassed RejectKeepsState Complete "
        "Monotone CacheIsLastAccepted ReplayRejected ReplayAsFresh ReplayWellFormed KnownIsPresented ReplaySourced "
        "FloorIsOfColdKey CounterFloorSurvivesChurn ProbesTellFloor")


def _rows(r, what):
    rows = os.path.join(r.dir, "rows.ndjson")
    if not os.path.exists(rows) or os.path.getsize(rows) == 0:
        raise vlib.MachineryError("DmqAuth/%s produced no behaviours" % what)
    return rows


def _tlc_all(chk, cfgs, timeout):
    """Run the configs concurrently (separate JVMs, separate scratch dirs); returns their rows files in order.

    Chain configs draw their pseudo-random histories from VERIF_SEED (read by the spec through IOEnv)."""
    def one(cfg):
        return vlib.run_tlc("net/DmqAuth", cfg=cfg, timeout=timeout, workers=1, deadlock=False,
                            env={"VERIF_SEED": chk.seed})
    with ThreadPoolExecutor(max_workers=len(cfgs)) as ex:
        results = list(ex.map(one, cfgs))
    files = []
    for cfg, r in zip(cfgs, results):
        vlib.tlc_must_pass(r, "DmqAuth/" + cfg)
        chk.add_tlc(cfg, r)
        files.append(_rows(r, cfg))
    return files


def _binding_selftest(chk, drv, rows_path, flippable):
    """Thorough tier: flip one expected verdict of one behaviour and require the driver to object
    (guards against a replay that compares nothing)."""
    victim = None
    with open(rows_path) as f:
        for line in f:
            row = json.loads(line)
            if isinstance(row, str):
                row = json.loads(row)
            idx = [i for i, s in enumerate(row.get("steps", [])) if flippable(s)]
            if idx:
                row["steps"][idx[-1]]["e"]["ok"] = not row["steps"][idx[-1]]["e"]["ok"]
                row.pop("fan", None)
                row["kind"] = "hist"
                victim = row
                break
    if victim is None:
        raise vlib.MachineryError("binding self-test: no behaviour with a flippable step")
    path = os.path.join(vlib.scratch("selftest-"), "rows.ndjson")
    with open(path, "w") as f:
        f.write(json.dumps(victim) + "\n")
    p = vlib.run_cmd([drv, path], timeout=120, env={"VERIF_SEED": chk.seed, "VERIF_TIER": chk.tier})
    n = sum(1 for l in p.stdout.splitlines() if l.startswith("{") and json.loads(l).get("t") == "disagree")
    if n == 0:
        raise vlib.MachineryError("binding self-test: a flipped expected verdict was not noticed by the driver")
    chk.extra["binding_selftest"] = "one expected verdict flipped in one behaviour: driver reported %d disagreement(s)" % n


def run(chk, replay=None):
    chk.rule = ("DmqAuth.tla is the authenticator automaton (registered pools, per-pool counter cache, verifier "
                "none/real, insecure flag) over abstract messages (pool, idOk, certOk, kesOk, counter); TLC checks in "
                "every reachable state that acceptance implies id, certificate, KES (or insecure mode without a "
                "verifier), registration and counter >= cache, that a real verifier is never bypassed, that a "
                "rejection changes nothing and an acceptance only its pool's cache entry, and along histories that "
                "accepted counters of a pool never decrease between evictions. Replay dimension: a faulty component "
                "is either made up for the message or replayed verbatim from a fully genuine message of the same "
                "pool presented earlier in the history (its id or its KES signature on another payload; the cold "
                "signature of its certificate with another KES key / issue number / KES period); the model tracks "
                "which genuine messages were presented (known) and TLC checks that a replay gets the verdict of the "
                "made-up fault (rejected, nothing changes; only a KES replay passes where no KES signature is checked "
                "at all). Churn dimension: the state is changed from outside in the middle of a history (Reg/Unreg of "
                "a pool, eviction, verifier set, insecure switched); the counter floor belongs to the cold key: no such "
                "call but the eviction of that pool's entry touches a floor (FloorIsOfColdKey), so a counter below one "
                "accepted earlier is rejected however often the pool was unregistered and registered again in between "
                "(CounterFloorSurvivesChurn); every history of 4 calls (thorough: 5) of genuine messages and Reg / Unreg / "
                "Evict on one pool is generated, and behind every state-changing transition of the covers the probes "
                "of the state reached (good id and certificate, KES good or bad, every pool and counter, leaving the "
                "state unchanged) are run, so what the transition did to the hidden state shows (ProbesTellFloor). "
                "TLC emits an access history for every "
                "state-changing transition, per state every state-preserving call (two covers: two pools without "
                "replays, one pool with `known` in the state and every replay from every state), every history of "
                "exactly 3 calls (no VIEW; with replays in the thorough tier) and seeded pseudo-random histories of "
                "24 calls (with replays); the driver replays them on "
                "common.MessageAuthenticator with real Ed25519 / KES keys, a fault being one seeded corruption of that component or the replay built from the stored earlier "
                "message (the driver's self-check proves with the primitives alone that each built message is wrong in "
                "exactly the named components), genuine messages of a pool and counter sharing one certificate, counters mapped monotonically onto uint64 "
                "extremes, and compares accept/reject and IsSPOPoolRegistered after every call. A case is one "
                "(initial configuration, history) pair; all are non-trivial")
    chk.assumptions = [
        "Blake2b-256 collision free, Ed25519 and KES unforgeable (symbolic booleans in the model, real keys in the replay)",
        "RemoveKESOpCertCacheEntry forgets the pool's counter by design: 'previously accepted' means since the last eviction",
        "the KES evolution checked is the one the authenticator derives (0 without a slot, slot/129600 - payload.KESPeriod with one)",
        "a replay's source is a message that was fully genuine (id, certificate, KES) when presented, accepted or not; replays change one component only",
        "the 24-call histories are a pseudo-random sample (seeded by VERIF_SEED); the transition cover is complete for the models' 256 states each; exhaustive histories have length 3 (all single-fault messages) and 4 / 5 (genuine messages with Reg / Unreg / Evict of one pool)",
        "the counter floor belongs to the cold key: leaving and re-entering the registered set does not lift it (only RemoveKESOpCertCacheEntry does); probes run in sequence behind one history because none changes the authenticator",
    ]
    drv = vlib.go_build("c46")
    if replay:
        obj = json.load(open(replay))
        row = obj["row"]
        env = {"VERIF_SEED": obj["verif_seed"]} if "verif_seed" in obj else None
        row["rseed"] = obj.get("rseed")
        path = os.path.join(vlib.scratch("c46-replay-"), "rows.ndjson")
        with open(path, "w") as f:
            f.write(json.dumps(row) + "\n")
        vlib.run_driver(chk, drv, [path], timeout=300, env=env)
        return
    if chk.tier == "quick":
        files = _tlc_all(chk, ["DmqAuth.cfg", "DmqAuthReplay.cfg", "DmqAuthHist.cfg", "DmqAuthChain.cfg",
                               "DmqAuthChurn.cfg"], 240)
    else:
        files = _tlc_all(chk, ["DmqAuth.cfg", "DmqAuthReplay.cfg", "DmqAuthThorough.cfg", "DmqAuthChainThorough.cfg",
                               "DmqAuthChurnThorough.cfg"], 540)
    vlib.run_driver(chk, drv, files, timeout=400)
    # the churn dimension must not be vacuous: the spec marks the histories of the shape accepted / Unreg(p) /
    # Reg(p) / lower counter of p, and every state-changing transition of the covers carries probes
    if not chk.extra.get("churn_histories") or not chk.extra.get("probe_calls"):
        raise vlib.MachineryError("DmqAuth: no churn history / no probe was generated (churn_histories=%r probe_calls=%r)"
                                  % (chk.extra.get("churn_histories"), chk.extra.get("probe_calls")))
    if chk.tier == "thorough":
        _binding_selftest(chk, drv, files[0], lambda s: s["c"]["op"] == "verify" and s["e"]["ok"])
    chk.extra["invariants"] = INVS.split()
    chk.exhaustive = False
