"""C44 A failed submission does not stall later blocks (S1)."""
import pipe_common


def run(chk, replay=None):
    pipe_common.run_pipe(
        chk, "C44",
        mc=["PipeSafetyExpire.cfg"],
        live=["PipeLiveApply.cfg"],
        sims=[("SimExpire.cfg", 120, 400), ("SimMix.cfg", 40, 400)],
        thorough_mc=["PipelineFixed.cfg"])
