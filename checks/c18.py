"""C18 Version negotiation agrees on the best common version (S2)."""
import json
import os
import shutil
from concurrent.futures import ThreadPoolExecutor

import vlib

INVS = ("TypeOK Agreement BestCommon Selects RefusalReported NoFallback MismatchAscending "
        "QueryNeverSelects EchoData FlagsIrrelevant ClientSafe")

QUICK = ["Handshake.cfg", "HandshakeSrv.cfg", "HandshakeFlags.cfg"]
THOROUGH = ["HandshakeThorough.cfg", "HandshakeSrvThorough.cfg", "HandshakeBothThorough.cfg", "HandshakeFlags.cfg"]


def tlc_rows(chk, cfgs, timeout, workers=2):
    """Model-checks the configs concurrently (separate JVMs and scratch dirs) and returns one rows file per config."""
    def one(cfg):
        return vlib.run_tlc("net/Handshake", cfg=cfg, timeout=timeout, workers=workers)
    with ThreadPoolExecutor(max_workers=len(cfgs)) as ex:
        results = list(ex.map(one, cfgs))
    files = []
    for cfg, r in zip(cfgs, results):
        vlib.tlc_must_pass(r, "Handshake/" + cfg)
        chk.add_tlc(cfg, r)
        src = os.path.join(r.dir, "rows.ndjson")
        if not os.path.exists(src) or os.path.getsize(src) == 0:
            raise vlib.MachineryError("Handshake/%s emitted no runs" % cfg)
        dst = os.path.join(r.dir, cfg[:-4] + ".ndjson")   # the driver names cases after the config
        shutil.move(src, dst)
        files.append(dst)
    return files


def binding_selftest(chk, drv, rows_path):
    """Flip the expected version of one accepted run and require the driver to object."""
    victim = None
    with open(rows_path) as f:
        for line in f:
            row = json.loads(line)
            if row["cres"]["kind"] == "ok" and len([m for m in row["srv"] if m]) >= 2:
                other = [i + 1 for i, m in enumerate(row["srv"]) if m and i + 1 != row["cres"]["v"]][0]
                row["cres"]["v"] = other
                row["sres"]["v"] = other
                victim = row
                break
    if victim is None:
        raise vlib.MachineryError("binding self-test: no accepted run with two responder versions")
    path = os.path.join(vlib.scratch("c18-selftest-"), "selftest.ndjson")
    with open(path, "w") as f:
        f.write(json.dumps(victim) + "\n")
    p = vlib.run_cmd([drv, path], timeout=300, env={"VERIF_SEED": chk.seed, "VERIF_TIER": chk.tier})
    n = sum(1 for l in p.stdout.splitlines() if l.startswith("{") and json.loads(l).get("t") == "disagree")
    if n == 0:
        raise vlib.MachineryError("binding self-test: a wrong expected version was not noticed by the driver")
    chk.extra["binding_selftest"] = "expected version of one accepted run changed: driver reported %d disagreement(s)" % n


def run(chk, replay=None):
    chk.rule = ("Handshake.tla is the handshake as a decision automaton over version tables 1..W -> {absent, magic1, magic2} "
                "(magic per version), a format threshold k and the initiator's query flag; TLC runs propose / reply / handle for "
                "every pair of tables in the bound and checks on every run that both sides finish with the same version iff it is "
                "max(Vc /\\ Vs) and that version's magics match, that otherwise the initiator reports the refusal the responder "
                "decided (no fallback to a lower version), that a mismatch refusal lists exactly the responder's versions ascending, "
                "that a query returns the table and selects nothing, and that flags only travel. Every run is replayed on "
                "handshake.Client x handshake.Server over real muxers on net.Pipe, abstract versions mapped monotonically into the "
                "library's node-to-node / node-to-client / DMQ tables (slid windows and seeded injections that put the format "
                "threshold where the case has it), magics onto seeded uint32 incl. 0 and 2^32-1, flags seeded (or from the model); "
                "runs with two full tables also on ouroboros.NewConnection pairs. Version, version data (through the accessors), "
                "refusal kind / version / list order and the query table are compared on both endpoints. A case is one "
                "(run, binding, table); non-trivial unless both tables are empty")
    chk.assumptions = [
        "selection only compares version numbers, so a monotone map of the 5-version window into a real table preserves the specified outcome",
        "quick tier: tables of at most 3 versions, magic varying per version on one side at a time, one Cardano table per run (seeded); thorough: all subsets, both Cardano tables",
        "version data is built by the library's own GetProtocolVersionMap* (its codec is C20's subject)",
        "a reply counts as lost only if the responder's send loop exited without handing a segment to the muxer (verif hooks) or its connection saw no Write",
    ]
    drv = vlib.go_build("c18")
    if replay:
        vlib.run_driver(chk, drv, ["-replay", replay], timeout=300)
        return
    if chk.tier == "quick":
        files = tlc_rows(chk, QUICK, 240)
        vlib.run_driver(chk, drv, files, timeout=600)
    else:
        files = tlc_rows(chk, THOROUGH, 560, workers=3)
        vlib.run_driver(chk, drv, files, timeout=1500)
        binding_selftest(chk, drv, files[0])
    chk.extra["invariants"] = INVS.split()
    chk.exhaustive = False
