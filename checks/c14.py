"""C14 State timeouts fire exactly when the peer stalls (S1)."""
import engine_common


def run(chk, replay=None):
    engine_common.run_engine(chk, "C14", ["timer.ndjson", "conv.ndjson"],
                             select=lambda p: p["id"].startswith("timer") or p["id"].endswith("7"))
