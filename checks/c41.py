"""C41 Chain selection is a consistent preference order (S3)."""
import os
from concurrent.futures import ThreadPoolExecutor

import vlib

QUICK = [("Selection.cfg", 400), ("SelectionTriples.cfg", 400),
         ("SelectionRatio.cfg", 400), ("SelectionRatioTriples.cfg", 400)]
THOROUGH = QUICK + [("SelectionThorough.cfg", 1500), ("SelectionTriplesThorough.cfg", 1500),
                    ("SelectionRatioThorough.cfg", 1500), ("SelectionRatioTriplesThorough.cfg", 1500)]


def run(chk, replay=None):
    chk.rule = ("Selection.tla states the ordinary Praos rule (longer chain, then lower VRF output, a missing output "
                "loses), the depth predicate (rollback of more than k blocks), and the Genesis rule (deep forks by "
                "blocks inside the window after the fork slot first, legacy ratio when no window is configured, "
                "ordinary rule between equally dense chains). TLC proves on every (context, a, b) and "
                "(context, a, b, d) of the domain: reflexive, antisymmetric, transitive (incl. strict), shallow = "
                "ordinary rule, longer wins, lower VRF wins, deep = density first, and that the fold behind "
                "Preferred returns a maximal candidate and the maximal candidates are one equivalence class for "
                "every order of every three candidates. It emits every pair and a seeded sample of triples with "
                "the verdicts; the driver replays them on PraosChainSelector with WindowedChainTips (and "
                "SimpleChainTips on the legacy-density rows, GenesisSelector.Compare on the window rows) in several "
                "concrete 'worlds' (small, top of uint64, mainnet-like, ...), Preferred/PreferredWithDensity in "
                "all orders; a case is one (row, world); non-trivial when the tips differ / not all are maximal. "
                "Resolution of the legacy density (Selection*Ratio*.cfg, TipKind = ratio): tips that carry "
                "blocks-after-the-fork / slots-after-the-fork directly, at magnitudes from a few slots to 6*10^8, "
                "with equal ratios through different totals (1/s = 2/2s) and unequal ratios arbitrarily close "
                "(n/s against n/(s+1), the model asserts that its domain holds ratios closer than 1e-9); TLC proves "
                "UnequalRatioDecides (the sign of the cross product decides a deep fork however small the "
                "difference), EqualRatioTies, DensityTieTransitive besides the order properties; replayed as "
                "SimpleChainTips (totals scaled per world) and as WindowedChainTips under a selector without a "
                "window (block slots laid out so that the chain has exactly that ratio after the fork slot, with "
                "blocks at and before the fork slot)")
    chk.assumptions = [
        "block numbers and VRF outputs are only compared, so monotone maps onto uint64 / equal-length byte strings "
        "preserve every verdict; slots, fork slot and window only enter through s > fs and s - fs <= w, preserved "
        "by s -> base + c*s, w -> c*w; depth only through tb - fb - k (TLC checks the shift invariance)",
        "candidate sets are homogeneous (all WindowedChainTips or all SimpleChainTips); sets mixing tips with and "
        "without a window counter are outside the property's domain and not replayed",
        "Preferred may return any maximal candidate (the property does not fix the choice among equivalent tips)",
        "legacy density (no window configured) is compared as an exact ratio in the model; the replay keeps the "
        "ratio's numerator/denominator small or scaled by powers of two so float64 division is exact",
        "ratio rows: every total and span stays below 2^53 (exact in float64) and every cross product below 2^52, "
        "so the correctly rounded quotients are ordered exactly like the rationals (division is monotone, distinct "
        "ratios stay distinct, equal ratios give the same float whatever the totals); multiplying all spans by one "
        "constant, or both totals of a tip by one constant, preserves every verdict",
    ]
    plan = QUICK if chk.tier == "quick" else THOROUGH
    drv = vlib.go_build("c41")

    def tlc(item):
        cfg, to = item
        return vlib.run_tlc("consensus/Selection", cfg=cfg, timeout=to, workers=4,
                            env={"VERIF_SEED": chk.seed})

    with ThreadPoolExecutor(max_workers=4) as ex:
        results = list(ex.map(tlc, plan))
    for (cfg, to), r in zip(plan, results):
        vlib.tlc_must_pass(r, "Selection/" + cfg)
        chk.add_tlc(cfg, r)
    for (cfg, to), r in zip(plan, results):
        if not os.path.exists(os.path.join(r.dir, "deep.ndjson")):
            raise vlib.MachineryError("Selection/%s emitted no cases" % cfg)
        vlib.run_driver(chk, drv, [r.dir], timeout=900)
    chk.exhaustive = False
