"""C13 Receive buffering is bounded (S1)."""
import engine_common


def run(chk, replay=None):
    # goroutine-level model with a receive queue of capacity 1 and a peer that streams: the read loop
    # waits for room without holding pendingBytesMu, so the conversation always completes; the design
    # that keeps the mutex across the hand-over (EngineLockAcross.cfg) deadlocks and must be rejected
    engine_common.run_engine(chk, "C13", ["bp.ndjson"], mc=["EngineSmallQueue.cfg"],
                             must_fail=["EngineLockAcross.cfg"])
