"""C13 Receive buffering is bounded (S1)."""
import engine_common


def run(chk, replay=None):
    engine_common.run_engine(chk, "C13", ["bp.ndjson"])
