"""C35 Byron merkle roots follow the reference construction (S3)."""
import os
import vlib


def run(chk, replay=None):
    chk.rule = ("TLC enumerates the reference tree shape for every list length 0..N and proves "
                "in-order leaves / perfect left subtree / injectivity; each shape is folded with real "
                "Blake2b-256 over seeded random items and compared with byron.MerkleRoot; a case is "
                "one list length (distinct) and is non-trivial when n >= 0 (all)")
    chk.assumptions = ["Blake2b-256 is collision free (shapes are symbolic terms in the model)"]
    cfg = "Merkle.cfg" if chk.tier == "quick" else "MerkleThorough.cfg"
    r = vlib.run_tlc("ledger/Merkle", cfg=cfg, timeout=1500)
    vlib.tlc_must_pass(r, "Merkle")
    chk.add_tlc(cfg, r)
    cases = os.path.join(r.dir, "cases.ndjson")
    drv = vlib.go_build("c35")
    vlib.run_driver(chk, drv, [cases], timeout=900)
    chk.exhaustive = False
