"""C06 Multi-asset values behave as a commutative group up to zeros (S3)."""
import os
from concurrent.futures import ThreadPoolExecutor

import vlib

# (cfg, key universe, map form, scales per row, key universes (rounds), TLC timeout)
QUICK = [
    ("MultiAsset.cfg", "2+1", "total", 5, 2, 400),
    ("MultiAssetSquare.cfg", "2x2", "total", 5, 2, 400),
    ("MultiAssetZeros.cfg", "2+1", "partial", 5, 2, 400),
    ("MultiAssetTriples.cfg", "2+1", "total", 5, 2, 400),
    ("MultiAssetZerosTriples.cfg", "1x2", "partial", 5, 2, 400),
]
THOROUGH = [
    ("MultiAsset.cfg", "2+1", "total", 5, 3, 240),
    ("MultiAssetSquare.cfg", "2x2", "total", 5, 3, 240),
    ("MultiAssetZeros.cfg", "2+1", "partial", 5, 3, 240),
    ("MultiAssetTriples.cfg", "2+1", "total", 5, 3, 240),
    ("MultiAssetZerosTriples.cfg", "1x2", "partial", 5, 3, 240),
    ("MultiAssetThorough.cfg", "2x2", "total", 2, 1, 480),
    ("MultiAssetZerosThorough.cfg", "2x2", "partial", 2, 2, 480),
    ("MultiAssetTriplesThorough.cfg", "2+1", "total", 5, 2, 560),
    ("MultiAssetZerosTriplesThorough.cfg", "2+1", "partial", 5, 2, 480),
]


def run(chk, replay=None):
    chk.rule = ("MultiAsset.tla: a value is a map (policy,name) -> quantity in which a key may be absent or an "
                "explicit zero; TLC proves on every value / pair / triple of the small domains that Eq is an "
                "equivalence that ignores zeros, Add is per-key, commutative, associative, Eq-compatible with "
                "identity and inverses, Dec(Enc(a)) = Norm(a), Enc is in canonical (shorter-first, then bytewise) "
                "key order and injective on Norm-classes; it emits every value and pair and a seeded sample of "
                "triples with Eq / sum / Norm / Enc. The driver replays each row on MultiAsset[*big.Int] "
                "(Compare, Add, Asset, cbor Encode/Decode byte-for-byte) at quantities q*M, "
                "M in {1, 2^31, 2^62, 2^63, 2^64+1}; a case is one (row, M, zero form); it is non-trivial when "
                "at least one key is stored")
    chk.assumptions = [
        "q -> q*M preserves per-key addition and equality, so the model row times M is the exact expected value",
        "policies/names are mapped monotonically (bytewise) from the model's abstract keys; names of 0,1,2 blocks "
        "of 1 or 16 bytes",
        "the property does not say whether a stored zero is written by Encode: both the model's Enc(a) and "
        "Enc(Norm a) are accepted for values holding explicit zeros (the observed choice is counted in the evidence)",
        "values are independent after Add: updating a quantity cell (*big.Int) of the sum in place must not change "
        "the operand (no shared cells)",
        "generic int64/uint64 instantiations (wrap on overflow) are outside the property's domain and not replayed",
    ]
    plan = QUICK if chk.tier == "quick" else THOROUGH
    drv = vlib.go_build("c06")

    def tlc(item):
        cfg, ks, mode, nsc, rounds, to = item
        return vlib.run_tlc("ledger/MultiAsset", cfg=cfg, timeout=to, workers=4,
                            env={"VERIF_SEED": chk.seed})

    with ThreadPoolExecutor(max_workers=4 if chk.tier == "thorough" else 5) as ex:
        results = list(ex.map(tlc, plan))
    for (cfg, ks, mode, nsc, rounds, to), r in zip(plan, results):
        vlib.tlc_must_pass(r, "MultiAsset/" + cfg)
        chk.add_tlc(cfg, r)
    for (cfg, ks, mode, nsc, rounds, to), r in zip(plan, results):
        if not os.path.exists(os.path.join(r.dir, "keys.ndjson")):
            raise vlib.MachineryError("MultiAsset/%s emitted no cases" % cfg)
        vlib.run_driver(chk, drv, [ks, mode, r.dir, str(nsc), str(rounds)], timeout=900)
    chk.exhaustive = False
