"""C21 Chain-sync delivers the server's chain updates faithfully (S1, TV + RP).

spec/net/ChainSyncClient.tla  goroutine-level model of Sync/syncLoop/handlers/Stop on the engine, model-checked
                              by TLC; every action emits its events into the observer of ChainSyncObs.tla
spec/net/ChainSyncTrace.tla   the same observer replayed over traces recorded from the REAL client
harness/cmd/c21               real chainsync client against the library's own chainsync server over two muxers,
                              driven by the TLC-generated server histories and by long seeded ones

Block pipeline dimension (Config.Pipeline, node-to-client): ChainSyncClientPipe*.cfg model-check the client composed
with a pipeline (Submit / apply in order / drain before the roll-backward callback) and emit the same histories with
pipe = TRUE; the driver runs them with a real pipeline.BlockPipeline whose ApplyFunc is the roll-forward callback.
"""
import concurrent.futures
import json
import os
import random
import re

import vlib

LIMITS = [0, 1, 2, 50]          # 100 is handed out sparingly: as coded, Stop() hangs with it (F-C21-stopfull)
BUGS = ["offbyone", "counter", "signal_first", "await_cb", "small_chan"]
# rules whose verdict does not involve the block pipeline (F-C21z, F-C21-stopfull, F-C21-orphan): same keys with and without
PIPE_INDEPENDENT = ("Z:", "End: Stop did not return", "PeerRestart:")
PIPE_BUGS = ["nodrain", "drain_queued"]     # defects of the block pipeline dimension (Pipes = {TRUE})


def slug(rule):
    if rule.startswith("Z:"):
        return "Z-outstanding-above-configured"
    return re.sub(r"[^A-Za-z0-9]+", "-", rule).strip("-")[:48]


def plan_fields(pid):
    """limit and mode from a plan id  h=..|lim=N|ntn|..."""
    parts = pid.split("|")
    lim = next((p[4:] for p in parts if p.startswith("lim=")), "?")
    mode = next((p for p in parts if p in ("ntn", "ntc")), "?")
    if any(p.startswith("pipe=") for p in parts):
        mode += "-pipe"                     # conversations with a block pipeline have their own keys
    return lim, mode


def validate(chk, trace_path, name="validate:ChainSyncTrace", timeout=1800):
    """Runs ChainSyncTrace over the concatenated traces; returns (lines, trace start indices,
    [(start index of the trace, index of the judged line, rule)])."""
    lines = open(trace_path).read().splitlines()
    starts = [i for i, l in enumerate(lines) if '"ev":"Reset"' in l]
    r = vlib.run_tlc("net/ChainSyncTrace", cfg="ChainSyncTrace.cfg", workers=1, timeout=timeout,
                     env={"VERIF_TRACE": trace_path})
    if chk is not None:
        chk.add_tlc(name, r)
    if not r.ok:
        raise vlib.MachineryError("ChainSyncTrace failed: %s" % (r.violation or r.error))
    m = re.search(r'^<<"REJECTS", "(.*)">>\s*$', r.out, re.M)
    if not m:
        raise vlib.MachineryError("ChainSyncTrace did not report its verdict")
    rejects = json.loads(json.loads('"' + m.group(1) + '"'))
    out = []
    for l1, rule in rejects:
        l = l1 - 1
        st = max(i for i in starts if i <= l)
        out.append((st, l, rule))
    return lines, starts, out


def report(chk, lines, starts, rejects):
    hard = set()
    logged = {}
    for st, l, rule in rejects:
        en = min([i for i in starts if i > st] + [len(lines)])
        reset = json.loads(lines[st])
        pid = reset.get("s1", "")
        lim, mode = plan_fields(pid)
        if rule.startswith(PIPE_INDEPENDENT):
            mode = mode.replace("-pipe", "")    # the known findings on limit 0 / Stop do not depend on the pipeline
        key = "C21:trace:%s:limit=%s:%s" % (slug(rule), lim, mode)
        ev = {k: v for k, v in json.loads(lines[l]).items() if v not in ("", 0)}
        desc = "trace of plan %s: line %d %s: %s" % (pid, l - st, json.dumps(ev), rule)
        if not rule.startswith("Z:"):
            hard.add(st)
        if chk.disagree(key, desc, {"plan": pid, "rejected_line": l - st, "rule": rule,
                                    "trace": [json.loads(x) for x in lines[st:en]][:600]}):
            logged[key] = logged.get(key, 0) + 1
            if logged[key] <= 2:
                vlib.log("[trace] " + desc)
    return len(starts) - len(hard)


def bug_cfg(d, bug):
    p = os.path.join(d, "ChainSyncClientBug_%s.cfg" % bug)
    with open(p, "w") as f:
        f.write('CONSTANTS\n  Limits = {0, 1, 2, 3}\n  Default = 4\n  MaxHist = 3\n  WithStop = TRUE\n'
                '  Bug = "%s"\n  QCap = 5\n  StopFix = FALSE\n  EmitMax = 0\n  Pipes = {%s}\n  PCap = 2\n'
                'SPECIFICATION Spec\n'
                'INVARIANTS Safe TokensFit TermStop TermDelivered\nCHECK_DEADLOCK FALSE\n'
                % (bug, "TRUE" if bug in PIPE_BUGS else "FALSE"))
    return p


def model_selftest(chk):
    """The defects the check is meant to catch are kept in the model (Bug constant): each must violate an
    invariant; so must Stop() as coded with a send queue smaller than the batch (F-C21-stopfull), while the
    repaired Stop() passes."""
    d = vlib.scratch("c21cfg-")
    caught = {}
    for b in BUGS + PIPE_BUGS:
        p = bug_cfg(d, b)
        r = vlib.run_tlc("net/ChainSyncClient", cfg=os.path.basename(p), files=[p], workers=4, timeout=900)
        if r.ok or not r.violated:
            raise vlib.MachineryError("model self-test: defect %s is not caught by the model's invariants (%s)" % (b, r.error))
        caught[b] = r.violated[0]
    r = vlib.run_tlc("net/ChainSyncClient", cfg="ChainSyncClientStopFull.cfg", workers=4, timeout=900)
    if r.ok or "TermStop" not in r.violated:
        raise vlib.MachineryError("model self-test: Stop() as coded with a small send queue should violate TermStop")
    caught["stop_as_coded_full_send_queue"] = "TermStop"
    r = vlib.run_tlc("net/ChainSyncClient", cfg="ChainSyncClientOrphan.cfg", workers=4, timeout=900)
    if r.ok or "OrphanFree" not in r.violated:
        raise vlib.MachineryError("model self-test: Stop() as coded should leave replies to pipelined requests orphaned")
    caught["stop_as_coded_orphans_replies"] = "OrphanFree"
    r = vlib.run_tlc("net/ChainSyncClient", cfg="ChainSyncClientStopFixed.cfg", workers=4, timeout=900)
    vlib.tlc_must_pass(r, "ChainSyncClientStopFixed.cfg")
    chk.add_tlc("ChainSyncClientStopFixed.cfg", r)
    chk.extra["model_defects_caught_by_invariant"] = caught


def binding_selftest(chk, lines, starts):
    """Corrupt recorded traces and require rejection (guards against a vacuous trace specification)."""
    # pick an accepted-looking trace with at least 3 callbacks and no Stop in the middle
    pick = None
    for k, st in enumerate(starts):
        en = starts[k + 1] if k + 1 < len(starts) else len(lines)
        evs = [json.loads(x) for x in lines[st:en]]
        if 30 < len(evs) < 400 and sum(1 for e in evs if e["ev"] == "CbBegin") >= 3 and evs[-1]["s1"] == "complete" \
                and evs[0]["a"] in (1, 2) and evs[0].get("mt", 0) == 0:
            pick = evs
            break
    if pick is None:
        chk.extra["binding_selftest"] = "no suitable trace"
        return
    cb = [i for i, e in enumerate(pick) if e["ev"] == "CbBegin"]
    rq = [i for i, e in enumerate(pick) if e["ev"] == "Deq" and e["mt"] == 0]
    hd = [i for i, e in enumerate(pick) if e["ev"] == "Handle" and e["ep"] == "client" and e["mt"] in (2, 3)]
    muts = []
    muts.append(("callback dropped", pick[:cb[1]] + pick[cb[1] + 2:]))                       # CbBegin+CbEnd removed
    muts.append(("callback with another tip", pick[:cb[1]] + [dict(pick[cb[1]], a=pick[cb[1]]["a"] + 1)] + pick[cb[1] + 1:]))
    muts.append(("callback twice", pick[:cb[1] + 2] + pick[cb[1]:cb[1] + 2] + pick[cb[1] + 2:]))
    muts.append(("callbacks swapped", pick[:cb[0]] + [pick[cb[1]]] + pick[cb[0] + 1:cb[1]] + [pick[cb[0]]] + pick[cb[1] + 1:]))
    muts.append(("surplus requests", pick[:rq[1]] + [pick[rq[1]]] * (pick[0]["a"] + 1) + pick[rq[1]:]))
    muts.append(("request before the callback returned", pick[:hd[1] + 1] + [pick[rq[0]]] * 3 + pick[hd[1] + 1:]))
    muts.append(("no Stop return", [e for e in pick if e["ev"] != "StopRet"]))
    d = vlib.scratch("c21mut-")
    p = os.path.join(d, "mut.ndjson")
    with open(p, "w") as f:
        for _, evs in muts:
            for e in evs:
                f.write(json.dumps(e, separators=(",", ":")) + "\n")
    ls, sts, rej = validate(None, p, timeout=600)
    bad = {st for st, _, rule in rej if not rule.startswith("Z:")}
    missed = [muts[i][0] for i, st in enumerate(sts) if st not in bad]
    if missed:
        raise vlib.MachineryError("binding self-test: corrupted traces accepted: %s" % ", ".join(missed))
    chk.extra["binding_selftest_rejected"] = {muts[i][0]: next(r for s, _, r in rej if s == st)[:60]
                                              for i, st in enumerate(sts)}
    pipe_binding_selftest(chk, lines, starts)


def pipe_binding_selftest(chk, lines, starts):
    """The same for a trace of a conversation with a block pipeline: F.B with the roll-backward callback moved
    in front of / into the apply of the block, applies swapped, an apply dropped."""
    pick = None
    for k, st in enumerate(starts):
        en = starts[k + 1] if k + 1 < len(starts) else len(lines)
        evs = [json.loads(x) for x in lines[st:en]]
        if evs[0].get("mt", 0) != 1 or len(evs) > 400 or evs[-1]["s1"] != "complete":
            continue
        cb = [(i, e["s1"]) for i, e in enumerate(evs) if e["ev"] == "CbBegin"]
        kinds = [k for _, k in cb]
        if len(cb) >= 3 and kinds[:2] == ["F", "F"] and "B" in kinds:
            pick = evs
            break
    if pick is None:
        chk.extra["binding_selftest_pipeline"] = "no suitable trace"
        return
    cb = [(i, e["s1"]) for i, e in enumerate(pick) if e["ev"] == "CbBegin"]
    ends = [i for i, e in enumerate(pick) if e["ev"] == "CbEnd"]
    b = next(n for n, (_, k) in enumerate(cb) if k == "B")       # the first roll-backward callback, after >= 2 applies
    ib, ieb = cb[b][0], ends[b]
    ia, iea = cb[b - 1][0], ends[b - 1]                             # the apply before it
    without = lambda idx: [e for i, e in enumerate(pick) if i not in idx]
    muts = []
    # roll-backward callback entered (and returned) before the previous block's apply was entered
    muts.append(("pipeline: rollback callback before the apply of an earlier block",
                 pick[:ia] + [pick[ib], pick[ieb]] + without({ib, ieb})[ia:]))
    # ... entered while that apply is running
    muts.append(("pipeline: rollback callback during the apply of an earlier block",
                 pick[:ia + 1] + [pick[ib]] + without({ib})[ia + 1:]))
    muts.append(("pipeline: applies swapped",
                 pick[:cb[0][0]] + [pick[cb[1][0]]] + pick[cb[0][0] + 1:cb[1][0]] + [pick[cb[0][0]]] + pick[cb[1][0] + 1:]))
    muts.append(("pipeline: apply dropped", without({ia, iea})))
    muts.append(("pipeline: block applied twice", pick[:iea + 1] + [pick[ia], pick[iea]] + pick[iea + 1:]))
    d = vlib.scratch("c21mutp-")
    p = os.path.join(d, "mut.ndjson")
    with open(p, "w") as f:
        for _, evs in muts:
            for e in evs:
                f.write(json.dumps(e, separators=(",", ":")) + "\n")
    ls, sts, rej = validate(None, p, timeout=600)
    bad = {st for st, _, rule in rej if not rule.startswith("Z:")}
    missed = [muts[i][0] for i, st in enumerate(sts) if st not in bad]
    if missed:
        raise vlib.MachineryError("binding self-test: corrupted traces accepted: %s" % ", ".join(missed))
    chk.extra["binding_selftest_pipeline_rejected"] = {muts[i][0]: next(r for s, _, r in rej if s == st)[:60]
                                                       for i, st in enumerate(sts)}


def run(chk, replay=None):
    thorough = chk.tier == "thorough"
    chk.rule = ("a case is one conversation of the real chainsync client with the library's chainsync server over two "
                "real muxers: a server history over {F, B, AF, AB} generated by TLC from ChainSyncClient.tla (all "
                "histories up to length 4 quick / a seeded sample up to 6 thorough) or a long seeded one, a configured "
                "pipeline limit in {0,1,2,50,100}, NtN or NtC, raw or decoded callback, slow callbacks, Stop at the end "
                "or in the middle, without or (NtC) with a real pipeline.BlockPipeline as Config.Pipeline (prefetch "
                "buffer 1/2/4/1000, 1-4 decode workers, slow applies, blocks held inside the pipeline by its verif "
                "hook): the roll-forward callback is then the pipeline's ApplyFunc; the recorded trace is replayed by TLC through the observer the model is checked "
                "against; distinct = distinct plans; non-trivial = history not empty")
    chk.assumptions = [
        "engine hooks log at linearization points (Deq before the segment is written, Handle before the handler); the "
        "driver logs SrvSend before the send and CbEnd before the callback returns; one recorder mutex orders all events",
        "Outstanding counts RequestNext dequeued by the client's send loop minus RollForward/RollBackward handled; the "
        "effective limit is the configured one with 0 replaced by DefaultPipelineLimit (F-C21z is reported for the "
        "configured-0 case only)",
        "a conversation is declared stalled only when every queue is empty, every request answered and nothing moves "
        "for 8 s; Stop is declared hung when nothing at all happens for 12 s after the call (its own waits sum to 5.25 s)",
        "block pipeline: the pipeline itself (apply in submission order, WaitForDrain sound) is C42-C44's; here the "
        "client is composed with it: every block handed over is applied once, in the server's order, with its tip, and "
        "the roll-backward callback is entered only when all earlier blocks have been applied. Blocks handed over "
        "before Stop may be applied after Stop returned (the property is silent); the apply callbacks finish well "
        "within PipelineDrainTimeout (30 s)",
        "model timing assumptions: Stop gives up on busyMutex only when the sync loop is blocked on a full send queue; "
        "the 250 ms drain wait only expires when the send loop is blocked",
    ]
    if replay:
        obj = json.load(open(replay))
        d = vlib.scratch("c21rp-")
        p = os.path.join(d, "replay.ndjson")
        with open(p, "w") as f:
            for e in obj["trace"]:
                f.write(json.dumps(e, separators=(",", ":")) + "\n")
        lines, starts, rej = validate(chk, p)
        chk.traces = report(chk, lines, starts, rej)
        chk.case("replay")
        return

    # ---- 1. the model
    cfg = "ChainSyncClientThorough.cfg" if thorough else "ChainSyncClient.cfg"
    lcfg = "ChainSyncClientLiveThorough.cfg" if thorough else "ChainSyncClientLive.cfg"
    pcfg = "ChainSyncClientPipeThorough.cfg" if thorough else "ChainSyncClientPipe.cfg"
    # the three model-checking runs are independent: side by side (the quick tier runs on every change)
    with concurrent.futures.ThreadPoolExecutor(max_workers=3) as ex:
        fr = ex.submit(vlib.run_tlc, "net/ChainSyncClient", cfg=cfg, workers=6, timeout=2400, coverage=thorough)
        fl = ex.submit(vlib.run_tlc, "net/ChainSyncClient", cfg=lcfg, workers=3, timeout=2400)
        fp = ex.submit(vlib.run_tlc, "net/ChainSyncClient", cfg=pcfg, workers=5, timeout=2400)
        r, rl, rp = fr.result(), fl.result(), fp.result()
    vlib.tlc_must_pass(r, cfg)
    chk.add_tlc(cfg, r)
    rows = vlib.read_ndjson(os.path.join(r.dir, "plans.ndjson"))
    if thorough and r.coverage_zero:
        chk.extra["model_actions_never_taken"] = sorted(set(r.coverage_zero))
    vlib.tlc_must_pass(rl, lcfg)
    chk.add_tlc(lcfg, rl)
    vlib.tlc_must_pass(rp, pcfg)
    chk.add_tlc(pcfg, rp)
    prows = vlib.read_ndjson(os.path.join(rp.dir, "plans.ndjson"))
    if any(x.get("pipe") for x in rows) or not all(x.get("pipe") for x in prows):
        raise vlib.MachineryError("plans: the pipe flag of the emitted histories does not match the configurations")
    if thorough:
        model_selftest(chk)

    # ---- 2. plans: TLC histories + long seeded histories; limit and mode assigned here, the rest in the driver
    rng = random.Random(chk.seed * 7919 + 21)
    short = [x for x in rows if x["n"] <= (4 if thorough else 2)]
    rest = [x for x in rows if x["n"] > (4 if thorough else 2)]
    rng.shuffle(rest)
    sel = short + rest[:(1000 if thorough else 110)]
    budget100 = 16 if thorough else 5
    for i, x in enumerate(sel):
        x["limit"] = LIMITS[(i + chk.seed) % len(LIMITS)]
        x["mode"] = ["ntn", "ntc"][(i // len(LIMITS) + chk.seed) % 2]
        if x["n"] >= 2 and budget100 > 0 and rng.random() < 0.08:
            x["limit"] = 100
            budget100 -= 1
    scale = 10 if thorough else 1
    for lim, n in ((0, 300), (1, 120), (2, 150), (50, 300), (100, 350)):
        for mode in ("ntn", "ntc"):
            sel.append({"gen": n * scale, "limit": lim, "mode": mode})
    if thorough:
        for lim in (0, 1, 2, 50, 100):
            for k in range(3):
                sel.append({"gen": 400 + 150 * k, "limit": lim, "mode": ["ntn", "ntc"][k % 2]})
    # the same histories with a block pipeline (appended: the plans above keep their indices and seeds)
    pshort = [x for x in prows if x["n"] <= (3 if thorough else 2)]
    prest = [x for x in prows if x["n"] > (3 if thorough else 2)]
    rng.shuffle(prest)
    psel = pshort + prest[:(500 if thorough else 45)]
    for i, x in enumerate(psel):
        x["limit"] = LIMITS[(i + chk.seed) % len(LIMITS)]
        x["mode"] = "ntc"
    for lim, n in ((0, 120), (1, 60), (2, 100), (50, 150)):
        psel.append({"gen": n * scale, "limit": lim, "mode": "ntc", "pipe": True})
    if thorough:
        psel.append({"gen": 800, "limit": 100, "mode": "ntc", "pipe": True})
    sel += psel

    # ---- 3. the real client
    drv = vlib.go_build("c21")
    out = vlib.scratch("c21-")
    pf = os.path.join(out, "plans.ndjson")
    vlib.write_ndjson(pf, sel)
    vlib.run_driver(chk, drv, ["gen", out, pf], timeout=2400)

    # ---- 4. TLC judges the traces
    lines, starts, rej = validate(chk, os.path.join(out, "traces.ndjson"))
    chk.traces = report(chk, lines, starts, rej)
    chk.extra["binding"] = ("TV: engine verif events of the real client and server plus driver events, replayed by TLC "
                            "through the observer of ChainSyncObs.tla; RP: callback sequence predicted by the "
                            "specification for every TLC history compared by the driver")
    chk.exhaustive = False
    if thorough:
        binding_selftest(chk, lines, starts)
