"""C09 The muxer delivers each byte stream intact to the right endpoint (S1)."""
import json
import os
import re
import vlib


def run(chk, replay=None):
    thorough = chk.tier == "thorough"
    chk.assumptions = [
        "fragmentation of the byte stream is below the model's grain (io.ReadFull) and exercised by the fragmenting net.Conn",
        "content compared by FNV-64 hash of the payload; the wire tap is parsed by the driver without using the muxer",
    ]
    chk.rule = ("a case is one muxer scenario: an adversarial inbound byte stream enumerated by TLC (MuxPlans.tla) with the predicted "
                "deliveries, a conforming run of 1-6 protocols sending concurrently in both directions, or the unregister race; its "
                "trace is validated line by line by TLC against MuxObs.tla; non-trivial = more than 4 events")
    for cfg in (["MuxerIR.cfg", "MuxerLive.cfg"] + (["MuxerI.cfg", "MuxerR.cfg", "MuxerThorough.cfg"] if thorough else [])):
        r = vlib.run_tlc("net/Muxer", cfg=cfg, workers=8, timeout=1500)
        vlib.tlc_must_pass(r, cfg)
        chk.add_tlc(cfg, r)
    cfg = "MuxPlansThorough.cfg" if thorough else "MuxPlans.cfg"
    r = vlib.run_tlc("net/MuxPlans", cfg=cfg, workers=4, timeout=900)
    vlib.tlc_must_pass(r, cfg)
    chk.add_tlc(cfg, r)
    plans = vlib.read_ndjson(os.path.join(r.dir, "mux.ndjson")) + vlib.read_ndjson(os.path.join(r.dir, "pair.ndjson"))
    if thorough:
        plans += [dict(p, id=p["id"] + "-r%d" % k) for k in range(1, 6) for p in plans if p.get("kind") == "pair"]
    drv = vlib.go_build("mux")
    out = vlib.scratch("mux-")
    pf = os.path.join(out, "plans.ndjson")
    vlib.write_ndjson(pf, plans)
    vlib.run_driver(chk, drv, ["gen", out, pf], timeout=1500)
    tp = os.path.join(out, "traces.ndjson")
    lines = open(tp).read().splitlines()
    starts = [i for i, l in enumerate(lines) if '"ev":"Reset"' in l]
    r = vlib.run_tlc("net/MuxTrace", cfg="MuxTrace.cfg", workers=1, timeout=1500, env={"VERIF_TRACE": tp})
    chk.add_tlc("validate:MuxTrace", r)
    if not r.ok:
        raise vlib.MachineryError("MuxTrace failed: %s" % (r.violation or r.error))
    m = re.search(r'^<<"REJECTS", "(.*)">>\s*$', r.out, re.M)
    if not m:
        raise vlib.MachineryError("MuxTrace did not report its verdict")
    rejects = json.loads(json.loads('"' + m.group(1) + '"'))
    own = 0
    for l1, msg in rejects:
        l = l1 - 1
        st = max(i for i in starts if i <= l)
        en = min([i for i in starts if i > l] + [len(lines)])
        pid = json.loads(lines[st]).get("text", "?")
        if not msg.startswith("C09"):
            chk.extra["rejections_attributed_elsewhere"] = chk.extra.get("rejections_attributed_elsewhere", 0) + 1
            continue
        own += 1
        desc = "trace of plan %s rejected at line %d (%s): %s" % (pid, l - st, lines[l][:200], msg)
        vlib.log("[trace] " + desc)
        chk.disagree("C09:trace:%s:%s" % (msg[:70], pid.split("-")[0]), desc,
                     {"plan": pid, "obsErr": msg, "trace": [json.loads(x) for x in lines[st:en]][:300]})
    # API histories of MuxerApi.tla (start gate, registration, diffusion mode, Stop, peer close) replayed on a
    # real muxer: only the clauses C09 states alarm here (an offending segment did not end the connection
    # with an error; a segment reached a receiver it was not addressed to); the life-cycle clauses are
    # reported by bin/extras as observations
    import random
    if thorough:   # the meta-properties over all histories of 5 operations (no behaviours emitted)
        r = vlib.run_tlc("net/MuxerApi", cfg="MuxerApiThorough.cfg", workers=8, timeout=1500, deadlock=False)
        vlib.tlc_must_pass(r, "MuxerApiThorough")
        chk.add_tlc("MuxerApiThorough", r)
    r = vlib.run_tlc("net/MuxerApi", cfg="MuxerApi.cfg", workers=8, timeout=1500, deadlock=False)
    vlib.tlc_must_pass(r, "MuxerApi")
    chk.add_tlc("MuxerApi", r)
    rows = [json.loads(json.loads(m.group(1))) for m in (vlib._RE_BEH.match(l) for l in r.out.splitlines()) if m]
    if not rows:
        raise vlib.MachineryError("MuxerApi printed no behaviours")
    random.Random(chk.seed).shuffle(rows)
    rows = rows[: (len(rows) if thorough else 1200)]
    bf = os.path.join(out, "api.ndjson")
    vlib.write_ndjson(bf, rows)
    vlib.run_driver(chk, vlib.go_build("muxapi"), ["run", bf], timeout=1500,
                    keep=lambda rec: rec["key"].startswith("muxapi:c09-"))
    chk.traces = len(starts) - len(rejects)
    chk.sample({"plan": plans[0]})
    chk.extra["binding"] = "TV (MuxTrace.tla on traces of real muxers incl. an independent wire tap) + RP (TLC-enumerated inbound streams with predicted deliveries)"
