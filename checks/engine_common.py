"""Shared orchestration for the protocol-engine family (C10-C14).

EnginePlans.tla (TLC) generates scenario plans with the outcome the specification
predicts; harness/cmd/engine runs them against real Protocol instances over real
muxers and records the `verif` trace of every run; EngineTrace.tla (TLC) validates
every line of every trace against EngineObs.tla.  A rejected trace is attributed to
the property whose rule rejected it (the first words of obsErr name the rule)."""
import json
import os
import shutil
import vlib

RULES = {
    "C10": ("MsgIn: not the next", "MsgIn: message longer", "SegIn:", "SegOut: payload", "SegOut: segment length"),
    "C11": ("Trans(recv)", "Handle:", "RecvDeq:", "TransErr:", "Trans: transition", "State:", "RecvErr:",
            "End: expected error", "End: error reported but", "End: protocol stopped", "unknown event"),
    "C12": ("Deq:", "Trans(send)", "SegOut: written", "EnqAbort", "End: conforming"),
    "C13": ("MsgIn: limit", "MsgIn: oversized", "MsgIn: pending", "Release:"),
    "C14": ("TimerArm", "Timeout", "End: expected state timeout", "End: spurious"),
}


# rules that state more than one property: the wire carrying exactly the queued messages, in
# order, each once, is C10 (bytes survive) as well as C12 (queue order, exactly once)
SHARED = {"MsgIn: not the next": ("C10", "C12")}


def props_of(msg, plan_id):
    for pre, ps in SHARED.items():
        if msg.startswith(pre):
            return ps
    return (prop_of(msg, plan_id),)


def prop_of(msg, plan_id):
    if plan_id.startswith("misuse") and msg.startswith("End:"):
        return "C12"
    if plan_id.startswith(("bp", "big")) and msg.startswith("End:"):
        return "C13"
    if plan_id.startswith("timer") and msg.startswith("End:"):
        return "C14"
    for p, pre in RULES.items():
        if msg.startswith(pre):
            return p
    return "C11"


def validate_traces(chk, prop, trace_path):
    """Runs EngineTrace on the concatenated traces. The trace specification
    records every rejected trace (line, rule) and goes on with the next one,
    so one TLC run judges all traces. Returns the number of accepted traces."""
    import re
    lines = open(trace_path).read().splitlines()
    starts = [i for i, l in enumerate(lines) if '"ev":"Reset"' in l]
    total = len(starts)
    r = vlib.run_tlc("net/EngineTrace", cfg="EngineTrace.cfg", workers=1, timeout=3600,
                     env={"VERIF_TRACE": trace_path})
    chk.add_tlc("validate:EngineTrace", r)
    if not r.ok:
        raise vlib.MachineryError("EngineTrace failed: %s" % (r.violation or r.error))
    m = re.search(r'^<<"REJECTS", "(.*)">>\s*$', r.out, re.M)
    if not m:
        raise vlib.MachineryError("EngineTrace did not report its verdict")
    rejects = json.loads(json.loads('"' + m.group(1) + '"'))
    for l1, msg in rejects:
        l = l1 - 1                               # 0-based index of the rejected line
        st = max(i for i in starts if i <= l)
        en = min([i for i in starts if i > l] + [len(lines)])
        reset = json.loads(lines[st])
        plan_id = reset.get("s1", "").split("|")[-1]
        ps = props_of(msg, plan_id)
        p = prop if prop in ps else ps[0]
        desc = "trace of plan %s rejected at line %d (%s): %s" % (
            plan_id, l - st, json.dumps({k: v for k, v in json.loads(lines[l]).items() if v not in ("", 0)}), msg)
        if p == prop:
            vlib.log("[trace] " + desc)
            chk.disagree("%s:trace:%s:%s" % (prop, msg[:60], plan_id.split("-")[0]), desc,
                         {"plan": plan_id, "rejected_line": l - st, "obsErr": msg,
                          "trace": [json.loads(x) for x in lines[st:en]][:400]})
        else:
            chk.extra["rejections_attributed_elsewhere"] = chk.extra.get("rejections_attributed_elsewhere", 0) + 1
    return total - len(rejects)


def driver_prop(rec):
    key = rec["key"]
    pid = key.split(":")[-1]
    if pid.startswith("misuse"):
        return "C12"
    if pid.startswith("pack") or ":stream:" in key:
        return "C10"
    if pid.startswith(("bp", "big")):
        return "C13"
    if ":adv:" in key:
        return "C11"
    if pid.startswith("bp"):
        return "C13"
    if pid.startswith("timer"):
        return "C14"
    if ":stalled:" in key:
        return "C10"
    return "C12"


def model_check(chk, cfgs, must_fail=()):
    """TLC on the goroutine-level model Engine.tla (instance MCEngine): the design refines the
    observer under every interleaving; must_fail lists defective variants TLC has to reject."""
    for cfg in cfgs:
        r = vlib.run_tlc("net/MCEngine", cfg=cfg, workers=12, timeout=1500)
        vlib.tlc_must_pass(r, cfg)
        chk.add_tlc(cfg, r)
    for cfg in must_fail:
        r = vlib.run_tlc("net/MCEngine", cfg=cfg, workers=8, timeout=900)
        if r.ok or not r.violation:
            raise vlib.MachineryError("defective design %s was not rejected by TLC" % cfg)
        chk.extra["defective_variant_rejected"] = cfg


def run_engine(chk, prop, files, select=None, mc=(), mc_thorough=(), must_fail=()):
    thorough = chk.tier == "thorough"
    model_check(chk, list(mc) + (list(mc_thorough) if thorough else []), must_fail if thorough else ())
    chk.assumptions = [
        "the test protocol vproto (harness/vproto) has the three shapes of state map the engine has to handle (streaming with kept agency, request/response with pipelining, server streaming)",
        "hooks log at the linearization points of DESIGN Appendix A; one recorder mutex orders the events of both endpoints",
        "a decode-level error raised by the read loop may overtake already queued permitted messages (DESIGN C11 note): the specification gives a range for the number handled",
    ]
    chk.rule = ("a case is one scenario plan generated by TLC from EnginePlans.tla (adversarial script, conforming conversation, "
                "back-pressure or timer scenario) run on the real engine; its trace is validated line by line by TLC against EngineObs.tla; "
                "distinct = distinct plans; non-trivial = more than 8 trace events")
    cfg = "EnginePlansThorough.cfg" if thorough else "EnginePlans.cfg"
    r = vlib.run_tlc("net/EnginePlans", cfg=cfg, workers=8, timeout=900)
    vlib.tlc_must_pass(r, cfg)
    chk.add_tlc(cfg, r)
    plans = []
    for f in files:
        plans += vlib.read_ndjson(os.path.join(r.dir, f))
    if select:
        plans = [p for p in plans if select(p)]
    if not plans:
        raise vlib.MachineryError("no plans")
    drv = vlib.go_build("engine")
    out = vlib.scratch("engine-")
    pf = os.path.join(out, "plans.ndjson")
    vlib.write_ndjson(pf, plans)
    vlib.run_driver(chk, drv, ["gen", out, pf], timeout=4500 if thorough else 1500,
                    keep=lambda rec: driver_prop(rec) == prop)
    tp = os.path.join(out, "traces.ndjson")
    chk.traces = validate_traces(chk, prop, tp)
    chk.sample({"plan": plans[0]})
    chk.sample({"plan": plans[len(plans) // 2]})
    chk.extra["binding"] = "TV: traces recorded from the real engine validated by TLC against EngineObs.tla; RP: TLC-generated plans with predicted outcome executed on the real engine"
    if thorough:
        binding_selftest(chk, tp)


def binding_selftest(chk, trace_path):
    """Corrupt one field of one recorded event and require rejection (vacuity guard)."""
    lines = open(trace_path).read().splitlines()
    muts = []
    for i, l in enumerate(lines):
        e = json.loads(l)
        if e["ev"] == "Trans" and len(muts) == 0:
            muts.append(("drop Trans", lines[:i] + lines[i + 1:]))
        if e["ev"] == "SegOut" and len(muts) == 1:
            e2 = dict(e); e2["len"] -= 1
            muts.append(("SegOut len-1", lines[:i] + [json.dumps(e2)] + lines[i + 1:]))
        if e["ev"] == "Handle" and len(muts) == 2:
            e2 = dict(e); e2["mt"] = (e2["mt"] + 1) % 5
            muts.append(("Handle other type", lines[:i] + [json.dumps(e2)] + lines[i + 1:]))
    import re
    n = 0
    for name, ls in muts:
        p = os.path.join(os.path.dirname(trace_path), "mut.ndjson")
        with open(p, "w") as f:
            f.write("\n".join(ls[:4000]) + "\n")
        r = vlib.run_tlc("net/EngineTrace", cfg="EngineTrace.cfg", workers=1, timeout=600, env={"VERIF_TRACE": p})
        m = re.search(r'^<<"REJECTS", "(.*)">>\s*$', r.out, re.M)
        if not r.ok or not m:
            raise vlib.MachineryError("binding self-test: EngineTrace failed on the corrupted trace (%s)" % name)
        if json.loads(json.loads('"' + m.group(1) + '"')) == []:
            raise vlib.MachineryError("binding self-test: corrupted trace (%s) was accepted" % name)
        n += 1
    chk.extra["binding_selftest_rejected"] = n


def real_protocol_traces(chk, prop):
    """The engine observer on EVERY mini-protocol's own state map: the C16 replay (reference
    label sequences plus one-step deviations, enumerated by TLC from MiniProtocols/ProtoEquiv)
    drives the real engine of each protocol in both roles with a raw peer; with
    C16_ENGINE_TRACES set it records the engine trace of every run, which EngineTrace validates."""
    thorough = chk.tier == "thorough"
    r = vlib.run_tlc("net/ProtoEquiv", cfg="ProtoSeqsThorough.cfg" if thorough else "ProtoSeqs.cfg", timeout=900)
    if not (r.ok or r.violation is None):
        raise vlib.MachineryError("ProtoSeqs failed: %s" % (r.error or r.violation))
    chk.add_tlc("ProtoSeqs (sequences for all mini-protocols)", r)
    cases = os.path.join(r.dir, "cases16.ndjson")
    labels = os.path.join(r.dir, "labels16.ndjson")
    if not (os.path.exists(cases) and os.path.exists(labels)):
        raise vlib.MachineryError("ProtoSeqs wrote no cases")
    drv = vlib.go_build("c16")
    out = vlib.scratch("c16traces-")
    if not thorough:                      # quick tier: every other sequence (all protocols stay covered)
        rows = vlib.read_ndjson(cases)
        cases = os.path.join(out, "cases16.ndjson")
        vlib.write_ndjson(cases, rows[chk.seed % 2::2])
    tp = os.path.join(out, "traces.ndjson")
    sub = vlib.Check(chk.pid, chk.tier, chk.seed)          # the C16 verdicts belong to C16's own check
    vlib.run_driver(sub, drv, ["replay", cases, labels], timeout=1500, env={"C16_ENGINE_TRACES": tp},
                    keep=lambda rec: False)
    if not os.path.exists(tp) or os.path.getsize(tp) == 0:
        raise vlib.MachineryError("c16 wrote no engine traces")
    n = validate_traces(chk, prop, tp)
    chk.traces += n
    chk.extra["real_protocol_traces_validated"] = n
    chk.evaluations += n
    chk.nontrivial |= {"realproto#%d" % i for i in range(n)}
