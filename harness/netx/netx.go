// Package netx provides the in-memory transport used by the conformance
// drivers: a net.Pipe pair whose reads are fragmented into seeded random chunk
// sizes (the muxer must be insensitive to how the byte stream is cut), with an
// optional wire tap that records every byte written in each direction.
package netx

import (
	"math/rand"
	"net"
	"sync"
	"time"

	"github.com/blinklabs-io/gouroboros/connection"
	"github.com/blinklabs-io/gouroboros/muxer"
)

type FragConn struct {
	net.Conn
	mu     sync.Mutex
	rng    *rand.Rand
	sizes  []int
	tapMu  sync.Mutex
	Tap    []byte // bytes written by this side (only when TapOn)
	TapOn  bool
	Delay  time.Duration
	closed chan struct{}
}

var chunkSizes = []int{1, 2, 7, 8, 9, 64, 4096, 65536}

func (c *FragConn) Read(p []byte) (int, error) {
	c.mu.Lock()
	n := c.sizes[c.rng.Intn(len(c.sizes))]
	if c.rng.Intn(4) == 0 {
		n = 1 + c.rng.Intn(70000)
	}
	c.mu.Unlock()
	if n > len(p) {
		n = len(p)
	}
	if n == 0 {
		return c.Conn.Read(p)
	}
	return c.Conn.Read(p[:n])
}

func (c *FragConn) Write(p []byte) (int, error) {
	if c.TapOn {
		c.tapMu.Lock()
		c.Tap = append(c.Tap, p...)
		c.tapMu.Unlock()
	}
	return c.Conn.Write(p)
}

func (c *FragConn) TapBytes() []byte {
	c.tapMu.Lock()
	defer c.tapMu.Unlock()
	return append([]byte(nil), c.Tap...)
}

// Pipe returns the two ends of an in-memory connection with fragmented reads.
func Pipe(seed int64, fragment bool) (*FragConn, *FragConn) {
	a, b := net.Pipe()
	sz := chunkSizes
	if !fragment {
		sz = []int{1 << 20}
	}
	return &FragConn{Conn: a, rng: rand.New(rand.NewSource(seed)), sizes: sz},
		&FragConn{Conn: b, rng: rand.New(rand.NewSource(seed + 1)), sizes: sz}
}

// MuxPair returns two started muxers over a fragmenting pipe.
func MuxPair(seed int64, fragment bool) (*muxer.Muxer, *muxer.Muxer, *FragConn, *FragConn) {
	ca, cb := Pipe(seed, fragment)
	ma, mb := muxer.New(ca), muxer.New(cb)
	return ma, mb, ca, cb
}

type addr string

func (a addr) Network() string { return "pipe" }
func (a addr) String() string  { return string(a) }

// ConnId returns a ConnectionId with non-nil addresses (its String() dereferences them).
func ConnId(name string) connection.ConnectionId {
	return connection.ConnectionId{LocalAddr: addr(name + "-local"), RemoteAddr: addr(name + "-remote")}
}
