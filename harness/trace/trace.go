// Package trace records the `verif` events of the protocol engine
// (protocol.VerifTracer) as ndjson for TLC trace validation (spec/net/EngineTrace.tla).
//
// One Recorder has one mutex and one sequence counter, so the order of the
// lines is consistent with happens-before across all goroutines and both
// endpoints of a conversation. Time stamps (microseconds since the recorder
// was created) are only compared within one stateLoop goroutine (C14).
package trace

import (
	"bufio"
	"encoding/json"
	"fmt"
	"hash/fnv"
	"math/rand"
	"os"
	"runtime"
	"sync"
	"time"

	"github.com/blinklabs-io/gouroboros/protocol"
)

type Line struct {
	Ep  string `json:"ep"`
	Ev  string `json:"ev"`
	Mt  int    `json:"mt"`
	Len int    `json:"len"`
	A   int64  `json:"a"`
	B   int64  `json:"b"`
	S1  string `json:"s1"`
	S2  string `json:"s2"`
	H   string `json:"h"`
	G   uint64 `json:"g"`
	T   int64  `json:"t"`
}

type Recorder struct {
	mu      sync.Mutex
	start   time.Time
	lines   []Line
	filter  string // protocol name to record ("" = all)
	Perturb *rand.Rand
	pmu     sync.Mutex
}

func NewRecorder(protoName string) *Recorder {
	return &Recorder{start: time.Now(), filter: protoName}
}

func gid() uint64 {
	var buf [64]byte
	n := runtime.Stack(buf[:], false)
	var id uint64
	for _, c := range buf[10:n] {
		if c < '0' || c > '9' {
			break
		}
		id = id*10 + uint64(c-'0')
	}
	return id
}

func capUs(ns int64) int64 {
	us := ns / 1000
	if us > 2_000_000_000 {
		us = 2_000_000_000
	}
	return us
}

func RoleName(r protocol.ProtocolRole) string {
	if r == protocol.ProtocolRoleServer {
		return "server"
	}
	return "client"
}

// perturbable events: not under a protocol mutex
var underLock = map[string]bool{"MsgIn": true, "Release": true, "State": true}

func (r *Recorder) Hook(p *protocol.Protocol, e protocol.VerifEvent) {
	if r.filter != "" && e.Name != r.filter {
		return
	}
	ln := Line{Ep: RoleName(e.Role), Ev: e.Ev, Mt: e.MsgType, Len: e.Len, A: e.A, B: e.B, S1: e.S1, S2: e.S2}
	switch e.Ev {
	case "Enq", "EnqAbort", "Deq", "MsgIn":
		h := fnv.New64a()
		h.Write(e.Data)
		ln.H = fmt.Sprintf("%016x", h.Sum64())
	}
	switch e.Ev {
	case "Enq", "EnqAbort":
		ln.G = gid()
	case "TimerArm":
		ln.A = capUs(e.A)
	case "Error", "RecvErr":
		ln.S2 = ln.S1 // keep the text out of s1 (s1 is a state / kind elsewhere)
		ln.S1 = ""
	}
	r.mu.Lock()
	ln.T = int64(time.Since(r.start) / time.Microsecond)
	r.lines = append(r.lines, ln)
	r.mu.Unlock()
	if r.Perturb != nil && !underLock[e.Ev] {
		r.pmu.Lock()
		k := r.Perturb.Intn(20)
		r.pmu.Unlock()
		switch {
		case k < 4:
			runtime.Gosched()
		case k == 4:
			time.Sleep(time.Duration(50+k*10) * time.Microsecond)
		}
	}
}

// Add appends a driver-made line (Reset, End).
func (r *Recorder) Add(ln Line) {
	r.mu.Lock()
	ln.T = int64(time.Since(r.start) / time.Microsecond)
	r.lines = append(r.lines, ln)
	r.mu.Unlock()
}

func (r *Recorder) Lines() []Line {
	r.mu.Lock()
	defer r.mu.Unlock()
	return append([]Line(nil), r.lines...)
}

// Count returns the number of recorded events with the given name and endpoint ("" = any).
func (r *Recorder) Count(ep, ev string) int {
	r.mu.Lock()
	defer r.mu.Unlock()
	n := 0
	for _, l := range r.lines {
		if l.Ev == ev && (ep == "" || l.Ep == ep) {
			n++
		}
	}
	return n
}

// AppendTo appends the trace, preceded by a Reset line, to an ndjson file.
func (r *Recorder) AppendTo(w *bufio.Writer, smName string, sm SMJson, smServer SMJson, linked bool) {
	a := int64(0)
	if linked {
		a = 1
	}
	enc := json.NewEncoder(w)
	enc.Encode(struct {
		Line
		SmDef  SMJson `json:"smdef"`  // the client endpoint's state map
		SmDefS SMJson `json:"smdefs"` // the server endpoint's
	}{Line{Ep: "client", Ev: "Reset", S1: smName, A: a}, sm, smServer})
	for _, l := range r.Lines() {
		enc.Encode(l)
	}
}

// ---- state maps for the specification (TB binding) ----

type SMTrans struct {
	F string `json:"f"`
	M int    `json:"m"`
	T string `json:"t"`
	C bool   `json:"c"`
}

type SMJson struct {
	Init    string            `json:"init"`
	Agency  map[string]string `json:"agency"`
	Trans   []SMTrans         `json:"trans"`
	Limit   map[string]int    `json:"limit"`
	Timeout map[string]int64  `json:"timeout"`
}

func AgencyName(a protocol.ProtocolStateAgency) string {
	switch a {
	case protocol.AgencyClient:
		return "client"
	case protocol.AgencyServer:
		return "server"
	}
	return "none"
}

// DumpStateMap renders the implementation's own state map for the specification.
func DumpStateMap(sm protocol.StateMap, init protocol.State) SMJson {
	out := SMJson{Init: init.Name, Agency: map[string]string{}, Limit: map[string]int{}, Timeout: map[string]int64{}}
	for s, e := range sm {
		out.Agency[s.Name] = AgencyName(e.Agency)
		out.Limit[s.Name] = e.PendingMessageByteLimit
		switch {
		case e.TimeoutFunc != nil:
			out.Timeout[s.Name] = -1
		default:
			out.Timeout[s.Name] = capUs(int64(e.Timeout))
		}
		for _, t := range e.Transitions {
			out.Trans = append(out.Trans, SMTrans{F: s.Name, M: int(t.MsgType), T: t.NewState.Name, C: t.MatchFunc != nil})
		}
	}
	if out.Trans == nil {
		out.Trans = []SMTrans{}
	}
	return out
}

func WriteJSON(path string, v any) error {
	b, err := json.Marshal(v)
	if err != nil {
		return err
	}
	return os.WriteFile(path, b, 0o644)
}
