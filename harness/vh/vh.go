// Package vh is the small protocol between Go conformance drivers and the
// python orchestrator (lib/vlib.py): drivers read TLC-generated cases
// (ndjson), execute them on the real gouroboros code and print ndjson records
// on stdout:
//
//	{"t":"disagree","key":..,"desc":..,"replay":{..}}  spec and code differ
//	{"t":"dead","msg":..}                               driver could not run (exit 2)
//	{"t":"summary","evaluations":N,"distinct_nontrivial":M,"samples":[..],"extra":{..}}
package vh

import (
	"bufio"
	"encoding/json"
	"fmt"
	"os"
	"strconv"
	"sync"
)

type Reporter struct {
	mu         sync.Mutex
	w          *bufio.Writer
	evals      int
	nontrivial map[string]struct{}
	samples    []any
	Extra      map[string]any
	disagreed  int
}

func NewReporter() *Reporter {
	return &Reporter{
		w:          bufio.NewWriterSize(os.Stdout, 1<<16),
		nontrivial: map[string]struct{}{},
		Extra:      map[string]any{},
	}
}

func (r *Reporter) emit(v any) {
	b, err := json.Marshal(v)
	if err != nil {
		b, _ = json.Marshal(map[string]any{"t": "dead", "msg": "marshal: " + err.Error()})
	}
	r.w.Write(b)
	r.w.WriteByte('\n')
}

// Case counts one executed case. key identifies it for distinctness; pass
// nontrivial=false for cases that exercise nothing of the property.
func (r *Reporter) Case(key string, nontrivial bool) {
	r.mu.Lock()
	defer r.mu.Unlock()
	r.evals++
	if nontrivial {
		r.nontrivial[key] = struct{}{}
	}
}

func (r *Reporter) Sample(v any) {
	r.mu.Lock()
	defer r.mu.Unlock()
	if len(r.samples) < 5 {
		r.samples = append(r.samples, v)
	}
}

func (r *Reporter) Disagree(key, desc string, replay any) {
	r.mu.Lock()
	defer r.mu.Unlock()
	r.disagreed++
	if r.disagreed > 5000 {
		r.Extra["disagreements_truncated"] = true
		return
	}
	r.emit(map[string]any{"t": "disagree", "key": key, "desc": desc, "replay": replay})
}

func (r *Reporter) Disagreements() int {
	r.mu.Lock()
	defer r.mu.Unlock()
	return r.disagreed
}

// Dead reports that the driver cannot do its job and exits 2.
func (r *Reporter) Dead(format string, a ...any) {
	r.mu.Lock()
	r.emit(map[string]any{"t": "dead", "msg": fmt.Sprintf(format, a...)})
	r.w.Flush()
	r.mu.Unlock()
	os.Exit(2)
}

func (r *Reporter) Finish() {
	r.mu.Lock()
	defer r.mu.Unlock()
	r.emit(map[string]any{
		"t": "summary", "evaluations": r.evals,
		"distinct_nontrivial": len(r.nontrivial),
		"samples":             r.samples, "extra": r.Extra,
		"disagreements": r.disagreed,
	})
	r.w.Flush()
}

// ReadNDJSON reads one JSON value per line.
func ReadNDJSON[T any](path string) ([]T, error) {
	f, err := os.Open(path)
	if err != nil {
		return nil, err
	}
	defer f.Close()
	var out []T
	sc := bufio.NewScanner(f)
	sc.Buffer(make([]byte, 1<<20), 1<<28)
	for sc.Scan() {
		if len(sc.Bytes()) == 0 {
			continue
		}
		var v T
		if err := json.Unmarshal(sc.Bytes(), &v); err != nil {
			return nil, fmt.Errorf("%s: %w", path, err)
		}
		out = append(out, v)
	}
	return out, sc.Err()
}

func Seed() int64 {
	s, err := strconv.ParseInt(os.Getenv("VERIF_SEED"), 10, 64)
	if err != nil {
		return 1
	}
	return s
}

func Tier() string {
	if t := os.Getenv("VERIF_TIER"); t != "" {
		return t
	}
	return "quick"
}

// Guard runs f; a panic inside it is reported as a disagreement (the property's
// inputs are spec-legal, so the real code must not panic on them). The case key
// is also written to stderr so that a fatal crash (stack overflow, concurrent
// map write) can be attributed by the orchestrator.
func (r *Reporter) Guard(key string, replay any, f func()) {
	fmt.Fprintf(os.Stderr, "VH-CASE %s\n", key)
	defer func() {
		if p := recover(); p != nil {
			r.Disagree("panic:"+key, fmt.Sprintf("panic in library code: %v", p), replay)
		}
	}()
	f()
}
