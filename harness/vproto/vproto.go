// Package vproto is a small test mini-protocol built on the public
// protocol.New API. Its state map has the three shapes the engine has to
// cope with: a client that keeps agency while streaming (Data), request /
// response with client pipelining (Req/Resp), and a server that streams before
// it answers (Chunk). Byte limits and timeouts are parameters.
//
//	Idle (client agency): Req -> Busy, Data -> Idle, Done -> Done
//	Busy (server agency): Resp -> Idle, Chunk -> Busy
//	Done (nobody)
package vproto

import (
	"fmt"
	"time"

	"github.com/blinklabs-io/gouroboros/cbor"
	"github.com/blinklabs-io/gouroboros/muxer"
	"github.com/blinklabs-io/gouroboros/protocol"
)

const (
	ProtocolName        = "vproto"
	ProtocolId   uint16 = 0x0777

	TypeReq   = 0
	TypeResp  = 1
	TypeData  = 2
	TypeChunk = 3
	TypeDone  = 4
)

var (
	StateIdle = protocol.NewState(1, "Idle")
	StateBusy = protocol.NewState(2, "Busy")
	StateDone = protocol.NewState(3, "Done")
)

type Params struct {
	IdleLimit, BusyLimit     int
	IdleTimeout, BusyTimeout time.Duration
}

func StateMap(p Params) protocol.StateMap {
	return protocol.StateMap{
		StateIdle: protocol.StateMapEntry{
			Agency:                  protocol.AgencyClient,
			Timeout:                 p.IdleTimeout,
			PendingMessageByteLimit: p.IdleLimit,
			Transitions: []protocol.StateTransition{
				{MsgType: TypeReq, NewState: StateBusy},
				{MsgType: TypeData, NewState: StateIdle},
				{MsgType: TypeDone, NewState: StateDone},
			},
		},
		StateBusy: protocol.StateMapEntry{
			Agency:                  protocol.AgencyServer,
			Timeout:                 p.BusyTimeout,
			PendingMessageByteLimit: p.BusyLimit,
			Transitions: []protocol.StateTransition{
				{MsgType: TypeResp, NewState: StateIdle},
				{MsgType: TypeChunk, NewState: StateBusy},
			},
		},
		StateDone: protocol.StateMapEntry{Agency: protocol.AgencyNone},
	}
}

// Msg is the only message shape: [type, n, payload].
type Msg struct {
	protocol.MessageBase
	N       uint64
	Payload []byte
}

func NewMsg(t uint8, n uint64, payload []byte) *Msg {
	return &Msg{MessageBase: protocol.MessageBase{MessageType: t}, N: n, Payload: payload}
}

func FromCbor(msgType uint, data []byte) (protocol.Message, error) {
	if msgType > TypeDone {
		return nil, fmt.Errorf("%s: unknown message type: %d", ProtocolName, msgType)
	}
	m := &Msg{}
	if _, err := cbor.Decode(data, m); err != nil {
		return nil, fmt.Errorf("%s: decode error: %w", ProtocolName, err)
	}
	m.SetCbor(data)
	return m, nil
}

// Encode returns the wire encoding of a message (used by raw peers).
func Encode(t uint8, n uint64, payload []byte) []byte {
	b, err := cbor.Encode(NewMsg(t, n, payload))
	if err != nil {
		panic(err)
	}
	return b
}

func New(m *muxer.Muxer, role protocol.ProtocolRole, p Params, errCh chan error,
	handler protocol.MessageHandlerFunc, recvQueue int) *protocol.Protocol {
	return protocol.New(protocol.ProtocolConfig{
		Name:                ProtocolName,
		ProtocolId:          ProtocolId,
		ErrorChan:           errCh,
		Muxer:               m,
		Mode:                protocol.ProtocolModeNodeToNode,
		Role:                role,
		MessageHandlerFunc:  handler,
		MessageFromCborFunc: FromCbor,
		StateMap:            StateMap(p),
		InitialState:        StateIdle,
		RecvQueueSize:       recvQueue,
	})
}
