// Package deps pins the third-party modules drivers may import, so that
// go.mod does not change while several drivers are being developed.
package deps

import (
	_ "filippo.io/edwards25519"
	_ "github.com/blinklabs-io/ouroboros-mock"
	_ "github.com/blinklabs-io/plutigo/data"
	_ "github.com/btcsuite/btcd/btcutil/base58"
	_ "github.com/btcsuite/btcd/btcutil/bech32"
	_ "github.com/fxamacker/cbor/v2"
	_ "golang.org/x/crypto/blake2b"
)
