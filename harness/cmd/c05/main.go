// c05: address encodings are mutually consistent.
//
// Every case TLC emitted from spec/ledger/Address.tla (header byte x length
// deviation x pointer triple; Byron envelope decision table) is materialised
// with seeded random hashes and run through the real address code:
// NewAddressFromBytes, Bytes, String, NewAddress, Type, NetworkId,
// PaymentKeyHash, StakeKeyHash, the payloads, the CBOR form and
// NewAddressFromParts. The oracle is the spec row: accept/reject, every
// projected field, the bech32 prefix; round trips must be the identity.
package main

import (
	"bytes"
	"encoding/hex"
	"fmt"
	"hash/crc32"
	"math/rand"
	"os"
	"strings"

	"github.com/blinklabs-io/gouroboros/cbor"
	"github.com/blinklabs-io/gouroboros/ledger/common"
	"github.com/btcsuite/btcd/btcutil/base58"
	"github.com/btcsuite/btcd/btcutil/bech32"

	"verifharness/vh"
)

type srow struct {
	H       int      `json:"h"`
	Dev     string   `json:"dev"`
	Ptr     []uint64 `json:"ptr"`
	Wire    []int    `json:"wire"`
	Valid   bool     `json:"valid"`
	Type    int      `json:"type"`
	Net     int      `json:"net"`
	Pay     string   `json:"pay"`
	Stake   string   `json:"stake"`
	Ptrv    []uint64 `json:"ptrv"`
	Extra   int      `json:"extra"`
	PayAt   int      `json:"pay_at"`
	StakeAt int      `json:"stake_at"`
	Hrp     string   `json:"hrp"`
}

type brow struct {
	Outer   string `json:"outer"`
	Wrap    string `json:"wrap"`
	Crc     string `json:"crc"`
	RootLen int    `json:"rootlen"`
	Attr    string `json:"attr"`
	BType   uint64 `json:"btype"`
	Valid   bool   `json:"valid"`
	Type    int    `json:"type"`
	Net     int    `json:"net"`
}

var rep *vh.Reporter

// one report per key, whatever the number of rounds
var reported = map[string]bool{}

func disagree(key, desc string, replay any) {
	if reported[key] {
		return
	}
	reported[key] = true
	rep.Disagree(key, desc, replay)
}

const bech32Charset = "qpzry9x8gf2tvdw0s3jn54khce6mua7l"

func bech(hrp string, data []byte) string {
	conv, err := bech32.ConvertBits(data, 8, 5, true)
	if err != nil {
		rep.Dead("bech32 convert: %v", err)
	}
	s, err := bech32.Encode(hrp, conv)
	if err != nil {
		rep.Dead("bech32 encode: %v", err)
	}
	return s
}

// flipLast replaces the last character by another one of the alphabet
func flipLast(s, alphabet string) string {
	last := s[len(s)-1]
	i := strings.IndexByte(alphabet, last)
	return s[:len(s)-1] + string(alphabet[(i+1)%len(alphabet)])
}

func ptrString(p []uint64) string {
	if len(p) == 0 {
		return "none"
	}
	s := make([]string, len(p))
	for i, v := range p {
		s[i] = fmt.Sprint(v)
	}
	return strings.Join(s, "-")
}

// materialise replaces the spec's tokens by concrete bytes
func materialise(wire []int, pay, stake, junk []byte) []byte {
	out := make([]byte, len(wire))
	var ip, is, ij int
	for i, x := range wire {
		switch {
		case x >= 0 && x <= 255:
			out[i] = byte(x)
		case x == -1:
			out[i] = pay[ip%len(pay)]
			ip++
		case x == -2:
			out[i] = stake[is%len(stake)]
			is++
		case x == -3:
			out[i] = junk[ij%len(junk)]
			ij++
		default:
			rep.Dead("spec emitted wire element %d", x)
		}
	}
	return out
}

func main() {
	rep = vh.NewReporter()
	if len(os.Args) < 3 {
		rep.Dead("usage: c05 cases.ndjson byron.ndjson")
	}
	rng := rand.New(rand.NewSource(vh.Seed()))
	rows, err := vh.ReadNDJSON[srow](os.Args[1])
	if err != nil || len(rows) == 0 {
		rep.Dead("cases: %v (%d rows)", err, len(rows))
	}
	brows, err := vh.ReadNDJSON[brow](os.Args[2])
	if err != nil || len(brows) == 0 {
		rep.Dead("byron cases: %v (%d rows)", err, len(brows))
	}
	rounds := 2
	if vh.Tier() == "thorough" {
		rounds = 6
	}
	rnd := func(n int) []byte {
		b := make([]byte, n)
		rng.Read(b)
		return b
	}
	zero28 := make([]byte, 28)
	counts := map[string]int{}

	// ------------------------------------------------------------ Shelley family
	for _, c := range rows {
		base := fmt.Sprintf("shelley:h=%02x:dev=%s:ptr=%s", c.H, c.Dev, ptrString(c.Ptr))
		for round := 0; round < rounds; round++ {
			pay, stake, junk := rnd(28), rnd(28), rnd(28)
			switch round {
			case 1: // extremes: the all-zero hash is also what the accessors return for "absent"
				pay, stake = make([]byte, 28), bytes.Repeat([]byte{0xff}, 28)
			case 2:
				pay, stake = bytes.Repeat([]byte{0xff}, 28), make([]byte, 28)
			}
			b := materialise(c.Wire, pay, stake, junk)
			replay := map[string]any{"bytes_hex": hex.EncodeToString(b), "row": c, "round": round}
			bad := func(aspect, format string, a ...any) {
				disagree(base+":check="+aspect, fmt.Sprintf(format, a...)+fmt.Sprintf(" [bytes %x]", b), replay)
			}
			rep.Guard(base, replay, func() {
				rep.Case(base, true)
				addr, err := common.NewAddressFromBytes(b)
				if (err == nil) != c.Valid {
					if c.Valid {
						bad("accept", "NewAddressFromBytes rejects a valid address: %v", err)
					} else {
						bad("accept", "NewAddressFromBytes accepts an address the specification rejects (type %d, network %d, length %d)",
							c.H>>4, c.H&15, len(b))
					}
				}
				if c.Valid {
					counts["valid"]++
				} else {
					counts["invalid"]++
				}
				if c.Valid && err == nil {
					checkValidShelley(c, b, addr, bad)
				}
				if round > 0 {
					return
				}
				// text forms: a bech32 string is accepted iff the bytes are valid and the
				// prefix is the one the specification assigns to (type, network)
				for _, hrp := range []string{"addr", "addr_test", "stake", "stake_test", "foo"} {
					s := bech(hrp, b)
					_, err := common.NewAddress(s)
					want := c.Valid && hrp == c.Hrp
					counts["text"]++
					if (err == nil) != want {
						if want {
							bad("text:hrp="+hrp, "NewAddress(%q) rejected: %v", s, err)
						} else {
							bad("text:hrp="+hrp, "NewAddress(%q) accepted; the specification's prefix is %q (valid=%v)", s, c.Hrp, c.Valid)
						}
					}
				}
				if c.Valid {
					s := flipLast(bech(c.Hrp, b), bech32Charset)
					if _, err := common.NewAddress(s); err == nil {
						bad("text:checksum", "NewAddress(%q) accepted a string with a corrupted checksum", s)
					}
				}
			})
		}
	}

	// ------------------------------------------------------------ Byron
	for _, c := range brows {
		base := fmt.Sprintf("byron:outer=%s:wrap=%s:crc=%s:rootlen=%d:attr=%s:btype=%d", c.Outer, c.Wrap, c.Crc, c.RootLen, c.Attr, c.BType)
		for round := 0; round < rounds; round++ {
			root := rnd(c.RootLen)
			attr := common.ByronAddressAttributes{}
			if c.Attr == "path" || c.Attr == "both" {
				attr.Payload = rnd(1 + rng.Intn(40))
			}
			if c.Attr == "magic" || c.Attr == "both" {
				m := []uint32{0, 1, 42, 1097911063, 0xffffffff}[rng.Intn(5)]
				attr.Network = &m
			}
			payload, err := cbor.Encode([]any{root, attr, c.BType})
			if err != nil {
				rep.Dead("byron payload: %v", err)
			}
			var wrapped any
			switch c.Wrap {
			case "tag24":
				wrapped = cbor.Tag{Number: 24, Content: payload}
			case "tag25":
				wrapped = cbor.Tag{Number: 25, Content: payload}
			default:
				wrapped = payload
			}
			crc := crc32.ChecksumIEEE(payload)
			if c.Crc == "bad" {
				crc ^= 1 << uint(rng.Intn(32))
			}
			var outer []any
			switch c.Outer {
			case "arr2":
				outer = []any{wrapped, crc}
			case "arr1":
				outer = []any{wrapped}
			default:
				outer = []any{wrapped, crc, 0}
			}
			b, err := cbor.Encode(outer)
			if err != nil {
				rep.Dead("byron envelope: %v", err)
			}
			if int(b[0]>>4) != c.Type {
				rep.Dead("byron envelope %x does not start with type nibble %d", b, c.Type)
			}
			replay := map[string]any{"bytes_hex": hex.EncodeToString(b), "row": c, "round": round}
			bad := func(aspect, format string, a ...any) {
				disagree(base+":check="+aspect, fmt.Sprintf(format, a...)+fmt.Sprintf(" [bytes %x]", b), replay)
			}
			rep.Guard(base, replay, func() {
				rep.Case(base, true)
				counts["byron"]++
				addr, err := common.NewAddressFromBytes(b)
				if (err == nil) != c.Valid {
					if c.Valid {
						bad("accept", "NewAddressFromBytes rejects a valid Byron address: %v", err)
					} else {
						bad("accept", "NewAddressFromBytes accepts a Byron envelope the specification rejects")
					}
				}
				s58 := base58.Encode(b)
				a2, err2 := common.NewAddress(s58)
				if (err2 == nil) != c.Valid {
					bad("text:base58", "NewAddress(base58) accept=%v, specification valid=%v (%v)", err2 == nil, c.Valid, err2)
				}
				// a Byron address has no bech32 prefix at all
				if _, err := common.NewAddress(bech("addr", b)); err == nil {
					bad("text:bech32", "NewAddress accepts a Byron address in bech32 with prefix addr")
				}
				if !c.Valid || err != nil {
					return
				}
				if int(addr.Type()) != c.Type {
					bad("type", "Type() = %d, want %d", addr.Type(), c.Type)
				}
				if int(addr.NetworkId()) != c.Net {
					bad("network", "NetworkId() = %d, want %d (attributes %s)", addr.NetworkId(), c.Net, c.Attr)
				}
				if addr.ByronType() != c.BType {
					bad("byrontype", "ByronType() = %d, want %d", addr.ByronType(), c.BType)
				}
				if h := addr.PaymentKeyHash(); !bytes.Equal(h.Bytes(), root) {
					bad("root", "PaymentKeyHash() = %x, want the address root %x", h.Bytes(), root)
				}
				back, err := addr.Bytes()
				if err != nil || !bytes.Equal(back, b) {
					bad("bytes", "Bytes() = %x (%v), not the input", back, err)
				}
				if got := addr.String(); got != s58 {
					bad("string", "String() = %q, want base58 %q", got, s58)
				}
				if err2 == nil {
					if back2, err := a2.Bytes(); err != nil || !bytes.Equal(back2, b) {
						bad("text:roundtrip", "NewAddress(String()).Bytes() = %x (%v), not the input", back2, err)
					}
				}
				if round == 0 {
					mut := flipLast(s58, "123456789ABCDEFGHJKLMNPQRSTUVWXYZabcdefghijkmnopqrstuvwxyz")
					if _, err := common.NewAddress(mut); err == nil {
						bad("text:corrupt", "NewAddress(%q) accepts a corrupted base58 string", mut)
					}
				}
			})
		}
	}

	for _, k := range []string{"valid", "invalid", "text", "byron"} {
		rep.Extra["c05_"+k+"_evaluations"] = counts[k]
	}
	rep.Extra["rounds_per_case"] = rounds
	rep.Extra["note"] = "padded (non-minimal) pointer varints decode and re-encode minimally; they are outside the property's domain (minimal varints) and are not judged; bech32/base58 character-level fidelity is exercised through the btcutil codecs, not specified"
	// a real-case sample
	for _, c := range rows {
		if c.Valid && c.Stake == "pointer" && c.Dev == "exact" {
			b := materialise(c.Wire, zero28, zero28, zero28)
			if a, err := common.NewAddressFromBytes(b); err == nil {
				rep.Sample(map[string]any{"h": c.H, "ptr": c.Ptr, "spec_hrp": c.Hrp, "bytes": hex.EncodeToString(b), "string": a.String()})
				break
			}
		}
	}
	for _, c := range rows {
		if !c.Valid && c.Dev == "wl3" && c.H == 0x60 {
			rep.Sample(map[string]any{"h": c.H, "dev": c.Dev, "spec_valid": c.Valid, "why": "whitelisted trailer on testnet"})
			break
		}
	}
	rep.Finish()
}

func checkValidShelley(c srow, b []byte, addr common.Address, bad func(aspect, format string, a ...any)) {
	if int(addr.Type()) != c.Type {
		bad("type", "Type() = %d, want %d", addr.Type(), c.Type)
	}
	if int(addr.NetworkId()) != c.Net {
		bad("network", "NetworkId() = %d, want %d", addr.NetworkId(), c.Net)
	}
	// payment part
	wantPay := make([]byte, 28)
	if c.PayAt > 0 {
		copy(wantPay, b[c.PayAt-1:c.PayAt-1+28])
	}
	if h := addr.PaymentKeyHash(); !bytes.Equal(h.Bytes(), wantPay) {
		bad("payhash", "PaymentKeyHash() = %x, want %x (payment %s)", h.Bytes(), wantPay, c.Pay)
	}
	switch p := addr.PayloadPayload().(type) {
	case common.AddressPayloadKeyHash:
		if c.Pay != "key" {
			bad("paykind", "payment payload is a key hash, the specification says %s", c.Pay)
		}
	case common.AddressPayloadScriptHash:
		if c.Pay != "script" {
			bad("paykind", "payment payload is a script hash, the specification says %s", c.Pay)
		}
	case nil:
		if c.Pay != "none" {
			bad("paykind", "no payment payload, the specification says %s", c.Pay)
		}
	default:
		bad("paykind", "payment payload %T, the specification says %s", p, c.Pay)
	}
	// stake part
	wantStake := make([]byte, 28)
	if c.StakeAt > 0 {
		copy(wantStake, b[c.StakeAt-1:c.StakeAt-1+28])
	}
	if h := addr.StakeKeyHash(); !bytes.Equal(h.Bytes(), wantStake) {
		bad("stakehash", "StakeKeyHash() = %x, want %x (stake %s)", h.Bytes(), wantStake, c.Stake)
	}
	switch p := addr.StakingPayload().(type) {
	case common.AddressPayloadKeyHash:
		if c.Stake != "key" {
			bad("stakekind", "staking payload is a key hash, the specification says %s", c.Stake)
		}
	case common.AddressPayloadScriptHash:
		if c.Stake != "script" {
			bad("stakekind", "staking payload is a script hash, the specification says %s", c.Stake)
		}
	case common.AddressPayloadPointer:
		if c.Stake != "pointer" || len(c.Ptrv) != 3 {
			bad("stakekind", "staking payload is a pointer, the specification says %s", c.Stake)
		} else if p.Slot != c.Ptrv[0] || p.TxIndex != c.Ptrv[1] || p.CertIndex != c.Ptrv[2] {
			bad("pointer", "pointer = (%d, %d, %d), want %v", p.Slot, p.TxIndex, p.CertIndex, c.Ptrv)
		}
	case nil:
		if c.Stake != "none" {
			bad("stakekind", "no staking payload, the specification says %s", c.Stake)
		}
	default:
		bad("stakekind", "staking payload %T, the specification says %s", p, c.Stake)
	}
	cred, hasCred := addr.StakeCredential()
	if hasCred != (c.Stake == "key" || c.Stake == "script") {
		bad("stakecred", "StakeCredential() present=%v, stake part is %s", hasCred, c.Stake)
	} else if hasCred {
		wantType := uint(common.CredentialTypeAddrKeyHash)
		if c.Stake == "script" {
			wantType = common.CredentialTypeScriptHash
		}
		if cred.CredType != wantType || !bytes.Equal(cred.Credential.Bytes(), wantStake) {
			bad("stakecred", "StakeCredential() = (%d, %x), want (%d, %x)", cred.CredType, cred.Credential.Bytes(), wantType, wantStake)
		}
	}
	// bytes -> address -> bytes
	back, err := addr.Bytes()
	if err != nil || !bytes.Equal(back, b) {
		bad("bytes", "Bytes() = %x (%v), not the input", back, err)
	}
	// address -> text -> address
	s := addr.String()
	if !strings.HasPrefix(s, c.Hrp+"1") {
		bad("string", "String() = %q, the specification's prefix is %q", s, c.Hrp)
	}
	if want := bech(c.Hrp, b); s != want {
		bad("string", "String() = %q, want %q", s, want)
	}
	if a2, err := common.NewAddress(s); err != nil {
		bad("text:roundtrip", "NewAddress(String()) fails: %v", err)
	} else if back2, err := a2.Bytes(); err != nil || !bytes.Equal(back2, b) {
		bad("text:roundtrip", "NewAddress(String()).Bytes() = %x (%v), not the input", back2, err)
	}
	// CBOR form
	if enc, err := cbor.Encode(&addr); err != nil {
		bad("cbor", "MarshalCBOR: %v", err)
	} else {
		var a3 common.Address
		if _, err := cbor.Decode(enc, &a3); err != nil {
			bad("cbor", "UnmarshalCBOR(MarshalCBOR()) fails: %v", err)
		} else if back3, err := a3.Bytes(); err != nil || !bytes.Equal(back3, b) {
			bad("cbor", "CBOR round trip gives %x (%v)", back3, err)
		}
	}
	// the parts constructor (no way to pass trailing bytes for the hash-only layouts)
	if c.Extra == 0 {
		var payPart, stakePart []byte
		if c.PayAt > 0 {
			payPart = wantPay
		}
		if c.StakeAt > 0 {
			stakePart = wantStake
		} else if c.Stake == "pointer" {
			stakePart = b[1+28:]
		}
		a4, err := common.NewAddressFromParts(uint8(c.Type), uint8(c.Net), payPart, stakePart)
		if err != nil {
			bad("parts", "NewAddressFromParts(%d, %d, ...) fails: %v", c.Type, c.Net, err)
		} else if back4, err := a4.Bytes(); err != nil || !bytes.Equal(back4, b) {
			bad("parts", "NewAddressFromParts(...).Bytes() = %x (%v), not the input", back4, err)
		}
	}
}
