// c31: binds spec/ledger/LangViews.tla to the real code.
//
//	views  every (language set, cost-model shape) of views.ndjson: the spec's
//	       token sequence is rendered to bytes by the small independent writer
//	       below (with concrete int64 cost-model parameters chosen by the driver:
//	       every CBOR integer width, negatives, extremes, seeded random) and
//	       compared with common.EncodeLangViews.
//	rules  every row of the decision table in rules.ndjson becomes a real
//	       Alonzo / Babbage / Conway / Dijkstra transaction (CBOR written here,
//	       decoded by the era's decoder) whose witness set carries Plutus scripts
//	       of exactly the languages of the row, redeemers and datums in a
//	       non-canonical original encoding, and whose body declares the hash the
//	       row names, computed here with Blake2b-256 over the bytes the row's term
//	       stands for.  The era's UtxoValidateScriptDataHash and every entry of
//	       its UtxoValidationRules are run; the expected verdict is the row's.
//	       Rows with p2 = true are executed on a transaction flagged is_valid =
//	       false, the way flag.ndjson says the era carries the flag (third
//	       element of the envelope false; Dijkstra: the flag the block decoder
//	       sets for a member of invalid_transactions); their keys end in
//	       ":p2invalid".  Rows with an explicit encoding shape (rform/renc for the
//	       redeemers, denc for the datums) are built with exactly that shape on
//	       the wire - non-minimal heads, indefinite containers, map keys out of
//	       order, a redeemer map with a repeated key - and the hash the row
//	       names is computed over those original bytes or over the canonical
//	       re-encoding of what they decode to; keys carry ":renc=" / ":denc=".
package main

import (
	"bytes"
	"encoding/binary"
	"encoding/json"
	"errors"
	"fmt"
	"math"
	"math/rand"
	"os"
	"reflect"
	"runtime"
	"sort"
	"strings"

	"github.com/blinklabs-io/gouroboros/ledger/alonzo"
	"github.com/blinklabs-io/gouroboros/ledger/babbage"
	"github.com/blinklabs-io/gouroboros/ledger/common"
	"github.com/blinklabs-io/gouroboros/ledger/conway"
	"github.com/blinklabs-io/gouroboros/ledger/dijkstra"
	"github.com/blinklabs-io/gouroboros/ledger/shelley"
	mockledger "github.com/blinklabs-io/ouroboros-mock/ledger"
	"golang.org/x/crypto/blake2b"

	"verifharness/vh"
)

// ---------------------------------------------------------------- rows

type viewRow struct {
	L       []int           `json:"L"`
	Shape   string          `json:"shape"`
	Variant string          `json:"variant"`
	Lens    []int           `json:"lens"`
	Tokens  json.RawMessage `json:"tokens"`
}

type ruleRow struct {
	L           []int    `json:"L"`
	Shape       string   `json:"shape"`
	Red         bool     `json:"red"`
	Datf        string   `json:"datf"` // absent | emptyList | emptySet | list | set
	Dat         bool     `json:"dat"`  // the datum collection is non-empty
	Decl        string   `json:"decl"`
	DeclRed     string   `json:"declRed"`
	DeclDat     string   `json:"declDat"`
	DeclL       []int    `json:"declL"`
	DeclVariant string   `json:"declVariant"`
	Eras        []string `json:"eras"`
	Accept      bool     `json:"accept"`
	Reason      string   `json:"reason"`
	P2          bool     `json:"p2"`      // the transaction is flagged is_valid = false
	Binding     string   `json:"binding"` // both | rejectOnly (a flagged transaction without redeemers: see Admissible in the spec)
	RForm       string   `json:"rform"`   // any | list | map
	REnc        string   `json:"renc"`    // any | canon | wide | indef | unordered | dupKey
	DEnc        string   `json:"denc"`    // any | canon | wide | indef
}

type flagRow struct {
	Era     string `json:"era"`
	Carrier string `json:"carrier"` // envelope | blockSet
}

func lkey(L []int) string {
	if len(L) == 0 {
		return "-"
	}
	s := make([]string, len(L))
	for i, l := range L {
		s[i] = fmt.Sprint(l)
	}
	return strings.Join(s, ",")
}

func viewKey(L []int, shape, variant string) string { return lkey(L) + "|" + shape + "|" + variant }

// ---------------------------------------------------------------- independent CBOR writer

type enc struct{ b []byte }

func (e *enc) head(m byte, n uint64) {
	switch {
	case n < 24:
		e.b = append(e.b, m<<5|byte(n))
	case n <= 0xff:
		e.b = append(e.b, m<<5|24, byte(n))
	case n <= 0xffff:
		e.b = append(e.b, m<<5|25)
		e.b = binary.BigEndian.AppendUint16(e.b, uint16(n))
	case n <= 0xffffffff:
		e.b = append(e.b, m<<5|26)
		e.b = binary.BigEndian.AppendUint32(e.b, uint32(n))
	default:
		e.b = append(e.b, m<<5|27)
		e.b = binary.BigEndian.AppendUint64(e.b, n)
	}
}

// headW writes a head in exactly w bytes (2, 3, 5, 9): a non-canonical form.
func (e *enc) headW(m byte, n uint64, w int) {
	switch w {
	case 2:
		e.b = append(e.b, m<<5|24, byte(n))
	case 3:
		e.b = append(e.b, m<<5|25)
		e.b = binary.BigEndian.AppendUint16(e.b, uint16(n))
	case 5:
		e.b = append(e.b, m<<5|26)
		e.b = binary.BigEndian.AppendUint32(e.b, uint32(n))
	case 9:
		e.b = append(e.b, m<<5|27)
		e.b = binary.BigEndian.AppendUint64(e.b, n)
	default:
		panic("headW")
	}
}
func (e *enc) uint(n uint64) { e.head(0, n) }
func (e *enc) int(v int64) {
	if v >= 0 {
		e.head(0, uint64(v))
	} else {
		e.head(1, uint64(-(v + 1)))
	}
}
func (e *enc) bytes(b []byte) { e.head(2, uint64(len(b))); e.b = append(e.b, b...) }
func (e *enc) array(n int)    { e.head(4, uint64(n)) }
func (e *enc) mapn(n int)     { e.head(5, uint64(n)) }
func (e *enc) tag(n uint64)   { e.head(6, n) }
func (e *enc) raw(b []byte)   { e.b = append(e.b, b...) }

// render turns a token sequence of the specification into bytes.
func render(raw json.RawMessage, cm map[int][]int64) ([]byte, error) {
	var toks []json.RawMessage
	if err := json.Unmarshal(raw, &toks); err != nil {
		return nil, err
	}
	e := &enc{}
	for _, t := range toks {
		var parts []json.RawMessage
		if err := json.Unmarshal(t, &parts); err != nil || len(parts) == 0 {
			return nil, fmt.Errorf("bad token %s", t)
		}
		var name string
		if err := json.Unmarshal(parts[0], &name); err != nil {
			return nil, err
		}
		num := func(i int) (int, error) {
			var n int
			if i >= len(parts) {
				return 0, fmt.Errorf("token %s: missing argument", t)
			}
			err := json.Unmarshal(parts[i], &n)
			return n, err
		}
		switch name {
		case "map":
			n, err := num(1)
			if err != nil {
				return nil, err
			}
			e.mapn(n)
		case "array":
			n, err := num(1)
			if err != nil {
				return nil, err
			}
			e.array(n)
		case "uint":
			n, err := num(1)
			if err != nil {
				return nil, err
			}
			e.uint(uint64(n))
		case "indef":
			e.b = append(e.b, 0x9f)
		case "break":
			e.b = append(e.b, 0xff)
		case "param", "alt":
			l, err := num(1)
			if err != nil {
				return nil, err
			}
			i, err := num(2)
			if err != nil {
				return nil, err
			}
			if i < 1 || i > len(cm[l]) {
				return nil, fmt.Errorf("token %s: language %d has %d parameters", t, l, len(cm[l]))
			}
			v := cm[l][i-1]
			if name == "alt" {
				if v == math.MaxInt64 {
					v--
				} else {
					v++
				}
			}
			e.int(v)
		case "bstr":
			if len(parts) < 2 {
				return nil, fmt.Errorf("token %s: missing content", t)
			}
			inner, err := render(parts[1], cm)
			if err != nil {
				return nil, err
			}
			e.bytes(inner)
		default:
			return nil, fmt.Errorf("unknown token %q", name)
		}
	}
	return e.b, nil
}

// ---------------------------------------------------------------- cost models

var extremes = []int64{0, 23, 24, 255, 256, 65535, 65536, math.MaxUint32, math.MaxUint32 + 1, math.MaxInt64,
	-1, -24, -25, -256, -257, -65536, -65537, -math.MaxUint32 - 1, -math.MaxUint32 - 2, math.MinInt64, 1, 100, 1000, 100000}

// costModels gives every language 0..3 its parameters for a shape; round 0 walks
// the extremes of every integer width, later rounds are seeded random.
func costModels(lens []int, round int, rng *rand.Rand) map[int][]int64 {
	cm := map[int][]int64{}
	for l := 0; l < 4; l++ {
		n := 0
		if l < len(lens) {
			n = lens[l]
		}
		ps := make([]int64, n)
		for i := range ps {
			switch {
			case round == 0:
				ps[i] = extremes[(i+7*l)%len(extremes)]
			case round == 1:
				// realistic magnitudes
				ps[i] = rng.Int63n(1 << uint(1+rng.Intn(34)))
			default:
				ps[i] = int64(rng.Uint64()) >> uint(rng.Intn(64))
			}
		}
		cm[l] = ps
	}
	return cm
}

func toUintMap(cm map[int][]int64, only []int) map[uint][]int64 {
	out := map[uint][]int64{}
	if only == nil {
		for l, ps := range cm {
			out[uint(l)] = ps
		}
		return out
	}
	for _, l := range only {
		out[uint(l)] = cm[l]
	}
	return out
}

// ---------------------------------------------------------------- views

func viewsMode(rep *vh.Reporter, rng *rand.Rand, path string) {
	rows, err := vh.ReadNDJSON[viewRow](path)
	if err != nil || len(rows) == 0 {
		rep.Dead("views %s: %v (%d rows)", path, err, len(rows))
	}
	sort.SliceStable(rows, func(i, j int) bool {
		return viewKey(rows[i].L, rows[i].Shape, rows[i].Variant) < viewKey(rows[j].L, rows[j].Shape, rows[j].Variant)
	})
	rounds := 4
	if vh.Tier() == "thorough" {
		rounds = 40
	}
	sampled := 0
	variantsDiffer := 0
	spec := map[string][]byte{}
	for _, r := range rows {
		if r.Variant != "spec" {
			continue
		}
		for round := 0; round < rounds; round++ {
			cm := costModels(r.Lens, round, rng)
			want, err := render(r.Tokens, cm)
			if err != nil {
				rep.Dead("render %s: %v", viewKey(r.L, r.Shape, r.Variant), err)
			}
			if round == 0 {
				spec[viewKey(r.L, r.Shape, "spec")] = want
			}
			used := map[uint]struct{}{}
			for _, l := range r.L {
				used[uint(l)] = struct{}{}
			}
			for _, full := range []bool{false, true} {
				which := "exact"
				var models map[uint][]int64
				if full {
					which = "all"
					models = toUintMap(cm, nil) // cost models of unused languages must not matter
				} else {
					models = toUintMap(cm, r.L)
				}
				key := fmt.Sprintf("lv:L=%s:shape=%s:vals=%d:models=%s", lkey(r.L), r.Shape, round, which)
				replay := map[string]any{"L": r.L, "shape": r.Shape, "tokens": r.Tokens, "cost_models": cm, "want": fmt.Sprintf("%x", want)}
				rep.Guard(key, replay, func() {
					got, err := common.EncodeLangViews(used, models)
					rep.Case(key, true)
					if err != nil {
						rep.Disagree(key, fmt.Sprintf("EncodeLangViews(%v) failed: %v", r.L, err), replay)
						return
					}
					if !bytes.Equal(got, want) {
						replay["got"] = fmt.Sprintf("%x", got)
						rep.Disagree(key, fmt.Sprintf("EncodeLangViews(languages %v, shape %s) = %x..., the specification's tokens render to %x... (first difference at byte %d of %d/%d)",
							r.L, r.Shape, head(got, 24), head(want, 24), firstDiff(got, want), len(got), len(want)), replay)
					}
					if sampled < 2 && len(r.L) == 3 && r.Shape == "short" && round == 0 {
						sampled++
						rep.Sample(map[string]any{"case": key, "tokens": r.Tokens, "rendered": fmt.Sprintf("%x", want), "EncodeLangViews": fmt.Sprintf("%x", got)})
					}
				})
			}
		}
	}
	// the writer separates the near-miss variants from the specification's value
	// (otherwise the rule rows built on them would be vacuous)
	for _, r := range rows {
		if r.Variant == "spec" {
			continue
		}
		cm := costModels(r.Lens, 0, rng)
		b, err := render(r.Tokens, cm)
		if err != nil {
			rep.Dead("render %s: %v", viewKey(r.L, r.Shape, r.Variant), err)
		}
		if !bytes.Equal(b, spec[viewKey(r.L, r.Shape, "spec")]) {
			variantsDiffer++
		}
	}
	rep.Extra["views_near_miss_variants_rendering_differently"] = variantsDiffer
	rep.Extra["views_value_rounds"] = rounds
}

func head(b []byte, n int) []byte {
	if len(b) > n {
		return b[:n]
	}
	return b
}

func firstDiff(a, b []byte) int {
	for i := 0; i < len(a) && i < len(b); i++ {
		if a[i] != b[i] {
			return i
		}
	}
	if len(a) < len(b) {
		return len(a)
	}
	return len(b)
}

// ---------------------------------------------------------------- eras

type ruleFn = common.UtxoValidationRuleFunc

type eraDef struct {
	name      string
	langs     int // languages 0..langs-1 can be carried in the witness set
	decodeTx  func([]byte) (common.Transaction, error)
	pparams   func(cm map[uint][]int64, alt bool) common.ProtocolParameters
	rule      ruleFn
	rules     []ruleFn
	redForms  []string // legal redeemer encodings
	setTags   bool     // tag-258 sets exist
	emptyReds []byte   // encoding of "no redeemers" that enters the hash
}

func eras() []*eraDef {
	return []*eraDef{
		{
			name: "alonzo", langs: 1,
			decodeTx: func(b []byte) (common.Transaction, error) { return alonzo.NewAlonzoTransactionFromCbor(b) },
			pparams: func(cm map[uint][]int64, _ bool) common.ProtocolParameters {
				return &alonzo.AlonzoProtocolParameters{CostModels: cm}
			},
			rule: alonzo.UtxoValidateScriptDataHash, rules: alonzo.UtxoValidationRules,
			redForms: []string{"list-indef", "list-wide", "list"}, emptyReds: []byte{0x80},
		},
		{
			name: "babbage", langs: 2,
			decodeTx: func(b []byte) (common.Transaction, error) { return babbage.NewBabbageTransactionFromCbor(b) },
			pparams: func(cm map[uint][]int64, _ bool) common.ProtocolParameters {
				return &babbage.BabbageProtocolParameters{CostModels: cm}
			},
			rule: babbage.UtxoValidateScriptDataHash, rules: babbage.UtxoValidationRules,
			redForms: []string{"list-indef", "list-wide", "list"}, emptyReds: []byte{0x80},
		},
		{
			name: "conway", langs: 3,
			decodeTx: func(b []byte) (common.Transaction, error) { return conway.NewConwayTransactionFromCbor(b) },
			pparams: func(cm map[uint][]int64, _ bool) common.ProtocolParameters {
				return &conway.ConwayProtocolParameters{CostModels: cm,
					ProtocolVersion: common.ProtocolParametersProtocolVersion{Major: 10}}
			},
			rule: conway.UtxoValidateScriptDataHash, rules: conway.UtxoValidationRules,
			redForms: []string{"map-wide", "map-indef", "list-indef", "list-wide", "map", "list"}, setTags: true, emptyReds: []byte{0xa0},
		},
		{
			name: "dijkstra", langs: 4,
			decodeTx: func(b []byte) (common.Transaction, error) { return dijkstra.NewDijkstraTransactionFromCbor(b) },
			pparams: func(cm map[uint][]int64, alt bool) common.ProtocolParameters {
				cp := conway.ConwayProtocolParameters{CostModels: cm,
					ProtocolVersion: common.ProtocolParametersProtocolVersion{Major: 12}}
				if alt {
					return &cp
				}
				return &dijkstra.DijkstraProtocolParameters{ConwayProtocolParameters: cp}
			},
			rule: dijkstra.UtxoValidateScriptDataHash, rules: dijkstra.UtxoValidationRules,
			redForms: []string{"map-wide", "map-indef", "map"}, setTags: true, emptyReds: []byte{0xa0},
		},
	}
}

func ruleName(f ruleFn) string {
	fn := runtime.FuncForPC(reflect.ValueOf(f).Pointer())
	if fn == nil {
		return "?"
	}
	return fn.Name()
}

// ---------------------------------------------------------------- witness data

var (
	spendTxId = fill(32, 0x5E)
	payAddr   = append([]byte{0x61}, fill(28, 0x11)...)
)

func fill(n int, v byte) []byte {
	b := make([]byte, n)
	for i := range b {
		b[i] = v
	}
	return b
}

// redeemers returns (original bytes, canonical re-encoding) of one spending
// redeemer (index 0, datum 42, ex units 1000 / 1000000) in the given form.
func redeemers(form string) (orig, canon []byte) {
	list := func(indef, wide bool) []byte {
		e := &enc{}
		if indef {
			e.b = append(e.b, 0x9f)
		} else {
			e.array(1)
		}
		e.array(4)
		e.uint(0)
		if wide {
			e.headW(0, 0, 2)
			e.headW(0, 42, 3)
		} else {
			e.uint(0)
			e.uint(42)
		}
		e.array(2)
		if wide {
			e.headW(0, 1000, 5)
		} else {
			e.uint(1000)
		}
		e.uint(1_000_000)
		if indef {
			e.b = append(e.b, 0xff)
		}
		return e.b
	}
	mp := func(indef, wide bool) []byte {
		e := &enc{}
		switch {
		case indef:
			e.b = append(e.b, 0xbf)
		case wide:
			e.headW(5, 1, 2)
		default:
			e.mapn(1)
		}
		e.array(2)
		e.uint(0)
		if wide {
			e.headW(0, 0, 2)
		} else {
			e.uint(0)
		}
		e.array(2)
		if wide {
			e.headW(0, 42, 3)
		} else {
			e.uint(42)
		}
		e.array(2)
		e.uint(1000)
		if wide {
			e.headW(0, 1_000_000, 9)
		} else {
			e.uint(1_000_000)
		}
		if indef {
			e.b = append(e.b, 0xff)
		}
		return e.b
	}
	// two entries { [0,k1]: [v1, ex], [0,k2]: [v2, ex] }, minimal heads
	mp2 := func(k1, v1, k2, v2 uint64) []byte {
		e := &enc{}
		e.mapn(2)
		for _, kv := range [][2]uint64{{k1, v1}, {k2, v2}} {
			e.array(2)
			e.uint(0)
			e.uint(kv[0])
			e.array(2)
			e.uint(kv[1])
			e.array(2)
			e.uint(1000)
			e.uint(1_000_000)
		}
		return e.b
	}
	mp1 := func(k, v uint64) []byte {
		e := &enc{}
		e.mapn(1)
		e.array(2)
		e.uint(0)
		e.uint(k)
		e.array(2)
		e.uint(v)
		e.array(2)
		e.uint(1000)
		e.uint(1_000_000)
		return e.b
	}
	switch form {
	case "map-unordered":
		// keys (spend, 1) before (spend, 0); canonically (spend, 0) comes first
		return mp2(1, 42, 0, 43), mp2(0, 43, 1, 42)
	case "map-dupKey":
		// the key (spend, 0) twice; decoded last-wins, the re-encoding has the last entry only
		return mp2(0, 42, 0, 43), mp1(0, 43)
	case "list":
		return list(false, false), list(false, false)
	case "list-indef":
		return list(true, false), list(false, false)
	case "list-wide":
		return list(false, true), list(false, false)
	case "map":
		return mp(false, false), mp(false, false)
	case "map-indef":
		return mp(true, false), mp(false, false)
	case "map-wide":
		return mp(false, true), mp(false, false)
	}
	panic("bad redeemer form " + form)
}

// datums returns (original bytes, canonical re-encoding) of the datum list
// [42, h'beef'] in the given form; tagged = wrapped in tag 258.
func datums(form string, tagged bool) (orig, canon []byte) {
	mk := func(indef, wide bool) []byte {
		e := &enc{}
		if tagged {
			e.tag(258)
		}
		if indef {
			e.b = append(e.b, 0x9f)
		} else {
			e.array(2)
		}
		if wide {
			e.headW(0, 42, 3)
		} else {
			e.uint(42)
		}
		e.bytes([]byte{0xbe, 0xef})
		if indef {
			e.b = append(e.b, 0xff)
		}
		return e.b
	}
	switch form {
	case "plain":
		return mk(false, false), mk(false, false)
	case "indef":
		return mk(true, false), mk(false, false)
	case "wide":
		return mk(false, true), mk(false, false)
	}
	panic("bad datum form " + form)
}

var scriptBytes = [][]byte{
	{0x4e, 0x4d, 0x01, 0x00, 0x00, 0x33, 0x22, 0x22, 0x20, 0x05, 0x12, 0x00, 0x12, 0x00, 0x11},
	{0x46, 0x01, 0x00, 0x00, 0x22, 0x49, 0x81},
	{0x46, 0x01, 0x01, 0x00, 0x22, 0x49, 0x82},
	{0x46, 0x01, 0x01, 0x00, 0x22, 0x49, 0x83},
}

var witnessKeyOfLang = []uint64{3, 6, 7, 8}

type txShape struct {
	L        []int
	red      bool
	dat      bool
	redForm  string
	datForm  string
	datField []byte // the bytes under witness-set key 4 (nil: no key 4)
	tagged   bool   // tag-258 sets for the scripts in the witness set
	declared []byte
}

// buildTx returns the encoded body followed by the encoded witness set.
func buildTx(s *txShape) []byte {
	b := &enc{}
	n := 3
	if s.declared != nil {
		n++
	}
	b.mapn(n)
	b.uint(0)
	b.array(1)
	b.array(2)
	b.bytes(spendTxId)
	b.uint(0)
	b.uint(1)
	b.array(1)
	b.array(2)
	b.bytes(payAddr)
	b.uint(2_000_000)
	b.uint(2)
	b.uint(200_000)
	if s.declared != nil {
		b.uint(11)
		b.bytes(s.declared)
	}

	has := map[int]bool{}
	for _, l := range s.L {
		has[l] = true
	}
	type ent struct {
		key uint64
		val []byte
	}
	var ents []ent
	for l := 0; l < 4; l++ {
		if !has[l] {
			continue
		}
		e := &enc{}
		if s.tagged {
			e.tag(258)
		}
		e.array(1)
		e.raw(scriptBytes[l]) // a CBOR byte string
		ents = append(ents, ent{witnessKeyOfLang[l], e.b})
	}
	if s.datField != nil {
		ents = append(ents, ent{4, s.datField})
	}
	if s.red {
		o, _ := redeemers(s.redForm)
		ents = append(ents, ent{5, o})
	}
	sort.Slice(ents, func(i, j int) bool { return ents[i].key < ents[j].key })
	w := &enc{}
	w.mapn(len(ents))
	for _, x := range ents {
		w.uint(x.key)
		w.raw(x.val)
	}
	return append(b.b, w.b...) // body followed by witness set; envelope() adds the rest
}

// envelope wraps body and witness set; isValid is the third element of the
// four-element form (the three-element form of Dijkstra has none).
func envelope(era *eraDef, bodyAndWits []byte, three, isValid bool) []byte {
	t := &enc{}
	if three {
		t.array(3)
		t.raw(bodyAndWits)
		t.b = append(t.b, 0xf6)
		return t.b
	}
	t.array(4)
	t.raw(bodyAndWits)
	if isValid {
		t.b = append(t.b, 0xf5, 0xf6)
	} else {
		t.b = append(t.b, 0xf4, 0xf6)
	}
	return t.b
}

// flag makes the decoded transaction a phase-2 invalid one for the eras whose
// envelope cannot say so: a Dijkstra transaction is flagged by its block's
// invalid_transactions set, from which the block decoder assigns TxIsValid
// (dijkstra.go: txs[idx].TxIsValid = !invalidTxMap[idx]); the same assignment
// is made here on the transaction decoded from its own bytes.
func flagByBlockSet(tx common.Transaction) bool {
	if d, ok := tx.(*dijkstra.DijkstraTransaction); ok {
		d.TxIsValid = false
		return true
	}
	return false
}

// ---------------------------------------------------------------- rules

var hashErrs = []string{"ExtraneousScriptDataHashError", "MissingScriptDataHashError", "ScriptDataHashMismatchError",
	"MissingRedeemersForScriptDataHashError"}

func isHashErr(err error) (string, bool) {
	if err == nil {
		return "", false
	}
	var e1 common.ExtraneousScriptDataHashError
	var e2 common.MissingScriptDataHashError
	var e3 common.ScriptDataHashMismatchError
	var e4 common.MissingRedeemersForScriptDataHashError
	switch {
	case errors.As(err, &e1):
		return hashErrs[0], true
	case errors.As(err, &e2):
		return hashErrs[1], true
	case errors.As(err, &e3):
		return hashErrs[2], true
	case errors.As(err, &e4):
		return hashErrs[3], true
	}
	return "", false
}

func rulesMode(rep *vh.Reporter, rng *rand.Rand, eraName, viewsPath, rulesPath, flagPath string) {
	var era *eraDef
	for _, e := range eras() {
		if e.name == eraName {
			era = e
		}
	}
	if era == nil {
		rep.Dead("unknown era %q", eraName)
	}
	vrows, err := vh.ReadNDJSON[viewRow](viewsPath)
	if err != nil || len(vrows) == 0 {
		rep.Dead("views %s: %v", viewsPath, err)
	}
	views := map[string]*viewRow{}
	for i := range vrows {
		views[viewKey(vrows[i].L, vrows[i].Shape, vrows[i].Variant)] = &vrows[i]
	}
	rows, err := vh.ReadNDJSON[ruleRow](rulesPath)
	if err != nil || len(rows) == 0 {
		rep.Dead("rules %s: %v", rulesPath, err)
	}
	rk := func(r *ruleRow) string {
		k := fmt.Sprintf("L=%s:shape=%s:red=%d:dat=%s:decl=%s", lkey(r.L), r.Shape, b2i(r.Red), r.Datf, r.Decl)
		if explicit(r.RForm) {
			k += ":renc=" + r.RForm + "-" + r.REnc
		}
		if explicit(r.DEnc) {
			k += ":denc=" + r.DEnc
		}
		if r.P2 {
			k += ":p2invalid"
		}
		return k
	}
	// the unflagged table first, in its old order (the same transactions as before
	// the flag became a dimension), then the flagged rows
	sort.SliceStable(rows, func(i, j int) bool {
		// then the rows with an explicit encoding shape
		if shaped(&rows[i]) != shaped(&rows[j]) {
			return !shaped(&rows[i])
		}
		if rows[i].P2 != rows[j].P2 {
			return !rows[i].P2
		}
		if rows[i].Binding != rows[j].Binding {
			return rows[i].Binding == "both" // flagged rows a block can hold (with redeemers) first
		}
		return rk(&rows[i]) < rk(&rows[j])
	})
	carrier := ""
	if flagPath != "" {
		frows, err := vh.ReadNDJSON[flagRow](flagPath)
		if err != nil {
			rep.Dead("flag %s: %v", flagPath, err)
		}
		for _, f := range frows {
			if f.Era == era.name {
				carrier = f.Carrier
			}
		}
	}

	o := &enc{}
	o.array(2)
	o.bytes(payAddr)
	o.uint(5_000_000)
	out, err := shelley.NewShelleyTransactionOutputFromCbor(o.b)
	if err != nil {
		rep.Dead("cannot decode the spent output: %v", err)
	}
	ls := mockledger.NewLedgerStateBuilder().WithUtxos([]common.Utxo{{
		Id:     shelley.NewShelleyTransactionInput(fmt.Sprintf("%x", spendTxId), 0),
		Output: out,
	}}).Build()

	listed := false
	for _, r := range era.rules {
		if strings.HasSuffix(ruleName(r), "UtxoValidateScriptDataHash") {
			listed = true
		}
	}
	reasons := map[string]int{}
	sampled := map[string]bool{}
	ran := 0
	flaggedRan, flaggedReject, rejectOnlyOver := 0, 0, 0
	shapedRan := map[string]int{}
	undecodable := map[string]int{}
	for ri := range rows {
		r := &rows[ri]
		in := false
		for _, e := range r.Eras {
			if e == era.name {
				in = true
			}
		}
		if !in {
			continue
		}
		for _, l := range r.L {
			if l >= era.langs {
				rep.Dead("row %s names language %d for %s", rk(r), l, era.name)
			}
		}
		v := views[viewKey(r.L, r.Shape, "spec")]
		dv := views[viewKey(r.DeclL, r.Shape, r.DeclVariant)]
		if v == nil || dv == nil {
			rep.Dead("row %s: views missing (%v / %v %s)", rk(r), r.L, r.DeclL, r.DeclVariant)
		}
		round := ri % 3
		cm := costModels(v.Lens, round, rng)
		// encodings: the original bytes are non-canonical whenever the row's term
		// distinguishes them from the re-encoding
		s := &txShape{L: r.L, red: r.Red, dat: r.Dat}
		nonCanonR := 2
		if era.name == "conway" {
			nonCanonR = 4
		}
		if r.Decl == "reencRed" {
			s.redForm = era.redForms[rng.Intn(nonCanonR)]
		} else {
			s.redForm = era.redForms[rng.Intn(len(era.redForms))]
		}
		if r.Decl == "reencDat" {
			s.datForm = []string{"indef", "wide"}[rng.Intn(2)]
		} else {
			s.datForm = []string{"indef", "wide", "plain"}[rng.Intn(3)]
		}
		// an explicit shape of the row replaces the driver's choice
		if explicit(r.RForm) {
			if !r.Red || !explicit(r.REnc) {
				rep.Dead("row %s: redeemer shape %s-%s on a row with red = %v", rk(r), r.RForm, r.REnc, r.Red)
			}
			s.redForm = r.RForm + "-" + r.REnc
			if r.REnc == "canon" {
				s.redForm = r.RForm
			}
			legal := false
			for _, f := range era.redForms {
				if f == r.RForm { // the era has the form (list / map) at all
					legal = true
				}
			}
			if !legal {
				rep.Dead("row %s: the specification lists %s for the redeemer form %q", rk(r), era.name, r.RForm)
			}
		}
		if explicit(r.DEnc) {
			if !r.Dat {
				rep.Dead("row %s: datum encoding %s on a row without datums", rk(r), r.DEnc)
			}
			s.datForm = map[string]string{"canon": "plain", "wide": "wide", "indef": "indef"}[r.DEnc]
			if s.datForm == "" {
				rep.Dead("row %s: unknown datum encoding %q", rk(r), r.DEnc)
			}
		}
		s.tagged = era.setTags && rng.Intn(2) == 0

		redOrig, redCanon := redeemers(s.redForm)
		// the datum field: absent, present but empty ([] or 258([])), or two datums
		// as a plain list / tag-258 set
		var datOrig, datCanon, emptyField []byte
		emptyField = []byte{0x80}
		switch r.Datf {
		case "absent":
		case "emptyList":
			s.datField = []byte{0x80}
			emptyField = s.datField
		case "emptySet":
			s.datField = []byte{0xd9, 0x01, 0x02, 0x80}
			emptyField = s.datField
		case "list", "set":
			datOrig, datCanon = datums(s.datForm, r.Datf == "set")
			s.datField = datOrig
		default:
			rep.Dead("row %s: unknown datum field %q", rk(r), r.Datf)
		}
		if (r.Datf == "list" || r.Datf == "set") != r.Dat {
			rep.Dead("row %s: datf %q but dat = %v", rk(r), r.Datf, r.Dat)
		}
		// the row's term names a re-encoding exactly when re-encoding changes the bytes
		if r.Red && r.DeclRed == "reenc" && bytes.Equal(redOrig, redCanon) {
			rep.Dead("row %s: the declared term re-encodes the redeemers, but the form %s is canonical", rk(r), s.redForm)
		}
		if r.Dat && r.DeclDat == "reenc" && bytes.Equal(datOrig, datCanon) {
			rep.Dead("row %s: the declared term re-encodes the datums, but the form %s is canonical", rk(r), s.datForm)
		}
		if explicit(r.REnc) && (r.REnc == "canon") != bytes.Equal(redOrig, redCanon) {
			rep.Dead("row %s: redeemer encoding %s, original = re-encoded is %v", rk(r), r.REnc, bytes.Equal(redOrig, redCanon))
		}
		if explicit(r.DEnc) && (r.DEnc == "canon") != bytes.Equal(datOrig, datCanon) {
			rep.Dead("row %s: datum encoding %s, original = re-encoded is %v", rk(r), r.DEnc, bytes.Equal(datOrig, datCanon))
		}
		part := func(kind string, orig, canon, empty []byte) []byte {
			switch kind {
			case "orig":
				return orig
			case "reenc":
				return canon
			case "empty":
				return empty
			case "none":
				return nil
			case "emptyfield":
				return emptyField
			}
			rep.Dead("row %s: unknown term part %q", rk(r), kind)
			return nil
		}
		term := func(red, dat string, view *viewRow) []byte {
			lv, err := render(view.Tokens, cm)
			if err != nil {
				rep.Dead("render: %v", err)
			}
			var in []byte
			in = append(in, part(red, redOrig, redCanon, era.emptyReds)...)
			in = append(in, part(dat, datOrig, datCanon, nil)...)
			in = append(in, lv...)
			h := blake2b.Sum256(in)
			return h[:]
		}
		rightRed, rightDat := "empty", "none"
		if r.Red {
			rightRed = "orig"
		}
		if r.Dat {
			rightDat = "orig"
		}
		right := term(rightRed, rightDat, v)
		switch r.Decl {
		case "absent":
			s.declared = nil
		case "random":
			s.declared = make([]byte, 32)
			rng.Read(s.declared)
		default:
			s.declared = term(r.DeclRed, r.DeclDat, dv)
		}
		// the model says the declared term equals the right one exactly when it
		// accepts (given script data); the real bytes must agree with that
		// (VERIF_SELFTEST: the orchestrator feeds rows with a flipped verdict to
		// see them reported; the guard is off for those)
		if os.Getenv("VERIF_SELFTEST") != "1" && s.declared != nil && (r.Red || r.Dat) && bytes.Equal(s.declared, right) != r.Accept {
			rep.Dead("row %s: declared hash equals the right hash = %v, model accept = %v", rk(r), bytes.Equal(s.declared, right), r.Accept)
		}
		three := era.name == "dijkstra" && ri%2 == 0
		key := fmt.Sprintf("rule:era=%s:%s", era.name, rk(r))
		if r.P2 && carrier != "envelope" && carrier != "blockSet" {
			rep.Dead("%s: the specification does not say how a %s transaction carries is_valid = false (carrier %q)", key, era.name, carrier)
		}
		if r.Binding != "both" && r.Binding != "rejectOnly" {
			rep.Dead("%s: unknown binding %q", key, r.Binding)
		}
		raw := envelope(era, buildTx(s), three, !(r.P2 && carrier == "envelope"))
		tx, err := era.decodeTx(raw)
		if err != nil && r.REnc == "dupKey" {
			// whether a redeemer map with a repeated key decodes at all is not a statement of C31
			undecodable[r.RForm+"-"+r.REnc]++
			continue
		}
		if err != nil {
			rep.Dead("%s: cannot decode the transaction built for %s: %v (%x)", era.name, key, err, raw)
		}
		if r.P2 && carrier == "blockSet" && !flagByBlockSet(tx) {
			rep.Dead("%s: cannot flag a %T the way the block decoder does", key, tx)
		}
		if tx.IsValid() == r.P2 {
			rep.Dead("%s: the transaction built for p2 = %v has IsValid() = %v (%x)", key, r.P2, tx.IsValid(), raw)
		}
		// the decoded transaction must say what the row says
		w := tx.Witnesses()
		nRed := 0
		if w != nil && w.Redeemers() != nil {
			for range w.Redeemers().Iter() {
				nRed++
			}
		}
		wantRed := map[string]int{"unordered": 2}[r.REnc] // dupKey: one (last wins); every other shape: one
		if r.Red && wantRed == 0 {
			wantRed = 1
		}
		if nRed != wantRed {
			rep.Dead("%s %s: %d redeemers decoded from the form %s, expected %d (%x)", era.name, key, nRed, s.redForm, wantRed, raw)
		}
		if r.Red && !bytes.Contains(raw, append([]byte{0x05}, redOrig...)) {
			rep.Dead("%s %s: the redeemer bytes are not in the built transaction", era.name, key)
		}
		if s.datField != nil && !bytes.Contains(raw, append([]byte{0x04}, s.datField...)) {
			rep.Dead("%s %s: the datum field is not in the built transaction", era.name, key)
		}
		if w == nil || (nRed > 0) != r.Red || (len(w.PlutusData()) > 0) != r.Dat ||
			(len(w.PlutusV1Scripts()) > 0) != hasLang(r.L, 0) || (len(w.PlutusV2Scripts()) > 0) != hasLang(r.L, 1) ||
			(len(w.PlutusV3Scripts()) > 0) != hasLang(r.L, 2) || (len(common.PlutusV4ScriptsFromWitnessSet(w)) > 0) != hasLang(r.L, 3) {
			rep.Dead("%s %s: decoded witness set does not match the row (%x)", era.name, key, raw)
		}
		if (tx.ScriptDataHash() != nil) != (s.declared != nil) ||
			(s.declared != nil && !bytes.Equal(tx.ScriptDataHash().Bytes(), s.declared)) {
			rep.Dead("%s %s: decoded script data hash differs from the built one", era.name, key)
		}
		pp := era.pparams(toUintMap(cm, nil), era.name == "dijkstra" && ri%4 < 2)
		replay := map[string]any{"row": *r, "era": era.name, "tx_cbor": fmt.Sprintf("%x", raw), "cost_models": cm,
			"redeemer_form": s.redForm, "datum_form": s.datForm, "datum_field": fmt.Sprintf("%x", s.datField), "tagged_sets": s.tagged,
			"right_hash": fmt.Sprintf("%x", right), "declared_hash": fmt.Sprintf("%x", s.declared),
			"is_valid": !r.P2}
		if r.P2 {
			replay["flag_carrier"] = carrier
		}
		var fnErr error
		listReject := ""
		listNamedErr := ""
		ok := false
		rep.Guard(key, replay, func() {
			fnErr = era.rule(tx, 100, ls, pp)
			for i, rule := range era.rules {
				name := ruleName(rule)
				func() {
					defer func() {
						if p := recover(); p != nil {
							// an unrelated rule panicking on this deliberately
							// incomplete transaction is not a statement of C31
							if strings.HasSuffix(name, "UtxoValidateScriptDataHash") {
								listNamedErr = fmt.Sprintf("panic: %v", p)
							}
						}
					}()
					err := rule(tx, 100, ls, pp)
					if cls, is := isHashErr(err); is && listReject == "" {
						listReject = fmt.Sprintf("rule[%d] %s: %s", i, name[strings.LastIndex(name, "/")+1:], cls)
					} else if err != nil && strings.HasSuffix(name, "UtxoValidateScriptDataHash") {
						listNamedErr = err.Error()
					}
				}()
			}
			ok = true
		})
		if !ok {
			continue
		}
		ran++
		rep.Case(key, true)
		fnAccept := fnErr == nil
		cls, is := isHashErr(fnErr)
		if fnErr != nil && !is {
			rep.Disagree(key+":at=func:other", fmt.Sprintf("%s.UtxoValidateScriptDataHash failed with an unrelated error: %v (specification: %s)",
				era.name, fnErr, r.Reason), replay)
			continue
		}
		rsn := r.Reason
		if shaped(r) {
			sk := ""
			if explicit(r.RForm) {
				sk = "redeemers " + r.RForm + "-" + r.REnc
			} else {
				sk = "datums " + r.Datf + "-" + r.DEnc
			}
			shapedRan[sk]++
		}
		if r.P2 {
			rsn = "p2invalid " + rsn
			flaggedRan++
			if !r.Accept {
				flaggedReject++
			}
		}
		reasons[rsn+"->"+cls]++
		listAccept := listReject == "" && listNamedErr == ""
		if r.Binding == "rejectOnly" && r.Accept {
			// a flagged transaction without redeemers is rejected by the flag rule whatever
			// this rule says: rejecting it here as well admits nothing the table forbids
			if !fnAccept || !listAccept {
				rejectOnlyOver++
			}
			continue
		}
		if fnAccept != r.Accept {
			rep.Disagree(key+":at=func", fmt.Sprintf("%s.UtxoValidateScriptDataHash %s (%v); the specification says %s (%s) [redeemers %s, datums %s]",
				era.name, verdict(fnAccept), fnErr, verdict(r.Accept), r.Reason, s.redForm, s.datForm), replay)
		}
		if !listed && !r.Accept && listAccept {
			rep.Disagree(key+":at=list:unlisted", fmt.Sprintf("%s.UtxoValidationRules has no UtxoValidateScriptDataHash entry and accepts; the specification says reject (%s)",
				era.name, r.Reason), replay)
		} else if listAccept != r.Accept {
			rep.Disagree(key+":at=list", fmt.Sprintf("the entries of %s.UtxoValidationRules %s (%s%s); the specification says %s (%s)",
				era.name, verdict(listAccept), listReject, listNamedErr, verdict(r.Accept), r.Reason), replay)
		}
		sk := r.Decl
		budget := 3
		if r.P2 {
			sk, budget = "p2invalid", 4 // one flagged sample on top of the three unflagged ones
		}
		if r.REnc == "dupKey" && !r.P2 {
			sk, budget = "dupKey:"+r.Decl, 6 // the right hash and the re-encoding's hash over a map with a repeated key
		}
		if !sampled[sk] && len(sampled) < budget && len(r.L) >= 1 && (r.Decl == "right" || r.Decl == "byNumber" || r.Decl == "reencRed") && r.Red {
			sampled[sk] = true
			rep.Sample(map[string]any{"case": key, "spec": verdict(r.Accept) + " (" + r.Reason + ")", "code_func": fmt.Sprint(fnErr),
				"code_list": listReject, "tx": fmt.Sprintf("%x", raw)})
		}
	}
	if ran == 0 {
		rep.Dead("no rule row for era %s", era.name)
	}
	rep.Extra["rule_rows_by_spec_reason_and_code_error "+era.name] = reasons
	rep.Extra["script_data_hash_rule_listed "+era.name] = listed
	rep.Extra["rows_with_explicit_encoding_shape "+era.name] = shapedRan
	if len(undecodable) > 0 {
		rep.Extra["not_judged: transactions the decoder refuses "+era.name] = undecodable
	}
	rep.Extra["flagged_rows "+era.name] = map[string]any{"carrier": carrier, "executed": flaggedRan, "specification_rejects": flaggedReject,
		"not_judged: rule rejects a flagged transaction without redeemers that the table accepts": rejectOnlyOver}
}

// explicit: the field of a row fixes the encoding ("any" / absent: the driver chooses)
func explicit(f string) bool { return f != "" && f != "any" }

func shaped(r *ruleRow) bool { return explicit(r.RForm) || explicit(r.DEnc) }

func verdict(a bool) string {
	if a {
		return "accepts"
	}
	return "rejects"
}

func hasLang(L []int, l int) bool {
	for _, x := range L {
		if x == l {
			return true
		}
	}
	return false
}

func b2i(b bool) int {
	if b {
		return 1
	}
	return 0
}

func main() {
	rep := vh.NewReporter()
	if len(os.Args) < 3 {
		rep.Dead("usage: c31 views <views.ndjson> | rules <era> <views.ndjson> <rules.ndjson> [flag.ndjson]")
	}
	rng := rand.New(rand.NewSource(vh.Seed()*15485863 + int64(len(os.Args[1])*31+len(os.Args[2]))))
	switch os.Args[1] {
	case "views":
		viewsMode(rep, rng, os.Args[2])
	case "rules":
		if len(os.Args) < 5 {
			rep.Dead("usage: c31 rules <era> <views.ndjson> <rules.ndjson> [flag.ndjson]")
		}
		flagPath := ""
		if len(os.Args) > 5 {
			flagPath = os.Args[5]
		}
		rulesMode(rep, rng, os.Args[2], os.Args[3], os.Args[4], flagPath)
	default:
		rep.Dead("unknown mode %q", os.Args[1])
	}
	rep.Extra["observation_points"] = "common.EncodeLangViews; <era>.UtxoValidateScriptDataHash and every entry of <era>.UtxoValidationRules " +
		"(only the four script-data-hash error types are read) on transactions decoded from CBOR by the era's decoder"
	rep.Finish()
}
