// Command muxapi replays TLC-generated API histories of spec/net/MuxerApi.tla
// on a real muxer over an in-memory connection and compares, after every
// operation, what is observable with what the specification predicts:
// segments delivered per receiver, whether the muxer has stopped and with which
// first error, whether RegisterProtocol returned channels.
//
//	muxapi run <behaviours.ndjson>
//
// Disagreement keys: muxapi:<clause>:<history>, clause in
//
//	c09-error   a zero-length / unregistered-protocol segment did not end the connection with an error
//	            (the wrong-direction clause is C17's: reported as an observation of class stop)
//	c09-route   a segment reached a receiver the specification does not name
//	c09-deliver a segment for a registered receiver ended the connection instead of being delivered
//	gate, stop, reg, deliver   life-cycle clauses outside the listed properties
package main

import (
	"encoding/binary"
	"fmt"
	"net"
	"os"
	"strings"
	"sync"
	"time"

	"github.com/blinklabs-io/gouroboros/muxer"

	"verifharness/vh"
)

type op struct {
	Op string `json:"op"`
	K  string `json:"k"`
	S  string `json:"s"`
	M  string `json:"m"`
}

type obs struct {
	Deliv   map[string]int `json:"deliv"`
	Done    bool           `json:"done"`
	Err     string         `json:"err"`
	LastReg string         `json:"lastReg"`
}

type behaviour struct {
	Ops []op  `json:"ops"`
	Obs []obs `json:"obs"`
}

const settle = 10 * time.Second

func keyParts(k string) (uint16, muxer.ProtocolRole) {
	pid := uint16(k[0] - '0')
	if k[1] == 'i' {
		return pid, muxer.ProtocolRoleInitiator
	}
	return pid, muxer.ProtocolRoleResponder
}

type world struct {
	mu      sync.Mutex
	deliv   map[string]int
	wrong   string // a segment seen on a receiver it was not addressed to
	done    bool
	errs    []string
	lastReg string
}

func (w *world) snapshot() obs {
	w.mu.Lock()
	defer w.mu.Unlock()
	d := map[string]int{}
	for k, v := range w.deliv {
		d[k] = v
	}
	e := "none"
	if len(w.errs) > 0 {
		e = classify(w.errs[0])
	}
	return obs{Deliv: d, Done: w.done, Err: e, LastReg: w.lastReg}
}

func classify(s string) string {
	switch {
	case strings.Contains(s, "zero-byte"):
		return "zero-length"
	case strings.Contains(s, "unknown protocol"):
		return "unknown protocol"
	case strings.Contains(s, "not configured as"):
		return "mode"
	case strings.Contains(s, "peer closed") || strings.Contains(s, "EOF") || strings.Contains(s, "closed pipe"):
		return "closed"
	}
	return "other:" + s
}

func same(a, b obs) bool {
	if a.Done != b.Done || a.Err != b.Err || a.LastReg != b.LastReg {
		return false
	}
	for _, k := range []string{"2i", "2r", "5r"} {
		if a.Deliv[k] != b.Deliv[k] {
			return false
		}
	}
	return true
}

func (w *world) drain(k string, ch chan *muxer.Segment) {
	pid, role := keyParts(k)
	for sg := range ch {
		w.mu.Lock()
		// payload byte 0 names the receiver the peer addressed
		want := fmt.Sprintf("%d%c", pid, map[muxer.ProtocolRole]byte{muxer.ProtocolRoleInitiator: 'i', muxer.ProtocolRoleResponder: 'r'}[role])
		got := fmt.Sprintf("%d%c", sg.Payload[0], sg.Payload[1])
		if got != want && w.wrong == "" {
			w.wrong = fmt.Sprintf("a segment addressed to %s arrived at the receiver registered for %s", got, want)
		}
		w.deliv[k]++
		w.mu.Unlock()
	}
}

func replay(b *behaviour) (clause, desc string) {
	ca, cb := net.Pipe()
	m := muxer.New(ca)
	w := &world{deliv: map[string]int{}, lastReg: "na"}
	go func() {
		for err := range m.ErrorChan() {
			w.mu.Lock()
			w.errs = append(w.errs, err.Error())
			w.mu.Unlock()
		}
		w.mu.Lock()
		w.done = true
		w.mu.Unlock()
	}()
	for _, k := range []string{"2i", "2r"} {
		pid, role := keyParts(k)
		_, rc, _ := m.RegisterProtocol(pid, role)
		go w.drain(k, rc)
	}
	// the peer: a goroutine writing queued segments in order; "close" closes after everything before it was written
	peerQ := make(chan []byte, 64)
	go func() {
		go func() { // the peer never reads what the muxer writes (it writes nothing here)
			buf := make([]byte, 4096)
			for {
				if _, err := cb.Read(buf); err != nil {
					return
				}
			}
		}()
		for seg := range peerQ {
			if seg == nil {
				cb.Close()
				return
			}
			if _, err := cb.Write(seg); err != nil {
				return
			}
		}
	}()
	defer func() {
		close(peerQ)
		m.Stop()
		cb.Close()
	}()
	segBytes := func(s string) []byte {
		hdr := make([]byte, 8)
		var payload []byte
		k := s
		if s == "zero" {
			k = "2r"
		} else {
			payload = []byte{k[0] - '0', k[1], 0xaa}
		}
		pid, role := keyParts(k)
		id := pid
		if role == muxer.ProtocolRoleInitiator { // a response is addressed to the local initiator
			id |= 0x8000
		}
		binary.BigEndian.PutUint16(hdr[4:6], id)
		binary.BigEndian.PutUint16(hdr[6:8], uint16(len(payload)))
		return append(hdr, payload...)
	}
	for i, o := range b.Ops {
		w.mu.Lock()
		w.lastReg = "na"
		w.mu.Unlock()
		switch o.Op {
		case "Start":
			m.Start()
		case "StartOnce":
			m.StartOnce()
		case "Stop":
			m.Stop()
		case "PeerClose":
			peerQ <- nil
		case "Reg":
			pid, role := keyParts(o.K)
			_, rc, _ := m.RegisterProtocol(pid, role)
			w.mu.Lock()
			if rc == nil {
				w.lastReg = "nil"
			} else {
				w.lastReg = "ok"
			}
			w.mu.Unlock()
			if rc != nil {
				go w.drain(o.K, rc)
			}
		case "Unreg":
			pid, role := keyParts(o.K)
			m.UnregisterProtocol(pid, role)
		case "Seg":
			peerQ <- segBytes(o.S)
		case "Mode":
			if o.M == "I" {
				m.SetDiffusionMode(muxer.DiffusionModeInitiator)
			} else {
				m.SetDiffusionMode(muxer.DiffusionModeResponder)
			}
		}
		want := b.Obs[i]
		// wait until the predicted observation is reached, then make sure it stays
		dl := time.Now().Add(settle)
		var got obs
		for {
			got = w.snapshot()
			if same(got, want) || time.Now().After(dl) {
				break
			}
			time.Sleep(200 * time.Microsecond)
		}
		if same(got, want) {
			time.Sleep(3 * time.Millisecond)
			got = w.snapshot()
		}
		w.mu.Lock()
		wrong := w.wrong
		w.mu.Unlock()
		if wrong != "" {
			return "c09-route", wrong
		}
		if !same(got, want) {
			cl := "deliver"
			opened := false // the gate was opened for good: what follows does not depend on the gate's meaning
			for _, p := range b.Ops[:i+1] {
				if p.Op == "Start" {
					opened = true
				}
			}
			switch {
			case opened && (want.Err == "zero-length" || want.Err == "unknown protocol") && (got.Err == "none" || !got.Done):
				// C09: such a segment closes the connection with an error - it did not (whatever the
				// error's wording is, a connection that ended with one satisfies the clause)
				cl = "c09-error"
			case opened && want.Err == "none" && !want.Done && o.Op == "Seg" && (got.Err != "none" || got.Done):
				// C09: a segment addressed to a receiver that IS registered for its protocol number and
				// direction reaches that receiver - here the connection ended instead
				cl = "c09-deliver"
			case want.Done != got.Done || want.Err != got.Err:
				cl = "stop"
			case want.LastReg != got.LastReg:
				cl = "reg"
			default:
				for _, p := range b.Ops[:i+1] {
					if p.Op == "StartOnce" {
						cl = "gate"
					}
				}
			}
			return cl, fmt.Sprintf("after operation %d (%s %s%s%s) the specification predicts %+v, observed %+v", i+1, o.Op, o.K, o.S, o.M, want, got)
		}
	}
	return "", ""
}

func histKey(b *behaviour) string {
	var sb strings.Builder
	for i, o := range b.Ops {
		if i > 0 {
			sb.WriteByte('.')
		}
		sb.WriteString(o.Op + o.K + o.S + o.M)
	}
	return sb.String()
}

func main() {
	rep := vh.NewReporter()
	if len(os.Args) < 3 || os.Args[1] != "run" {
		rep.Dead("usage: muxapi run <behaviours.ndjson>")
	}
	bs, err := vh.ReadNDJSON[behaviour](os.Args[2])
	if err != nil || len(bs) == 0 {
		rep.Dead("behaviours: %v", err)
	}
	var wg sync.WaitGroup
	sem := make(chan struct{}, 16)
	for i := range bs {
		b := &bs[i]
		if len(b.Ops) != len(b.Obs) {
			rep.Dead("behaviour %d: %d ops, %d observations", i, len(b.Ops), len(b.Obs))
		}
		wg.Add(1)
		sem <- struct{}{}
		go func(i int) {
			defer wg.Done()
			defer func() { <-sem }()
			cl, desc := replay(b)
			hk := histKey(b)
			nontrivial := false
			for _, o := range b.Ops {
				if o.Op == "Seg" {
					nontrivial = true
				}
			}
			rep.Case(hk, nontrivial)
			if i < 3 {
				rep.Sample(b)
			}
			if cl != "" {
				rep.Disagree("muxapi:"+cl+":"+hk, desc, b)
			}
		}(i)
	}
	wg.Wait()
	rep.Finish()
}
