// c35: folds each TLC-generated merkle shape with the real Blake2b-256 and
// compares with byron.MerkleRoot on seeded random items.
package main

import (
	"encoding/json"
	"fmt"
	"math/rand"
	"os"

	"github.com/blinklabs-io/gouroboros/ledger/byron"
	"golang.org/x/crypto/blake2b"

	"verifharness/vh"
)

type row struct {
	N     int             `json:"n"`
	Shape json.RawMessage `json:"shape"`
	Sizes [][]int         `json:"sizes"` // item sizes per size pattern of the specification
}

func fold(raw json.RawMessage, items [][]byte) ([]byte, error) {
	var node []json.RawMessage
	if err := json.Unmarshal(raw, &node); err != nil {
		return nil, err
	}
	var tag string
	if err := json.Unmarshal(node[0], &tag); err != nil {
		return nil, err
	}
	switch tag {
	case "E":
		h := blake2b.Sum256(nil)
		return h[:], nil
	case "L":
		var i int
		if err := json.Unmarshal(node[1], &i); err != nil {
			return nil, err
		}
		h := blake2b.Sum256(append([]byte{0}, items[i]...))
		return h[:], nil
	case "B":
		l, err := fold(node[1], items)
		if err != nil {
			return nil, err
		}
		r, err := fold(node[2], items)
		if err != nil {
			return nil, err
		}
		buf := append([]byte{1}, l...)
		buf = append(buf, r...)
		h := blake2b.Sum256(buf)
		return h[:], nil
	}
	return nil, fmt.Errorf("bad tag %q", tag)
}

func main() {
	rep := vh.NewReporter()
	rows, err := vh.ReadNDJSON[row](os.Args[1])
	if err != nil || len(rows) == 0 {
		rep.Dead("cases: %v", err)
	}
	rng := rand.New(rand.NewSource(vh.Seed()))
	rounds := 3
	if vh.Tier() == "thorough" {
		rounds = 40
	}
	for _, c := range rows {
		// the specification's size patterns; lists of more than 12 items only take every 7th pattern in the
		// quick tier (the 70000-byte class would otherwise dominate the run)
		pats := len(c.Sizes)
		for k := 0; k < rounds+pats; k++ {
			items := make([][]byte, c.N)
			if k >= rounds {
				p := k - rounds
				if c.N == 0 || (vh.Tier() != "thorough" && c.N > 12 && (p+c.N)%7 != 0) {
					continue
				}
				for i := range items {
					items[i] = make([]byte, c.Sizes[p][i])
					rng.Read(items[i])
				}
			} else {
				for i := range items {
					// item lengths include 0, 1, 32 and 64 (a leaf that looks like a branch)
					ln := []int{0, 1, 32, 64, 65, rng.Intn(100)}[rng.Intn(6)]
					items[i] = make([]byte, ln)
					rng.Read(items[i])
				}
			}
			want, err := fold(c.Shape, items)
			if err != nil {
				rep.Dead("fold: %v", err)
			}
			got := byron.MerkleRoot(items)
			key := fmt.Sprintf("n=%d", c.N)
			rep.Case(key, true)
			if string(got.Bytes()) != string(want) {
				lens := make([]int, len(items))
				for i := range items {
					lens[i] = len(items[i])
				}
				rep.Disagree(key, fmt.Sprintf("MerkleRoot(%d items of %v bytes) = %x, reference %x", c.N, lens, got.Bytes(), want),
					map[string]any{"n": c.N, "item_lengths": lens, "shape": c.Shape})
				break
			}
		}
		if c.N == 5 {
			rep.Sample(map[string]any{"n": c.N, "shape": c.Shape})
		}
	}
	rep.Finish()
}
