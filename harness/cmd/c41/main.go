// c41: replays the TLC-generated chain-selection cases (spec/consensus/Selection.tla)
// against consensus.PraosChainSelector (Compare, IsDeepFork, CompareWithDensity,
// Preferred, PreferredWithDensity) with WindowedChainTips, with SimpleChainTips
// for the legacy-density rows, and against genesis.GenesisSelector.Compare.
//
// Abstract -> concrete ("worlds", deterministic from the round and VERIF_SEED):
//   - tip block numbers are only compared: monotone map onto uint64 incl. 0, 2^63, 2^64-1
//   - VRF outputs are only compared: monotone map onto equal-length big-endian byte
//     strings (1, 32 or 64 bytes; all-zero and all-0xff included); "no output" is nil or empty
//   - block slots, fork slot and window enter through s > fs and s - fs <= w only:
//     affine map s -> base + c*s, w -> c*w, incl. the top of the uint64 range
//     (fs + w would wrap there)
//   - fork block / current tip block / k enter through tb - fb - k only: shifted
//     together (the model proves the verdict is shift invariant), incl. k = 2160
//     and the top of the range
//
//
// Ratio rows (kind = "ratio", the legacy-density RESOLUTION dimension): a tip carries
// blocks-after-the-fork / slots-after-the-fork directly, at magnitudes from a few slots to
// 10^8 and more, incl. equal ratios through different totals and unequal ratios that are
// arbitrarily close.  They are realised twice: as SimpleChainTips carrying c*blocks / c*span
// (c a per-world constant, not only powers of two: a correctly rounded quotient only depends
// on the real quotient), and as WindowedChainTips under a selector without a window, with
// `blocks` block slots after the fork slot F, the last one at F + m*span (m a per-world
// constant: multiplying every span by m preserves the order of the ratios), the others
// spread at random in between, plus blocks at and before F that must not count.  All
// products stay below 2^53, so float64 conversion is exact, the division is monotone and
// distinct ratios (cross products < 2^52) stay distinct: the exact order is observable.
//
// Every expected verdict is read from the row.
package main

import (
	"bytes"
	"encoding/json"
	"fmt"
	"io"
	"log/slog"
	"math/rand"
	"os"
	"runtime"
	"sort"
	"strings"
	"sync"

	"github.com/blinklabs-io/gouroboros/consensus"
	"github.com/blinklabs-io/gouroboros/consensus/genesis"

	"verifharness/vh"
)

type tipRow struct {
	BN    int
	VRF   int
	Slots []int
}

func (t *tipRow) UnmarshalJSON(b []byte) error {
	var raw []json.RawMessage
	if err := json.Unmarshal(b, &raw); err != nil {
		return err
	}
	if len(raw) != 3 {
		return fmt.Errorf("tip: want [bn, vrf, slots]")
	}
	if err := json.Unmarshal(raw[0], &t.BN); err != nil {
		return err
	}
	if err := json.Unmarshal(raw[1], &t.VRF); err != nil {
		return err
	}
	return json.Unmarshal(raw[2], &t.Slots)
}

type pairRow struct {
	Kind string `json:"kind"` // "slots" (default) or "ratio"
	Ctx  []int  `json:"ctx"` // fb, tb, k, fs, w
	Deep bool   `json:"deep"`
	A    tipRow `json:"a"`
	B    tipRow `json:"b"`
	DA   []int  `json:"da"` // blocks in window, legacy blocks, legacy span
	DB   []int  `json:"db"`
	Cmp  int    `json:"cmp"`
	Cwd  int    `json:"cwd"`
	Frag int    `json:"frag"`
}
type tripleRow struct {
	Kind string   `json:"kind"`
	Ctx  []int    `json:"ctx"`
	Deep bool     `json:"deep"`
	T    []tipRow `json:"t"`
	Dens [][]int  `json:"dens"`
	Max  []int    `json:"max"`
	MaxD []int    `json:"maxd"`
	Cab  int      `json:"cab"`
	Cbd  int      `json:"cbd"`
	Cad  int      `json:"cad"`
}
type deepRow struct {
	FB   int  `json:"fb"`
	TB   int  `json:"tb"`
	K    int  `json:"k"`
	Deep bool `json:"deep"`
}

// ---- worlds -------------------------------------------------------------------

const maxU = ^uint64(0)

type world struct {
	name   string
	bn     [3]uint64 // abstract block number 0..2
	vrf    [3][]byte // abstract VRF output 0..2
	noVRF  []byte    // nil or empty
	sBase  uint64    // slots: base + c*s
	sMul   uint64
	depth  func(fb, tb, k int) (uint64, uint64, uint64)
	dScale uint64 // SimpleChainTip legacy numbers are multiplied by this power of two
	// ratio rows
	rScale uint64 // SimpleChainTip: blocks and span are both multiplied by this
	rMul   uint64 // WindowedChainTip: every span is multiplied by this
	rBase  uint64 // WindowedChainTip: fork slot = rBase + fs (set by setRatioBase)
	rTop   bool   // the longest span ends at slot 2^64-1
}

// setRatioBase fixes the fork slots of the ratio rows once the longest span is known.
func (w *world) setRatioBase(maxSpan uint64, maxFs int) {
	switch {
	case w.rTop:
		w.rBase = maxU - w.rMul*maxSpan - uint64(maxFs)
	case w.name == "edge":
		w.rBase = 1<<63 - 2 // the spans cross 2^63
	default:
		w.rBase = w.sBase
	}
}

func sortedBytes(rng *rand.Rand, n, length int) [][]byte {
	for {
		out := make([][]byte, n)
		for i := range out {
			out[i] = make([]byte, length)
			rng.Read(out[i])
		}
		sort.Slice(out, func(i, j int) bool { return bytes.Compare(out[i], out[j]) < 0 })
		ok := true
		for i := 1; i < n; i++ {
			if bytes.Equal(out[i-1], out[i]) {
				ok = false
			}
		}
		if ok {
			return out
		}
	}
}

func worlds(seed int64, thorough bool, maxSlot int) []*world {
	rng := rand.New(rand.NewSource(seed*7919 + 17))
	var ws []*world
	// 1. small numbers, as in the model
	ws = append(ws, &world{
		name: "small", bn: [3]uint64{0, 1, 2},
		vrf:   [3][]byte{{0}, {1}, {2}},
		noVRF: nil, sBase: 0, sMul: 1, dScale: 1, rScale: 1, rMul: 1,
		depth: func(fb, tb, k int) (uint64, uint64, uint64) { return uint64(fb), uint64(tb), uint64(k) },
	})
	// 2. top of the ranges: bn extremes, VRF extremes (64 bytes), slots ending at 2^64-1,
	//    block numbers ending at 2^64-1
	mid := make([]byte, 64)
	rng.Read(mid)
	mid[0] = 0x01 + byte(rng.Intn(0xfd))
	ws = append(ws, &world{
		name: "top", bn: [3]uint64{0, 1 << 63, maxU},
		vrf:   [3][]byte{bytes.Repeat([]byte{0x00}, 64), mid, bytes.Repeat([]byte{0xff}, 64)},
		noVRF: []byte{}, sBase: maxU - uint64(maxSlot), sMul: 1, dScale: 1 << 20, // the last model slot is 2^64-1
		rScale: 1 << 20, rMul: 1, rTop: true,
		depth: func(fb, tb, k int) (uint64, uint64, uint64) {
			sh := maxU - 3 // abstract block numbers are 0..3
			return uint64(fb) + sh, uint64(tb) + sh, uint64(k)
		},
	})
	// 3. mainnet-like: k = 2160 + k, 32-byte random VRF outputs, slots scaled by 20 from 10^8
	v32 := sortedBytes(rng, 3, 32)
	b := []uint64{uint64(rng.Int63n(1 << 40)), uint64(rng.Int63n(1 << 40)), uint64(rng.Int63n(1 << 40))}
	sort.Slice(b, func(i, j int) bool { return b[i] < b[j] })
	for b[0] == b[1] || b[1] == b[2] {
		b[1]++
		b[2] += 2
	}
	ws = append(ws, &world{
		name: "mainnet", bn: [3]uint64{b[0], b[1], b[2]},
		vrf:   [3][]byte{v32[0], v32[1], v32[2]},
		noVRF: nil, sBase: 100_000_000, sMul: 20, dScale: 4, rScale: 3, rMul: 20,
		depth: func(fb, tb, k int) (uint64, uint64, uint64) {
			const y = 2160 // tb and k shifted together, then all shifted by 10^7
			tbb := uint64(tb) + y
			if tb <= fb { // tip at or behind the fork point: keep it there
				tbb = uint64(tb)
			}
			return uint64(fb) + 10_000_000, tbb + 10_000_000, uint64(k) + y
		},
	})
	if thorough {
		// 4. VRF outputs that differ in the last byte only; 2^63 boundaries
		pre := make([]byte, 31)
		rng.Read(pre)
		mk := func(last byte) []byte { return append(append([]byte{}, pre...), last) }
		ws = append(ws, &world{
			name: "edge", bn: [3]uint64{1<<63 - 1, 1 << 63, 1<<63 + 1},
			vrf:   [3][]byte{mk(0x00), mk(0x80), mk(0xff)},
			noVRF: []byte{}, sBase: 1<<63 - 2, sMul: 1, dScale: 1 << 40, rScale: 7919, rMul: 3,
			depth: func(fb, tb, k int) (uint64, uint64, uint64) {
				sh := uint64(1<<63 - 1)
				return uint64(fb) + sh, uint64(tb) + sh, uint64(k)
			},
		})
		// 5. huge k: tb and k shifted together to the top
		ws = append(ws, &world{
			name: "hugek", bn: [3]uint64{7, 8, 9},
			vrf:   [3][]byte{{0x00, 0x01}, {0x01, 0x00}, {0xff, 0xff}},
			noVRF: nil, sBase: 1 << 32, sMul: 1 << 16, dScale: 2, rScale: 1 << 22, rMul: 1 << 20,
			depth: func(fb, tb, k int) (uint64, uint64, uint64) {
				if tb <= fb {
					return uint64(fb), uint64(tb), maxU
				}
				y := maxU - 8
				return uint64(fb), uint64(tb) + y, uint64(k) + y
			},
		})
	}
	return ws
}

func (w *world) slot(s int) uint64 { return w.sBase + w.sMul*uint64(s) }

func (w *world) vrfOf(v int) []byte {
	if v < 0 {
		return w.noVRF
	}
	return w.vrf[v]
}

func (w *world) windowed(t tipRow, rng *rand.Rand) *consensus.WindowedChainTip {
	slots := make([]uint64, len(t.Slots))
	tipSlot := w.slot(0)
	for i, s := range t.Slots {
		slots[i] = w.slot(s)
		if slots[i] > tipSlot {
			tipSlot = slots[i]
		}
	}
	rng.Shuffle(len(slots), func(i, j int) { slots[i], slots[j] = slots[j], slots[i] })
	return consensus.NewWindowedChainTip(tipSlot, w.bn[t.BN], w.vrfOf(t.VRF), slots)
}

// simple builds a SimpleChainTip carrying the model's legacy density numbers.
func (w *world) simple(kind string, t tipRow, dens []int) *consensus.SimpleChainTip {
	sc := w.dScale
	if kind == "ratio" {
		sc = w.rScale
	}
	return consensus.NewSimpleChainTipWithDensity(w.slot(1), w.bn[t.BN], w.vrfOf(t.VRF),
		uint64(dens[1])*sc, uint64(dens[2])*sc)
}

// ratioSlots returns the block slots of a chain with `blocks` blocks after the fork slot, the last
// one span*rMul slots after it, and blocks at / before the fork slot that do not count.
func (w *world) ratioSlots(forkSlot uint64, blocks, span int, rng *rand.Rand) []uint64 {
	slots := []uint64{forkSlot} // the fork block itself
	for i, n := 0, rng.Intn(3); i < n && forkSlot > 0; i++ {
		slots = append(slots, forkSlot-1-uint64(rng.Int63n(int64(min(forkSlot, 1<<40)))))
	}
	if blocks > 0 {
		last := w.rMul * uint64(span)
		used := map[uint64]bool{last: true}
		slots = append(slots, forkSlot+last)
		for len(used) < blocks { // blocks <= span: there is room
			o := 1 + uint64(rng.Int63n(int64(last)))
			if !used[o] {
				used[o] = true
				slots = append(slots, forkSlot+o)
			}
		}
	}
	rng.Shuffle(len(slots), func(i, j int) { slots[i], slots[j] = slots[j], slots[i] })
	return slots
}

func (w *world) windowedRatio(t tipRow, dens []int, forkSlot uint64, rng *rand.Rand) *consensus.WindowedChainTip {
	slots := w.ratioSlots(forkSlot, dens[1], dens[2], rng)
	tipSlot := forkSlot
	for _, s := range slots {
		tipSlot = max(tipSlot, s)
	}
	return consensus.NewWindowedChainTip(tipSlot, w.bn[t.BN], w.vrfOf(t.VRF), slots)
}

// tip builds the WindowedChainTip of a row's tip.
func (r *runner) tip(kind string, t tipRow, dens []int, cc cctx, rng *rand.Rand) *consensus.WindowedChainTip {
	if kind == "ratio" {
		return r.w.windowedRatio(t, dens, cc.fork.Slot, rng)
	}
	return r.w.windowed(t, rng)
}

type fragment struct {
	fs, tip, blocks, inWindow, wantWindow uint64
	badWindow                             bool
}

func (f *fragment) IntersectionSlot() uint64 { return f.fs }
func (f *fragment) TipSlot() uint64          { return f.tip }
func (f *fragment) BlockCount() uint64       { return f.blocks }
func (f *fragment) BlockCountInWindow(w uint64) uint64 {
	if w != f.wantWindow {
		f.badWindow = true
	}
	return f.inWindow
}

func sign(x int) int {
	switch {
	case x > 0:
		return 1
	case x < 0:
		return -1
	}
	return 0
}

func fmtTip(t tipRow) string {
	s := make([]string, len(t.Slots))
	for i, v := range t.Slots {
		s[i] = fmt.Sprint(v)
	}
	v := fmt.Sprint(t.VRF)
	if t.VRF < 0 {
		v = "none"
	}
	return fmt.Sprintf("%d/%s/{%s}", t.BN, v, strings.Join(s, ","))
}

// fmtTipK: ratio tips are named bn/vrf/<blocks>per<span>
func fmtTipK(kind string, t tipRow, dens []int) string {
	if kind != "ratio" {
		return fmtTip(t)
	}
	v := fmt.Sprint(t.VRF)
	if t.VRF < 0 {
		v = "none"
	}
	return fmt.Sprintf("%d/%s/%dper%d", t.BN, v, dens[1], dens[2])
}

func kindPrefix(kind string) string {
	if kind == "ratio" {
		return "ratio:"
	}
	return ""
}

func fmtCtx(c []int) string {
	return fmt.Sprintf("fb=%d,tb=%d,k=%d,fs=%d,w=%d", c[0], c[1], c[2], c[3], c[4])
}

func contains(xs []int, x int) bool {
	for _, v := range xs {
		if v == x {
			return true
		}
	}
	return false
}

type runner struct {
	rep *vh.Reporter
	w   *world
}

func (r *runner) guard(key string, replay any, f func()) {
	defer func() {
		if p := recover(); p != nil {
			r.rep.Disagree("panic:"+key, fmt.Sprintf("panic in library code: %v", p), replay)
		}
	}()
	f()
}

type cctx struct {
	sel        *consensus.PraosChainSelector
	fork       consensus.ForkPoint
	tb, k, win uint64
}

func (r *runner) concrete(kind string, c []int) cctx {
	fb, tb, k := r.w.depth(c[0], c[1], c[2])
	win := r.w.sMul * uint64(c[4])
	forkSlot := r.w.slot(c[3])
	if kind == "ratio" {
		forkSlot = r.w.rBase + uint64(c[3])
	}
	return cctx{
		sel:  consensus.NewPraosChainSelectorWithWindow(k, win),
		fork: consensus.ForkPoint{Slot: forkSlot, BlockNumber: fb},
		tb:   tb, k: k, win: win,
	}
}

func (r *runner) replayInfo(c []int, cc cctx, extra map[string]any) map[string]any {
	out := map[string]any{
		"world": r.w.name, "ctx_model": fmtCtx(c),
		"securityParam": fmt.Sprint(cc.k), "genesisWindowSlots": fmt.Sprint(cc.win),
		"forkSlot": fmt.Sprint(cc.fork.Slot), "forkBlockNumber": fmt.Sprint(cc.fork.BlockNumber),
		"tipBlockNumber": fmt.Sprint(cc.tb),
	}
	for k, v := range extra {
		out[k] = v
	}
	return out
}

func (r *runner) tipInfo(kind string, t tipRow, dens []int) map[string]any {
	if kind == "ratio" {
		return map[string]any{"model": fmtTipK(kind, t, dens), "blockNumber": fmt.Sprint(r.w.bn[t.BN]),
			"vrf": fmt.Sprintf("%x", r.w.vrfOf(t.VRF)),
			"simple": map[string]any{"blocksAfterFork": fmt.Sprint(uint64(dens[1]) * r.w.rScale), "slotsAfterFork": fmt.Sprint(uint64(dens[2]) * r.w.rScale)},
			"windowed": map[string]any{"blocksAfterForkSlot": dens[1], "lastBlockSlotMinusForkSlot": fmt.Sprint(uint64(dens[2]) * r.w.rMul)}}
	}
	slots := make([]string, len(t.Slots))
	for i, s := range t.Slots {
		slots[i] = fmt.Sprint(r.w.slot(s))
	}
	return map[string]any{"model": fmtTip(t), "blockNumber": fmt.Sprint(r.w.bn[t.BN]),
		"vrf": fmt.Sprintf("%x", r.w.vrfOf(t.VRF)), "blockSlots": slots}
}

func (r *runner) pair(p pairRow, rng *rand.Rand) {
	na, nb := fmtTipK(p.Kind, p.A, p.DA), fmtTipK(p.Kind, p.B, p.DB)
	base := fmt.Sprintf("%s%s:a=%s:b=%s:world=%s", kindPrefix(p.Kind), fmtCtx(p.Ctx), na, nb, r.w.name)
	cc := r.concrete(p.Kind, p.Ctx)
	rp := r.replayInfo(p.Ctx, cc, map[string]any{"a": r.tipInfo(p.Kind, p.A, p.DA), "b": r.tipInfo(p.Kind, p.B, p.DB),
		"model": map[string]any{"deep": p.Deep, "compare": p.Cmp, "compareWithDensity": p.Cwd, "da": p.DA, "db": p.DB}})
	r.rep.Case(base, na != nb)
	r.guard(base, rp, func() {
		a, b := r.tip(p.Kind, p.A, p.DA, cc, rng), r.tip(p.Kind, p.B, p.DB, cc, rng)
		if got := sign(cc.sel.Compare(a, b)); got != p.Cmp {
			r.rep.Disagree(base+":op=compare", fmt.Sprintf("Compare(a,b) = %d, model %d", got, p.Cmp), rp)
		}
		if got := cc.sel.IsDeepFork(cc.fork, cc.tb); got != p.Deep {
			r.rep.Disagree(base+":op=isdeepfork", fmt.Sprintf("IsDeepFork = %v, model %v", got, p.Deep), rp)
		}
		if p.Ctx[4] > 0 {
			if ga, gb := a.BlocksInWindow(cc.fork.Slot, cc.win), b.BlocksInWindow(cc.fork.Slot, cc.win); ga != uint64(p.DA[0]) || gb != uint64(p.DB[0]) {
				r.rep.Disagree(base+":op=blocksinwindow", fmt.Sprintf("BlocksInWindow a/b = %d/%d, model %d/%d", ga, gb, p.DA[0], p.DB[0]), rp)
			}
		}
		if got := sign(cc.sel.CompareWithDensity(a, b, cc.fork, cc.tb)); got != p.Cwd {
			r.rep.Disagree(base+":op=comparewithdensity", fmt.Sprintf("CompareWithDensity(a,b) = %d, model %d", got, p.Cwd), rp)
		}
		// Preferred over the two orders: the result must be maximal under the model's verdict
		for _, order := range [][2]int{{0, 1}, {1, 0}} {
			tips := [2]consensus.ChainTip{a, b}
			cands := []consensus.ChainTip{tips[order[0]], tips[order[1]]}
			check := func(op string, got consensus.ChainTip, verdict int) {
				ok := (got == consensus.ChainTip(a) && verdict >= 0) || (got == consensus.ChainTip(b) && verdict <= 0)
				if !ok {
					r.rep.Disagree(fmt.Sprintf("%s:op=%s:order=%d%d", base, op, order[0]+1, order[1]+1),
						fmt.Sprintf("%s returned a candidate that is not maximal (model verdict a vs b = %d)", op, verdict), rp)
				}
			}
			check("preferred", cc.sel.Preferred(cands), p.Cmp)
			check("preferredwithdensity", cc.sel.PreferredWithDensity(cands, cc.fork, cc.tb), p.Cwd)
		}
		// legacy density rows: the same verdict with tips that carry only the ratio
		if p.Ctx[4] == 0 {
			sa, sb := r.w.simple(p.Kind, p.A, p.DA), r.w.simple(p.Kind, p.B, p.DB)
			for _, win := range []uint64{0, 5 * r.w.sMul} {
				sel := consensus.NewPraosChainSelectorWithWindow(cc.k, win)
				if got := sign(sel.CompareWithDensity(sa, sb, cc.fork, cc.tb)); got != p.Cwd {
					r.rep.Disagree(fmt.Sprintf("%s:op=comparewithdensity-simple:selwin=%d", base, win/r.w.sMul),
						fmt.Sprintf("CompareWithDensity(SimpleChainTips) = %d, model %d", got, p.Cwd), rp)
				}
				if got := sign(sel.Compare(sa, sb)); got != p.Cmp {
					r.rep.Disagree(base+":op=compare-simple", fmt.Sprintf("Compare(SimpleChainTips) = %d, model %d", got, p.Cmp), rp)
				}
			}
		} else {
			// fragment-level Genesis comparison: window density, then length
			gs := genesis.NewGenesisSelector(genesis.GenesisConfig{SecurityParam: cc.k, GenesisWindow: cc.win})
			fa := &fragment{fs: cc.fork.Slot, tip: r.w.slot(1), blocks: r.w.bn[p.A.BN], inWindow: uint64(p.DA[0]), wantWindow: cc.win}
			fb := &fragment{fs: cc.fork.Slot, tip: r.w.slot(1), blocks: r.w.bn[p.B.BN], inWindow: uint64(p.DB[0]), wantWindow: cc.win}
			if got := sign(gs.Compare(fa, fb)); got != p.Frag || fa.badWindow || fb.badWindow {
				r.rep.Disagree(base+":op=genesis-compare", fmt.Sprintf("GenesisSelector.Compare = %d (window passed on correctly: %v), model %d",
					got, !(fa.badWindow || fb.badWindow), p.Frag), rp)
			}
		}
	})
}

var perms3 = [][3]int{{0, 1, 2}, {0, 2, 1}, {1, 0, 2}, {1, 2, 0}, {2, 0, 1}, {2, 1, 0}}

func (r *runner) triple(t tripleRow, rng *rand.Rand) {
	base := fmt.Sprintf("%s%s:t1=%s:t2=%s:t3=%s:world=%s", kindPrefix(t.Kind), fmtCtx(t.Ctx),
		fmtTipK(t.Kind, t.T[0], t.Dens[0]), fmtTipK(t.Kind, t.T[1], t.Dens[1]), fmtTipK(t.Kind, t.T[2], t.Dens[2]), r.w.name)
	cc := r.concrete(t.Kind, t.Ctx)
	rp := r.replayInfo(t.Ctx, cc, map[string]any{"t1": r.tipInfo(t.Kind, t.T[0], t.Dens[0]), "t2": r.tipInfo(t.Kind, t.T[1], t.Dens[1]), "t3": r.tipInfo(t.Kind, t.T[2], t.Dens[2]),
		"model": map[string]any{"deep": t.Deep, "maximal_praos": t.Max, "maximal_density": t.MaxD, "cwd_12_23_13": []int{t.Cab, t.Cbd, t.Cad}}})
	r.rep.Case(base, len(t.Max) < 3 || len(t.MaxD) < 3)
	r.guard(base, rp, func() {
		kinds := []string{"windowed"}
		if t.Ctx[4] == 0 {
			kinds = append(kinds, "simple")
		}
		for _, kind := range kinds {
			tips := make([]consensus.ChainTip, 3)
			for i := range tips {
				if kind == "windowed" {
					tips[i] = r.tip(t.Kind, t.T[i], t.Dens[i], cc, rng)
				} else {
					tips[i] = r.w.simple(t.Kind, t.T[i], t.Dens[i])
				}
			}
			idx := func(x consensus.ChainTip) int {
				for i, c := range tips {
					if c == x {
						return i + 1
					}
				}
				return 0
			}
			// the pairwise verdicts (transitivity is the model's; the code must agree on all three)
			g := [3]int{
				sign(cc.sel.CompareWithDensity(tips[0], tips[1], cc.fork, cc.tb)),
				sign(cc.sel.CompareWithDensity(tips[1], tips[2], cc.fork, cc.tb)),
				sign(cc.sel.CompareWithDensity(tips[0], tips[2], cc.fork, cc.tb)),
			}
			if g != [3]int{t.Cab, t.Cbd, t.Cad} {
				r.rep.Disagree(base+":op=pairwise:tips="+kind, fmt.Sprintf("CompareWithDensity 12/23/13 = %v, model %v", g, []int{t.Cab, t.Cbd, t.Cad}), rp)
			}
			for _, p := range perms3 {
				cands := []consensus.ChainTip{tips[p[0]], tips[p[1]], tips[p[2]]}
				order := fmt.Sprintf("%d%d%d", p[0]+1, p[1]+1, p[2]+1)
				if got := idx(cc.sel.Preferred(cands)); !contains(t.Max, got) {
					r.rep.Disagree(fmt.Sprintf("%s:op=preferred:tips=%s:order=%s", base, kind, order),
						fmt.Sprintf("Preferred returned candidate %d, model's maximal candidates %v", got, t.Max), rp)
				}
				if got := idx(cc.sel.PreferredWithDensity(cands, cc.fork, cc.tb)); !contains(t.MaxD, got) {
					r.rep.Disagree(fmt.Sprintf("%s:op=preferredwithdensity:tips=%s:order=%s", base, kind, order),
						fmt.Sprintf("PreferredWithDensity returned candidate %d, model's maximal candidates %v", got, t.MaxD), rp)
				}
			}
		}
	})
}

func (r *runner) deep(d deepRow) {
	base := fmt.Sprintf("deep:fb=%d,tb=%d,k=%d:world=%s", d.FB, d.TB, d.K, r.w.name)
	fb, tb, k := r.w.depth(d.FB, d.TB, d.K)
	rp := map[string]any{"world": r.w.name, "forkBlockNumber": fmt.Sprint(fb), "tipBlockNumber": fmt.Sprint(tb), "securityParam": fmt.Sprint(k), "model_deep": d.Deep}
	r.rep.Case(base, true)
	r.guard(base, rp, func() {
		sel := consensus.NewPraosChainSelector(k)
		if got := sel.IsDeepFork(consensus.ForkPoint{Slot: 1, BlockNumber: fb}, tb); got != d.Deep {
			r.rep.Disagree(base+":op=isdeepfork", fmt.Sprintf("IsDeepFork(fork bn %d, tip bn %d, k %d) = %v, model %v", fb, tb, k, got, d.Deep), rp)
		}
	})
}

func parallel(n int, f func(i int)) {
	w := runtime.GOMAXPROCS(0)
	if w > 8 {
		w = 8
	}
	var wg sync.WaitGroup
	ch := make(chan int, 1024)
	for k := 0; k < w; k++ {
		wg.Add(1)
		go func() {
			defer wg.Done()
			for i := range ch {
				f(i)
			}
		}()
	}
	for i := 0; i < n; i++ {
		ch <- i
	}
	close(ch)
	wg.Wait()
}

// usage: c41 <dir with deep.ndjson and pairs.ndjson / triples.ndjson>
func main() {
	rep := vh.NewReporter()
	if len(os.Args) < 2 {
		rep.Dead("usage: c41 dir")
	}
	// the selector warns once per instance when it uses the legacy density
	slog.SetDefault(slog.New(slog.NewTextHandler(io.Discard, nil)))
	dir := os.Args[1]
	seed := vh.Seed()
	deeps, err := vh.ReadNDJSON[deepRow](dir + "/deep.ndjson")
	if err != nil || len(deeps) == 0 {
		rep.Dead("deep.ndjson: %v", err)
	}
	pairs, errP := vh.ReadNDJSON[pairRow](dir + "/pairs.ndjson")
	triples, errT := vh.ReadNDJSON[tripleRow](dir + "/triples.ndjson")
	if errP != nil && errT != nil {
		rep.Dead("no pairs.ndjson (%v) and no triples.ndjson (%v)", errP, errT)
	}
	maxSlot := 1
	for _, p := range pairs {
		for _, t := range []tipRow{p.A, p.B} {
			for _, sl := range t.Slots {
				maxSlot = max(maxSlot, sl)
			}
		}
	}
	for _, t := range triples {
		for _, tip := range t.T {
			for _, sl := range tip.Slots {
				maxSlot = max(maxSlot, sl)
			}
		}
	}
	// ratio rows: the longest span and the largest fork slot fix where the worlds put the fork slot
	maxSpan, maxFs, ratioRows := uint64(1), 0, 0
	nearest := map[string]int{} // ratio pair rows by the distance of two unequal densities
	noteRatio := func(kind string, ctx []int, dens ...[]int) {
		if kind != "ratio" {
			return
		}
		ratioRows++
		maxFs = max(maxFs, ctx[3])
		for _, d := range dens {
			maxSpan = max(maxSpan, uint64(d[2]))
		}
	}
	for _, p := range pairs {
		noteRatio(p.Kind, p.Ctx, p.DA, p.DB)
		if p.Kind == "ratio" && p.DA[1] > 0 && p.DB[1] > 0 {
			// bookkeeping for the evidence only (exact integer cross product, no verdict is derived from it)
			cross := int64(p.DA[1])*int64(p.DB[2]) - int64(p.DB[1])*int64(p.DA[2])
			if cross < 0 {
				cross = -cross
			}
			diff := float64(cross) / (float64(p.DA[2]) * float64(p.DB[2]))
			switch {
			case cross == 0 && (p.DA[1] != p.DB[1]):
				nearest["equal_ratio_different_totals"]++
			case cross == 0:
			case diff < 1e-15:
				nearest["unequal_distance_below_1e-15"]++
			case diff < 1e-12:
				nearest["unequal_distance_1e-15_to_1e-12"]++
			case diff < 1e-9:
				nearest["unequal_distance_1e-12_to_1e-9"]++
			case diff < 1e-6:
				nearest["unequal_distance_1e-9_to_1e-6"]++
			case diff < 1e-3:
				nearest["unequal_distance_1e-6_to_1e-3"]++
			default:
				nearest["unequal_distance_1e-3_or_more"]++
			}
		}
	}
	for _, t := range triples {
		noteRatio(t.Kind, t.Ctx, t.Dens...)
	}
	ws := worlds(seed, vh.Tier() == "thorough", maxSlot)
	for _, w := range ws {
		w.setRatioBase(maxSpan, maxFs)
		if ratioRows > 0 && (w.rMul*maxSpan >= 1<<53 || w.rScale*maxSpan >= 1<<53) {
			rep.Dead("world %s: ratio spans up to %d leave the exact float64 range", w.name, maxSpan)
		}
	}
	for wi, w := range ws {
		r := &runner{rep: rep, w: w}
		for _, d := range deeps {
			// the shifted worlds need tb > fb to shift tb and k together; rows keep their verdict
			r.deep(d)
		}
		rowRng := func(kind, i int) *rand.Rand {
			return rand.New(rand.NewSource(seed*1_000_003 + int64(wi)*7919 + int64(kind)*104729 + int64(i)))
		}
		parallel(len(pairs), func(i int) { r.pair(pairs[i], rowRng(1, i)) })
		parallel(len(triples), func(i int) { r.triple(triples[i], rowRng(2, i)) })
	}
	// samples: a deep pair that density decides against the longer chain, a shallow pair
	// with different densities, a triple whose maximal candidates differ between the rules
	pairSample := func(p pairRow) {
		rep.Sample(map[string]any{"kind": "pair", "ctx": fmtCtx(p.Ctx), "deep": p.Deep, "a": fmtTip(p.A), "b": fmtTip(p.B),
			"blocks_in_window": []int{p.DA[0], p.DB[0]}, "compare": p.Cmp, "compareWithDensity": p.Cwd})
	}
	for _, p := range pairs {
		if p.Deep && p.Cmp != 0 && p.Cwd == -p.Cmp && p.Ctx[4] > 0 {
			pairSample(p)
			break
		}
	}
	// a deep ratio pair: sparse chains whose densities differ by less than 1e-9, decided by density
	// against the longer chain
	for _, p := range pairs {
		if p.Kind == "ratio" && p.Deep && p.Cmp != 0 && p.Cwd == -p.Cmp && p.DA[2] > 100_000 && p.DB[2] > 100_000 && p.DA[2] != p.DB[2] {
			rep.Sample(map[string]any{"kind": "ratio pair", "ctx": fmtCtx(p.Ctx), "deep": p.Deep,
				"a": fmtTipK(p.Kind, p.A, p.DA), "b": fmtTipK(p.Kind, p.B, p.DB), "compare": p.Cmp, "compareWithDensity": p.Cwd})
			break
		}
	}
	for _, p := range pairs {
		if !p.Deep && p.Cmp != 0 && p.DA[0] != p.DB[0] && sign(p.DA[0]-p.DB[0]) == -p.Cmp {
			pairSample(p)
			break
		}
	}
	for _, t := range triples {
		if len(t.Max) == 1 && len(t.MaxD) == 1 && t.Max[0] != t.MaxD[0] {
			rep.Sample(map[string]any{"kind": "triple", "ctx": fmtCtx(t.Ctx), "deep": t.Deep,
				"tips": []string{fmtTipK(t.Kind, t.T[0], t.Dens[0]), fmtTipK(t.Kind, t.T[1], t.Dens[1]), fmtTipK(t.Kind, t.T[2], t.Dens[2])}, "maximal_praos": t.Max, "maximal_density": t.MaxD})
			break
		}
	}
	names := make([]string, len(ws))
	for i, w := range ws {
		names[i] = w.name
	}
	rep.Extra["c41_worlds"] = names
	if ratioRows > 0 {
		what := "triples"
		if len(pairs) > 0 {
			what = "pairs"
		}
		rep.Extra["c41_ratio_"+what+"_rows"] = ratioRows
		rep.Extra["c41_ratio_"+what+"_longest_span"] = maxSpan
		if len(nearest) > 0 {
			rep.Extra["c41_ratio_pair_rows_by_density_distance"] = nearest
		}
	}
	rep.Extra["c41_not_replayed"] = "candidate sets mixing tips with and without a window counter (outside the property's domain: the fallback compares different metrics)"
	rep.Finish()
}
