// c41: replays the TLC-generated chain-selection cases (spec/consensus/Selection.tla)
// against consensus.PraosChainSelector (Compare, IsDeepFork, CompareWithDensity,
// Preferred, PreferredWithDensity) with WindowedChainTips, with SimpleChainTips
// for the legacy-density rows, and against genesis.GenesisSelector.Compare.
//
// Abstract -> concrete ("worlds", deterministic from the round and VERIF_SEED):
//   - tip block numbers are only compared: monotone map onto uint64 incl. 0, 2^63, 2^64-1
//   - VRF outputs are only compared: monotone map onto equal-length big-endian byte
//     strings (1, 32 or 64 bytes; all-zero and all-0xff included); "no output" is nil or empty
//   - block slots, fork slot and window enter through s > fs and s - fs <= w only:
//     affine map s -> base + c*s, w -> c*w, incl. the top of the uint64 range
//     (fs + w would wrap there)
//   - fork block / current tip block / k enter through tb - fb - k only: shifted
//     together (the model proves the verdict is shift invariant), incl. k = 2160
//     and the top of the range
//
// Every expected verdict is read from the row.
package main

import (
	"bytes"
	"encoding/json"
	"fmt"
	"io"
	"log/slog"
	"math/rand"
	"os"
	"runtime"
	"sort"
	"strings"
	"sync"

	"github.com/blinklabs-io/gouroboros/consensus"
	"github.com/blinklabs-io/gouroboros/consensus/genesis"

	"verifharness/vh"
)

type tipRow struct {
	BN    int
	VRF   int
	Slots []int
}

func (t *tipRow) UnmarshalJSON(b []byte) error {
	var raw []json.RawMessage
	if err := json.Unmarshal(b, &raw); err != nil {
		return err
	}
	if len(raw) != 3 {
		return fmt.Errorf("tip: want [bn, vrf, slots]")
	}
	if err := json.Unmarshal(raw[0], &t.BN); err != nil {
		return err
	}
	if err := json.Unmarshal(raw[1], &t.VRF); err != nil {
		return err
	}
	return json.Unmarshal(raw[2], &t.Slots)
}

type pairRow struct {
	Ctx  []int  `json:"ctx"` // fb, tb, k, fs, w
	Deep bool   `json:"deep"`
	A    tipRow `json:"a"`
	B    tipRow `json:"b"`
	DA   []int  `json:"da"` // blocks in window, legacy blocks, legacy span
	DB   []int  `json:"db"`
	Cmp  int    `json:"cmp"`
	Cwd  int    `json:"cwd"`
	Frag int    `json:"frag"`
}
type tripleRow struct {
	Ctx  []int    `json:"ctx"`
	Deep bool     `json:"deep"`
	T    []tipRow `json:"t"`
	Dens [][]int  `json:"dens"`
	Max  []int    `json:"max"`
	MaxD []int    `json:"maxd"`
	Cab  int      `json:"cab"`
	Cbd  int      `json:"cbd"`
	Cad  int      `json:"cad"`
}
type deepRow struct {
	FB   int  `json:"fb"`
	TB   int  `json:"tb"`
	K    int  `json:"k"`
	Deep bool `json:"deep"`
}

// ---- worlds -------------------------------------------------------------------

const maxU = ^uint64(0)

type world struct {
	name   string
	bn     [3]uint64 // abstract block number 0..2
	vrf    [3][]byte // abstract VRF output 0..2
	noVRF  []byte    // nil or empty
	sBase  uint64    // slots: base + c*s
	sMul   uint64
	depth  func(fb, tb, k int) (uint64, uint64, uint64)
	dScale uint64 // SimpleChainTip legacy numbers are multiplied by this power of two
}

func sortedBytes(rng *rand.Rand, n, length int) [][]byte {
	for {
		out := make([][]byte, n)
		for i := range out {
			out[i] = make([]byte, length)
			rng.Read(out[i])
		}
		sort.Slice(out, func(i, j int) bool { return bytes.Compare(out[i], out[j]) < 0 })
		ok := true
		for i := 1; i < n; i++ {
			if bytes.Equal(out[i-1], out[i]) {
				ok = false
			}
		}
		if ok {
			return out
		}
	}
}

func worlds(seed int64, thorough bool, maxSlot int) []*world {
	rng := rand.New(rand.NewSource(seed*7919 + 17))
	var ws []*world
	// 1. small numbers, as in the model
	ws = append(ws, &world{
		name: "small", bn: [3]uint64{0, 1, 2},
		vrf:   [3][]byte{{0}, {1}, {2}},
		noVRF: nil, sBase: 0, sMul: 1, dScale: 1,
		depth: func(fb, tb, k int) (uint64, uint64, uint64) { return uint64(fb), uint64(tb), uint64(k) },
	})
	// 2. top of the ranges: bn extremes, VRF extremes (64 bytes), slots ending at 2^64-1,
	//    block numbers ending at 2^64-1
	mid := make([]byte, 64)
	rng.Read(mid)
	mid[0] = 0x01 + byte(rng.Intn(0xfd))
	ws = append(ws, &world{
		name: "top", bn: [3]uint64{0, 1 << 63, maxU},
		vrf:   [3][]byte{bytes.Repeat([]byte{0x00}, 64), mid, bytes.Repeat([]byte{0xff}, 64)},
		noVRF: []byte{}, sBase: maxU - uint64(maxSlot), sMul: 1, dScale: 1 << 20, // the last model slot is 2^64-1
		depth: func(fb, tb, k int) (uint64, uint64, uint64) {
			sh := maxU - 3 // abstract block numbers are 0..3
			return uint64(fb) + sh, uint64(tb) + sh, uint64(k)
		},
	})
	// 3. mainnet-like: k = 2160 + k, 32-byte random VRF outputs, slots scaled by 20 from 10^8
	v32 := sortedBytes(rng, 3, 32)
	b := []uint64{uint64(rng.Int63n(1 << 40)), uint64(rng.Int63n(1 << 40)), uint64(rng.Int63n(1 << 40))}
	sort.Slice(b, func(i, j int) bool { return b[i] < b[j] })
	for b[0] == b[1] || b[1] == b[2] {
		b[1]++
		b[2] += 2
	}
	ws = append(ws, &world{
		name: "mainnet", bn: [3]uint64{b[0], b[1], b[2]},
		vrf:   [3][]byte{v32[0], v32[1], v32[2]},
		noVRF: nil, sBase: 100_000_000, sMul: 20, dScale: 4,
		depth: func(fb, tb, k int) (uint64, uint64, uint64) {
			const y = 2160 // tb and k shifted together, then all shifted by 10^7
			tbb := uint64(tb) + y
			if tb <= fb { // tip at or behind the fork point: keep it there
				tbb = uint64(tb)
			}
			return uint64(fb) + 10_000_000, tbb + 10_000_000, uint64(k) + y
		},
	})
	if thorough {
		// 4. VRF outputs that differ in the last byte only; 2^63 boundaries
		pre := make([]byte, 31)
		rng.Read(pre)
		mk := func(last byte) []byte { return append(append([]byte{}, pre...), last) }
		ws = append(ws, &world{
			name: "edge", bn: [3]uint64{1<<63 - 1, 1 << 63, 1<<63 + 1},
			vrf:   [3][]byte{mk(0x00), mk(0x80), mk(0xff)},
			noVRF: []byte{}, sBase: 1<<63 - 2, sMul: 1, dScale: 1 << 40,
			depth: func(fb, tb, k int) (uint64, uint64, uint64) {
				sh := uint64(1<<63 - 1)
				return uint64(fb) + sh, uint64(tb) + sh, uint64(k)
			},
		})
		// 5. huge k: tb and k shifted together to the top
		ws = append(ws, &world{
			name: "hugek", bn: [3]uint64{7, 8, 9},
			vrf:   [3][]byte{{0x00, 0x01}, {0x01, 0x00}, {0xff, 0xff}},
			noVRF: nil, sBase: 1 << 32, sMul: 1 << 16, dScale: 2,
			depth: func(fb, tb, k int) (uint64, uint64, uint64) {
				if tb <= fb {
					return uint64(fb), uint64(tb), maxU
				}
				y := maxU - 8
				return uint64(fb), uint64(tb) + y, uint64(k) + y
			},
		})
	}
	return ws
}

func (w *world) slot(s int) uint64 { return w.sBase + w.sMul*uint64(s) }

func (w *world) vrfOf(v int) []byte {
	if v < 0 {
		return w.noVRF
	}
	return w.vrf[v]
}

func (w *world) windowed(t tipRow, rng *rand.Rand) *consensus.WindowedChainTip {
	slots := make([]uint64, len(t.Slots))
	tipSlot := w.slot(0)
	for i, s := range t.Slots {
		slots[i] = w.slot(s)
		if slots[i] > tipSlot {
			tipSlot = slots[i]
		}
	}
	rng.Shuffle(len(slots), func(i, j int) { slots[i], slots[j] = slots[j], slots[i] })
	return consensus.NewWindowedChainTip(tipSlot, w.bn[t.BN], w.vrfOf(t.VRF), slots)
}

// simple builds a SimpleChainTip carrying the model's legacy density numbers.
func (w *world) simple(t tipRow, dens []int) *consensus.SimpleChainTip {
	return consensus.NewSimpleChainTipWithDensity(w.slot(1), w.bn[t.BN], w.vrfOf(t.VRF),
		uint64(dens[1])*w.dScale, uint64(dens[2])*w.dScale)
}

type fragment struct {
	fs, tip, blocks, inWindow, wantWindow uint64
	badWindow                             bool
}

func (f *fragment) IntersectionSlot() uint64 { return f.fs }
func (f *fragment) TipSlot() uint64          { return f.tip }
func (f *fragment) BlockCount() uint64       { return f.blocks }
func (f *fragment) BlockCountInWindow(w uint64) uint64 {
	if w != f.wantWindow {
		f.badWindow = true
	}
	return f.inWindow
}

func sign(x int) int {
	switch {
	case x > 0:
		return 1
	case x < 0:
		return -1
	}
	return 0
}

func fmtTip(t tipRow) string {
	s := make([]string, len(t.Slots))
	for i, v := range t.Slots {
		s[i] = fmt.Sprint(v)
	}
	v := fmt.Sprint(t.VRF)
	if t.VRF < 0 {
		v = "none"
	}
	return fmt.Sprintf("%d/%s/{%s}", t.BN, v, strings.Join(s, ","))
}

func fmtCtx(c []int) string {
	return fmt.Sprintf("fb=%d,tb=%d,k=%d,fs=%d,w=%d", c[0], c[1], c[2], c[3], c[4])
}

func contains(xs []int, x int) bool {
	for _, v := range xs {
		if v == x {
			return true
		}
	}
	return false
}

type runner struct {
	rep *vh.Reporter
	w   *world
}

func (r *runner) guard(key string, replay any, f func()) {
	defer func() {
		if p := recover(); p != nil {
			r.rep.Disagree("panic:"+key, fmt.Sprintf("panic in library code: %v", p), replay)
		}
	}()
	f()
}

type cctx struct {
	sel        *consensus.PraosChainSelector
	fork       consensus.ForkPoint
	tb, k, win uint64
}

func (r *runner) concrete(c []int) cctx {
	fb, tb, k := r.w.depth(c[0], c[1], c[2])
	win := r.w.sMul * uint64(c[4])
	return cctx{
		sel:  consensus.NewPraosChainSelectorWithWindow(k, win),
		fork: consensus.ForkPoint{Slot: r.w.slot(c[3]), BlockNumber: fb},
		tb:   tb, k: k, win: win,
	}
}

func (r *runner) replayInfo(c []int, cc cctx, extra map[string]any) map[string]any {
	out := map[string]any{
		"world": r.w.name, "ctx_model": fmtCtx(c),
		"securityParam": fmt.Sprint(cc.k), "genesisWindowSlots": fmt.Sprint(cc.win),
		"forkSlot": fmt.Sprint(cc.fork.Slot), "forkBlockNumber": fmt.Sprint(cc.fork.BlockNumber),
		"tipBlockNumber": fmt.Sprint(cc.tb),
	}
	for k, v := range extra {
		out[k] = v
	}
	return out
}

func (r *runner) tipInfo(t tipRow) map[string]any {
	slots := make([]string, len(t.Slots))
	for i, s := range t.Slots {
		slots[i] = fmt.Sprint(r.w.slot(s))
	}
	return map[string]any{"model": fmtTip(t), "blockNumber": fmt.Sprint(r.w.bn[t.BN]),
		"vrf": fmt.Sprintf("%x", r.w.vrfOf(t.VRF)), "blockSlots": slots}
}

func (r *runner) pair(p pairRow, rng *rand.Rand) {
	base := fmt.Sprintf("%s:a=%s:b=%s:world=%s", fmtCtx(p.Ctx), fmtTip(p.A), fmtTip(p.B), r.w.name)
	cc := r.concrete(p.Ctx)
	rp := r.replayInfo(p.Ctx, cc, map[string]any{"a": r.tipInfo(p.A), "b": r.tipInfo(p.B),
		"model": map[string]any{"deep": p.Deep, "compare": p.Cmp, "compareWithDensity": p.Cwd, "da": p.DA, "db": p.DB}})
	r.rep.Case(base, fmtTip(p.A) != fmtTip(p.B))
	r.guard(base, rp, func() {
		a, b := r.w.windowed(p.A, rng), r.w.windowed(p.B, rng)
		if got := sign(cc.sel.Compare(a, b)); got != p.Cmp {
			r.rep.Disagree(base+":op=compare", fmt.Sprintf("Compare(a,b) = %d, model %d", got, p.Cmp), rp)
		}
		if got := cc.sel.IsDeepFork(cc.fork, cc.tb); got != p.Deep {
			r.rep.Disagree(base+":op=isdeepfork", fmt.Sprintf("IsDeepFork = %v, model %v", got, p.Deep), rp)
		}
		if p.Ctx[4] > 0 {
			if ga, gb := a.BlocksInWindow(cc.fork.Slot, cc.win), b.BlocksInWindow(cc.fork.Slot, cc.win); ga != uint64(p.DA[0]) || gb != uint64(p.DB[0]) {
				r.rep.Disagree(base+":op=blocksinwindow", fmt.Sprintf("BlocksInWindow a/b = %d/%d, model %d/%d", ga, gb, p.DA[0], p.DB[0]), rp)
			}
		}
		if got := sign(cc.sel.CompareWithDensity(a, b, cc.fork, cc.tb)); got != p.Cwd {
			r.rep.Disagree(base+":op=comparewithdensity", fmt.Sprintf("CompareWithDensity(a,b) = %d, model %d", got, p.Cwd), rp)
		}
		// Preferred over the two orders: the result must be maximal under the model's verdict
		for _, order := range [][2]int{{0, 1}, {1, 0}} {
			tips := [2]consensus.ChainTip{a, b}
			cands := []consensus.ChainTip{tips[order[0]], tips[order[1]]}
			check := func(op string, got consensus.ChainTip, verdict int) {
				ok := (got == consensus.ChainTip(a) && verdict >= 0) || (got == consensus.ChainTip(b) && verdict <= 0)
				if !ok {
					r.rep.Disagree(fmt.Sprintf("%s:op=%s:order=%d%d", base, op, order[0]+1, order[1]+1),
						fmt.Sprintf("%s returned a candidate that is not maximal (model verdict a vs b = %d)", op, verdict), rp)
				}
			}
			check("preferred", cc.sel.Preferred(cands), p.Cmp)
			check("preferredwithdensity", cc.sel.PreferredWithDensity(cands, cc.fork, cc.tb), p.Cwd)
		}
		// legacy density rows: the same verdict with tips that carry only the ratio
		if p.Ctx[4] == 0 {
			sa, sb := r.w.simple(p.A, p.DA), r.w.simple(p.B, p.DB)
			for _, win := range []uint64{0, 5 * r.w.sMul} {
				sel := consensus.NewPraosChainSelectorWithWindow(cc.k, win)
				if got := sign(sel.CompareWithDensity(sa, sb, cc.fork, cc.tb)); got != p.Cwd {
					r.rep.Disagree(fmt.Sprintf("%s:op=comparewithdensity-simple:selwin=%d", base, win/r.w.sMul),
						fmt.Sprintf("CompareWithDensity(SimpleChainTips) = %d, model %d", got, p.Cwd), rp)
				}
				if got := sign(sel.Compare(sa, sb)); got != p.Cmp {
					r.rep.Disagree(base+":op=compare-simple", fmt.Sprintf("Compare(SimpleChainTips) = %d, model %d", got, p.Cmp), rp)
				}
			}
		} else {
			// fragment-level Genesis comparison: window density, then length
			gs := genesis.NewGenesisSelector(genesis.GenesisConfig{SecurityParam: cc.k, GenesisWindow: cc.win})
			fa := &fragment{fs: cc.fork.Slot, tip: r.w.slot(1), blocks: r.w.bn[p.A.BN], inWindow: uint64(p.DA[0]), wantWindow: cc.win}
			fb := &fragment{fs: cc.fork.Slot, tip: r.w.slot(1), blocks: r.w.bn[p.B.BN], inWindow: uint64(p.DB[0]), wantWindow: cc.win}
			if got := sign(gs.Compare(fa, fb)); got != p.Frag || fa.badWindow || fb.badWindow {
				r.rep.Disagree(base+":op=genesis-compare", fmt.Sprintf("GenesisSelector.Compare = %d (window passed on correctly: %v), model %d",
					got, !(fa.badWindow || fb.badWindow), p.Frag), rp)
			}
		}
	})
}

var perms3 = [][3]int{{0, 1, 2}, {0, 2, 1}, {1, 0, 2}, {1, 2, 0}, {2, 0, 1}, {2, 1, 0}}

func (r *runner) triple(t tripleRow, rng *rand.Rand) {
	base := fmt.Sprintf("%s:t1=%s:t2=%s:t3=%s:world=%s", fmtCtx(t.Ctx), fmtTip(t.T[0]), fmtTip(t.T[1]), fmtTip(t.T[2]), r.w.name)
	cc := r.concrete(t.Ctx)
	rp := r.replayInfo(t.Ctx, cc, map[string]any{"t1": r.tipInfo(t.T[0]), "t2": r.tipInfo(t.T[1]), "t3": r.tipInfo(t.T[2]),
		"model": map[string]any{"deep": t.Deep, "maximal_praos": t.Max, "maximal_density": t.MaxD, "cwd_12_23_13": []int{t.Cab, t.Cbd, t.Cad}}})
	r.rep.Case(base, len(t.Max) < 3 || len(t.MaxD) < 3)
	r.guard(base, rp, func() {
		kinds := []string{"windowed"}
		if t.Ctx[4] == 0 {
			kinds = append(kinds, "simple")
		}
		for _, kind := range kinds {
			tips := make([]consensus.ChainTip, 3)
			for i := range tips {
				if kind == "windowed" {
					tips[i] = r.w.windowed(t.T[i], rng)
				} else {
					tips[i] = r.w.simple(t.T[i], t.Dens[i])
				}
			}
			idx := func(x consensus.ChainTip) int {
				for i, c := range tips {
					if c == x {
						return i + 1
					}
				}
				return 0
			}
			// the pairwise verdicts (transitivity is the model's; the code must agree on all three)
			g := [3]int{
				sign(cc.sel.CompareWithDensity(tips[0], tips[1], cc.fork, cc.tb)),
				sign(cc.sel.CompareWithDensity(tips[1], tips[2], cc.fork, cc.tb)),
				sign(cc.sel.CompareWithDensity(tips[0], tips[2], cc.fork, cc.tb)),
			}
			if g != [3]int{t.Cab, t.Cbd, t.Cad} {
				r.rep.Disagree(base+":op=pairwise:tips="+kind, fmt.Sprintf("CompareWithDensity 12/23/13 = %v, model %v", g, []int{t.Cab, t.Cbd, t.Cad}), rp)
			}
			for _, p := range perms3 {
				cands := []consensus.ChainTip{tips[p[0]], tips[p[1]], tips[p[2]]}
				order := fmt.Sprintf("%d%d%d", p[0]+1, p[1]+1, p[2]+1)
				if got := idx(cc.sel.Preferred(cands)); !contains(t.Max, got) {
					r.rep.Disagree(fmt.Sprintf("%s:op=preferred:tips=%s:order=%s", base, kind, order),
						fmt.Sprintf("Preferred returned candidate %d, model's maximal candidates %v", got, t.Max), rp)
				}
				if got := idx(cc.sel.PreferredWithDensity(cands, cc.fork, cc.tb)); !contains(t.MaxD, got) {
					r.rep.Disagree(fmt.Sprintf("%s:op=preferredwithdensity:tips=%s:order=%s", base, kind, order),
						fmt.Sprintf("PreferredWithDensity returned candidate %d, model's maximal candidates %v", got, t.MaxD), rp)
				}
			}
		}
	})
}

func (r *runner) deep(d deepRow) {
	base := fmt.Sprintf("deep:fb=%d,tb=%d,k=%d:world=%s", d.FB, d.TB, d.K, r.w.name)
	fb, tb, k := r.w.depth(d.FB, d.TB, d.K)
	rp := map[string]any{"world": r.w.name, "forkBlockNumber": fmt.Sprint(fb), "tipBlockNumber": fmt.Sprint(tb), "securityParam": fmt.Sprint(k), "model_deep": d.Deep}
	r.rep.Case(base, true)
	r.guard(base, rp, func() {
		sel := consensus.NewPraosChainSelector(k)
		if got := sel.IsDeepFork(consensus.ForkPoint{Slot: 1, BlockNumber: fb}, tb); got != d.Deep {
			r.rep.Disagree(base+":op=isdeepfork", fmt.Sprintf("IsDeepFork(fork bn %d, tip bn %d, k %d) = %v, model %v", fb, tb, k, got, d.Deep), rp)
		}
	})
}

func parallel(n int, f func(i int)) {
	w := runtime.GOMAXPROCS(0)
	if w > 8 {
		w = 8
	}
	var wg sync.WaitGroup
	ch := make(chan int, 1024)
	for k := 0; k < w; k++ {
		wg.Add(1)
		go func() {
			defer wg.Done()
			for i := range ch {
				f(i)
			}
		}()
	}
	for i := 0; i < n; i++ {
		ch <- i
	}
	close(ch)
	wg.Wait()
}

// usage: c41 <dir with deep.ndjson and pairs.ndjson / triples.ndjson>
func main() {
	rep := vh.NewReporter()
	if len(os.Args) < 2 {
		rep.Dead("usage: c41 dir")
	}
	// the selector warns once per instance when it uses the legacy density
	slog.SetDefault(slog.New(slog.NewTextHandler(io.Discard, nil)))
	dir := os.Args[1]
	seed := vh.Seed()
	deeps, err := vh.ReadNDJSON[deepRow](dir + "/deep.ndjson")
	if err != nil || len(deeps) == 0 {
		rep.Dead("deep.ndjson: %v", err)
	}
	pairs, errP := vh.ReadNDJSON[pairRow](dir + "/pairs.ndjson")
	triples, errT := vh.ReadNDJSON[tripleRow](dir + "/triples.ndjson")
	if errP != nil && errT != nil {
		rep.Dead("no pairs.ndjson (%v) and no triples.ndjson (%v)", errP, errT)
	}
	maxSlot := 1
	for _, p := range pairs {
		for _, t := range []tipRow{p.A, p.B} {
			for _, sl := range t.Slots {
				maxSlot = max(maxSlot, sl)
			}
		}
	}
	for _, t := range triples {
		for _, tip := range t.T {
			for _, sl := range tip.Slots {
				maxSlot = max(maxSlot, sl)
			}
		}
	}
	ws := worlds(seed, vh.Tier() == "thorough", maxSlot)
	for wi, w := range ws {
		r := &runner{rep: rep, w: w}
		for _, d := range deeps {
			// the shifted worlds need tb > fb to shift tb and k together; rows keep their verdict
			r.deep(d)
		}
		rowRng := func(kind, i int) *rand.Rand {
			return rand.New(rand.NewSource(seed*1_000_003 + int64(wi)*7919 + int64(kind)*104729 + int64(i)))
		}
		parallel(len(pairs), func(i int) { r.pair(pairs[i], rowRng(1, i)) })
		parallel(len(triples), func(i int) { r.triple(triples[i], rowRng(2, i)) })
	}
	// samples: a deep pair that density decides against the longer chain, a shallow pair
	// with different densities, a triple whose maximal candidates differ between the rules
	pairSample := func(p pairRow) {
		rep.Sample(map[string]any{"kind": "pair", "ctx": fmtCtx(p.Ctx), "deep": p.Deep, "a": fmtTip(p.A), "b": fmtTip(p.B),
			"blocks_in_window": []int{p.DA[0], p.DB[0]}, "compare": p.Cmp, "compareWithDensity": p.Cwd})
	}
	for _, p := range pairs {
		if p.Deep && p.Cmp != 0 && p.Cwd == -p.Cmp && p.Ctx[4] > 0 {
			pairSample(p)
			break
		}
	}
	for _, p := range pairs {
		if !p.Deep && p.Cmp != 0 && p.DA[0] != p.DB[0] && sign(p.DA[0]-p.DB[0]) == -p.Cmp {
			pairSample(p)
			break
		}
	}
	for _, t := range triples {
		if len(t.Max) == 1 && len(t.MaxD) == 1 && t.Max[0] != t.MaxD[0] {
			rep.Sample(map[string]any{"kind": "triple", "ctx": fmtCtx(t.Ctx), "deep": t.Deep,
				"tips": []string{fmtTip(t.T[0]), fmtTip(t.T[1]), fmtTip(t.T[2])}, "maximal_praos": t.Max, "maximal_density": t.MaxD})
			break
		}
	}
	names := make([]string, len(ws))
	for i, w := range ws {
		names[i] = w.name
	}
	rep.Extra["c41_worlds"] = names
	rep.Extra["c41_not_replayed"] = "candidate sets mixing tips with and without a window counter (outside the property's domain: the fallback compares different metrics)"
	rep.Finish()
}
