// pipe: conformance driver for pipeline/ (C42, C43, C44).
//
//	pipe replay <behaviours.ndjson>   force TLC behaviours on the real pipeline
//	                                   through the blocking verif gates and compare
//	                                   every step with the specification
//	pipe stress <out-dir> <n>         free-running randomized runs; writes one gate
//	                                   trace per run for TLC trace validation
package main

import (
	"bytes"
	"context"
	"encoding/hex"
	"encoding/json"
	"errors"
	"fmt"
	"math/rand"
	"os"
	"path/filepath"
	"runtime"
	"strings"
	"sync"
	"sync/atomic"
	"time"

	"github.com/blinklabs-io/gouroboros/ledger"
	"github.com/blinklabs-io/gouroboros/pipeline"
	pcommon "github.com/blinklabs-io/gouroboros/protocol/common"

	"verifharness/vh"
)

// ---------------------------------------------------------------- behaviours

type entry struct {
	A      string `json:"a"`
	B      int    `json:"b"`
	S      int    `json:"s"`
	Seq    int    `json:"seq"`
	Out    string `json:"out"`
	Nxt    int    `json:"nxt"`
	N      int    `json:"n"`
	V      int64  `json:"v"`
	Wake   int    `json:"wake"` // SubSend/SubFail: the submitter that was waiting for the token and now gets it
	Wseq   int    `json:"wseq"` // ... and the sequence number it must be given
	Forced *bool  `json:"forced"`
}

type behaviour struct {
	Cfg struct {
		NB, NSub, D, V, Cap int
		MaxPend             int
		Design              string
	} `json:"cfg"`
	Quality []string `json:"quality"`
	Hist    []entry  `json:"hist"`
	Final   struct {
		Spc         []string `json:"spc"`
		Applied     []int    `json:"applied"`
		Results     []int    `json:"results"`
		DrainPc     string   `json:"drainPc"`
		DrainVal    int64    `json:"drainVal"`
		StopPc      string   `json:"stopPc"`
		Cancelled   bool     `json:"cancelled"`
		SeqOf       []int    `json:"seqOf"`
		IdleWorkers int      `json:"idleWorkers"`
		Apc         string   `json:"apc"`
		Pend        int      `json:"pend"`
	} `json:"final"`
}

// ---------------------------------------------------------------- controller

type arrival struct {
	point, stage string
	blk          int
	seq          uint64
	val          int64
	gid          uint64
	err          error
	rel          chan struct{}
}

func (a *arrival) String() string {
	if a == nil {
		return "<none>"
	}
	return fmt.Sprintf("%s/%s blk=%d seq=%d val=%d g=%d err=%v", a.point, a.stage, a.blk, a.seq, a.val, a.gid, a.err)
}

type ctl struct {
	gated       atomic.Bool
	drainActive atomic.Bool
	arrCh       chan *arrival
	pend        []*arrival
	mu          sync.Mutex
	blkByPtr    map[*byte]int
	blkBySeq    map[uint64]int
	held        *heldSet // goroutines currently blocked at a gate
	trace       []string
	perturb     func()
	freeLog     func(point, stage string, seq uint64, blk int) // free-running mode: event sink
}

// the hook installed once in main dispatches to the controller of the current run
var curCtl atomic.Pointer[ctl]

func dispatchHook(point, stage string, seq uint64, raw []byte, val int64) {
	if c := curCtl.Load(); c != nil {
		c.hook(point, stage, seq, raw, val)
	}
}

func newCtl() *ctl {
	return &ctl{arrCh: make(chan *arrival, 1<<14), blkByPtr: map[*byte]int{}, blkBySeq: map[uint64]int{}}
}

func gid() uint64 {
	var buf [64]byte
	n := runtime.Stack(buf[:], false)
	// "goroutine 123 ["
	var id uint64
	for _, c := range buf[10:n] {
		if c < '0' || c > '9' {
			break
		}
		id = id*10 + uint64(c-'0')
	}
	return id
}

// blockOf identifies the block a hook call is about. Submit passes the
// caller's own slice (identified by address); the pipeline then works on a
// private copy, so later points are identified by the sequence number that
// was observed at gate sub.send.
func (c *ctl) blockOf(point string, seq uint64, raw []byte) int {
	if len(raw) == 0 {
		return 0
	}
	c.mu.Lock()
	defer c.mu.Unlock()
	if strings.HasPrefix(point, "sub.") {
		b := c.blkByPtr[&raw[0]]
		if point == "sub.send" {
			c.blkBySeq[seq] = b
		}
		return b
	}
	return c.blkBySeq[seq]
}

func (c *ctl) hook(point, stage string, seq uint64, raw []byte, val int64) {
	a := &arrival{point: point, stage: stage, seq: seq, val: val, blk: c.blockOf(point, seq, raw), gid: gid()}
	if !c.gated.Load() {
		if c.freeLog != nil {
			c.freeLog(point, stage, seq, a.blk)
		}
		if c.perturb != nil {
			c.perturb()
		}
		return
	}
	if (point == "a.done" && val == 0) || (point == "pc.mid" && !c.drainActive.Load()) {
		return // not a gate: nothing was processed / PendingCount called outside a drain poll
	}
	nonBlocking := point == "w.exit" || point == "a.exit"
	if !nonBlocking {
		a.rel = make(chan struct{})
	}
	c.arrCh <- a
	if a.rel != nil {
		<-a.rel
	}
}

func (c *ctl) post(a *arrival) { c.arrCh <- a }

var gateTimeout = 20 * time.Second

// await returns the first arrival matching m (pending ones first).
func (c *ctl) await(m func(*arrival) bool, timeout time.Duration) *arrival {
	for i, a := range c.pend {
		if m(a) {
			c.pend = append(c.pend[:i:i], c.pend[i+1:]...)
			return a
		}
	}
	t := time.NewTimer(timeout)
	defer t.Stop()
	for {
		select {
		case a := <-c.arrCh:
			if m(a) {
				return a
			}
			c.pend = append(c.pend, a)
		case <-t.C:
			return nil
		}
	}
}

// settle collects arrivals that show up within d (used to detect unexpected ones)
func (c *ctl) settle(d time.Duration) {
	t := time.NewTimer(d)
	defer t.Stop()
	for {
		select {
		case a := <-c.arrCh:
			c.pend = append(c.pend, a)
		case <-t.C:
			return
		}
	}
}

func (c *ctl) release(a *arrival) {
	if a != nil && a.rel != nil {
		close(a.rel)
		a.rel = nil
	}
}

// free switches to pass-through mode and opens every gate.
func (c *ctl) free() {
	c.gated.Store(false)
	for _, a := range c.pend {
		c.release(a)
	}
	if c.held != nil {
		for _, a := range c.held.list {
			c.release(a)
		}
		c.held.list = nil
	}
	go func() { // keep draining so late arrivals never block
		for a := range c.arrCh {
			if a.rel != nil {
				close(a.rel)
			}
		}
	}()
}

func at(point, stage string, blk int) func(*arrival) bool {
	return func(a *arrival) bool {
		return a.point == point && (stage == "" || a.stage == stage) && (blk < 0 || a.blk == blk)
	}
}

func atG(point string, g uint64) func(*arrival) bool {
	return func(a *arrival) bool { return a.point == point && a.gid == g }
}

// ---------------------------------------------------------------- fixtures

var goodBlock []byte

func loadFixtures() error {
	repo := os.Getenv("VERIF_REPO")
	if repo == "" {
		repo = "/repo"
	}
	h, err := os.ReadFile(filepath.Join(repo, "internal/testdata/conway_block.hex"))
	if err != nil {
		return err
	}
	goodBlock, err = hex.DecodeString(strings.TrimSpace(string(h)))
	if err != nil {
		return err
	}
	_, err = ledger.NewBlockFromCbor(ledger.BlockTypeConway, goodBlock)
	return err
}

func stageName(s int) string {
	if s == 1 {
		return "decode"
	}
	return "validate"
}

// ---------------------------------------------------------------- one behaviour

type run struct {
	c        *ctl
	p        *pipeline.BlockPipeline
	bh       *behaviour
	raws     [][]byte
	ctxs     []context.Context
	cancels  []context.CancelFunc
	mu       sync.Mutex
	applied  []int
	results  []int
	subErr   map[int]error
	subDone  map[int]bool
	drainErr error
	drainRet bool
	drainCtx context.CancelFunc
	stopRet  bool
	resDone  chan struct{}
	panicked atomic.Value
}

func (r *run) fail(step int, e *entry, format string, a ...any) string {
	msg := fmt.Sprintf(format, a...)
	act := "end"
	if e != nil {
		act = e.A
	}
	return fmt.Sprintf("step %d (%s): %s", step, act, msg)
}

func errKind(err error) string {
	switch {
	case err == nil:
		return "ok"
	case errors.Is(err, pipeline.ErrPipelineStopped):
		return "stopped"
	case errors.Is(err, context.Canceled), errors.Is(err, context.DeadlineExceeded):
		return "expired"
	}
	return "other:" + err.Error()
}

func eqInts(a, b []int) bool {
	if len(a) != len(b) {
		return false
	}
	for i := range a {
		if a[i] != b[i] {
			return false
		}
	}
	return true
}

// replayOne forces one behaviour. It returns ("", _) on conformance, otherwise
// a description of the first divergence. key is a stable identifier of the
// kind of divergence.
type finding struct{ prop, key, desc string }

func propOf(action string) string {
	switch {
	case strings.HasPrefix(action, "Drain"):
		return "C43"
	case strings.HasPrefix(action, "Sub"), action == "end:submit":
		return "C44"
	}
	return "C42"
}

func replayOne(bh *behaviour) []finding {
	c := newCtl()
	c.gated.Store(true)
	r := &run{c: c, bh: bh, subErr: map[int]error{}, subDone: map[int]bool{}, resDone: make(chan struct{})}
	nb := bh.Cfg.NB
	r.raws = make([][]byte, nb+1)
	r.ctxs = make([]context.Context, nb+1)
	r.cancels = make([]context.CancelFunc, nb+1)
	for b := 1; b <= nb; b++ {
		var raw []byte
		if bh.Quality[b-1] == "derr" {
			raw = []byte{0xff, byte(b), 0x00}
		} else {
			raw = bytes.Clone(goodBlock)
		}
		r.raws[b] = raw
		c.blkByPtr[&raw[0]] = b
		r.ctxs[b], r.cancels[b] = context.WithCancel(context.Background())
	}
	curCtl.Store(c)

	applyFn := func(it *pipeline.BlockItem) error {
		b := c.blockOf("apply.call", it.SequenceNumber(), it.RawCbor())
		c.hook("apply.call", "apply", it.SequenceNumber(), it.RawCbor(), 0)
		r.mu.Lock()
		r.applied = append(r.applied, b)
		r.mu.Unlock()
		return nil
	}
	opts := []pipeline.PipelineOption{
		pipeline.WithDecodeWorkers(bh.Cfg.D),
		pipeline.WithValidateWorkers(bh.Cfg.V),
		pipeline.WithPrefetchBufferSize(bh.Cfg.Cap),
		pipeline.WithApplyFunc(applyFn),
	}
	if bh.Cfg.MaxPend > 0 {
		opts = append(opts, pipeline.WithMaxPendingBlocks(bh.Cfg.MaxPend))
	}
	if bh.Cfg.V > 0 {
		opts = append(opts,
			pipeline.WithEta0(strings.Repeat("00", 32)),
			pipeline.WithSlotsPerKesPeriod(129600))
	}
	p := pipeline.NewBlockPipeline(opts...)
	r.p = p
	if err := p.Start(context.Background()); err != nil {
		return []finding{{"dead", "dead", "Start: " + err.Error()}}
	}
	// consumers of the output streams (the application keeps reading them)
	go func() {
		defer close(r.resDone)
		for it := range p.Results() {
			b := c.blockOf("result", it.SequenceNumber(), it.RawCbor())
			r.mu.Lock()
			r.results = append(r.results, b)
			r.mu.Unlock()
		}
	}()
	go func() {
		for range p.Errors() {
		}
	}()

	cleanup := func() string {
		// open all gates, stop the pipeline, and check it winds down
		c.free()
		done := make(chan error, 1)
		go func() { done <- p.Stop() }()
		select {
		case <-done:
		case <-time.After(15 * time.Second):
			return "Stop() did not return within 15s after the behaviour"
		}
		if r.drainCtx != nil {
			r.drainCtx()
		}
		select {
		case <-r.resDone:
		case <-time.After(5 * time.Second):
			return "results channel not closed after Stop()"
		}
		return ""
	}

	return r.steps(cleanup)
}

// expect waits until an arrival matching m is observed and keeps it as held
// (its goroutine stays blocked at that gate until release).
func (r *run) expect(m func(*arrival) bool) *arrival {
	return r.c.await(m, gateTimeout)
}

type heldSet struct{ list []*arrival }

func (h *heldSet) add(a *arrival) { h.list = append(h.list, a) }
func (h *heldSet) take(m func(*arrival) bool) *arrival {
	for i, a := range h.list {
		if m(a) {
			h.list = append(h.list[:i:i], h.list[i+1:]...)
			return a
		}
	}
	return nil
}

func (r *run) steps(cleanup func() string) (out []finding) {
	c, bh, p := r.c, r.bh, r.p
	var div *finding // first divergence between the behaviour and the real run
	drainSnap := map[int]bool{}
	var drainViol string
	held := &heldSet{}
	c.held = held
	ns := 1
	if bh.Cfg.V > 0 {
		ns = 2
	}
	bad := func(i int, e *entry, k string, format string, a ...any) bool {
		d := r.fail(i, e, format, a...)
		var hs []string
		for _, a := range held.list {
			hs = append(hs, a.String())
		}
		for _, a := range c.pend {
			hs = append(hs, "unconsumed:"+a.String())
		}
		d += " | held: " + strings.Join(hs, "; ")
		act := k
		if e != nil {
			act = e.A
		}
		div = &finding{propOf(act), k, d}
		return false
	}
	// expectHold: wait for the arrival and hold it
	expectHold := func(m func(*arrival) bool) *arrival {
		a := r.expect(m)
		if a != nil && a.rel != nil {
			held.add(a)
		}
		return a
	}
	freeRun := false
	forcedPart := func() bool {
		for i := 0; i < bh.Cfg.D; i++ {
			if expectHold(at("w.idle", "decode", -1)) == nil {
				return bad(0, nil, "init", "decode worker %d did not reach its idle gate", i)
			}
		}
		for i := 0; i < bh.Cfg.V; i++ {
			if expectHold(at("w.idle", "validate", -1)) == nil {
				return bad(0, nil, "init", "validate worker %d did not reach its idle gate", i)
			}
		}
		if expectHold(at("a.idle", "", -1)) == nil {
			return bad(0, nil, "init", "apply runner did not reach its idle gate")
		}

		submit := func(b int) {
			go func() {
				err := p.Submit(r.ctxs[b], ledger.BlockTypeConway, r.raws[b], pcommon.Tip{})
				r.mu.Lock()
				r.subErr[b], r.subDone[b] = err, true
				r.mu.Unlock()
				c.post(&arrival{point: "ret.sub", blk: b, err: err})
			}()
		}
		for i, e := range bh.Hist {
			e := e
			if e.Forced != nil && !*e.Forced {
				freeRun = true
				break
			}
			rel := func(m func(*arrival) bool) *arrival {
				a := held.take(m)
				if a != nil {
					c.release(a)
				}
				return a
			}
			switch e.A {
			case "SubBegin":
				submit(e.B)
				if e.Out == "gate" {
					if expectHold(at("sub.begin", "", e.B)) == nil {
						return bad(i, &e, "SubBegin:nogate", "Submit(%d) did not reach gate sub.begin", e.B)
					}
				} else {
					a := r.expect(at("ret.sub", "", e.B))
					if a == nil || errKind(a.err) != "stopped" {
						return bad(i, &e, "SubBegin:ret", "Submit(%d) on a stopped pipeline: got %v, want ErrPipelineStopped", e.B, a)
					}
				}
			case "SubAlloc":
				if rel(at("sub.begin", "", e.B)) == nil {
					return bad(i, &e, "SubAlloc:held", "no goroutine held at sub.begin for block %d", e.B)
				}
				a := expectHold(at("sub.send", "", e.B))
				if a == nil {
					return bad(i, &e, "SubAlloc:nogate", "Submit(%d) did not reach gate sub.send", e.B)
				}
				if int(a.seq) != e.Seq {
					return bad(i, &e, "SubAlloc:seq", "block %d got sequence number %d, specification says %d", e.B, a.seq, e.Seq)
				}
			case "SubGo":
				if rel(at("sub.begin", "", e.B)) == nil {
					return bad(i, &e, "SubGo:held", "no goroutine held at sub.begin for block %d", e.B)
				}
				// the submitter now blocks in its select on the submit token: nothing may arrive
				c.settle(15 * time.Millisecond)
				for _, a := range c.pend {
					if a.blk == e.B && (a.point == "sub.send" || a.point == "ret.sub") {
						return bad(i, &e, "SubGo:early", "Submit(%d) went past the submit token although another submitter holds it: %v", e.B, a)
					}
				}
			case "SubWaitFail":
				if e.Out == "expired" {
					r.cancels[e.B]()
				}
				a := r.expect(at("ret.sub", "", e.B))
				if a == nil || errKind(a.err) != e.Out {
					return bad(i, &e, "SubWaitFail:ret", "Submit(%d) waiting for the submit token: got %v, specification says outcome %s", e.B, a, e.Out)
				}
			case "SubAllocFail", "SubFail":
				if e.Out == "expired" {
					r.cancels[e.B]()
				}
				gate := "sub.send"
				if e.A == "SubAllocFail" {
					gate = "sub.begin"
				}
				if rel(at(gate, "", e.B)) == nil {
					return bad(i, &e, e.A+":held", "no goroutine held at %s for block %d", gate, e.B)
				}
				a := r.expect(at("ret.sub", "", e.B))
				if a == nil || errKind(a.err) != e.Out {
					return bad(i, &e, e.A+":ret", "Submit(%d): got %v, specification says outcome %s", e.B, a, e.Out)
				}
				if e.Wake != 0 {
					w := expectHold(at("sub.send", "", e.Wake))
					if w == nil {
						return bad(i, &e, e.A+":wake", "Submit(%d) was waiting for the submit token and did not get it", e.Wake)
					}
					if int(w.seq) != e.Wseq {
						return bad(i, &e, "SubAlloc:seq", "block %d got sequence number %d, specification says %d", e.Wake, w.seq, e.Wseq)
					}
				}
			case "SubSend":
				if rel(at("sub.send", "", e.B)) == nil {
					return bad(i, &e, "SubSend:held", "no goroutine held at sub.send for block %d", e.B)
				}
				a := r.expect(at("ret.sub", "", e.B))
				if a == nil || a.err != nil {
					return bad(i, &e, "SubSend:ret", "Submit(%d): got %v, specification says it returns nil", e.B, a)
				}
				if e.Wake != 0 {
					w := expectHold(at("sub.send", "", e.Wake))
					if w == nil {
						return bad(i, &e, "SubSend:wake", "Submit(%d) was waiting for the submit token and did not get it", e.Wake)
					}
					if int(w.seq) != e.Wseq {
						return bad(i, &e, "SubAlloc:seq", "block %d got sequence number %d, specification says %d", e.Wake, w.seq, e.Wseq)
					}
				}
			case "WTake":
				st := stageName(e.S)
				w := rel(at("w.idle", st, -1))
				if w == nil {
					return bad(i, &e, "WTake:held", "no idle %s worker", st)
				}
				a := expectHold(atG("w.emit", w.gid))
				if a == nil {
					return bad(i, &e, "WTake:nogate", "%s worker did not come back with a block (expected block %d)", st, e.B)
				}
				if a.blk != e.B {
					return bad(i, &e, "WTake:blk", "%s worker took block %d, specification says %d", st, a.blk, e.B)
				}
			case "WEmit":
				st := stageName(e.S)
				w := rel(at("w.emit", st, e.B))
				if w == nil {
					return bad(i, &e, "WEmit:held", "no %s worker holds block %d", st, e.B)
				}
				if expectHold(atG("w.idle", w.gid)) == nil {
					return bad(i, &e, "WEmit:nogate", "%s worker did not return to idle after emitting block %d", st, e.B)
				}
			case "WDrop":
				st := stageName(e.S)
				w := rel(at("w.emit", st, e.B))
				if w == nil {
					return bad(i, &e, "WDrop:held", "no %s worker holds block %d", st, e.B)
				}
				if r.expect(atG("w.exit", w.gid)) == nil {
					return bad(i, &e, "WDrop:noexit", "%s worker did not exit", st)
				}
			case "WExit":
				st := stageName(e.S)
				w := rel(at("w.idle", st, -1))
				if w == nil {
					return bad(i, &e, "WExit:held", "no idle %s worker", st)
				}
				if r.expect(atG("w.exit", w.gid)) == nil {
					return bad(i, &e, "WExit:noexit", "%s worker did not exit", st)
				}
			case "ATake":
				if rel(at("a.idle", "", -1)) == nil {
					return bad(i, &e, "ATake:held", "apply runner not at idle gate")
				}
				a := expectHold(at("a.took", "", -1))
				if a == nil || a.blk != e.B {
					return bad(i, &e, "ATake:blk", "apply runner took %v, specification says block %d", a, e.B)
				}
			case "AProc", "AApplyEnd":
				gate := "a.took"
				if e.A == "AApplyEnd" {
					gate = "apply.call"
				}
				if rel(at(gate, "", e.B)) == nil {
					return bad(i, &e, e.A+":held", "apply runner not at %s with block %d", gate, e.B)
				}
				var a *arrival
				switch e.Out {
				case "buffer":
					a = expectHold(at("a.idle", "", -1))
				case "applying":
					a = expectHold(func(x *arrival) bool {
						return x.point == "apply.call" || x.point == "a.done" || x.point == "a.idle"
					})
					if a != nil && (a.point != "apply.call" || a.blk != e.Nxt) {
						return bad(i, &e, e.A+":next", "apply stage reached %v, specification says ApplyFunc is called for block %d", a, e.Nxt)
					}
				case "done":
					a = expectHold(func(x *arrival) bool {
						return x.point == "apply.call" || (x.point == "a.done" && x.val > 0) || x.point == "a.idle"
					})
					if a != nil && a.point != "a.done" {
						return bad(i, &e, e.A+":next", "apply stage reached %v, specification says the chain is finished", a)
					}
				}
				if a == nil {
					return bad(i, &e, e.A+":nogate", "apply runner did not reach its next gate (out=%s)", e.Out)
				}
			case "AFwd":
				a := held.take(at("a.done", "", -1))
				if a == nil {
					return bad(i, &e, "AFwd:held", "apply runner not at a.done")
				}
				if int(a.val) != e.N {
					c.release(a)
					return bad(i, &e, "AFwd:n", "apply runner forwards %d items, specification says %d", a.val, e.N)
				}
				c.release(a)
				if expectHold(at("a.idle", "", -1)) == nil {
					return bad(i, &e, "AFwd:nogate", "apply runner did not return to idle after forwarding")
				}
			case "AExit":
				if rel(at("a.idle", "", -1)) == nil {
					return bad(i, &e, "AExit:held", "apply runner not at idle gate")
				}
				if r.expect(at("a.exit", "", -1)) == nil {
					return bad(i, &e, "AExit:noexit", "apply runner did not exit")
				}
			case "StopCancel":
				go func() {
					err := p.Stop()
					c.post(&arrival{point: "ret.stop", err: err})
				}()
				if expectHold(at("stop.lock", "", -1)) == nil {
					return bad(i, &e, "StopCancel:nogate", "Stop() did not reach gate stop.lock")
				}
			case "StopLock":
				if rel(at("stop.lock", "", -1)) == nil {
					return bad(i, &e, "StopLock:held", "Stop() not at stop.lock")
				}
				if expectHold(at("stop.wait1", "", -1)) == nil {
					return bad(i, &e, "StopLock:nogate", "Stop() did not get the submit lock / reach stop.wait1")
				}
			case "StopStage":
				if rel(at(fmt.Sprintf("stop.wait%d", e.S), "", -1)) == nil {
					return bad(i, &e, "StopStage:held", "Stop() not at stop.wait%d", e.S)
				}
				nxt := "stop.waitA"
				if e.S < ns {
					nxt = "stop.wait2"
				}
				if expectHold(at(nxt, "", -1)) == nil {
					return bad(i, &e, "StopStage:nogate", "Stop() did not reach %s", nxt)
				}
			case "StopApply":
				if rel(at("stop.waitA", "", -1)) == nil {
					return bad(i, &e, "StopApply:held", "Stop() not at stop.waitA")
				}
				a := r.expect(at("ret.stop", "", -1))
				if a == nil || a.err != nil {
					return bad(i, &e, "StopApply:ret", "Stop() returned %v", a)
				}
				r.stopRet = true
			case "DrainBegin":
				r.mu.Lock()
				for b := 1; b <= bh.Cfg.NB; b++ {
					if r.subDone[b] && r.subErr[b] == nil {
						drainSnap[b] = true
					}
				}
				r.mu.Unlock()
				ctx, cancel := context.WithCancel(context.Background())
				r.drainCtx = cancel
				go func() {
					err := p.WaitForDrain(ctx)
					c.post(&arrival{point: "ret.drain", err: err})
				}()
				if expectHold(at("wfd.poll", "", -1)) == nil {
					return bad(i, &e, "DrainBegin:nogate", "WaitForDrain did not poll")
				}
			case "DrainRead1":
				c.drainActive.Store(true)
				if rel(at("wfd.poll", "", -1)) == nil {
					return bad(i, &e, "DrainRead1:held", "WaitForDrain not at wfd.poll")
				}
				a := expectHold(at("pc.mid", "", -1))
				if a == nil {
					return bad(i, &e, "DrainRead1:nogate", "PendingCount did not reach pc.mid")
				}
				if a.val != e.V {
					return bad(i, &e, "DrainRead1:val", "PendingCount first operand = %d, specification says %d", a.val, e.V)
				}
			case "DrainRead2":
				if rel(at("pc.mid", "", -1)) == nil {
					return bad(i, &e, "DrainRead2:held", "PendingCount not at pc.mid")
				}
				c.drainActive.Store(false)
				if e.V == 0 {
					a := r.expect(at("ret.drain", "", -1))
					if a == nil || a.err != nil {
						return bad(i, &e, "DrainRead2:ret", "specification says PendingCount = 0 and WaitForDrain returns nil; got %v", a)
					}
					r.drainRet = true
					// C43 monitor, on the real run: WaitForDrain returned nil, so every block
					// whose Submit returned before the wait began must be finished
					r.mu.Lock()
					for b := range drainSnap {
						done := false
						for _, x := range r.applied {
							done = done || x == b
						}
						if bh.Quality[b-1] == "good" && bh.Cfg.V == 0 && !done {
							drainViol = fmt.Sprintf("WaitForDrain returned nil while block %d (Submit returned before the wait began) had not been applied yet; applied=%v", b, r.applied)
						}
					}
					r.mu.Unlock()
				} else {
					a := expectHold(func(x *arrival) bool { return x.point == "wfd.poll" || x.point == "ret.drain" })
					if a == nil || a.point != "wfd.poll" {
						return bad(i, &e, "DrainRead2:ret", "specification says PendingCount = %d (WaitForDrain keeps waiting); got %v", e.V, a)
					}
				}
			default:
				return bad(i, &e, "dead", "unknown action %q", e.A)
			}
		}
		return true
	}
	completed := forcedPart()

	add := func(prop, key, desc string) { out = append(out, finding{prop, key, desc}) }
	if div != nil {
		out = append(out, *div)
	}
	if completed && !freeRun {
		// the whole behaviour was forced: the observable end state must be the specification's
		c.settle(30 * time.Millisecond)
		for _, a := range c.pend {
			if a.rel != nil || strings.HasPrefix(a.point, "ret.") {
				add("C42", "end:unexpected", fmt.Sprintf("unexpected activity at the end of the behaviour: %v", a))
				break
			}
		}
		r.mu.Lock()
		applied := append([]int(nil), r.applied...)
		results := append([]int(nil), r.results...)
		r.mu.Unlock()
		if !eqInts(applied, bh.Final.Applied) {
			add("C42", "end:applied", fmt.Sprintf("applied blocks %v, specification says %v", applied, bh.Final.Applied))
		}
		if !bh.Final.Cancelled && !eqInts(results, bh.Final.Results) {
			time.Sleep(50 * time.Millisecond) // the consumer may lag by a moment
			r.mu.Lock()
			results = append([]int(nil), r.results...)
			r.mu.Unlock()
			if !eqInts(results, bh.Final.Results) {
				add("C42", "end:results", fmt.Sprintf("results stream %v, specification says %v", results, bh.Final.Results))
			}
		}
		for b := 1; b <= bh.Cfg.NB; b++ {
			want := bh.Final.Spc[b-1]
			switch want {
			case "ok", "expired", "stopped":
				r.mu.Lock()
				okb := r.subDone[b] && errKind(r.subErr[b]) == want
				r.mu.Unlock()
				if !okb {
					add("C44", "end:submit", fmt.Sprintf("Submit(%d) outcome %v/%s, specification says %s", b, r.subDone[b], errKind(r.subErr[b]), want))
				}
			}
		}
	}
	cancelledRun := freeRun || bh.Final.Cancelled
	if div != nil && !cancelledRun {
		// The real run left the behaviour. Let it run freely to quiescence so that
		// the property monitors below judge the real execution.
		c.free()
		deadline := time.Now().Add(3 * time.Second)
		for time.Now().Before(deadline) {
			r.mu.Lock()
			n := len(r.results)
			r.mu.Unlock()
			if n >= bh.Cfg.NB {
				break
			}
			time.Sleep(20 * time.Millisecond)
		}
	}
	// ---- property monitors on the real execution (independent of the specification)
	r.mu.Lock()
	applied := append([]int(nil), r.applied...)
	results := append([]int(nil), r.results...)
	r.mu.Unlock()
	seqOf := map[int]uint64{}
	c.mu.Lock()
	for s, b := range c.blkBySeq {
		seqOf[b] = s
	}
	c.mu.Unlock()
	seen := map[int]bool{}
	for _, b := range results {
		if seen[b] {
			add("C42", "mon:results-dup", fmt.Sprintf("block %d appears twice on the results stream %v", b, results))
		}
		seen[b] = true
	}
	seenA := map[int]bool{}
	for i, b := range applied {
		if seenA[b] {
			add("C42", "mon:applied-dup", fmt.Sprintf("block %d applied twice: %v", b, applied))
		}
		seenA[b] = true
		if b < 1 || b > bh.Cfg.NB || bh.Quality[b-1] != "good" || bh.Cfg.V > 0 {
			add("C42", "mon:applied-bad", fmt.Sprintf("block %d, which fails decode/validation, was applied (%v)", b, applied))
		}
		if i > 0 && seqOf[applied[i-1]] >= seqOf[b] {
			add("C42", "mon:applied-order", fmt.Sprintf("blocks applied out of submission order: %v (sequence numbers %v)", applied, seqOf))
		}
	}
	if m := cleanup(); m != "" {
		add("C42", "cleanup", m)
	} else if m := leakCheck(); m != "" {
		add("C42", "leak", m)
	}
	r.mu.Lock()
	defer r.mu.Unlock()
	if !cancelledRun {
		// the pipeline was left alone and had come to rest before the clean-up
		anyFailed := false
		for b := 1; b <= bh.Cfg.NB; b++ {
			if r.subDone[b] && r.subErr[b] != nil {
				anyFailed = true
			}
		}
		for b := 1; b <= bh.Cfg.NB; b++ {
			if !(r.subDone[b] && r.subErr[b] == nil) {
				continue
			}
			if bh.Quality[b-1] == "good" && bh.Cfg.V == 0 && !seenA[b] {
				if anyFailed {
					add("C44", "mon:stalled-after-failed-submit", fmt.Sprintf("Submit(%d) returned nil but the block was never applied after an earlier submission failed; applied=%v", b, applied))
				} else {
					add("C42", "mon:not-applied", fmt.Sprintf("Submit(%d) returned nil but the block was never applied; applied=%v", b, applied))
				}
			}
			if !seen[b] {
				if anyFailed {
					add("C44", "mon:stalled-after-failed-submit", fmt.Sprintf("Submit(%d) returned nil but the block never appeared on the results stream %v", b, results))
				} else {
					add("C42", "mon:no-result", fmt.Sprintf("Submit(%d) returned nil but the block never appeared on the results stream %v", b, results))
				}
			}
		}
	}
	if drainViol != "" {
		add("C43", "mon:drain-unsound", drainViol)
	}
	return out
}

// ---------------------------------------------------------------- free-running stress

type sline struct {
	Ev   string `json:"ev"`
	B    int    `json:"b"`
	N    int    `json:"n"`
	S    string `json:"s"`
	Good []int  `json:"good,omitempty"`
	Cfg  string `json:"cfg,omitempty"`
}

// stressOne runs one free-running execution (all goroutines truly concurrent, seeded
// perturbation in the hooks) and returns its event trace for PipelineTrace.tla.
func stressOne(seed int64) []sline {
	rng := rand.New(rand.NewSource(seed))
	nb := 8 + rng.Intn(50)
	d := 1 + rng.Intn(16)
	capv := []int{1, 2, 8, 64}[rng.Intn(4)]
	maxPend := []int{1, 4, 2160}[rng.Intn(3)]
	nsub := 1 + rng.Intn(4)
	quiet := rng.Intn(10) < 6
	var mu sync.Mutex
	var lines []sline
	logf := func(l sline) { mu.Lock(); lines = append(lines, l); mu.Unlock() }
	c := newCtl()
	var pmu sync.Mutex
	prng := rand.New(rand.NewSource(seed + 99))
	c.perturb = func() {
		pmu.Lock()
		k := prng.Intn(24)
		pmu.Unlock()
		switch {
		case k < 5:
			runtime.Gosched()
		case k == 5:
			time.Sleep(time.Duration(20+k*7) * time.Microsecond)
		}
	}
	c.freeLog = func(point, stage string, seq uint64, blk int) {
		switch point {
		case "sub.send":
			logf(sline{Ev: "SubSeq", B: blk, N: int(seq)})
		case "w.emit":
			logf(sline{Ev: "Took", B: blk, S: stage})
		}
	}
	raws := make([][]byte, nb+1)
	var good []int
	for b := 1; b <= nb; b++ {
		if rng.Intn(4) == 0 {
			raws[b] = []byte{0xff, byte(b), 0x00}
		} else {
			raws[b] = bytes.Clone(goodBlock)
			good = append(good, b)
		}
		c.blkByPtr[&raws[b][0]] = b
	}
	if good == nil {
		good = []int{}
	}
	logf(sline{Ev: "Reset", Good: good, Cfg: fmt.Sprintf("nb=%d d=%d cap=%d maxpend=%d nsub=%d quiet=%v seed=%d", nb, d, capv, maxPend, nsub, quiet, seed)})
	curCtl.Store(c)
	applyLat := time.Duration(rng.Intn(300)) * time.Microsecond
	applyFn := func(it *pipeline.BlockItem) error {
		b := c.blockOf("apply.call", it.SequenceNumber(), it.RawCbor())
		logf(sline{Ev: "ApplyCall", B: b})
		if applyLat > 0 {
			time.Sleep(applyLat)
		}
		logf(sline{Ev: "ApplyRet", B: b})
		return nil
	}
	p := pipeline.NewBlockPipeline(
		pipeline.WithDecodeWorkers(d), pipeline.WithPrefetchBufferSize(capv),
		pipeline.WithMaxPendingBlocks(maxPend), pipeline.WithApplyFunc(applyFn))
	if err := p.Start(context.Background()); err != nil {
		return nil
	}
	resDone := make(chan struct{})
	var nres int64
	go func() {
		defer close(resDone)
		for it := range p.Results() {
			logf(sline{Ev: "Result", B: c.blockOf("result", it.SequenceNumber(), it.RawCbor())})
			atomic.AddInt64(&nres, 1)
		}
	}()
	go func() {
		for range p.Errors() {
		}
	}()
	var okCount int64
	var wg sync.WaitGroup
	for s := 0; s < nsub; s++ {
		wg.Add(1)
		go func(s int) {
			defer wg.Done()
			r := rand.New(rand.NewSource(seed*31 + int64(s)))
			for b := 1 + s; b <= nb; b += nsub {
				ctx := context.Background()
				var cancel context.CancelFunc = func() {}
				if r.Intn(8) == 0 {
					ctx, cancel = context.WithTimeout(ctx, time.Duration(r.Intn(400))*time.Microsecond)
				}
				err := p.Submit(ctx, ledger.BlockTypeConway, raws[b], pcommon.Tip{})
				cancel()
				out := errKind(err)
				if out == "ok" {
					atomic.AddInt64(&okCount, 1)
				}
				logf(sline{Ev: "SubRet", B: b, S: out})
			}
		}(s)
	}
	// drains at random moments
	drainStop := make(chan struct{})
	drainParent, drainCancel := context.WithCancel(context.Background())
	defer drainCancel()
	var dwg sync.WaitGroup
	dwg.Add(1)
	go func() {
		defer dwg.Done()
		r := rand.New(rand.NewSource(seed * 17))
		for i := 0; i < 3; i++ {
			select {
			case <-drainStop:
				return
			case <-time.After(time.Duration(r.Intn(3000)) * time.Microsecond):
			}
			ctx, cancel := context.WithTimeout(drainParent, 5*time.Second)
			logf(sline{Ev: "DrainBegin"})
			err := p.WaitForDrain(ctx)
			cancel()
			logf(sline{Ev: "DrainRet", S: errKind(err)})
		}
	}()
	if quiet {
		wg.Wait()
		deadline := time.Now().Add(15 * time.Second)
		for time.Now().Before(deadline) && atomic.LoadInt64(&nres) < atomic.LoadInt64(&okCount) {
			time.Sleep(time.Millisecond)
		}
	} else {
		time.Sleep(time.Duration(rng.Intn(4000)) * time.Microsecond)
	}
	close(drainStop)
	if quiet {
		dwg.Wait()
	}
	logf(sline{Ev: "StopCall"})
	stopped := make(chan struct{})
	go func() { p.Stop(); close(stopped) }()
	select {
	case <-stopped:
		logf(sline{Ev: "StopRet"})
	case <-time.After(20 * time.Second):
	}
	drainCancel() // a WaitForDrain that outlives Stop would wait for dropped items
	wg.Wait()
	dwg.Wait()
	select {
	case <-resDone:
	case <-time.After(5 * time.Second):
	}
	left := 0
	if m := leakCheck(); m != "" {
		left = 1
	}
	q := 0
	if quiet {
		q = 1
	}
	logf(sline{Ev: "End", N: left, B: q})
	mu.Lock()
	defer mu.Unlock()
	return lines
}

func leakCheck() string {
	deadline := time.Now().Add(3 * time.Second)
	for {
		buf := make([]byte, 1<<20)
		n := runtime.Stack(buf, true)
		s := string(buf[:n])
		cnt := strings.Count(s, "gouroboros/pipeline.")
		if cnt == 0 {
			return ""
		}
		if time.Now().After(deadline) {
			return fmt.Sprintf("%d stack frames of pipeline goroutines remain after Stop()", cnt)
		}
		time.Sleep(20 * time.Millisecond)
	}
}

func main() {
	rep := vh.NewReporter()
	if len(os.Args) < 3 {
		rep.Dead("usage: pipe replay <behaviours.ndjson> | stress <dir> <n>")
	}
	if err := loadFixtures(); err != nil {
		rep.Dead("fixtures: %v", err)
	}
	pipeline.VerifHook = dispatchHook
	switch os.Args[1] {
	case "replay":
		bhs, err := vh.ReadNDJSON[behaviour](os.Args[2])
		if err != nil || len(bhs) == 0 {
			rep.Dead("behaviours: %v (n=%d)", err, len(bhs))
		}
		forcedSteps := 0
		for i := range bhs {
			bh := &bhs[i]
			sig, _ := json.Marshal(bh.Hist)
			forced := 0
			for _, e := range bh.Hist {
				if e.Forced != nil && !*e.Forced {
					break
				}
				forced++
			}
			forcedSteps += forced
			fs := replayOne(bh)
			rep.Case(string(sig), forced >= 6)
			if i < 2 {
				rep.Sample(map[string]any{"cfg": bh.Cfg, "quality": bh.Quality, "hist": bh.Hist, "final": bh.Final})
			}
			seenProp := map[string]bool{}
			for _, f := range fs {
				if f.prop == "dead" {
					rep.Dead("%s", f.desc)
				}
				if seenProp[f.prop] {
					continue
				}
				seenProp[f.prop] = true
				rep.Disagree(fmt.Sprintf("%s:pipe:%s:%s", f.prop, bh.Cfg.Design, f.key), f.desc, bh)
			}
			if rep.Disagreements() >= 12 {
				break
			}
		}
		rep.Extra["forced_steps"] = forcedSteps
		rep.Extra["behaviours"] = len(bhs)
	case "stress":
		if len(os.Args) < 4 {
			rep.Dead("usage: pipe stress <outdir> <n>")
		}
		n := 0
		fmt.Sscanf(os.Args[3], "%d", &n)
		f, err := os.Create(os.Args[2] + "/traces.ndjson")
		if err != nil {
			rep.Dead("%v", err)
		}
		enc := json.NewEncoder(f)
		events := 0
		for i := 0; i < n; i++ {
			ls := stressOne(vh.Seed()*1000003 + int64(i))
			if ls == nil {
				rep.Dead("pipeline did not start")
			}
			for _, l := range ls {
				enc.Encode(l)
			}
			events += len(ls)
			rep.Case(ls[0].Cfg, len(ls) > 20)
			if i < 2 {
				rep.Sample(map[string]any{"cfg": ls[0].Cfg, "events": len(ls)})
			}
		}
		f.Close()
		rep.Extra["stress_events"] = events
	default:
		rep.Dead("unknown mode %s", os.Args[1])
	}
	rep.Finish()
}
