// c46: replays the behaviours TLC generated from spec/net/DmqAuth.tla (API call
// histories of the DMQ message authenticator) on the real
// common.MessageAuthenticator with real Ed25519 cold keys, real operational
// certificate signatures and real depth-6 KES keys (ledger.VerifyKesComponents
// injected as the verifier). An abstract fault (idOk / certOk / kesOk = false)
// becomes one seeded concrete corruption of that component only; a REPLAYED
// fault (rep/src of the call) is built from the genuine message of that pool and
// counter that this history presented earlier: its id or its KES signature on
// another payload, or the cold signature of its certificate with another KES
// key / issue number / KES period. Genuine messages of one pool and counter
// carry the same operational certificate (most histories), as a pool's do. Behind
// every state-changing transition of the covers the row carries the PROBES of the
// state reached (messages with a good id and certificate that leave it unchanged):
// they are run behind that very history, so what the transition did to the hidden
// state (counter floors, verifier, insecure flag) shows in their verdicts. After every
// call accept/reject and IsSPOPoolRegistered of every pool are compared with the
// spec's expectation carried by the row.
package main

import (
	"bufio"
	"bytes"
	"crypto/ed25519"
	"encoding/hex"
	"encoding/json"
	"fmt"
	"hash/fnv"
	"io"
	"log/slog"
	"math"
	"math/rand"
	"os"
	"runtime"
	"sort"
	"strings"
	"sync"

	"github.com/blinklabs-io/gouroboros/cbor"
	"github.com/blinklabs-io/gouroboros/kes"
	"github.com/blinklabs-io/gouroboros/ledger"
	"github.com/blinklabs-io/gouroboros/protocol/common"
	"golang.org/x/crypto/blake2b"

	"verifharness/vh"
)

type call struct {
	Op   string `json:"op"`
	Pool string `json:"pool"`
	Id   bool   `json:"id"`
	Cert bool   `json:"cert"`
	Kes  bool   `json:"kes"`
	Ctr  int    `json:"ctr"`
	Flag bool   `json:"flag"`
	Rep  string `json:"rep"` // "" or the replayed component: id | kes | cert:kesvk | cert:issue | cert:period
	Src  int    `json:"src"` // counter of the genuine message replayed from (-1: none)
}

type exp struct {
	Ok  bool     `json:"ok"`
	Reg []string `json:"reg"`
	Mut bool     `json:"mut"`
}

type entry struct {
	C call `json:"c"`
	E exp  `json:"e"`
}

type initCfg struct {
	Registered []string `json:"registered"`
	Verifier   string   `json:"verifier"`
	Insecure   bool     `json:"insecure"`
}

type row struct {
	Kind  string  `json:"kind"`
	Init  initCfg `json:"init"`
	Steps []entry `json:"steps"`
	Fan   []entry `json:"fan"`
	Probe []entry `json:"probe,omitempty"` // cover mode: the probes of the state the last step leads to
	Churn bool    `json:"churn,omitempty"` // hist / chain mode: the spec's mark "accepted / Unreg / Reg / lower counter"
	Rseed *int64  `json:"rseed,omitempty"`
}

func b2i(b bool) int {
	if b {
		return 1
	}
	return 0
}

func (c call) String() string {
	switch c.Op {
	case "register":
		return "R(" + c.Pool + ")"
	case "unregister":
		return "U(" + c.Pool + ")"
	case "evict":
		return "E(" + c.Pool + ")"
	case "setverifier":
		return "SV"
	case "setinsecure":
		return fmt.Sprintf("SI(%d)", b2i(c.Flag))
	case "verify":
		f := []byte("ick")
		if c.Id {
			f[0] = 'I'
		}
		if c.Cert {
			f[1] = 'C'
		}
		if c.Kes {
			f[2] = 'K'
		}
		if c.Rep != "" {
			return fmt.Sprintf("V(%s,%s,%d,%s<-%d)", c.Pool, f, c.Ctr, c.Rep, c.Src)
		}
		return fmt.Sprintf("V(%s,%s,%d)", c.Pool, f, c.Ctr)
	}
	return c.Op
}

func (i initCfg) String() string {
	r := append([]string(nil), i.Registered...)
	sort.Strings(r)
	return fmt.Sprintf("reg=%s,ver=%s,insecure=%d", strings.Join(r, "+"), i.Verifier, b2i(i.Insecure))
}

func readRows(path string) ([]row, error) {
	f, err := os.Open(path)
	if err != nil {
		return nil, err
	}
	defer f.Close()
	var out []row
	sc := bufio.NewScanner(f)
	sc.Buffer(make([]byte, 1<<20), 1<<28)
	for sc.Scan() {
		b := bytes.TrimSpace(sc.Bytes())
		if len(b) == 0 {
			continue
		}
		if b[0] == '"' { // CSVWrite prints the JSON text as a TLA+ string
			var s string
			if err := json.Unmarshal(b, &s); err != nil {
				return nil, err
			}
			b = []byte(s)
		}
		var r row
		if err := json.Unmarshal(b, &r); err != nil {
			return nil, err
		}
		out = append(out, r)
	}
	return out, sc.Err()
}

// ---- concrete universe: real keys, built once per run from VERIF_SEED ----

const kesPeriods = 1 << kes.CardanoKesDepth

type kesKey struct {
	pk []byte
	at [kesPeriods]*kes.SecretKey // the key evolved e times (independent copies; Sign only reads them)
}

type pool struct {
	name     string
	coldPub  ed25519.PublicKey
	coldPriv ed25519.PrivateKey
	id       string
	kes      *kesKey
}

type universe struct {
	pools       map[string]*pool
	names       []string
	foreignCold ed25519.PrivateKey
	foreignKes  *kesKey
}

func newKesKey(rep *vh.Reporter, rng *rand.Rand) *kesKey {
	seed := make([]byte, 32)
	rng.Read(seed)
	sk, pk, err := kes.KeyGen(kes.CardanoKesDepth, seed)
	if err != nil {
		rep.Dead("KeyGen: %v", err)
	}
	k := &kesKey{pk: append([]byte(nil), pk...)}
	for e := 0; e < kesPeriods; e++ {
		k.at[e] = &kes.SecretKey{Depth: sk.Depth, Period: sk.Period, Data: append([]byte(nil), sk.Data...)}
		if e < kesPeriods-1 {
			if sk, err = kes.Update(sk); err != nil {
				rep.Dead("kes.Update at %d: %v", e, err)
			}
		}
	}
	return k
}

func newCold(rng *rand.Rand) (ed25519.PublicKey, ed25519.PrivateKey) {
	seed := make([]byte, 32)
	rng.Read(seed)
	priv := ed25519.NewKeyFromSeed(seed)
	return priv.Public().(ed25519.PublicKey), priv
}

func newUniverse(rep *vh.Reporter, seed int64, names []string) *universe {
	rng := rand.New(rand.NewSource(seed*7919 + 46))
	u := &universe{pools: map[string]*pool{}, names: names}
	for _, n := range names {
		pub, priv := newCold(rng)
		h := blake2b.Sum256(pub) // pool id = blake2b-256(cold verification key), hex
		u.pools[n] = &pool{name: n, coldPub: pub, coldPriv: priv, id: hex.EncodeToString(h[:]), kes: newKesKey(rep, rng)}
	}
	_, u.foreignCold = newCold(rng)
	u.foreignKes = newKesKey(rep, rng)
	return u
}

// order-isomorphic images of the abstract counters 0,1,2,...
var ctrMaps = [][]uint64{
	{0, 1, 2, 3},
	{0, 1, 1 << 63, math.MaxUint64},
	{1, 1 << 32, 1 << 63, math.MaxUint64},
	{1<<63 - 1, 1 << 63, 1<<63 + 1, math.MaxUint64},
	{math.MaxUint64 - 3, math.MaxUint64 - 2, math.MaxUint64 - 1, math.MaxUint64},
}

const slotsPerKesPeriod = 129600 // the authenticator's default

type built struct {
	msg      *common.DmqMessage
	withSlot bool
	slot     uint64
	e        int // the KES evolution the verifier will derive
	how      []string
}

func mustCbor(rep *vh.Reporter, v any) []byte {
	b, err := cbor.Encode(v)
	if err != nil {
		rep.Dead("cbor.Encode: %v", err)
	}
	return b
}

func flip(rng *rand.Rand, b []byte) {
	b[rng.Intn(len(b))] ^= 1 << uint(rng.Intn(8))
}

// genuine is a fully genuine message this history has presented to the authenticator (deep copies)
type genuine struct {
	payload  common.DmqMessagePayload
	id       []byte
	kesSig   []byte
	withSlot bool
	slot     uint64
	e        int
	opcert   common.OperationalCertificate
}

func clone(b []byte) []byte { return append([]byte(nil), b...) }

func cloneCert(c common.OperationalCertificate) common.OperationalCertificate {
	c.KESVerificationKey = clone(c.KESVerificationKey)
	c.ColdSignature = clone(c.ColdSignature)
	return c
}

// builder holds what a history has presented so far
type builder struct {
	rep     *vh.Reporter
	u       *universe
	rng     *rand.Rand
	ctrs    []uint64
	oneCert bool                                     // genuine messages of a pool and counter share one certificate
	certs   map[string]common.OperationalCertificate // pool/ctr -> that certificate
	src     map[string]*genuine                      // pool/ctr -> the last fully genuine message presented
}

func newBuilder(rep *vh.Reporter, u *universe, rng *rand.Rand, ctrs []uint64, oneCert bool) *builder {
	return &builder{rep: rep, u: u, rng: rng, ctrs: ctrs, oneCert: oneCert,
		certs: map[string]common.OperationalCertificate{}, src: map[string]*genuine{}}
}

func (bd *builder) signCert(signer ed25519.PrivateKey, kesVk []byte, issue, start uint64) []byte {
	return ed25519.Sign(signer, mustCbor(bd.rep, []any{kesVk, issue, start}))
}

// genuineCert is the certificate of pool p with abstract counter ctr, signed by p's cold key
func (bd *builder) genuineCert(p *pool, ctr int) common.OperationalCertificate {
	k := fmt.Sprintf("%s/%d", p.name, ctr)
	if c, ok := bd.certs[k]; ok && bd.oneCert {
		return cloneCert(c)
	}
	c := common.OperationalCertificate{
		KESVerificationKey: clone(p.kes.pk),
		IssueNumber:        bd.ctrs[ctr],
		KESPeriod:          uint64(bd.rng.Intn(100000)),
	}
	c.ColdSignature = bd.signCert(p.coldPriv, c.KESVerificationKey, c.IssueNumber, c.KESPeriod)
	bd.certs[k] = c
	return cloneCert(c)
}

// build makes the concrete message of an abstract verify call
func (bd *builder) build(c call) *built {
	rep, rng, u, ctrs := bd.rep, bd.rng, bd.u, bd.ctrs
	p := u.pools[c.Pool]
	if p == nil {
		rep.Dead("unknown pool %q", c.Pool)
	}
	if c.Ctr < 0 || c.Ctr >= len(ctrs) {
		rep.Dead("counter %d outside the map", c.Ctr)
	}
	var s *genuine // the message replayed from
	if c.Rep != "" {
		if s = bd.src[fmt.Sprintf("%s/%d", c.Pool, c.Src)]; s == nil {
			rep.Dead("replay %s from (%s,%d): no such genuine message was presented", c.Rep, c.Pool, c.Src)
		}
		certRep := strings.HasPrefix(c.Rep, "cert:")
		if c.Id != (c.Rep != "id") || c.Kes != (c.Rep != "kes") || c.Cert == certRep || (c.Rep == "cert:issue") == (c.Ctr == c.Src) {
			rep.Dead("malformed replay call %s", c)
		}
	}
	out := &built{}
	body := make([]byte, rng.Intn(200))
	rng.Read(body)
	payload := common.DmqMessagePayload{
		MessageBody: body,
		KESPeriod:   uint64(rng.Intn(100000)),
		ExpiresAt:   rng.Uint32(),
	}
	// the evolution the verifier will derive: 0 without a slot, else slot/spkp - payload.KESPeriod
	e := 0
	if rng.Intn(2) == 0 {
		out.withSlot = true
		e = []int{0, 1, 2, 31, 32, 33, 62, 63}[rng.Intn(8)]
		out.slot = (payload.KESPeriod+uint64(e))*slotsPerKesPeriod + uint64(rng.Intn(slotsPerKesPeriod))
	}
	if c.Rep == "kes" { // same KES period, slot and hence evolution as the source: only the payload differs
		payload.KESPeriod, out.withSlot, out.slot, e = s.payload.KESPeriod, s.withSlot, s.slot, s.e
	}
	if s != nil && bytes.Equal(payload.MessageBody, s.payload.MessageBody) {
		payload.MessageBody = append(payload.MessageBody, 1)
	}
	wrapped := mustCbor(rep, mustCbor(rep, payload))

	// operational certificate signed by the cold key
	var opcert common.OperationalCertificate
	claimedKes := p.kes // the KES key the certificate names
	switch {
	case s != nil && strings.HasPrefix(c.Rep, "cert:"):
		opcert = cloneCert(s.opcert) // cold key, cold signature and the other fields as presented before
		what := ""
		switch c.Rep {
		case "cert:kesvk":
			opcert.KESVerificationKey = clone(u.foreignKes.pk)
			claimedKes = u.foreignKes
			what = "another KES verification key"
		case "cert:issue":
			opcert.IssueNumber = ctrs[c.Ctr]
			what = fmt.Sprintf("issue number %d instead of %d", opcert.IssueNumber, s.opcert.IssueNumber)
		case "cert:period":
			switch v := rng.Intn(3); {
			case v == 0 && opcert.KESPeriod > 0:
				opcert.KESPeriod--
			case v == 1:
				opcert.KESPeriod = uint64(rng.Intn(100000)) + 100000
			default:
				opcert.KESPeriod++
			}
			what = fmt.Sprintf("KES period %d instead of %d", opcert.KESPeriod, s.opcert.KESPeriod)
		default:
			rep.Dead("unknown replay %q", c.Rep)
		}
		if bytes.Equal(opcert.KESVerificationKey, s.opcert.KESVerificationKey) && opcert.IssueNumber == s.opcert.IssueNumber && opcert.KESPeriod == s.opcert.KESPeriod {
			rep.Dead("replayed certificate equals its source")
		}
		out.how = append(out.how, fmt.Sprintf("cert:cold signature of the certificate presented before (counter %d) with %s", c.Src, what))
	case c.Cert:
		opcert = bd.genuineCert(p, c.Ctr)
	default:
		start := uint64(rng.Intn(100000))
		issue := ctrs[c.Ctr]
		opcert = common.OperationalCertificate{KESVerificationKey: clone(p.kes.pk), IssueNumber: issue, KESPeriod: start}
		certSigner, signedIssue, signedStart := p.coldPriv, issue, start
		certFlip := false
		switch v := rng.Intn(4); v {
		case 0:
			certFlip = true
			out.how = append(out.how, "cert:bit flip in the cold signature")
		case 1:
			certSigner = u.foreignCold
			out.how = append(out.how, "cert:signed by another cold key")
		case 2:
			signedStart = start + 1
			out.how = append(out.how, "cert:KES period differs from the signed one")
		case 3:
			if issue == math.MaxUint64 {
				signedIssue = issue - 1
			} else {
				signedIssue = issue + 1
			}
			out.how = append(out.how, "cert:counter differs from the signed one")
		}
		opcert.ColdSignature = bd.signCert(certSigner, opcert.KESVerificationKey, signedIssue, signedStart)
		if certFlip {
			flip(rng, opcert.ColdSignature)
		}
	}

	// KES signature over the wrapped payload, under the key the certificate names
	var kesSig []byte
	if c.Rep == "kes" {
		kesSig = clone(s.kesSig)
		out.how = append(out.how, fmt.Sprintf("kes:signature of the message presented before (counter %d), over that message's payload", c.Src))
	} else {
		signer, signAt, signed := claimedKes, e, wrapped
		flipSig := false
		if !c.Kes {
			switch v := rng.Intn(4); v {
			case 0:
				flipSig = true
				out.how = append(out.how, "kes:bit flip in the signature")
			case 1: // made at a neighbouring evolution
				if e == kesPeriods-1 || (e > 0 && rng.Intn(2) == 0) {
					signAt = e - 1
				} else {
					signAt = e + 1
				}
				out.how = append(out.how, fmt.Sprintf("kes:evolution %d instead of %d", signAt, e))
			case 2: // over another payload
				other := payload
				other.MessageBody = append(clone(payload.MessageBody), 0)
				signed = mustCbor(rep, mustCbor(rep, other))
				out.how = append(out.how, "kes:signature over another payload")
			case 3: // by another KES key
				if signer = u.foreignKes; claimedKes == u.foreignKes {
					signer = p.kes
				}
				out.how = append(out.how, "kes:signed by another KES key")
			}
		}
		var err error
		if kesSig, err = kes.Sign(signer.at[signAt], uint64(signAt), signed); err != nil {
			rep.Dead("kes.Sign: %v", err)
		}
		if flipSig {
			flip(rng, kesSig)
		}
	}

	msg := &common.DmqMessage{
		Payload:                payload,
		KESSignature:           kesSig,
		OperationalCertificate: opcert,
		ColdVerificationKey:    clone(p.coldPub),
	}
	if err := msg.SetComputedMessageID(); err != nil {
		rep.Dead("SetComputedMessageID: %v", err)
	}
	if c.Id && c.Cert && c.Kes { // fully genuine: from now on it can be replayed from
		bd.src[fmt.Sprintf("%s/%d", c.Pool, c.Ctr)] = &genuine{
			payload: common.DmqMessagePayload{MessageBody: clone(payload.MessageBody), KESPeriod: payload.KESPeriod, ExpiresAt: payload.ExpiresAt},
			id:      clone(msg.MessageID), kesSig: clone(kesSig), withSlot: out.withSlot, slot: out.slot, e: e, opcert: cloneCert(opcert),
		}
	}
	switch {
	case c.Rep == "id":
		if bytes.Equal(msg.MessageID, s.id) {
			rep.Dead("replayed id equals the computed one")
		}
		msg.MessageID, msg.Payload.MessageID = clone(s.id), nil
		if rng.Intn(2) == 0 {
			msg.Payload.MessageID = clone(s.id)
		}
		out.how = append(out.how, fmt.Sprintf("id:id of the message presented before (counter %d)", c.Src))
	case !c.Id:
		switch v := rng.Intn(5); v {
		case 0:
			flip(rng, msg.MessageID)
			out.how = append(out.how, "id:bit flip")
		case 1:
			other := payload
			other.ExpiresAt ^= 1
			id, err := common.ComputeDmqMessageID(other)
			if err != nil {
				rep.Dead("ComputeDmqMessageID: %v", err)
			}
			msg.MessageID = id
			out.how = append(out.how, "id:hash of another payload")
		case 2:
			msg.MessageID = nil
			flip(rng, msg.Payload.MessageID)
			out.how = append(out.how, "id:only the legacy alias set, wrong")
		case 3:
			msg.MessageID, msg.Payload.MessageID = nil, nil
			out.how = append(out.how, "id:absent")
		case 4:
			msg.MessageID = msg.MessageID[:31]
			out.how = append(out.how, "id:truncated")
		}
	}
	out.msg = msg
	out.e = e
	return out
}

// primitives evaluates the three components of a built message with the primitives only (Blake2b, Ed25519, KES), not with the authenticator
func primitives(rep *vh.Reporter, b *built) (idOk, certOk, kesOk bool) {
	m := b.msg
	id := m.MessageID
	if len(id) == 0 {
		id = m.Payload.MessageID
	}
	pl := m.Payload
	pl.MessageID = nil
	h := blake2b.Sum256(mustCbor(rep, pl))
	oc := m.OperationalCertificate
	return bytes.Equal(h[:], id),
		ed25519.Verify(m.ColdVerificationKey, mustCbor(rep, []any{oc.KESVerificationKey, oc.IssueNumber, oc.KESPeriod}), oc.ColdSignature),
		kes.VerifySignedKES(oc.KESVerificationKey, uint64(b.e), mustCbor(rep, mustCbor(rep, pl)), m.KESSignature)
}

// selfCheck proves with primitives only that the driver builds what the abstract call says: every fault triple, and every
// replay, is wrong in exactly the named components and genuine in the others
func (u *universe) selfCheck(rep *vh.Reporter) {
	rng := rand.New(rand.NewSource(1))
	check := func(bd *builder, c call) {
		b := bd.build(c)
		if id, cert, k := primitives(rep, b); id != c.Id || cert != c.Cert || k != c.Kes {
			rep.Dead("driver cannot build %s: components are id=%v cert=%v kes=%v [%s]", c, id, cert, k, strings.Join(b.how, "; "))
		}
	}
	for _, n := range u.names {
		for k := 0; k < 6; k++ {
			bd := newBuilder(rep, u, rng, ctrMaps[k%len(ctrMaps)], k%2 == 0)
			for f := 0; f < 8; f++ {
				check(bd, call{Op: "verify", Pool: n, Id: f&1 == 0, Cert: f&2 == 0, Kes: f&4 == 0, Ctr: 1, Src: -1})
			}
			for _, r := range []string{"id", "kes", "cert:kesvk", "cert:period", "cert:issue"} {
				c := call{Op: "verify", Pool: n, Id: r != "id", Cert: !strings.HasPrefix(r, "cert:"), Kes: r != "kes", Ctr: 1, Rep: r, Src: 1}
				if r == "cert:issue" {
					c.Ctr = 2 * (k % 2)
				}
				check(bd, c)
			}
		}
	}
}

// ---- replay ----

type world struct {
	rep   *vh.Reporter
	u     *universe
	rng   *rand.Rand
	r     *row
	rseed int64
	auth  *common.MessageAuthenticator
	ctrs  []uint64
	bd    *builder
	hist  []string
}

var quiet = slog.New(slog.NewTextHandler(io.Discard, nil))

func (w *world) replayObj(at string, how []string) map[string]any {
	return map[string]any{"row": w.r, "rseed": w.rseed, "verif_seed": vh.Seed(), "at": at, "concrete": how, "counter_map": fmt.Sprint(w.ctrs), "one_certificate_per_counter": w.bd.oneCert}
}

func (w *world) do(en entry) {
	c, e := en.C, en.E
	w.hist = append(w.hist, c.String())
	key := "init=" + w.r.Init.String() + ":hist=" + strings.Join(w.hist, "/")
	w.rep.Case(key, true)
	var how []string
	w.rep.Guard(key, w.replayObj(key, nil), func() {
		ok := true
		switch c.Op {
		case "register":
			w.auth.RegisterSPOPool(w.u.pools[c.Pool].id)
		case "unregister":
			w.auth.UnregisterSPOPool(w.u.pools[c.Pool].id)
		case "evict":
			w.auth.RemoveKESOpCertCacheEntry(w.u.pools[c.Pool].id)
		case "setverifier":
			w.auth.SetKESVerifier(ledger.VerifyKesComponents)
		case "setinsecure":
			w.auth.SetAllowInsecureKES(c.Flag)
		case "verify":
			b := w.bd.build(c)
			how = b.how
			var err error
			if b.withSlot {
				how = append(how, "api:VerifyMessageWithSlot")
				err = w.auth.VerifyMessageWithSlot(b.msg, b.slot)
			} else {
				how = append(how, "api:VerifyMessage")
				err = w.auth.VerifyMessage(b.msg)
			}
			ok = err == nil
			if ok != e.Ok {
				w.rep.Disagree(key+":verdict", fmt.Sprintf("authenticator accepted=%v (%v), spec %v [%s]", ok, err, e.Ok, strings.Join(how, "; ")), w.replayObj(key, how))
			}
		default:
			w.rep.Dead("unknown call %q", c.Op)
		}
		want := map[string]bool{}
		for _, p := range e.Reg {
			want[p] = true
		}
		for _, n := range w.u.names {
			if got := w.auth.IsSPOPoolRegistered(w.u.pools[n].id); got != want[n] {
				w.rep.Disagree(key+":registered="+n, fmt.Sprintf("IsSPOPoolRegistered(%s) = %v, spec %v", n, got, want[n]), w.replayObj(key, how))
			}
		}
	})
}

func runRow(rep *vh.Reporter, u *universe, r *row, rseed int64) {
	w := &world{rep: rep, u: u, rng: rand.New(rand.NewSource(rseed)), r: r, rseed: rseed}
	w.ctrs = ctrMaps[w.rng.Intn(len(ctrMaps))]
	w.bd = newBuilder(rep, u, w.rng, w.ctrs, w.rng.Intn(4) != 0)
	w.auth = common.NewMessageAuthenticator(quiet)
	for _, p := range r.Init.Registered {
		w.auth.RegisterSPOPool(u.pools[p].id)
	}
	if r.Init.Verifier == "real" {
		w.auth.SetKESVerifier(ledger.VerifyKesComponents)
	}
	if r.Init.Insecure {
		w.auth.SetAllowInsecureKES(true)
	}
	for _, en := range r.Steps {
		w.do(en)
	}
	if r.Kind == "fan" {
		n := len(w.hist)
		for _, en := range r.Fan {
			if en.E.Mut {
				rep.Dead("fan entry changes the state")
			}
			w.hist = w.hist[:n]
			w.do(en)
		}
	}
	// the probes of the state the history leads to: none changes the authenticator, so all run behind the same history
	n := len(w.hist)
	for _, en := range r.Probe {
		if en.C.Op != "verify" || en.C.Rep != "" {
			rep.Dead("probe %s is not a plain message", en.C)
		}
		w.hist = w.hist[:n]
		w.do(en)
	}
}

func rowSeed(seed int64, i int) int64 {
	h := fnv.New64a()
	fmt.Fprintf(h, "c46/%d/%d", seed, i)
	return int64(h.Sum64() >> 1)
}

func main() {
	rep := vh.NewReporter()
	if len(os.Args) < 2 {
		rep.Dead("usage: c46 rows.ndjson...")
	}
	var rows []row
	perFile := map[string]int{}
	for _, p := range os.Args[1:] {
		rs, err := readRows(p)
		if err != nil {
			rep.Dead("rows %s: %v", p, err)
		}
		perFile[p[strings.LastIndex(p, "/")+1:]] += len(rs)
		rows = append(rows, rs...)
	}
	if len(rows) == 0 {
		rep.Dead("no behaviours")
	}
	pools := map[string]bool{}
	calls, maxLen, churn, probes := 0, 0, 0, 0
	for i := range rows {
		if rows[i].Churn {
			churn++
		}
		probes += len(rows[i].Probe)
		for _, en := range append(append(append([]entry(nil), rows[i].Steps...), rows[i].Fan...), rows[i].Probe...) {
			if en.C.Pool != "" {
				pools[en.C.Pool] = true
			}
		}
		for _, p := range rows[i].Init.Registered {
			pools[p] = true
		}
		calls += len(rows[i].Steps) + len(rows[i].Fan) + len(rows[i].Probe)
		if len(rows[i].Steps) > maxLen {
			maxLen = len(rows[i].Steps)
		}
	}
	var names []string
	for p := range pools {
		names = append(names, p)
	}
	sort.Strings(names)
	u := newUniverse(rep, vh.Seed(), names)
	u.selfCheck(rep)
	rep.Extra["behaviours"] = len(rows)
	rep.Extra["replayed_calls"] = calls
	rep.Extra["longest_history"] = maxLen
	rep.Extra["churn_histories"] = churn // histories the spec marked: accepted / Unreg(p) / Reg(p) / lower counter of p
	rep.Extra["probe_calls"] = probes    // probes of the state behind a state-changing transition
	rep.Extra["silent"] = "NewNoOpAuthenticator (validation explicitly disabled) and unsetting a verifier are outside the property; the counter cache is observed only through later verdicts"
	for i := range rows {
		if rows[i].Kind == "hist" && len(rows[i].Steps) >= 3 && len(rows[i].Steps) <= 6 {
			rep.Sample(rows[i])
			break
		}
	}
	for i := range rows {
		if len(rows[i].Steps) >= 12 {
			rep.Sample(rows[i])
			break
		}
	}

	nw := runtime.NumCPU()
	if nw > 8 {
		nw = 8
	}
	var wg sync.WaitGroup
	ch := make(chan int, len(rows))
	for i := range rows {
		ch <- i
	}
	close(ch)
	for k := 0; k < nw; k++ {
		wg.Add(1)
		go func() {
			defer wg.Done()
			for i := range ch {
				rs := rowSeed(vh.Seed(), i)
				if rows[i].Rseed != nil {
					rs = *rows[i].Rseed
				}
				runRow(rep, u, &rows[i], rs)
			}
		}()
	}
	wg.Wait()
	rep.Finish()
}
