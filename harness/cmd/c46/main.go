// c46: replays the behaviours TLC generated from spec/net/DmqAuth.tla (API call
// histories of the DMQ message authenticator) on the real
// common.MessageAuthenticator with real Ed25519 cold keys, real operational
// certificate signatures and real depth-6 KES keys (ledger.VerifyKesComponents
// injected as the verifier). An abstract fault (idOk / certOk / kesOk = false)
// becomes one seeded concrete corruption of that component only. After every
// call accept/reject and IsSPOPoolRegistered of every pool are compared with the
// spec's expectation carried by the row.
package main

import (
	"bufio"
	"bytes"
	"crypto/ed25519"
	"encoding/hex"
	"encoding/json"
	"fmt"
	"hash/fnv"
	"io"
	"log/slog"
	"math"
	"math/rand"
	"os"
	"runtime"
	"sort"
	"strings"
	"sync"

	"github.com/blinklabs-io/gouroboros/cbor"
	"github.com/blinklabs-io/gouroboros/kes"
	"github.com/blinklabs-io/gouroboros/ledger"
	"github.com/blinklabs-io/gouroboros/protocol/common"
	"golang.org/x/crypto/blake2b"

	"verifharness/vh"
)

type call struct {
	Op   string `json:"op"`
	Pool string `json:"pool"`
	Id   bool   `json:"id"`
	Cert bool   `json:"cert"`
	Kes  bool   `json:"kes"`
	Ctr  int    `json:"ctr"`
	Flag bool   `json:"flag"`
}

type exp struct {
	Ok  bool     `json:"ok"`
	Reg []string `json:"reg"`
	Mut bool     `json:"mut"`
}

type entry struct {
	C call `json:"c"`
	E exp  `json:"e"`
}

type initCfg struct {
	Registered []string `json:"registered"`
	Verifier   string   `json:"verifier"`
	Insecure   bool     `json:"insecure"`
}

type row struct {
	Kind  string  `json:"kind"`
	Init  initCfg `json:"init"`
	Steps []entry `json:"steps"`
	Fan   []entry `json:"fan"`
	Rseed *int64  `json:"rseed,omitempty"`
}

func b2i(b bool) int {
	if b {
		return 1
	}
	return 0
}

func (c call) String() string {
	switch c.Op {
	case "register":
		return "R(" + c.Pool + ")"
	case "unregister":
		return "U(" + c.Pool + ")"
	case "evict":
		return "E(" + c.Pool + ")"
	case "setverifier":
		return "SV"
	case "setinsecure":
		return fmt.Sprintf("SI(%d)", b2i(c.Flag))
	case "verify":
		f := []byte("ick")
		if c.Id {
			f[0] = 'I'
		}
		if c.Cert {
			f[1] = 'C'
		}
		if c.Kes {
			f[2] = 'K'
		}
		return fmt.Sprintf("V(%s,%s,%d)", c.Pool, f, c.Ctr)
	}
	return c.Op
}

func (i initCfg) String() string {
	r := append([]string(nil), i.Registered...)
	sort.Strings(r)
	return fmt.Sprintf("reg=%s,ver=%s,insecure=%d", strings.Join(r, "+"), i.Verifier, b2i(i.Insecure))
}

func readRows(path string) ([]row, error) {
	f, err := os.Open(path)
	if err != nil {
		return nil, err
	}
	defer f.Close()
	var out []row
	sc := bufio.NewScanner(f)
	sc.Buffer(make([]byte, 1<<20), 1<<28)
	for sc.Scan() {
		b := bytes.TrimSpace(sc.Bytes())
		if len(b) == 0 {
			continue
		}
		if b[0] == '"' { // CSVWrite prints the JSON text as a TLA+ string
			var s string
			if err := json.Unmarshal(b, &s); err != nil {
				return nil, err
			}
			b = []byte(s)
		}
		var r row
		if err := json.Unmarshal(b, &r); err != nil {
			return nil, err
		}
		out = append(out, r)
	}
	return out, sc.Err()
}

// ---- concrete universe: real keys, built once per run from VERIF_SEED ----

const kesPeriods = 1 << kes.CardanoKesDepth

type kesKey struct {
	pk []byte
	at [kesPeriods]*kes.SecretKey // the key evolved e times (independent copies; Sign only reads them)
}

type pool struct {
	name     string
	coldPub  ed25519.PublicKey
	coldPriv ed25519.PrivateKey
	id       string
	kes      *kesKey
}

type universe struct {
	pools       map[string]*pool
	names       []string
	foreignCold ed25519.PrivateKey
	foreignKes  *kesKey
}

func newKesKey(rep *vh.Reporter, rng *rand.Rand) *kesKey {
	seed := make([]byte, 32)
	rng.Read(seed)
	sk, pk, err := kes.KeyGen(kes.CardanoKesDepth, seed)
	if err != nil {
		rep.Dead("KeyGen: %v", err)
	}
	k := &kesKey{pk: append([]byte(nil), pk...)}
	for e := 0; e < kesPeriods; e++ {
		k.at[e] = &kes.SecretKey{Depth: sk.Depth, Period: sk.Period, Data: append([]byte(nil), sk.Data...)}
		if e < kesPeriods-1 {
			if sk, err = kes.Update(sk); err != nil {
				rep.Dead("kes.Update at %d: %v", e, err)
			}
		}
	}
	return k
}

func newCold(rng *rand.Rand) (ed25519.PublicKey, ed25519.PrivateKey) {
	seed := make([]byte, 32)
	rng.Read(seed)
	priv := ed25519.NewKeyFromSeed(seed)
	return priv.Public().(ed25519.PublicKey), priv
}

func newUniverse(rep *vh.Reporter, seed int64, names []string) *universe {
	rng := rand.New(rand.NewSource(seed*7919 + 46))
	u := &universe{pools: map[string]*pool{}, names: names}
	for _, n := range names {
		pub, priv := newCold(rng)
		h := blake2b.Sum256(pub) // pool id = blake2b-256(cold verification key), hex
		u.pools[n] = &pool{name: n, coldPub: pub, coldPriv: priv, id: hex.EncodeToString(h[:]), kes: newKesKey(rep, rng)}
	}
	_, u.foreignCold = newCold(rng)
	u.foreignKes = newKesKey(rep, rng)
	return u
}

// order-isomorphic images of the abstract counters 0,1,2,...
var ctrMaps = [][]uint64{
	{0, 1, 2, 3},
	{0, 1, 1 << 63, math.MaxUint64},
	{1, 1 << 32, 1 << 63, math.MaxUint64},
	{1<<63 - 1, 1 << 63, 1<<63 + 1, math.MaxUint64},
	{math.MaxUint64 - 3, math.MaxUint64 - 2, math.MaxUint64 - 1, math.MaxUint64},
}

const slotsPerKesPeriod = 129600 // the authenticator's default

type built struct {
	msg      *common.DmqMessage
	withSlot bool
	slot     uint64
	how      []string
}

func mustCbor(rep *vh.Reporter, v any) []byte {
	b, err := cbor.Encode(v)
	if err != nil {
		rep.Dead("cbor.Encode: %v", err)
	}
	return b
}

func flip(rng *rand.Rand, b []byte) {
	b[rng.Intn(len(b))] ^= 1 << uint(rng.Intn(8))
}

// build makes the concrete message of an abstract verify call
func (u *universe) build(rep *vh.Reporter, rng *rand.Rand, c call, ctrs []uint64) *built {
	p := u.pools[c.Pool]
	if p == nil {
		rep.Dead("unknown pool %q", c.Pool)
	}
	if c.Ctr < 0 || c.Ctr >= len(ctrs) {
		rep.Dead("counter %d outside the map", c.Ctr)
	}
	out := &built{}
	body := make([]byte, rng.Intn(200))
	rng.Read(body)
	payload := common.DmqMessagePayload{
		MessageBody: body,
		KESPeriod:   uint64(rng.Intn(100000)),
		ExpiresAt:   rng.Uint32(),
	}
	// the evolution the verifier will derive: 0 without a slot, else slot/spkp - payload.KESPeriod
	e := 0
	if rng.Intn(2) == 0 {
		out.withSlot = true
		e = []int{0, 1, 2, 31, 32, 33, 62, 63}[rng.Intn(8)]
		out.slot = (payload.KESPeriod+uint64(e))*slotsPerKesPeriod + uint64(rng.Intn(slotsPerKesPeriod))
	}
	wrapped := mustCbor(rep, mustCbor(rep, payload))

	// KES signature over the wrapped payload
	signer, signAt, signed := p.kes, e, wrapped
	if !c.Kes {
		switch v := rng.Intn(4); v {
		case 1: // made at a neighbouring evolution
			if e == kesPeriods-1 || (e > 0 && rng.Intn(2) == 0) {
				signAt = e - 1
			} else {
				signAt = e + 1
			}
			out.how = append(out.how, fmt.Sprintf("kes:evolution %d instead of %d", signAt, e))
		case 2: // over another payload
			other := payload
			other.MessageBody = append(append([]byte(nil), body...), 0)
			signed = mustCbor(rep, mustCbor(rep, other))
			out.how = append(out.how, "kes:signature over another payload")
		case 3: // by another KES key
			signer = u.foreignKes
			out.how = append(out.how, "kes:signed by another KES key")
		}
	}
	kesSig, err := kes.Sign(signer.at[signAt], uint64(signAt), signed)
	if err != nil {
		rep.Dead("kes.Sign: %v", err)
	}
	if !c.Kes && len(out.how) == 0 {
		flip(rng, kesSig)
		out.how = append(out.how, "kes:bit flip in the signature")
	}

	// operational certificate signed by the cold key
	start := uint64(rng.Intn(100000))
	issue := ctrs[c.Ctr]
	opcert := common.OperationalCertificate{
		KESVerificationKey: append([]byte(nil), p.kes.pk...),
		IssueNumber:        issue,
		KESPeriod:          start,
	}
	certSigner, signedIssue, signedStart := p.coldPriv, issue, start
	certFlip := false
	if !c.Cert {
		switch v := rng.Intn(4); v {
		case 0:
			certFlip = true
			out.how = append(out.how, "cert:bit flip in the cold signature")
		case 1:
			certSigner = u.foreignCold
			out.how = append(out.how, "cert:signed by another cold key")
		case 2:
			signedStart = start + 1
			out.how = append(out.how, "cert:KES period differs from the signed one")
		case 3:
			if issue == math.MaxUint64 {
				signedIssue = issue - 1
			} else {
				signedIssue = issue + 1
			}
			out.how = append(out.how, "cert:counter differs from the signed one")
		}
	}
	opcert.ColdSignature = ed25519.Sign(certSigner, mustCbor(rep, []any{opcert.KESVerificationKey, signedIssue, signedStart}))
	if certFlip {
		flip(rng, opcert.ColdSignature)
	}

	msg := &common.DmqMessage{
		Payload:                payload,
		KESSignature:           kesSig,
		OperationalCertificate: opcert,
		ColdVerificationKey:    append([]byte(nil), p.coldPub...),
	}
	if err := msg.SetComputedMessageID(); err != nil {
		rep.Dead("SetComputedMessageID: %v", err)
	}
	if !c.Id {
		switch v := rng.Intn(5); v {
		case 0:
			flip(rng, msg.MessageID)
			out.how = append(out.how, "id:bit flip")
		case 1:
			other := payload
			other.ExpiresAt ^= 1
			id, err := common.ComputeDmqMessageID(other)
			if err != nil {
				rep.Dead("ComputeDmqMessageID: %v", err)
			}
			msg.MessageID = id
			out.how = append(out.how, "id:hash of another payload")
		case 2:
			msg.MessageID = nil
			flip(rng, msg.Payload.MessageID)
			out.how = append(out.how, "id:only the legacy alias set, wrong")
		case 3:
			msg.MessageID, msg.Payload.MessageID = nil, nil
			out.how = append(out.how, "id:absent")
		case 4:
			msg.MessageID = msg.MessageID[:31]
			out.how = append(out.how, "id:truncated")
		}
	}
	out.msg = msg
	return out
}

// selfCheck proves with primitives only (not with the authenticator) that an unfaulted message is well formed
func (u *universe) selfCheck(rep *vh.Reporter) {
	rng := rand.New(rand.NewSource(1))
	for _, n := range u.names {
		for k := 0; k < 8; k++ {
			b := u.build(rep, rng, call{Op: "verify", Pool: n, Id: true, Cert: true, Kes: true, Ctr: 1}, ctrMaps[1])
			m := b.msg
			id := blake2b.Sum256(mustCbor(rep, m.Payload))
			cert := mustCbor(rep, []any{m.OperationalCertificate.KESVerificationKey, m.OperationalCertificate.IssueNumber, m.OperationalCertificate.KESPeriod})
			e := uint64(0)
			if b.withSlot {
				e = b.slot/slotsPerKesPeriod - m.Payload.KESPeriod
			}
			wrapped := mustCbor(rep, mustCbor(rep, m.Payload))
			if !bytes.Equal(id[:], m.MessageID) ||
				!ed25519.Verify(m.ColdVerificationKey, cert, m.OperationalCertificate.ColdSignature) ||
				!kes.VerifySignedKES(m.OperationalCertificate.KESVerificationKey, e, wrapped, m.KESSignature) {
				rep.Dead("driver cannot build a well-formed baseline message")
			}
		}
	}
}

// ---- replay ----

type world struct {
	rep   *vh.Reporter
	u     *universe
	rng   *rand.Rand
	r     *row
	rseed int64
	auth  *common.MessageAuthenticator
	ctrs  []uint64
	hist  []string
}

var quiet = slog.New(slog.NewTextHandler(io.Discard, nil))

func (w *world) replayObj(at string, how []string) map[string]any {
	return map[string]any{"row": w.r, "rseed": w.rseed, "verif_seed": vh.Seed(), "at": at, "concrete": how, "counter_map": fmt.Sprint(w.ctrs)}
}

func (w *world) do(en entry) {
	c, e := en.C, en.E
	w.hist = append(w.hist, c.String())
	key := "init=" + w.r.Init.String() + ":hist=" + strings.Join(w.hist, "/")
	w.rep.Case(key, true)
	var how []string
	w.rep.Guard(key, w.replayObj(key, nil), func() {
		ok := true
		switch c.Op {
		case "register":
			w.auth.RegisterSPOPool(w.u.pools[c.Pool].id)
		case "unregister":
			w.auth.UnregisterSPOPool(w.u.pools[c.Pool].id)
		case "evict":
			w.auth.RemoveKESOpCertCacheEntry(w.u.pools[c.Pool].id)
		case "setverifier":
			w.auth.SetKESVerifier(ledger.VerifyKesComponents)
		case "setinsecure":
			w.auth.SetAllowInsecureKES(c.Flag)
		case "verify":
			b := w.u.build(w.rep, w.rng, c, w.ctrs)
			how = b.how
			var err error
			if b.withSlot {
				how = append(how, "api:VerifyMessageWithSlot")
				err = w.auth.VerifyMessageWithSlot(b.msg, b.slot)
			} else {
				how = append(how, "api:VerifyMessage")
				err = w.auth.VerifyMessage(b.msg)
			}
			ok = err == nil
			if ok != e.Ok {
				w.rep.Disagree(key+":verdict", fmt.Sprintf("authenticator accepted=%v (%v), spec %v [%s]", ok, err, e.Ok, strings.Join(how, "; ")), w.replayObj(key, how))
			}
		default:
			w.rep.Dead("unknown call %q", c.Op)
		}
		want := map[string]bool{}
		for _, p := range e.Reg {
			want[p] = true
		}
		for _, n := range w.u.names {
			if got := w.auth.IsSPOPoolRegistered(w.u.pools[n].id); got != want[n] {
				w.rep.Disagree(key+":registered="+n, fmt.Sprintf("IsSPOPoolRegistered(%s) = %v, spec %v", n, got, want[n]), w.replayObj(key, how))
			}
		}
	})
}

func runRow(rep *vh.Reporter, u *universe, r *row, rseed int64) {
	w := &world{rep: rep, u: u, rng: rand.New(rand.NewSource(rseed)), r: r, rseed: rseed}
	w.ctrs = ctrMaps[w.rng.Intn(len(ctrMaps))]
	w.auth = common.NewMessageAuthenticator(quiet)
	for _, p := range r.Init.Registered {
		w.auth.RegisterSPOPool(u.pools[p].id)
	}
	if r.Init.Verifier == "real" {
		w.auth.SetKESVerifier(ledger.VerifyKesComponents)
	}
	if r.Init.Insecure {
		w.auth.SetAllowInsecureKES(true)
	}
	for _, en := range r.Steps {
		w.do(en)
	}
	if r.Kind == "fan" {
		n := len(w.hist)
		for _, en := range r.Fan {
			if en.E.Mut {
				rep.Dead("fan entry changes the state")
			}
			w.hist = w.hist[:n]
			w.do(en)
		}
	}
}

func rowSeed(seed int64, i int) int64 {
	h := fnv.New64a()
	fmt.Fprintf(h, "c46/%d/%d", seed, i)
	return int64(h.Sum64() >> 1)
}

func main() {
	rep := vh.NewReporter()
	if len(os.Args) < 2 {
		rep.Dead("usage: c46 rows.ndjson...")
	}
	var rows []row
	perFile := map[string]int{}
	for _, p := range os.Args[1:] {
		rs, err := readRows(p)
		if err != nil {
			rep.Dead("rows %s: %v", p, err)
		}
		perFile[p[strings.LastIndex(p, "/")+1:]] += len(rs)
		rows = append(rows, rs...)
	}
	if len(rows) == 0 {
		rep.Dead("no behaviours")
	}
	pools := map[string]bool{}
	calls, maxLen := 0, 0
	for i := range rows {
		for _, en := range append(append([]entry(nil), rows[i].Steps...), rows[i].Fan...) {
			if en.C.Pool != "" {
				pools[en.C.Pool] = true
			}
		}
		for _, p := range rows[i].Init.Registered {
			pools[p] = true
		}
		calls += len(rows[i].Steps) + len(rows[i].Fan)
		if len(rows[i].Steps) > maxLen {
			maxLen = len(rows[i].Steps)
		}
	}
	var names []string
	for p := range pools {
		names = append(names, p)
	}
	sort.Strings(names)
	u := newUniverse(rep, vh.Seed(), names)
	u.selfCheck(rep)
	rep.Extra["behaviours"] = len(rows)
	rep.Extra["replayed_calls"] = calls
	rep.Extra["longest_history"] = maxLen
	rep.Extra["silent"] = "NewNoOpAuthenticator (validation explicitly disabled) and unsetting a verifier are outside the property; the counter cache is observed only through later verdicts"
	for i := range rows {
		if rows[i].Kind == "hist" && len(rows[i].Steps) >= 3 && len(rows[i].Steps) <= 6 {
			rep.Sample(rows[i])
			break
		}
	}
	for i := range rows {
		if len(rows[i].Steps) >= 12 {
			rep.Sample(rows[i])
			break
		}
	}

	nw := runtime.NumCPU()
	if nw > 8 {
		nw = 8
	}
	var wg sync.WaitGroup
	ch := make(chan int, len(rows))
	for i := range rows {
		ch <- i
	}
	close(ch)
	for k := 0; k < nw; k++ {
		wg.Add(1)
		go func() {
			defer wg.Done()
			for i := range ch {
				rs := rowSeed(vh.Seed(), i)
				if rows[i].Rseed != nil {
					rs = *rows[i].Rseed
				}
				runRow(rep, u, &rows[i], rs)
			}
		}()
	}
	wg.Wait()
	rep.Finish()
}
