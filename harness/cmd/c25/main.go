// c25: replays the behaviours TLC generated from spec/net/ReqResp.tla (programs
// of API calls for G goroutines plus the history of invocation / return events)
// on the real request/response clients: localstatequery, localtxmonitor,
// localtxsubmission and peersharing. Each row runs against the library's OWN
// server of that protocol over netx.MuxPair (two real muxers on a fragmenting
// in-memory pipe); the server callbacks tag every reply with the request it
// answers:
//
//	lsq        qa = GetStakeDelegDeposits([cred(tag)])  -> {cred(tag): session}
//	           qb = GetFilteredDelegationsAndRewardAccounts([cred(tag)]) -> rewards {cred(tag): session}
//	           qc = GetCurrentEra() -> session;  acq1/acq2 = Acquire(point 1/2), rel = Release()
//	           session = 100 * acquired point (1, 2, 9 = tip) + number of acquisitions
//	txmonitor  qa = HasTx(id(tag)) -> tag is even (even tags name a mempool tx, odd an absent one)
//	           qb = NextTx() -> k-th mempool tx of the snapshot;  qc = GetSizes() -> capacity = 1000 + acquisitions
//	txsubmit   q* = SubmitTx(bytes(tag)) -> accepted iff tag is even, the reject reason carries the tag
//	peershare  q* = GetPeers(tag) -> tag peers, all with port = tag
//
// Reply FORM (spec: FormOf, onop). The reject reasons of txsubmit come in every form the client's handler
// distinguishes: a text, a generic structure, a typed era mismatch (plain forms, chosen by the tag), and - op
// "qx" - OPAQUE forms: well-formed CBOR that starts with the tag and that ledger.NewTxSubmitErrorFromCbor refuses
// (a registered CBOR tag around content of the wrong type). On lsq, qx = GetStakeDelegDeposits([credX(tag)]),
// which the server answers with a text instead of a map (the typed result decoder refuses it). What the client
// does with an opaque reply is observed (connection alive: "raw", connection failed: "fail") and the row's
// expectation for that kind of client is used (row.out / row.alt, both from the model). tx-monitor and
// peer-sharing replies cannot be made opaque through the library's server: rows with qx are not replayed there.
//
// The driver issues the invocations in the order of the row's history and does
// not issue an invocation that follows a return in the history before that call
// has really returned (the happens-before order of the TLC behaviour), with
// seeded delays in between and in the server callbacks. Every returned value
// must carry its own request's tag; in rows whose history is sequential the
// session values must also equal the ones of the model's server (row.out).
package main

import (
	"bytes"
	"encoding/hex"
	"errors"
	"fmt"
	"io"
	"log/slog"
	"math/rand"
	"net"
	"os"
	"path/filepath"
	"runtime"
	"strconv"
	"strings"
	"sync"
	"sync/atomic"
	"time"

	fxcbor "github.com/fxamacker/cbor/v2"

	"github.com/blinklabs-io/gouroboros/cbor"
	"github.com/blinklabs-io/gouroboros/ledger"
	"github.com/blinklabs-io/gouroboros/muxer"
	"github.com/blinklabs-io/gouroboros/protocol"
	pcommon "github.com/blinklabs-io/gouroboros/protocol/common"
	lsq "github.com/blinklabs-io/gouroboros/protocol/localstatequery"
	txmon "github.com/blinklabs-io/gouroboros/protocol/localtxmonitor"
	txsub "github.com/blinklabs-io/gouroboros/protocol/localtxsubmission"
	"github.com/blinklabs-io/gouroboros/protocol/peersharing"

	"verifharness/netx"
	"verifharness/vh"
)

type outRec struct {
	Op   string `json:"op"`
	Snap int    `json:"snap"`
	Acqn int    `json:"acqn"`
	Cnt  int    `json:"cnt"`
}

type row struct {
	G     int        `json:"g"`
	N     int        `json:"n"`
	Prog  [][]string `json:"prog"`
	H     [][]any    `json:"h"`
	Out   [][]outRec `json:"out"`
	Seq   bool       `json:"seq"`
	Auto  bool       `json:"auto"`
	Idx   int        `json:"idx"`
	Rseed *int64     `json:"rseed,omitempty"`
	Proto string     `json:"proto,omitempty"` // replay: only this protocol
	Onop  string     `json:"onop,omitempty"`  // the kind of client row.out was computed for: "raw" | "fail" (opaque replies)
	Alt   [][]outRec `json:"alt,omitempty"`   // the model's out for the other kind of client (same programs, sequential)
}

// what one call showed
type obs struct {
	err     string // the call returned an error
	foreign string // the value cannot be the answer to this call's request
	opaque  bool   // the call reported its own reply undecoded (raw bytes or a decode error) on a live connection
	session int    // session value carried by the reply (-1: none)
	next    int    // tx-monitor NextTx: index of the returned mempool tx, -1 = none
	desc    string
}

type endpoint interface {
	call(op string, tag int) obs
	supports(op string) bool
	stop()
	lastErr() string
	dead() bool // the client's protocol has shut down
}

var discard = slog.New(slog.NewTextHandler(io.Discard, nil))

func opts(m *muxer.Muxer, name string, errCh chan error, mode protocol.ProtocolMode, role protocol.ProtocolRole, version uint16) protocol.ProtocolOptions {
	return protocol.ProtocolOptions{
		ConnectionId: netx.ConnId(name), Muxer: m, Logger: discard, ErrorChan: errCh,
		Mode: mode, Role: role, Version: version,
	}
}

type conn struct {
	ma, mb *muxer.Muxer
	errCh  chan error
	nerr   atomic.Int32
	lastMu sync.Mutex
	last   string
}

func newConn(seed int64) *conn {
	c := &conn{errCh: make(chan error, 32)}
	c.ma, c.mb, _, _ = netx.MuxPair(seed, true)
	for _, m := range []*muxer.Muxer{c.ma, c.mb} {
		go func(m *muxer.Muxer) {
			for range m.ErrorChan() {
			}
		}(m)
	}
	go func() {
		for e := range c.errCh {
			c.nerr.Add(1)
			c.lastMu.Lock()
			c.last = e.Error()
			c.lastMu.Unlock()
		}
	}()
	return c
}

func (c *conn) lastErr() string {
	c.lastMu.Lock()
	defer c.lastMu.Unlock()
	return c.last
}

func isDone(p *protocol.Protocol) bool {
	select {
	case <-p.DoneChan():
		return true
	case <-time.After(300 * time.Millisecond):
		return false
	}
}

func isDoneNow(p *protocol.Protocol) bool {
	select {
	case <-p.DoneChan():
		return true
	default:
		return false
	}
}

func (c *conn) start() { c.ma.Start(); c.mb.Start() }
func (c *conn) stop()  { c.ma.Stop(); c.mb.Stop() }

// Perturbation at the "Enqd" hook (caller goroutine, after the request entered the send queue, before the
// caller waits on its result channel): a seeded delay there lets another caller overtake. The hook is
// optional: hookSeen tells whether this build of /repo has it.
var (
	hookSeen  atomic.Bool
	perturbed sync.Map // *protocol.Protocol -> *jitter
)

func installTracer() {
	protocol.VerifTracer = func(p *protocol.Protocol, e protocol.VerifEvent) {
		if e.Ev != "Enqd" {
			return
		}
		hookSeen.Store(true)
		if j, ok := perturbed.Load(p); ok {
			j.(*jitter).hold()
		}
	}
}

func (j *jitter) hold() {
	j.mu.Lock()
	k := j.rng.Intn(10)
	j.mu.Unlock()
	switch {
	case k < 4:
	case k < 7:
		time.Sleep(time.Duration(100+k*100) * time.Microsecond)
	default:
		time.Sleep(time.Duration(k-6) * time.Millisecond)
	}
}

// seeded jitter inside the server callbacks
type jitter struct {
	mu  sync.Mutex
	rng *rand.Rand
}

func (j *jitter) wait() {
	j.mu.Lock()
	k := j.rng.Intn(8)
	j.mu.Unlock()
	switch {
	case k < 4:
	case k < 6:
		time.Sleep(time.Duration(20+k*30) * time.Microsecond)
	default:
		time.Sleep(time.Duration(k) * 150 * time.Microsecond)
	}
}

// ---------------------------------------------------------------- local-state-query

type lsqEnd struct {
	*conn
	client *lsq.Client
	server *lsq.Server
	smu    sync.Mutex
	snapP  int
	acqN   int
}

func credOf(tag int) lsq.StakeCredential {
	var h ledger.Blake2b224
	for i := range h {
		h[i] = byte(tag*31 + i)
	}
	h[0], h[1] = byte(tag>>8), byte(tag)
	return lsq.StakeCredential{Tag: 0, Bytes: h}
}

// credX: the credential of a qx request: the server answers it with a value of the wrong type
func credX(tag int) lsq.StakeCredential {
	c := credOf(tag)
	c.Bytes[2], c.Bytes[3] = 0xEE, 0xEE
	return c
}

func isCredX(c lsq.StakeCredential) bool {
	return c.Bytes[2] == 0xEE && c.Bytes[3] == 0xEE // credOf: bytes 2 and 3 differ by one
}

func (e *lsqEnd) session() uint64 {
	e.smu.Lock()
	defer e.smu.Unlock()
	return uint64(100*e.snapP + e.acqN)
}

func newLsq(seed int64) endpoint {
	e := &lsqEnd{conn: newConn(seed)}
	jit := &jitter{rng: rand.New(rand.NewSource(seed + 5))}
	cfg := lsq.NewConfig(
		lsq.WithAcquireFunc(func(ctx lsq.CallbackContext, target lsq.AcquireTarget, reAcquire bool) error {
			jit.wait()
			p := 9
			if t, ok := target.(lsq.AcquireSpecificPoint); ok {
				p = int(t.Point.Slot)
			}
			e.smu.Lock()
			e.snapP = p
			e.acqN++
			e.smu.Unlock()
			if reAcquire {
				// the library's server does not answer a re-acquire by itself (handleReAcquire sends
				// nothing on success): the tagging callback sends the Acquired message
				return ctx.Server.SendMessage(lsq.NewMsgAcquired())
			}
			return nil
		}),
		lsq.WithReleaseFunc(func(lsq.CallbackContext) error {
			e.smu.Lock()
			e.snapP = 0
			e.smu.Unlock()
			return nil
		}),
		lsq.WithQueryFunc(func(_ lsq.CallbackContext, q lsq.QueryWrapper) (any, error) {
			jit.wait()
			bq, ok := q.Query.(*lsq.BlockQuery)
			if !ok {
				return nil, fmt.Errorf("tagging server: unexpected query %T", q.Query)
			}
			switch inner := bq.Query.(type) {
			case *lsq.HardForkQuery:
				if _, ok := inner.Query.(*lsq.HardForkCurrentEraQuery); ok {
					return e.session(), nil
				}
			case *lsq.ShelleyQuery:
				switch sq := inner.Query.(type) {
				case *lsq.ShelleyStakeDelegDepositsQuery:
					m := map[lsq.StakeCredential]uint64{}
					for _, c := range sq.Creds.Items() {
						if isCredX(c) {
							// opaque form: a text where the client's typed decoder wants [ {cred: coin} ]
							return fmt.Sprintf("tag-%d", int(c.Bytes[0])<<8|int(c.Bytes[1])), nil
						}
						m[c] = e.session()
					}
					return []any{m}, nil
				case *lsq.ShelleyFilteredDelegationAndRewardAccountsQuery:
					d := map[lsq.StakeCredential]ledger.Blake2b224{}
					r := map[lsq.StakeCredential]uint64{}
					for _, c := range sq.Creds.Items() {
						d[c] = c.Bytes
						r[c] = e.session()
					}
					return []any{[]any{d, r}}, nil
				}
			}
			return nil, fmt.Errorf("tagging server: unexpected query %T", bq.Query)
		}),
		lsq.WithAcquireTimeout(10*time.Minute),
		lsq.WithQueryTimeout(10*time.Minute),
	)
	ver := uint16(16 + protocol.ProtocolVersionNtCOffset)
	e.client = lsq.NewClient(opts(e.ma, "c25-lsq-c", e.errCh, protocol.ProtocolModeNodeToClient, protocol.ProtocolRoleClient, ver), &cfg)
	e.server = lsq.NewServer(opts(e.mb, "c25-lsq-s", e.errCh, protocol.ProtocolModeNodeToClient, protocol.ProtocolRoleServer, ver), &cfg)
	perturbed.Store(e.client.Protocol, &jitter{rng: rand.New(rand.NewSource(seed + 11))})
	e.server.Start()
	e.client.Start()
	e.start()
	return e
}

func (e *lsqEnd) supports(string) bool { return true }
func (e *lsqEnd) dead() bool           { return isDone(e.client.Protocol) }

func pointOf(p int) *pcommon.Point {
	h := bytes.Repeat([]byte{byte(p)}, 32)
	pt := pcommon.NewPoint(uint64(p), h)
	return &pt
}

func errObs(err error) obs { return obs{err: err.Error(), session: -1, next: -1} }

func (e *lsqEnd) call(op string, tag int) obs {
	switch op {
	case "acq1", "acq2":
		p := 1
		if op == "acq2" {
			p = 2
		}
		if err := e.client.Acquire(pointOf(p)); err != nil {
			return errObs(err)
		}
		return obs{session: -1, next: -1}
	case "rel":
		if err := e.client.Release(); err != nil {
			return errObs(err)
		}
		return obs{session: -1, next: -1}
	case "qa":
		res, err := e.client.GetStakeDelegDeposits([]lsq.StakeCredential{credOf(tag)})
		if err != nil {
			return errObs(err)
		}
		if res == nil || len(*res) != 1 {
			return obs{foreign: fmt.Sprintf("deposits result has %d entries, want the one credential asked for", lenOrNil(res)), session: -1, next: -1}
		}
		v, ok := (*res)[credOf(tag)]
		if !ok {
			return obs{foreign: "deposits result is for another credential", session: -1, next: -1}
		}
		return obs{session: int(v), next: -1}
	case "qb":
		res, err := e.client.GetFilteredDelegationsAndRewardAccounts([]lsq.StakeCredential{credOf(tag)})
		if err != nil {
			return errObs(err)
		}
		if res == nil || len(res.Rewards) != 1 || len(res.Delegations) != 1 {
			return obs{foreign: "delegations/rewards result does not have exactly the credential asked for", session: -1, next: -1}
		}
		v, ok := res.Rewards[credOf(tag)]
		d, ok2 := res.Delegations[credOf(tag)]
		if !ok || !ok2 || d != credOf(tag).Bytes {
			return obs{foreign: "delegations/rewards result is for another credential", session: -1, next: -1}
		}
		return obs{session: int(v), next: -1}
	case "qc":
		era, err := e.client.GetCurrentEra()
		if err != nil {
			return errObs(err)
		}
		return obs{session: era, next: -1}
	case "qx":
		res, err := e.client.GetStakeDelegDeposits([]lsq.StakeCredential{credX(tag)})
		if err != nil {
			if errors.Is(err, protocol.ErrProtocolShuttingDown) || isDoneNow(e.client.Protocol) {
				return errObs(err)
			}
			// the connection is alive: the call reports that its reply does not decode
			return obs{opaque: true, session: -1, next: -1, desc: err.Error()}
		}
		if res == nil || len(*res) != 1 {
			return obs{foreign: fmt.Sprintf("deposits result has %d entries, the server answered this request with a text", lenOrNil(res)), session: -1, next: -1}
		}
		if _, ok := (*res)[credX(tag)]; !ok {
			return obs{foreign: "deposits result is for another credential (the server answered this request with a text)", session: -1, next: -1}
		}
		return obs{foreign: "deposits result decoded although the server answered this request with a text", session: -1, next: -1}
	}
	return obs{err: "driver: unknown op " + op, session: -1, next: -1}
}

func lenOrNil(r *lsq.StakeDelegDepositsResult) int {
	if r == nil {
		return -1
	}
	return len(*r)
}

func (e *lsqEnd) stop() { perturbed.Delete(e.client.Protocol); e.conn.stop() }

// ---------------------------------------------------------------- local-tx-monitor

type mempoolTx struct {
	era  uint
	raw  []byte
	hash []byte
}

var mempool []mempoolTx // three txs in the mempool
var absentTx mempoolTx  // a real tx that is not

type txmonEnd struct {
	*conn
	client *txmon.Client
	server *txmon.Server
	acqN   atomic.Int32
}

func newTxmon(seed int64) endpoint {
	e := &txmonEnd{conn: newConn(seed)}
	jit := &jitter{rng: rand.New(rand.NewSource(seed + 5))}
	cfg := txmon.NewConfig(
		txmon.WithGetMempoolFunc(func(txmon.CallbackContext) (uint64, uint32, []txmon.TxAndEraId, error) {
			jit.wait()
			n := e.acqN.Add(1)
			var txs []txmon.TxAndEraId
			for _, t := range mempool {
				txs = append(txs, txmon.TxAndEraId{EraId: t.era, Tx: t.raw})
			}
			return uint64(n), uint32(1000 + n), txs, nil
		}),
		txmon.WithAcquireTimeout(10*time.Minute),
		txmon.WithQueryTimeout(10*time.Minute),
	)
	e.client = txmon.NewClient(opts(e.ma, "c25-txmon-c", e.errCh, protocol.ProtocolModeNodeToClient, protocol.ProtocolRoleClient, 0), &cfg)
	e.server = txmon.NewServer(opts(e.mb, "c25-txmon-s", e.errCh, protocol.ProtocolModeNodeToClient, protocol.ProtocolRoleServer, 0), &cfg)
	perturbed.Store(e.client.Protocol, &jitter{rng: rand.New(rand.NewSource(seed + 11))})
	e.server.Start()
	e.client.Start()
	e.start()
	return e
}

func (e *txmonEnd) supports(op string) bool { return op != "qx" }
func (e *txmonEnd) dead() bool              { return isDone(e.client.Protocol) }

func (e *txmonEnd) call(op string, tag int) obs {
	switch op {
	case "acq1", "acq2":
		if err := e.client.Acquire(); err != nil {
			return errObs(err)
		}
		return obs{session: -1, next: -1}
	case "rel":
		if err := e.client.Release(); err != nil {
			return errObs(err)
		}
		return obs{session: -1, next: -1}
	case "qa":
		id := absentTx.hash
		if tag%2 == 0 {
			id = mempool[(tag/2)%len(mempool)].hash
		}
		has, err := e.client.HasTx(id)
		if err != nil {
			return errObs(err)
		}
		if has != (tag%2 == 0) {
			return obs{foreign: fmt.Sprintf("HasTx answered %v for an id whose answer is %v", has, tag%2 == 0), session: -1, next: -1}
		}
		return obs{session: -1, next: -1}
	case "qb":
		tx, err := e.client.NextTx()
		if err != nil {
			return errObs(err)
		}
		if len(tx) == 0 {
			return obs{session: -1, next: len(mempool)} // exhausted
		}
		for k, t := range mempool {
			if bytes.Equal(t.raw, tx) {
				return obs{session: -1, next: k}
			}
		}
		return obs{foreign: "NextTx returned bytes that are no mempool transaction", session: -1, next: -1}
	case "qc":
		capacity, _, num, err := e.client.GetSizes()
		if err != nil {
			return errObs(err)
		}
		if int(num) != len(mempool) || capacity < 1000 {
			return obs{foreign: fmt.Sprintf("GetSizes returned capacity %d / %d txs, no value the server produced", capacity, num), session: -1, next: -1}
		}
		return obs{session: int(capacity) - 1000, next: -1}
	}
	return obs{err: "driver: unknown op " + op, session: -1, next: -1}
}

func (e *txmonEnd) stop() { perturbed.Delete(e.client.Protocol); e.conn.stop() }

// ---------------------------------------------------------------- local-tx-submission

type txsubEnd struct {
	*conn
	client *txsub.Client
	server *txsub.Server
	salt   int64
}

// rejectReason: a reject reason with its exact wire bytes (localtxsubmission.CborRejectReason)
type rejectReason struct{ raw []byte }

func (r rejectReason) Error() string                { return fmt.Sprintf("reject reason %x", r.raw) }
func (r rejectReason) MarshalCBOR() ([]byte, error) { return r.raw, nil }

// opaque reason items: well-formed CBOR with a registered tag around content of the wrong type
var opaqueItems = [][]byte{
	{0xd8, 0x18, 0x01},             // 24(1): encoded-CBOR tag around an integer
	{0xd8, 0x1e, 0x82, 0x01, 0x00}, // 30([1, 0]): rational with denominator zero
	{0xd9, 0x01, 0x02, 0x01},       // 258(1): set tag around an integer
	{0xd8, 0x1e, 0x01},             // 30(1): rational tag around an integer
	// (tags 0..3 around content of the wrong type cannot be sent: the server's encoder refuses them)
}

// the opaque reasons must pass the server's encoder and the message decoder, otherwise the request would never be
// answered at all
func checkOpaqueItems(rep *vh.Reporter) {
	for k := range opaqueItems {
		reason := reasonOf(k, true, 0)
		enc, err := cbor.Encode(txsub.NewMsgRejectTx(reason))
		if err != nil {
			rep.Dead("opaque reject reason %x cannot be sent: %v", reason, err)
		}
		m, err := txsub.NewMsgFromCbor(txsub.MessageTypeRejectTx, enc)
		if err != nil {
			rep.Dead("opaque reject reason %x is refused by the message decoder, not by the reason decoder: %v", reason, err)
		}
		if r, ok := m.(*txsub.MsgRejectTx); !ok || !bytes.Equal(r.Reason, reason) {
			rep.Dead("opaque reject reason %x does not survive the wire", reason)
		}
	}
}

// reasonOf: the reason the tagging server gives when it rejects the transaction of this request. The form is a
// function of the tag (plain forms) or of the tag and the seed (opaque forms); every form carries the tag.
func reasonOf(tag int, opaque bool, salt int64) []byte {
	t, _ := fxcbor.Marshal(tag)
	if opaque {
		item := opaqueItems[int((int64(tag)+salt)%int64(len(opaqueItems)))]
		return append(append([]byte{0x82}, t...), item...)
	}
	switch (tag / 2) % 3 {
	case 0: // text
		b, _ := fxcbor.Marshal(fmt.Sprintf("tag-%d", tag))
		return b
	case 1: // generic structure [tag, [tag, "why"]]
		b, _ := fxcbor.Marshal([]any{tag, []any{tag, "why"}})
		return b
	default: // typed: era mismatch whose era names carry the tag
		b, err := (&ledger.EraMismatch{
			OtherEra:  ledger.EraInfo{Index: uint8(tag % 7), Name: fmt.Sprintf("tag-%d", tag)},
			LedgerEra: ledger.EraInfo{Index: 6, Name: "Conway"},
		}).MarshalCBOR()
		if err != nil {
			b, _ = fxcbor.Marshal(fmt.Sprintf("tag-%d", tag))
		}
		return b
	}
}

// whose: the request a reject reason belongs to
func whose(reason []byte, salt int64) string {
	for t := 0; t < 512; t++ {
		if bytes.Equal(reason, reasonOf(t, false, salt)) {
			return fmt.Sprintf("the rejection of transaction %d", t)
		}
		if bytes.Equal(reason, reasonOf(t, true, salt)) {
			return fmt.Sprintf("the (opaque) rejection of transaction %d", t)
		}
	}
	return "no rejection the server sent"
}

func newTxsub(seed int64) endpoint {
	e := &txsubEnd{conn: newConn(seed), salt: seed & 0xffff}
	jit := &jitter{rng: rand.New(rand.NewSource(seed + 5))}
	cfg := txsub.NewConfig(
		txsub.WithSubmitTxFunc(func(_ txsub.CallbackContext, tx txsub.MsgSubmitTxTransaction) error {
			jit.wait()
			raw, _ := tx.Raw.Content.([]byte)
			var tag int
			if err := fxcbor.Unmarshal(raw, &tag); err != nil {
				// a qx request: [tag]: rejected with an opaque reason
				var x []int
				if err2 := fxcbor.Unmarshal(raw, &x); err2 != nil || len(x) != 1 {
					return fmt.Errorf("tagging server: transaction bytes are not a tag: %w", err)
				}
				return rejectReason{reasonOf(x[0], true, e.salt)}
			}
			if tag%2 == 1 {
				return rejectReason{reasonOf(tag, false, e.salt)}
			}
			return nil
		}),
		txsub.WithTimeout(10*time.Minute),
	)
	e.client = txsub.NewClient(opts(e.ma, "c25-txsub-c", e.errCh, protocol.ProtocolModeNodeToClient, protocol.ProtocolRoleClient, 0), &cfg)
	e.server = txsub.NewServer(opts(e.mb, "c25-txsub-s", e.errCh, protocol.ProtocolModeNodeToClient, protocol.ProtocolRoleServer, 0), &cfg)
	perturbed.Store(e.client.Protocol, &jitter{rng: rand.New(rand.NewSource(seed + 11))})
	e.server.Start()
	e.client.Start()
	e.start()
	return e
}

func (e *txsubEnd) supports(op string) bool { return strings.HasPrefix(op, "q") }
func (e *txsubEnd) dead() bool              { return isDone(e.client.Protocol) }

func (e *txsubEnd) call(op string, tag int) obs {
	opaque := op == "qx"
	body, _ := fxcbor.Marshal(tag)
	if opaque {
		body, _ = fxcbor.Marshal([]int{tag})
	}
	err := e.client.SubmitTx(uint16(ledger.TxTypeConway), body)
	var rej txsub.TransactionRejectedError
	switch {
	case err == nil:
		if opaque || tag%2 == 1 {
			return obs{foreign: "SubmitTx was accepted although the server rejects this transaction", session: -1, next: -1}
		}
	case errors.As(err, &rej):
		if !opaque && tag%2 == 0 {
			return obs{foreign: fmt.Sprintf("SubmitTx was rejected although the server accepts this transaction; the reason %x is %s", rej.ReasonCbor, whose(rej.ReasonCbor, e.salt)), session: -1, next: -1}
		}
		if !bytes.Equal(rej.ReasonCbor, reasonOf(tag, opaque, e.salt)) {
			return obs{foreign: fmt.Sprintf("SubmitTx got the verdict of another transaction: the reason %x is %s", rej.ReasonCbor, whose(rej.ReasonCbor, e.salt)), session: -1, next: -1}
		}
		return obs{opaque: opaque, session: -1, next: -1}
	default:
		return errObs(err)
	}
	return obs{session: -1, next: -1}
}

func (e *txsubEnd) stop() { perturbed.Delete(e.client.Protocol); e.conn.stop() }

// ---------------------------------------------------------------- peer-sharing

type peerEnd struct {
	*conn
	client *peersharing.Client
	server *peersharing.Server
}

func newPeer(seed int64) endpoint {
	e := &peerEnd{conn: newConn(seed)}
	jit := &jitter{rng: rand.New(rand.NewSource(seed + 5))}
	cfg := peersharing.NewConfig(
		peersharing.WithShareRequestFunc(func(_ peersharing.CallbackContext, amount int) ([]peersharing.PeerAddress, error) {
			jit.wait()
			var out []peersharing.PeerAddress
			for i := 0; i < amount; i++ {
				out = append(out, peersharing.PeerAddress{IP: net.IPv4(10, 0, byte(amount), byte(i)), Port: uint16(amount)})
			}
			return out, nil
		}),
		peersharing.WithTimeout(10*time.Minute),
	)
	e.client = peersharing.NewClient(opts(e.ma, "c25-peer-c", e.errCh, protocol.ProtocolModeNodeToNode, protocol.ProtocolRoleClient, 0), &cfg)
	e.server = peersharing.NewServer(opts(e.mb, "c25-peer-s", e.errCh, protocol.ProtocolModeNodeToNode, protocol.ProtocolRoleServer, 0), &cfg)
	perturbed.Store(e.client.Protocol, &jitter{rng: rand.New(rand.NewSource(seed + 11))})
	e.server.Start()
	e.client.Start()
	e.start()
	return e
}

func (e *peerEnd) supports(op string) bool { return strings.HasPrefix(op, "q") && op != "qx" }
func (e *peerEnd) dead() bool              { return isDone(e.client.Protocol) }

func (e *peerEnd) call(op string, tag int) obs {
	peers, err := e.client.GetPeers(uint8(tag))
	if err != nil {
		return errObs(err)
	}
	if len(peers) != tag {
		return obs{foreign: fmt.Sprintf("GetPeers(%d) returned %d peers, the answer to another request", tag, len(peers)), session: -1, next: -1}
	}
	for _, p := range peers {
		if int(p.Port) != tag {
			return obs{foreign: fmt.Sprintf("GetPeers(%d) returned a peer of request %d", tag, p.Port), session: -1, next: -1}
		}
	}
	return obs{session: -1, next: -1}
}

func (e *peerEnd) stop() { perturbed.Delete(e.client.Protocol); e.conn.stop() }

// ---------------------------------------------------------------- fixtures

func loadTxs(rep *vh.Reporter) {
	root := os.Getenv("VERIF_REPO")
	if root == "" {
		root = "/repo"
	}
	txt, err := os.ReadFile(filepath.Join(root, "internal", "testdata", "conway_block.hex"))
	if err != nil {
		rep.Dead("fixture: %v", err)
	}
	raw, err := hex.DecodeString(strings.TrimSpace(string(txt)))
	if err != nil {
		rep.Dead("fixture: %v", err)
	}
	blk, err := ledger.NewBlockFromCbor(ledger.BlockTypeConway, raw)
	if err != nil {
		rep.Dead("conway fixture block does not decode: %v", err)
	}
	var all []mempoolTx
	for _, tx := range blk.Transactions() {
		c := tx.Cbor()
		if len(c) == 0 {
			continue
		}
		t2, err := ledger.NewTransactionFromCbor(ledger.TxTypeConway, c)
		if err != nil || t2.Hash() != tx.Hash() {
			continue
		}
		all = append(all, mempoolTx{era: ledger.TxTypeConway, raw: c, hash: tx.Hash().Bytes()})
	}
	if len(all) < 4 {
		rep.Dead("need 4 standalone-decodable transactions in the conway fixture block, found %d", len(all))
	}
	mempool, absentTx = all[:3], all[3]
}

// ---------------------------------------------------------------- replay of one row on one protocol

type protoDef struct {
	name string
	mk   func(seed int64) endpoint
	// which parts of the model's server state the replies of this protocol carry
	sessionOf func(o outRec) (int, bool) // expected session value of a call, if the reply carries one
	stressOps []string                   // own-tag ops used by the stress run
	opaque    bool                       // the library's server of this protocol can be made to answer in an opaque form (qx)
}

func hasX(r *row) bool {
	for _, p := range r.Prog {
		for _, op := range p {
			if op == "qx" {
				return true
			}
		}
	}
	return false
}

func tagOf(g, i int) int { return 2*(8*g+i) + (g+i)%2 }

var protos = []protoDef{
	{"lsq", newLsq, func(o outRec) (int, bool) {
		if o.Op == "qa" || o.Op == "qb" || o.Op == "qc" {
			return 100*o.Snap + o.Acqn, true
		}
		return 0, false
	}, []string{"qa", "qb"}, true},
	{"txmonitor", newTxmon, func(o outRec) (int, bool) {
		if o.Op == "qc" {
			return o.Acqn, true
		}
		return 0, false
	}, []string{"qa"}, false},
	{"txsubmit", newTxsub, func(outRec) (int, bool) { return 0, false }, []string{"qa"}, true},
	{"peershare", newPeer, func(outRec) (int, bool) { return 0, false }, []string{"qa"}, false},
}

type finding struct {
	key, desc string
}

var callTimeout = 30 * time.Second

var opaqueSeen, opaqueFailed atomic.Int32 // replays with an opaque reply / of those, the client failed the connection

func hString(r *row) string {
	var s []string
	for _, e := range r.H {
		s = append(s, fmt.Sprintf("%v%v", e[0], e[1]))
	}
	return strings.Join(s, ".")
}

func progString(r *row) string {
	var s []string
	for _, p := range r.Prog {
		s = append(s, strings.Join(p, "."))
	}
	return strings.Join(s, "|")
}

// overlaps[g][i]: the call ran concurrently with a call of another goroutine in the row's history
func overlaps(r *row) [][]bool {
	type iv struct{ s, e int }
	ivs := make([][]iv, r.G)
	cnt := make([]int, r.G)
	open := make([]int, r.G)
	for pos, e := range r.H {
		g := int(e[1].(float64)) - 1
		if e[0] == "I" {
			open[g] = pos
		} else {
			ivs[g] = append(ivs[g], iv{open[g], pos})
			cnt[g]++
		}
	}
	out := make([][]bool, r.G)
	for g := range ivs {
		out[g] = make([]bool, len(ivs[g]))
		for i, a := range ivs[g] {
			for g2 := range ivs {
				if g2 == g {
					continue
				}
				for _, b := range ivs[g2] {
					if a.s < b.e && b.s < a.e {
						out[g][i] = true
					}
				}
			}
		}
	}
	return out
}

func runRow(r *row, pd protoDef, seed int64) (fs []finding, calls int, dead string) {
	ep := pd.mk(seed)
	defer ep.stop()
	rng := rand.New(rand.NewSource(seed + 99))
	results := make([][]obs, r.G)
	start := make([]chan struct{}, r.G)
	done := make([]chan struct{}, r.G)
	for g := 0; g < r.G; g++ {
		results[g] = make([]obs, len(r.Prog[g]))
		start[g] = make(chan struct{}, len(r.Prog[g]))
		done[g] = make(chan struct{}, len(r.Prog[g]))
		go func(g int) {
			for i, op := range r.Prog[g] {
				<-start[g]
				if ep.supports(op) && !(op == "rel" && r.Out[g][i].Snap == -1) {
					func() {
						defer func() {
							if p := recover(); p != nil {
								results[g][i] = obs{err: fmt.Sprintf("panic: %v", p), session: -1, next: -1}
							}
						}()
						results[g][i] = ep.call(op, tagOf(g+1, i+1))
					}()
				} else {
					results[g][i] = obs{session: -1, next: -1, desc: "skipped"}
				}
				done[g] <- struct{}{}
			}
		}(g)
	}
	for _, e := range r.H {
		g := int(e[1].(float64)) - 1
		if e[0] == "I" {
			start[g] <- struct{}{}
			switch k := rng.Intn(6); {
			case k < 2:
			case k < 4:
				for j := 0; j < k; j++ {
					time.Sleep(0)
				}
			default:
				time.Sleep(time.Duration(k*60) * time.Microsecond)
			}
		} else {
			select {
			case <-done[g]:
			case <-time.After(callTimeout):
				if os.Getenv("VERIF_C25_DUMP") != "" { // diagnosis: where does everybody wait
					buf := make([]byte, 1<<20)
					os.Stderr.Write(buf[:runtime.Stack(buf, true)])
				}
				fs = append(fs, finding{
					fmt.Sprintf("proto=%s:conc=%d:what=noreturn:prog=%s:h=%s:g=%d", pd.name, b2i(!r.Seq), progString(r), hString(r), g+1),
					fmt.Sprintf("a call of goroutine %d has not returned %s after it was due in the history", g+1, callTimeout)})
				return fs, calls, ""
			}
		}
	}
	ov := overlaps(r)
	// REPLY FORM: which kind of client is this (what did it do with the first opaque reply), and which calls may
	// have failed because of it. Positions of the invocation / return events of every call in the history:
	invPos, retPos := make([][]int, r.G), make([][]int, r.G)
	for pos, e := range r.H {
		g := int(e[1].(float64)) - 1
		if e[0] == "I" {
			invPos[g] = append(invPos[g], pos)
		} else {
			retPos[g] = append(retPos[g], pos)
		}
	}
	isDead := false
	firstX, branch := -1, ""
	for g := 0; g < r.G; g++ {
		for i, op := range r.Prog[g] {
			if !isDead && results[g][i].err != "" && ep.supports(op) {
				isDead = ep.dead() // (waits a moment for the shutdown to complete: only where a call failed)
			}
			if op == "qx" && ep.supports(op) {
				if firstX < 0 || invPos[g][i] < firstX {
					firstX = invPos[g][i]
					branch = "raw"
					if results[g][i].err != "" {
						branch = "fail"
					}
				}
			}
		}
	}
	if firstX >= 0 {
		opaqueSeen.Add(1)
		if isDead {
			opaqueFailed.Add(1)
		}
	}
	// the model's expectation for this kind of client (sequential rows: the first opaque call shows the kind)
	var expOut [][]outRec
	switch {
	case firstX < 0 || r.Onop == "" || r.Onop == branch:
		expOut = r.Out
	case len(r.Alt) == r.G:
		expOut = r.Alt
	}
	// a call may return an error and no reply only on a connection that failed on an opaque reply: sequential
	// rows take it from the model's row (snap = -2), concurrent ones from the history (an opaque request was
	// invoked before the failing call returned) and the connection must really be down
	mayFail := func(g, i int) bool {
		if !isDead {
			return false
		}
		if r.Seq && expOut != nil {
			return expOut[g][i].Snap == -2
		}
		for g2 := 0; g2 < r.G; g2++ {
			for i2, op2 := range r.Prog[g2] {
				if op2 == "qx" && ep.supports(op2) && invPos[g2][i2] < retPos[g][i] {
					return true
				}
			}
		}
		return false
	}
	for g := 0; g < r.G; g++ {
		for i, op := range r.Prog[g] {
			if !ep.supports(op) || (op == "rel" && r.Out[g][i].Snap == -1) {
				continue // the model skips a release on a client that is not acquired (sequential rows only)
			}
			calls++
			o := results[g][i]
			if o.err != "" && mayFail(g, i) {
				continue // no reply at all: nothing that could belong to another request
			}
			conc := 0
			if ov[g][i] {
				conc = 1
			}
			key := func(what string) string {
				return fmt.Sprintf("proto=%s:conc=%d:what=%s:op=%s:prog=%s:h=%s:call=g%d.%d", pd.name, conc, what, op, progString(r), hString(r), g+1, i+1)
			}
			switch {
			case o.err != "":
				fs = append(fs, finding{key("error"), fmt.Sprintf("%s (tag %d) returned the error %q although the server answered every request (last engine error: %q)", op, tagOf(g+1, i+1), o.err, ep.lastErr())})
				continue
			case o.foreign != "":
				fs = append(fs, finding{key("foreign-reply"), fmt.Sprintf("%s (tag %d): %s", op, tagOf(g+1, i+1), o.foreign)})
				continue
			}
			if !r.Seq || expOut == nil || o.opaque {
				continue // session values depend on the interleaving the real run took; an undecoded reply shows none
			}
			exp := expOut[g][i]
			if exp.Snap == -2 {
				continue // the model's client has failed the connection here; this one answered with its own reply
			}
			if want, ok := pd.sessionOf(exp); ok && o.session != want {
				fs = append(fs, finding{key("session"), fmt.Sprintf("%s carried session value %d, the model's server answered this call with %d (point %d, acquisition %d)", op, o.session, want, exp.Snap, exp.Acqn)})
			}
			if pd.name == "txmonitor" && op == "qb" {
				want := exp.Cnt
				if want > len(mempool) {
					want = len(mempool)
				}
				if o.next != want {
					fs = append(fs, finding{key("session"), fmt.Sprintf("NextTx returned mempool entry %d (3 = none), the model's server answered this call with entry %d", o.next, want)})
				}
			}
		}
	}
	return fs, calls, ""
}

// stress: perturbed-schedule run beyond the TLC bound: K rounds in which G goroutines leave a barrier
// together and each make one own-tag call.
func runStress(pd protoDef, seed int64, G, K int) (fs []finding, calls int) {
	ep := pd.mk(seed)
	defer ep.stop()
	var mu sync.Mutex
	seenKey := map[string]bool{}
	broken := false
	for round := 0; round < K && !broken; round++ {
		var wg sync.WaitGroup
		gate := make(chan struct{})
		for g := 1; g <= G; g++ {
			wg.Add(1)
			go func(g int) {
				defer wg.Done()
				tag := g + G*(round%4)
				<-gate
				op := pd.stressOps[g%len(pd.stressOps)]
				o := ep.call(op, tag)
				what := ""
				switch {
				case o.err != "":
					what = "error"
				case o.foreign != "":
					what = "foreign-reply"
				}
				mu.Lock()
				defer mu.Unlock()
				calls++
				if what == "" {
					return
				}
				if what == "error" {
					broken = true
				}
				k := fmt.Sprintf("proto=%s:conc=1:what=%s:op=%s:stress=%dx%d:g=%d", pd.name, what, op, G, K, g)
				if !seenKey[k] {
					seenKey[k] = true
					fs = append(fs, finding{k, fmt.Sprintf("stress run, round %d goroutine %d (tag %d): %s%s (last engine error %q)", round+1, g, tag, o.foreign, o.err, ep.lastErr())})
				}
			}(g)
		}
		close(gate)
		wg.Wait()
	}
	return
}

func b2i(b bool) int {
	if b {
		return 1
	}
	return 0
}

func main() {
	rep := vh.NewReporter()
	if len(os.Args) < 2 {
		rep.Dead("usage: c25 rows.ndjson...")
	}
	loadTxs(rep)
	checkOpaqueItems(rep)
	installTracer()
	if os.Args[1] == "-stress" { // replay of a stress finding: c25 -stress <proto> <G> <K>
		if len(os.Args) < 5 {
			rep.Dead("usage: c25 -stress proto G K")
		}
		G, _ := strconv.Atoi(os.Args[3])
		K, _ := strconv.Atoi(os.Args[4])
		for _, pd := range protos {
			if pd.name == os.Args[2] && G > 0 && K > 0 {
				fs, _ := runStress(pd, vh.Seed()*31+7, G, K)
				rep.Case("stress/"+pd.name, true)
				for _, f := range fs {
					rep.Disagree(f.key, f.desc, map[string]any{"stress": pd.name, "g": G, "k": K, "verif_seed": vh.Seed()})
				}
			}
		}
		rep.Finish()
		return
	}
	var rows []row
	for _, p := range os.Args[1:] {
		rs, err := vh.ReadNDJSON[row](p)
		if err != nil {
			rep.Dead("rows: %v", err)
		}
		rows = append(rows, rs...)
	}
	if len(rows) == 0 {
		rep.Dead("no rows")
	}
	for i := range rows {
		r := &rows[i]
		if len(r.Prog) != r.G || len(r.Out) != r.G || len(r.H) != 2*r.G*r.N {
			rep.Dead("malformed row %d", i)
		}
		for g := range r.Out {
			if len(r.Out[g]) != len(r.Prog[g]) {
				rep.Dead("malformed row %d", i)
			}
			for _, o := range r.Out[g] {
				if o.Snap == -1 && !r.Seq {
					rep.Dead("row %d: a skipped release in a concurrent behaviour (RelRule broken)", i)
				}
			}
		}
	}
	seed := vh.Seed()
	if ms, err := strconv.Atoi(os.Getenv("VERIF_C25_CALL_TIMEOUT_MS")); err == nil && ms > 0 {
		callTimeout = time.Duration(ms) * time.Millisecond
	}
	type job struct {
		r  *row
		pd protoDef
	}
	var jobs []job
	seen := map[string]bool{}
	for i := range rows {
		r := &rows[i]
		for _, pd := range protos {
			if r.Proto != "" && r.Proto != pd.name {
				continue
			}
			if hasX(r) && !pd.opaque {
				continue // no opaque replies through this protocol's server: the row without qx is replayed anyway
			}
			if pd.name == "txsubmit" || pd.name == "peershare" {
				// these clients have no sessions: rows that differ only in acquire/release/query kind are the same replay
				// (the form of the reply, plain or opaque, is kept)
				var proj []string
				for _, p := range r.Prog {
					n, f := 0, ""
					for _, op := range p {
						if strings.HasPrefix(op, "q") {
							n++
							if op == "qx" {
								f += "x"
							} else {
								f += "q"
							}
						}
					}
					if strings.Contains(f, "x") {
						proj = append(proj, f)
					} else {
						proj = append(proj, strconv.Itoa(n))
					}
				}
				k := pd.name + "/" + strings.Join(proj, ",") + "/" + hString(r)
				if r.Seq && seen[k] {
					continue
				}
				seen[k] = true
			}
			jobs = append(jobs, job{r, pd})
		}
	}
	var wg sync.WaitGroup
	ch := make(chan job)
	var mu sync.Mutex
	perProto := map[string]int{}
	concCalls, seqRows, concRows := 0, 0, 0
	var deadMsg atomic.Value
	for w := 0; w < 12; w++ {
		wg.Add(1)
		go func() {
			defer wg.Done()
			for j := range ch {
				cs := seed*1000003 + int64(j.r.Idx)*7919 + int64(len(j.pd.name))
				if j.r.Rseed != nil {
					cs = *j.r.Rseed
				}
				fs, calls, dead := runRow(j.r, j.pd, cs)
				if dead != "" {
					deadMsg.Store(dead)
					continue
				}
				rep.Case(j.pd.name+"/"+progString(j.r)+"/"+hString(j.r), calls > 0)
				mu.Lock()
				perProto[j.pd.name] += calls
				if j.r.Seq {
					seqRows++
				} else {
					concRows++
					concCalls += calls
				}
				mu.Unlock()
				if j.r.Idx%97 == int(seed%97) && len(fs) == 0 {
					rep.Sample(map[string]any{"proto": j.pd.name, "prog": progString(j.r), "h": hString(j.r), "calls": calls, "result": "every call got its own answer"})
				}
				for _, f := range fs {
					rr := *j.r
					rr.Rseed = &cs
					rr.Proto = j.pd.name
					rep.Disagree(f.key, f.desc, map[string]any{"row": rr, "rseed": cs, "verif_seed": seed})
				}
			}
		}()
	}
	for _, j := range jobs {
		ch <- j
	}
	close(ch)
	wg.Wait()
	// perturbed-schedule stress runs (skipped when a single row is replayed)
	stressCalls := 0
	if len(rows) > 1 {
		K := 60
		if vh.Tier() != "quick" {
			K = 400
		}
		for _, pd := range protos {
			fs, n := runStress(pd, seed*31+7, 32, K)
			stressCalls += n
			rep.Case("stress/"+pd.name, true)
			for _, f := range fs {
				rep.Disagree(f.key, f.desc, map[string]any{"stress": pd.name, "g": 32, "k": K, "verif_seed": seed})
			}
		}
	}
	rep.Extra["c25_stress_calls"] = stressCalls
	rep.Extra["c25_enqueue_hook_available"] = hookSeen.Load()
	rep.Extra["c25_replays_with_opaque_reply"] = opaqueSeen.Load()
	rep.Extra["c25_replays_with_opaque_reply_connection_failed"] = opaqueFailed.Load()
	if s, ok := deadMsg.Load().(string); ok {
		rep.Dead("%s", s)
	}
	rep.Extra["c25_api_calls_by_protocol"] = perProto
	rep.Extra["c25_replays_sequential"] = seqRows
	rep.Extra["c25_replays_concurrent"] = concRows
	rep.Extra["c25_api_calls_in_concurrent_replays"] = concCalls
	rep.Finish()
}
