// c21: conformance driver for property C21 (chain-sync delivers the server's
// chain updates faithfully; never more outstanding pipelined requests than the
// configured limit; stopping ends the conversation cleanly).
//
//	c21 gen <outdir> <plans.ndjson>
//
// Every plan row is a server history over {F, B, AF, AB} (TLC-generated from
// spec/net/ChainSyncClient.tla, or a seeded long one). The REAL chainsync
// client syncs against a scripted server built on the library's own chainsync
// Server (RollForward / RollBackward / AwaitReply) over two real muxers on a
// fragmenting in-memory pipe. One recorder orders the engine's `verif` events
// of both endpoints and the driver's events (SrvSend, CbBegin, CbEnd, StopCall,
// StopRet, End); the traces are written to <outdir>/traces.ndjson and judged by
// TLC (spec/net/ChainSyncTrace.tla). The driver only compares the callback
// sequence with the one the specification predicted for the row (RP).
//
// Rows with pipe = true configure a real pipeline.BlockPipeline on the client
// (Config.Pipeline, node-to-client): the roll-forward callback of these
// conversations is the pipeline's ApplyFunc, logged with the same CbBegin/CbEnd
// lines; the trace's Reset line says so (mt = 1) and the observer switches to
// the pipeline rules (apply order, drain before the roll-backward callback).
package main

import (
	"bufio"
	"context"
	"encoding/hex"
	"encoding/json"
	"fmt"
	"hash/fnv"
	"math/rand"
	"os"
	"path/filepath"
	"runtime"
	"strings"
	"sync"
	"sync/atomic"
	"time"

	"github.com/blinklabs-io/gouroboros/cbor"
	"github.com/blinklabs-io/gouroboros/ledger"
	lcommon "github.com/blinklabs-io/gouroboros/ledger/common"
	"github.com/blinklabs-io/gouroboros/pipeline"
	"github.com/blinklabs-io/gouroboros/protocol"
	"github.com/blinklabs-io/gouroboros/protocol/chainsync"
	pcommon "github.com/blinklabs-io/gouroboros/protocol/common"

	"verifharness/netx"
	"verifharness/trace"
	"verifharness/vh"
)

// ---------------------------------------------------------------- fixtures

type fixture struct {
	name      string
	blockType uint
	block     []byte // block CBOR (what node-to-client delivers)
	header    []byte // header CBOR (what node-to-node delivers)
}

func repoDir() string {
	if d := os.Getenv("VERIF_REPO"); d != "" {
		return d
	}
	return "/repo"
}

func loadFixtures(rep *vh.Reporter) []fixture {
	var out []fixture
	for _, f := range []struct {
		n string
		t uint
	}{
		{"byron", ledger.BlockTypeByronMain}, {"shelley", ledger.BlockTypeShelley},
		{"allegra", ledger.BlockTypeAllegra}, {"mary", ledger.BlockTypeMary},
		{"alonzo", ledger.BlockTypeAlonzo}, {"babbage", ledger.BlockTypeBabbage},
		{"conway", ledger.BlockTypeConway},
	} {
		p := filepath.Join(repoDir(), "internal", "testdata", f.n+"_block.hex")
		b, err := os.ReadFile(p)
		if err != nil {
			rep.Dead("fixture %s: %v", p, err)
		}
		raw, err := hex.DecodeString(strings.TrimSpace(string(b)))
		if err != nil {
			rep.Dead("fixture %s: %v", p, err)
		}
		if _, err := ledger.NewBlockFromCbor(f.t, raw, lcommon.VerifyConfig{SkipBodyHashValidation: true}); err != nil {
			rep.Dead("fixture %s does not decode as block type %d: %v", f.n, f.t, err)
		}
		var parts []cbor.RawMessage
		if _, err := cbor.Decode(raw, &parts); err != nil || len(parts) == 0 {
			rep.Dead("fixture %s: cannot split block: %v", f.n, err)
		}
		if _, err := ledger.NewBlockHeaderFromCbor(f.t, parts[0]); err != nil {
			rep.Dead("fixture %s: header does not decode: %v", f.n, err)
		}
		out = append(out, fixture{name: f.n, blockType: f.t, block: raw, header: []byte(parts[0])})
	}
	return out
}

func ident(blockType uint, b []byte) string {
	h := fnv.New64a()
	h.Write(b)
	return fmt.Sprintf("%d:%016x", blockType, h.Sum64())
}

func pointIdent(p pcommon.Point) string {
	h := fnv.New64a()
	h.Write(p.Hash)
	return fmt.Sprintf("p%d:%016x", p.Slot, h.Sum64())
}

// ---------------------------------------------------------------- plans

// row is what the orchestrator hands over: a TLC row (hist, cbs) or a seeded long history (gen).
type row struct {
	N      int      `json:"n"`
	Hist   []string `json:"hist"`
	Cbs    []string `json:"cbs"`
	Gen    int      `json:"gen"`    // > 0: seeded history of this length
	Limit  *int     `json:"limit"`  // configured pipeline limit (nil: chosen from the row index)
	Mode   string   `json:"mode"`   // ntn | ntc ("" = chosen from the row index)
	Pipe   bool     `json:"pipe"`   // a block pipeline is configured (node-to-client only)
	Before []int    `json:"before"` // per callback: callbacks that must have returned when it is entered
}

type plan struct {
	Id        string   `json:"id"`
	Hist      []string `json:"hist,omitempty"`
	HistLen   int      `json:"histLen"`
	Cbs       []string `json:"-"`
	Limit     int      `json:"limit"`
	Mode      string   `json:"mode"`
	Raw       bool     `json:"raw"`       // raw or decoded roll-forward callback
	Slow      int      `json:"slow"`      // 0 instant callbacks, 1 every callback a little, 2 some callbacks a lot
	StopAfter int      `json:"stopAfter"` // -1: Stop when the whole history was delivered; k: Stop when k callbacks were entered
	Async     bool     `json:"async"`     // the reply after an AwaitReply comes from another goroutine, later
	SlowSend  bool     `json:"slowSend"`  // schedule perturbation: the client's enqueue of RequestNext is slowed down
	Long      bool     `json:"long"`
	Pipe      bool     `json:"pipe,omitempty"`    // Config.Pipeline set: roll-forwards are applied by a real BlockPipeline
	PipeCap   int      `json:"pipeCap,omitempty"` // its PrefetchBufferSize (small ones make Submit block)
	Workers   int      `json:"workers,omitempty"` // its decode workers
	Before    []int    `json:"-"`
	seed      int64
}

var limitValues = []int{0, 1, 2, 50, 100}

func histKey(h []string) string {
	if len(h) == 0 {
		return "-"
	}
	return strings.Join(h, ".")
}

func makePlan(r *row, i int, seed int64) *plan {
	s := seed*1000003 + int64(i)*7919
	rng := rand.New(rand.NewSource(s))
	pl := &plan{seed: s, Cbs: r.Cbs, Before: r.Before, Pipe: r.Pipe}
	if r.Gen > 0 {
		kinds := []string{"F", "F", "F", "F", "F", "B", "AF", "AB"}
		pl.Hist = make([]string, r.Gen)
		for j := range pl.Hist {
			pl.Hist[j] = kinds[rng.Intn(len(kinds))]
		}
		pl.Long = true
		pl.Cbs = nil
		pl.Before = nil
	} else {
		pl.Hist = r.Hist
	}
	pl.HistLen = len(pl.Hist)
	if r.Limit != nil {
		pl.Limit = *r.Limit
	} else {
		pl.Limit = limitValues[(i+int(seed))%len(limitValues)]
	}
	pl.Mode = r.Mode
	if pl.Mode == "" {
		pl.Mode = []string{"ntn", "ntc"}[(i/len(limitValues)+int(seed))%2]
	}
	pl.Raw = rng.Intn(2) == 0
	pl.Slow = rng.Intn(3)
	pl.Async = rng.Intn(3) == 0
	pl.SlowSend = rng.Intn(3) == 0
	pl.StopAfter = -1
	if rng.Intn(2) == 0 {
		pl.StopAfter = rng.Intn(pl.HistLen + 1)
	}
	hk := histKey(pl.Hist)
	if pl.Long {
		hk = fmt.Sprintf("gen%d", pl.HistLen)
	}
	if pl.Pipe {
		// the pipeline path exists for node-to-client only; its own dimensions are drawn after the others
		pl.Mode = "ntc"
		pl.PipeCap = []int{1, 2, 4, 1000}[rng.Intn(4)]
		pl.Workers = 1 + rng.Intn(4)
		pl.Slow = rng.Intn(4) // 3: every apply takes 0.4..2.4 ms
	}
	pl.Id = fmt.Sprintf("h=%s|lim=%d|%s|raw=%v|slow=%d|stop=%d|async=%v|ss=%v",
		hk, pl.Limit, pl.Mode, pl.Raw, pl.Slow, pl.StopAfter, pl.Async, pl.SlowSend)
	if pl.Pipe {
		pl.Id += fmt.Sprintf("|pipe=%d/%d", pl.PipeCap, pl.Workers)
	}
	if pl.Long {
		pl.Hist = pl.Hist[:0:0]
		// regenerate on demand (kept out of the replay object): see expand()
	}
	return pl
}

// expand returns the history of a plan (long histories are regenerated from the plan's seed).
func (pl *plan) expand() []string {
	if !pl.Long {
		return pl.Hist
	}
	rng := rand.New(rand.NewSource(pl.seed))
	kinds := []string{"F", "F", "F", "F", "F", "B", "AF", "AB"}
	h := make([]string, pl.HistLen)
	for j := range h {
		h[j] = kinds[rng.Intn(len(kinds))]
	}
	return h
}

// ---------------------------------------------------------------- recording

type run struct {
	rec      *trace.Recorder
	pmu      sync.Mutex
	perturb  *rand.Rand
	slowSend bool

	cliEnq, cliDeq, cliDeqRN, cliHandle atomic.Int64 // engine events of the client
	srvHandleRN, srvHandleDone          atomic.Int64 // engine events of the server
	srvAnswered                         atomic.Int64 // requests the scripted server has answered (F/B or final AwaitReply)
	srvSends, fbSent                    atomic.Int64
	cbBegin, cbEnd                      atomic.Int64
	tailed                              atomic.Bool
	events                              atomic.Int64

	pipe                  bool
	cliHandleF            atomic.Int64 // RollForward messages handled by the client
	applyEnd              atomic.Int64 // pipeline: apply callbacks returned
	rollbacks, rbInFlight atomic.Int64 // pipeline: RollBackwards handled / ... while blocks were in the pipeline
}

// modeKey is the mode part of the disagreement keys (conversations with a block pipeline have their own)
func (pl *plan) modeKey() string {
	if pl.Pipe {
		return pl.Mode + "-pipe"
	}
	return pl.Mode
}

var runs sync.Map // *protocol.Protocol -> *run

var underLock = map[string]bool{"MsgIn": true, "Release": true, "State": true}

func dispatch(p *protocol.Protocol, e protocol.VerifEvent) {
	v, ok := runs.Load(p)
	if !ok {
		return
	}
	r := v.(*run)
	r.events.Add(1)
	ep := trace.RoleName(e.Role)
	keep := false
	switch e.Ev {
	case "Enq":
		if ep == "client" {
			r.cliEnq.Add(1)
		}
	case "EnqAbort":
		if ep == "client" {
			r.cliEnq.Add(-1)
		}
	case "Deq":
		if ep == "client" {
			keep = e.MsgType == chainsync.MessageTypeRequestNext || e.MsgType == chainsync.MessageTypeDone
		}
	case "Handle":
		if ep == "client" {
			keep = e.MsgType >= chainsync.MessageTypeAwaitReply && e.MsgType <= chainsync.MessageTypeRollBackward
		} else {
			keep = e.MsgType == chainsync.MessageTypeDone
		}
	case "Error", "TransErr":
		keep = true
	}
	if keep {
		ln := trace.Line{Ep: ep, Ev: e.Ev, Mt: e.MsgType}
		if e.Ev == "Error" {
			ln.S2 = e.S1
		}
		r.rec.Add(ln)
	}
	// counters after the line is in the trace (they only steer the driver's waiting)
	switch e.Ev {
	case "Deq":
		if ep == "client" {
			r.cliDeq.Add(1)
			if e.MsgType == chainsync.MessageTypeRequestNext {
				r.cliDeqRN.Add(1)
			}
		}
	case "Handle":
		if ep == "client" && keep {
			if r.pipe && e.MsgType == chainsync.MessageTypeRollBackward {
				r.rollbacks.Add(1)
				if r.cliHandleF.Load() > r.applyEnd.Load() {
					r.rbInFlight.Add(1)
				}
			}
			if e.MsgType == chainsync.MessageTypeRollForward {
				r.cliHandleF.Add(1)
			}
			r.cliHandle.Add(1)
		}
		if ep == "server" {
			switch e.MsgType {
			case chainsync.MessageTypeRequestNext:
				r.srvHandleRN.Add(1)
			case chainsync.MessageTypeDone:
				r.srvHandleDone.Add(1)
			}
		}
	}
	// schedule perturbation (never while a protocol mutex is held)
	if underLock[e.Ev] {
		return
	}
	if r.slowSend && ep == "client" && e.Ev == "Enq" && e.MsgType == chainsync.MessageTypeRequestNext {
		time.Sleep(60 * time.Microsecond)
	}
	r.pmu.Lock()
	k := r.perturb.Intn(20)
	r.pmu.Unlock()
	switch {
	case k < 4:
		runtime.Gosched()
	case k == 4:
		time.Sleep(70 * time.Microsecond)
	}
}

// ---------------------------------------------------------------- one conversation

type srvMsg struct {
	kind  string // A | F | B
	tipId int
	tip   chainsync.Tip
	fx    *fixture
	point pcommon.Point
	h     string
}

type outcome struct {
	lines                 []trace.Line
	dead                  string
	disagree              string
	desc                  string
	endMode               string
	cbKinds               []string
	muxErrs               int
	doneSeen              bool
	maxWait               time.Duration
	rollbacks, rbInFlight int
}

// schedule perturbation inside the block pipeline (its `verif` hook): a block is held for a moment by the
// decode worker that has finished with it, or by the apply stage that has just taken it
var pipePerturb = struct {
	sync.Mutex
	r *rand.Rand
}{r: rand.New(rand.NewSource(1))}

func pipeHook(point, stage string, seq uint64, raw []byte, val int64) {
	if point != "w.emit" && point != "a.took" {
		return
	}
	pipePerturb.Lock()
	k := pipePerturb.r.Intn(16)
	pipePerturb.Unlock()
	switch {
	case k < 3:
		runtime.Gosched()
	case k < 6:
		time.Sleep(time.Duration(40*k) * time.Microsecond)
	}
}

var extremes = []uint64{0, 1, 1<<63 - 1, 1 << 63, 1<<64 - 1, 1 << 32, 4492800}

const (
	longWait  = 60 * time.Second
	stallWait = 8 * time.Second
	hangWait  = 45 * time.Second
	// Stop's own bounded waits add up to 5.25 s; no event at all for this long after the call: it hangs
	stopHangWait = 12 * time.Second
)

func runPlan(pl *plan, fxs []fixture) (out outcome) {
	rng := rand.New(rand.NewSource(pl.seed + 11))
	hist := pl.expand()
	r := &run{rec: trace.NewRecorder(chainsync.ProtocolName), perturb: rand.New(rand.NewSource(pl.seed + 7)), slowSend: pl.SlowSend,
		pipe: pl.Pipe}
	mode := protocol.ProtocolModeNodeToClient
	if pl.Mode == "ntn" {
		mode = protocol.ProtocolModeNodeToNode
	}

	// the concrete messages of the history, built up front
	var script [][]srvMsg // per history item: the messages the server sends for one RequestNext
	tipOf := map[string]int{}
	tipKey := func(t chainsync.Tip) string {
		return fmt.Sprintf("%d/%d/%x", t.Point.Slot, t.BlockNumber, t.Point.Hash)
	}
	nextTip := 0
	mkTip := func() (int, chainsync.Tip) {
		nextTip++
		hash := make([]byte, 32)
		rng.Read(hash)
		slot, bn := rng.Uint64(), rng.Uint64()
		if nextTip <= 2*len(extremes) { // the extremes of the value range first (the property only compares tips)
			slot = extremes[(nextTip-1)%len(extremes)]
			bn = extremes[(nextTip+2)%len(extremes)]
		}
		t := chainsync.Tip{Point: pcommon.NewPoint(slot, hash), BlockNumber: bn}
		tipOf[tipKey(t)] = nextTip
		return nextTip, t
	}
	for _, k := range hist {
		var ms []srvMsg
		if k == "AF" || k == "AB" {
			ms = append(ms, srvMsg{kind: "A"})
		}
		id, tip := mkTip()
		if k == "F" || k == "AF" {
			var fx *fixture
			for {
				fx = &fxs[rng.Intn(len(fxs))]
				// the library's server does not serve Byron headers over node-to-node
				if !(pl.Mode == "ntn" && fx.blockType == ledger.BlockTypeByronMain) {
					break
				}
			}
			h := ident(fx.blockType, fx.block)
			if pl.Mode == "ntn" {
				h = ident(fx.blockType, fx.header)
			}
			ms = append(ms, srvMsg{kind: "F", tipId: id, tip: tip, fx: fx, h: h})
		} else {
			ph := make([]byte, 32)
			rng.Read(ph)
			pt := pcommon.NewPoint(rng.Uint64(), ph)
			if rng.Intn(8) == 0 {
				pt = pcommon.NewPointOrigin()
			}
			ms = append(ms, srvMsg{kind: "B", tipId: id, tip: tip, point: pt, h: pointIdent(pt)})
		}
		script = append(script, ms)
	}

	ma, mb, _, _ := netx.MuxPair(pl.seed, true)
	errA, errB := make(chan error, 10), make(chan error, 10)
	var muxErrs atomic.Int32
	for _, m := range []interface{ ErrorChan() chan error }{ma, mb} {
		go func(ch chan error) {
			for range ch {
				muxErrs.Add(1)
			}
		}(m.ErrorChan())
	}
	go func() {
		for err := range errA {
			r.rec.Add(trace.Line{Ep: "client", Ev: "CliErr", S2: err.Error()})
			ma.Stop()
		}
	}()
	go func() {
		for err := range errB {
			r.rec.Add(trace.Line{Ep: "server", Ev: "PeerErr", S2: err.Error()})
			mb.Stop()
		}
	}()

	// ---- scripted server on the library's Server API
	var server *chainsync.Server
	var srvMu sync.Mutex
	next := 0
	send := func(m srvMsg) {
		r.rec.Add(trace.Line{Ep: "server", Ev: "SrvSend", S1: m.kind, A: int64(m.tipId), H: m.h})
		r.srvSends.Add(1)
		var err error
		switch m.kind {
		case "A":
			err = server.AwaitReply()
		case "F":
			r.fbSent.Add(1)
			// node-to-node: the server extracts the header from the block it is given
			err = server.RollForward(m.fx.blockType, m.fx.block, m.tip)
		case "B":
			r.fbSent.Add(1)
			err = server.RollBackward(m.point, m.tip)
		}
		_ = err // a failed send shows in the trace (the message is never handled)
	}
	requestNext := func(ctx chainsync.CallbackContext) error {
		srvMu.Lock()
		i := next
		next++
		srvMu.Unlock()
		if i >= len(script) {
			// end of the history: AwaitReply, then silence
			r.tailed.Store(true)
			send(srvMsg{kind: "A"})
			r.srvAnswered.Add(1)
			return nil
		}
		ms := script[i]
		if len(ms) == 2 {
			send(ms[0])
			if pl.Async {
				d := time.Duration(rng.Intn(400)) * time.Microsecond
				go func() {
					time.Sleep(d)
					send(ms[1])
					r.srvAnswered.Add(1)
				}()
				return nil
			}
			send(ms[1])
		} else {
			send(ms[0])
		}
		r.srvAnswered.Add(1)
		return nil
	}
	findIntersect := func(ctx chainsync.CallbackContext, pts []pcommon.Point) (pcommon.Point, chainsync.Tip, error) {
		return pcommon.NewPointOrigin(), chainsync.Tip{Point: pcommon.NewPointOrigin()}, nil
	}
	srvCfg := chainsync.NewConfig(
		chainsync.WithFindIntersectFunc(findIntersect),
		chainsync.WithRequestNextFunc(requestNext),
	)
	server = chainsync.NewServer(protocol.ProtocolOptions{
		ConnectionId: netx.ConnId("c21-server"), Muxer: mb, ErrorChan: errB, Mode: mode, Role: protocol.ProtocolRoleServer,
	}, &srvCfg)

	// ---- the real client
	var cbMu sync.Mutex
	var cbKinds []string
	var cbBefore []int // per callback: callbacks that had returned when it was entered
	callback := func(kind string, tip chainsync.Tip, h string) error {
		id, ok := tipOf[tipKey(tip)]
		if !ok {
			id = -1
		}
		cbMu.Lock()
		r.rec.Add(trace.Line{Ep: "client", Ev: "CbBegin", S1: kind, A: int64(id), H: h})
		n := r.cbBegin.Add(1)
		cbKinds = append(cbKinds, kind)
		cbBefore = append(cbBefore, int(r.cbEnd.Load()))
		cbMu.Unlock()
		switch pl.Slow {
		case 1:
			time.Sleep(time.Duration(20+(n*37)%180) * time.Microsecond)
		case 2:
			if n%4 == 1 {
				time.Sleep(time.Duration(1+(n%3)) * time.Millisecond)
			}
		case 3:
			time.Sleep(time.Duration(400+(n*613)%2000) * time.Microsecond)
		}
		cbMu.Lock()
		r.rec.Add(trace.Line{Ep: "client", Ev: "CbEnd"})
		if pl.Pipe && kind == "F" {
			r.applyEnd.Add(1)
		}
		r.cbEnd.Add(1)
		cbMu.Unlock()
		return nil
	}
	opts := []chainsync.ChainSyncOptionFunc{
		chainsync.WithPipelineLimit(pl.Limit),
		chainsync.WithRollBackwardFunc(func(ctx chainsync.CallbackContext, p pcommon.Point, tip chainsync.Tip) error {
			return callback("B", tip, pointIdent(p))
		}),
	}
	if pl.Raw {
		opts = append(opts, chainsync.WithRollForwardRawFunc(func(ctx chainsync.CallbackContext, bt uint, data []byte, tip chainsync.Tip) error {
			return callback("F", tip, ident(bt, data))
		}))
	} else {
		opts = append(opts, chainsync.WithRollForwardFunc(func(ctx chainsync.CallbackContext, bt uint, blk any, tip chainsync.Tip) error {
			h := "undecoded"
			switch v := blk.(type) {
			case ledger.Block:
				h = ident(bt, v.Cbor())
			case ledger.BlockHeader:
				h = ident(bt, v.Cbor())
			}
			return callback("F", tip, h)
		}))
	}
	var bp *pipeline.BlockPipeline
	if pl.Pipe {
		// the roll-forward callback of this conversation is the pipeline's ApplyFunc (the client still insists
		// on a roll-forward callback being configured: if it were called, the observer would judge it as well)
		bp = pipeline.NewBlockPipeline(
			pipeline.WithDecodeWorkers(pl.Workers),
			pipeline.WithPrefetchBufferSize(pl.PipeCap),
			pipeline.WithSkipBodyHashValidation(true),
			pipeline.WithApplyFunc(func(it *pipeline.BlockItem) error {
				return callback("F", it.Tip(), ident(it.BlockType(), it.RawCbor()))
			}),
		)
		if err := bp.Start(context.Background()); err != nil {
			out.dead = "BlockPipeline.Start: " + err.Error()
			return out
		}
		// the application keeps reading the pipeline's output streams
		go func() {
			for range bp.Results() {
			}
		}()
		go func() {
			for err := range bp.Errors() {
				r.rec.Add(trace.Line{Ep: "client", Ev: "PipeErr", S2: err.Error()})
			}
		}()
		opts = append(opts, chainsync.WithPipeline(bp))
	}
	cliCfg := chainsync.NewConfig(opts...)
	cliCfg.SkipBlockValidation = true
	client := chainsync.NewClient(protocol.ProtocolOptions{
		ConnectionId: netx.ConnId("c21-client"), Muxer: ma, ErrorChan: errA, Mode: mode, Role: protocol.ProtocolRoleClient,
	}, &cliCfg)

	cliProto, srvProto := client.ProtocolInstance(), server.ProtocolInstance()
	runs.Store(cliProto, r)
	runs.Store(srvProto, r)
	defer runs.Delete(cliProto)
	defer runs.Delete(srvProto)

	server.Start()
	client.Start()
	ma.Start()
	mb.Start()
	defer func() {
		// tear down (Stop is a no-op when the plan's own Stop has returned; it may block if that one hangs)
		td := make(chan struct{})
		go func() { _ = client.Stop(); close(td) }()
		select {
		case <-td:
		case <-time.After(10 * time.Second):
		}
		server.Stop()
		ma.Stop()
		mb.Stop()
		if bp != nil {
			ps := make(chan struct{})
			go func() { _ = bp.Stop(); close(ps) }()
			select {
			case <-ps:
			case <-time.After(10 * time.Second):
			}
		}
		out.rollbacks, out.rbInFlight = int(r.rollbacks.Load()), int(r.rbInFlight.Load())
		out.lines = r.rec.Lines()
		cbMu.Lock()
		out.cbKinds = append([]string(nil), cbKinds...)
		cbMu.Unlock()
		out.muxErrs = int(muxErrs.Load())
		out.doneSeen = r.srvHandleDone.Load() > 0
	}()

	syncErr := make(chan error, 1)
	go func() { syncErr <- client.Sync([]pcommon.Point{pcommon.NewPointOrigin()}) }()
	select {
	case err := <-syncErr:
		if err != nil {
			out.disagree, out.desc = "sync-failed", fmt.Sprintf("Sync returned %v in a conforming conversation", err)
			out.endMode = "hung"
			r.rec.Add(trace.Line{Ep: "client", Ev: "End", S1: "hung"})
			return out
		}
	case <-time.After(longWait):
		out.dead = "Sync did not return within 60 s"
		return out
	}

	complete := func() bool {
		return r.tailed.Load() && r.cliHandle.Load() == r.srvSends.Load() && r.cbEnd.Load() == r.fbSent.Load()
	}
	atRest := func() bool {
		return r.cliEnq.Load() == r.cliDeq.Load() && r.cliDeqRN.Load() == r.srvHandleRN.Load() &&
			r.srvHandleRN.Load() == r.srvAnswered.Load() && r.srvSends.Load() == r.cliHandle.Load() &&
			r.cbBegin.Load() == r.cbEnd.Load() && (!pl.Pipe || r.applyEnd.Load() == r.cliHandleF.Load())
	}
	stopRet := make(chan struct{})
	stopIssued := false
	doStop := func() {
		stopIssued = true
		go func() {
			r.rec.Add(trace.Line{Ep: "client", Ev: "StopCall"})
			err := client.Stop()
			a := int64(0)
			s2 := ""
			if err != nil {
				a, s2 = 1, err.Error()
			}
			r.rec.Add(trace.Line{Ep: "client", Ev: "StopRet", A: a, S2: s2})
			close(stopRet)
		}()
	}
	out.endMode = "complete"
	if pl.StopAfter >= 0 {
		out.endMode = "stopped"
	}
	lastEvents, lastChange := r.events.Load(), time.Now()
	var restSince time.Time
	start := time.Now()
loop:
	for {
		if !stopIssued {
			if pl.StopAfter >= 0 && r.cbBegin.Load() >= int64(pl.StopAfter) {
				doStop()
			} else if pl.StopAfter < 0 && complete() {
				doStop()
			}
		}
		select {
		case <-stopRet:
			break loop
		default:
		}
		now := time.Now()
		if ev := r.events.Load() + r.cbEnd.Load() + r.srvSends.Load(); ev != lastEvents {
			lastEvents, lastChange = ev, now
			restSince = time.Time{}
		}
		if !stopIssued {
			if atRest() && !complete() {
				if restSince.IsZero() {
					restSince = now
				} else if now.Sub(restSince) > stallWait && atRest() {
					out.endMode = "stalled"
					break loop
				}
			} else {
				restSince = time.Time{}
			}
		}
		if stopIssued && now.Sub(lastChange) > stopHangWait {
			break loop // End will say that Stop did not return
		}
		if now.Sub(lastChange) > hangWait {
			out.endMode = "hung"
			break loop
		}
		if now.Sub(start) < 20*time.Millisecond {
			time.Sleep(100 * time.Microsecond)
		} else {
			time.Sleep(time.Millisecond)
		}
	}
	if pl.Pipe && (out.endMode == "complete" || out.endMode == "stopped") {
		// the pipeline is the application's: Stop does not wait for it. The conversation ends when the blocks
		// the client has handed over have been applied (or when nothing is applied any more for a long time)
		last, since := r.applyEnd.Load(), time.Now()
		for r.applyEnd.Load() < r.cliHandleF.Load() && time.Since(since) < stallWait {
			if n := r.applyEnd.Load(); n != last {
				last, since = n, time.Now()
			}
			time.Sleep(200 * time.Microsecond)
		}
	}
	out.maxWait = time.Since(start)
	r.rec.Add(trace.Line{Ep: "client", Ev: "End", S1: out.endMode})

	// RP: the callbacks the specification predicted for this history
	if pl.Cbs != nil && out.endMode != "stalled" && out.endMode != "hung" {
		cbMu.Lock()
		got := append([]string(nil), cbKinds...)
		cbMu.Unlock()
		bad := len(got) > len(pl.Cbs) || (out.endMode == "complete" && len(got) != len(pl.Cbs))
		for i := 0; !bad && i < len(got); i++ {
			bad = got[i] != pl.Cbs[i]
		}
		if bad {
			out.disagree = "callbacks"
			out.desc = fmt.Sprintf("callbacks %v, the specification predicts %v (%s)", got, pl.Cbs,
				map[bool]string{true: "all of them", false: "a prefix"}[out.endMode == "complete"])
		}
		// ... and how many callbacks must have returned when each of them was entered
		if !bad && pl.Before != nil {
			cbMu.Lock()
			bef := append([]int(nil), cbBefore...)
			cbMu.Unlock()
			for i := 0; i < len(bef) && i < len(pl.Before); i++ {
				if bef[i] != pl.Before[i] {
					out.disagree = "overlap"
					out.desc = fmt.Sprintf("callback %d (%s) was entered when %d callbacks had returned, the specification predicts %d "+
						"(callbacks %v): an earlier update was still being delivered", i+1, got[i], bef[i], pl.Before[i], got)
					break
				}
			}
		}
	}
	return out
}

// ---------------------------------------------------------------- main

func main() {
	rep := vh.NewReporter()
	if len(os.Args) < 4 || os.Args[1] != "gen" {
		rep.Dead("usage: c21 gen <outdir> <plans.ndjson>")
	}
	outdir := os.Args[2]
	rows, err := vh.ReadNDJSON[row](os.Args[3])
	if err != nil || len(rows) == 0 {
		rep.Dead("plans: %v (n=%d)", err, len(rows))
	}
	fxs := loadFixtures(rep)
	protocol.VerifTracer = dispatch
	pipeline.VerifHook = pipeHook
	f, err := os.Create(filepath.Join(outdir, "traces.ndjson"))
	if err != nil {
		rep.Dead("%v", err)
	}
	w := bufio.NewWriterSize(f, 1<<20)
	enc := json.NewEncoder(w)
	seed := vh.Seed()
	par := 8
	if n := runtime.NumCPU(); n < par {
		par = n
	}
	sem := make(chan struct{}, par)
	var wg sync.WaitGroup
	var mu sync.Mutex
	var events, traces, stalls, skipped, muxErrs, doneSeen, stopped, msgs, pipeRuns, rollbacks, rbInFlight int
	maxOutWait := time.Duration(0)
	for i := range rows {
		mu.Lock()
		abort := stalls >= 3
		mu.Unlock()
		if abort {
			skipped++
			continue
		}
		pl := makePlan(&rows[i], i, seed)
		wg.Add(1)
		sem <- struct{}{}
		go func(i int, pl *plan) {
			defer wg.Done()
			defer func() { <-sem }()
			var o outcome
			rep.Guard("c21:"+pl.Id, pl, func() { o = runPlan(pl, fxs) })
			mu.Lock()
			defer mu.Unlock()
			if o.dead != "" {
				rep.Dead("plan %s: %s", pl.Id, o.dead)
			}
			if o.endMode == "stalled" || o.endMode == "hung" {
				stalls++
			}
			if o.endMode == "stopped" {
				stopped++
			}
			if o.doneSeen {
				doneSeen++
			}
			if o.maxWait > maxOutWait {
				maxOutWait = o.maxWait
			}
			muxErrs += o.muxErrs
			msgs += pl.HistLen
			mt := 0
			if pl.Pipe {
				mt = 1
				pipeRuns++
				rollbacks += o.rollbacks
				rbInFlight += o.rbInFlight
			}
			enc.Encode(trace.Line{Ep: "client", Ev: "Reset", Mt: mt, S1: pl.Id, A: int64(pl.Limit), B: int64(chainsync.DefaultPipelineLimit)})
			for _, l := range o.lines {
				enc.Encode(l)
			}
			events += len(o.lines) + 1
			traces++
			rep.Case(pl.Id, pl.HistLen > 0)
			if i < 2 || pl.Long && i%4 == 0 {
				rep.Sample(map[string]any{"plan": pl, "trace_events": len(o.lines), "callbacks": len(o.cbKinds), "end": o.endMode})
			}
			if o.disagree != "" {
				rep.Disagree(fmt.Sprintf("C21:rp:%s:limit=%d:%s:h=%s", o.disagree, pl.Limit, pl.modeKey(), histKey(pl.Hist)), o.desc, pl)
			}
		}(i, pl)
	}
	wg.Wait()
	w.Flush()
	f.Close()
	rep.Extra["trace_events"] = events
	rep.Extra["traces"] = traces
	rep.Extra["server_messages_in_histories"] = msgs
	rep.Extra["runs_stopped_mid_history"] = stopped
	rep.Extra["runs_in_which_the_server_received_Done"] = doneSeen
	rep.Extra["runs_stalled_or_hung"] = stalls
	rep.Extra["plans_skipped_after_three_stalls"] = skipped
	rep.Extra["muxer_errors_after_stop_not_stated_by_property"] = muxErrs
	rep.Extra["longest_run_s"] = maxOutWait.Seconds()
	rep.Extra["runs_with_a_block_pipeline"] = pipeRuns
	rep.Extra["pipeline_rollbacks_handled"] = rollbacks
	rep.Extra["pipeline_rollbacks_handled_while_blocks_were_in_flight"] = rbInFlight
	rep.Finish()
}
