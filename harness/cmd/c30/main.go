// c30: replays the TLC-generated cases of spec/ledger/Fee.tla on the real
// minimum-fee and maximum-size rules of Shelley .. Dijkstra.
//
// Every case becomes a real transaction of the era, written as CBOR by the
// small writer below (with a minimal, wide or indefinite envelope head, wide
// map / integer heads and an indefinite input list, so that the original
// encoding is `pad` bytes longer than its canonical re-encoding, and with an
// auxiliary-data filler when an exact length is wanted) and decoded by the
// era's own decoder.  The verdict is observed at
//
//	txsize   common.TxSizeForFee
//	minfee   the era's MinFeeTx (value and error)
//	feerule  the era's UtxoValidateFeeTooSmallUtxo
//	maxrule  the era's UtxoValidateMaxTxSizeUtxo
//	list     every entry of the era's UtxoValidationRules, run one by one (only
//	         FeeTooSmallUtxoError, MaxTxSizeUtxoError and the errors of the
//	         entries named ...FeeTooSmallUtxo / ...MaxTxSizeUtxo are read)
//	calc     common.CalculateMinFee (arithmetic slice only)
//
// The phase-2 flag: a row / carrier with p2 = true is built with is_valid =
// false in its four-element envelope (0xf4 instead of 0xf5: same length, same
// content) and must decode with IsValid() = false.  The specification's
// verdicts do not read the flag (invariant FlagIrrelevant), so the flagged
// transaction is judged by the same two rules at the same observation points;
// the other entries of the rule list (among them the era's is_valid rule, which
// rejects a flagged transaction without redeemers) are not read, as before.
// Keys of flagged cases end in ":p2invalid" (before ":at=...").
//
// The expected verdict is the TLC row's; the driver only maps the abstract
// numbers to concrete ones:
//
//	size     abstract lengths are translated to the real length L of the built
//	         transaction: fee + a*(L-orig), max + (L-orig)   (invariant Translation)
//	arith    a, b and the fee are multiplied by 2^64/W; the fee-relevant size is
//	         the row's, reached exactly with the filler           (invariant Homogeneous)
//	classes  64-bit numbers that are no multiples of 2^64/W are classified with
//	         math/big by the spec's formula (product >= 2^64, sum >= 2^64, fee
//	         against a*size+b) and the class table gives the verdict
package main

import (
	"encoding/binary"
	"errors"
	"fmt"
	"math/big"
	"math/rand"
	"os"
	"path/filepath"
	"reflect"
	"runtime"
	"sort"
	"strings"

	"github.com/blinklabs-io/gouroboros/ledger/allegra"
	"github.com/blinklabs-io/gouroboros/ledger/alonzo"
	"github.com/blinklabs-io/gouroboros/ledger/babbage"
	"github.com/blinklabs-io/gouroboros/ledger/common"
	"github.com/blinklabs-io/gouroboros/ledger/conway"
	"github.com/blinklabs-io/gouroboros/ledger/dijkstra"
	"github.com/blinklabs-io/gouroboros/ledger/mary"
	"github.com/blinklabs-io/gouroboros/ledger/shelley"
	mockledger "github.com/blinklabs-io/ouroboros-mock/ledger"

	"verifharness/vh"
)

// ---------------------------------------------------------------- rows

type arithRow struct {
	W           int64  `json:"w"`
	A           int64  `json:"a"`
	S           int64  `json:"s"`
	B           int64  `json:"b"`
	Fee         int64  `json:"fee"`
	Cls         string `json:"cls"`
	Edge        string `json:"edge"`
	Verdict     string `json:"verdict"`
	WrapDiffers bool   `json:"wrapDiffers"`
}

type sizeRow struct {
	Era         string `json:"era"`
	Env         int    `json:"env"`
	Hd          string `json:"hd"`
	Orig        int64  `json:"orig"`
	Pad         int64  `json:"pad"`
	A           int64  `json:"a"`
	B           int64  `json:"b"`
	Fee         int64  `json:"fee"`
	Max         int64  `json:"max"`
	Size        int64  `json:"size"`
	MinFee      int64  `json:"minfee"`
	FeeVerdict  string `json:"feeVerdict"`
	SizeVerdict string `json:"sizeVerdict"`
	Silent      bool   `json:"silent"`
	// is_valid = false
	P2 bool `json:"p2"`
	// silent cases: the verdict both readings of the size agree on, or "either"
	BothReadings string `json:"bothReadings"`
	// the spec tolerates an over-estimated fee size here (one-directional property)
	TolerateOver bool `json:"tolerateOver"`
}

// carrierRow is one kind of transaction an arithmetic point is replayed on.
type carrierRow struct {
	Era string `json:"era"`
	Env int    `json:"env"`
	P2  bool   `json:"p2"`
	Sub int    `json:"sub"` // length of the transaction - fee-relevant size
}

type classRow struct {
	Cls       string `json:"cls"`
	Verdict   string `json:"verdict"`
	Witnesses int    `json:"witnesses"`
}

// ---------------------------------------------------------------- tiny CBOR writer

type enc struct{ b []byte }

// headW writes a head of major type m with argument n in exactly w bytes
// (w = 0: the shortest form; 1 only for n < 24; 2, 3, 5, 9 otherwise).
func (e *enc) headW(m byte, n uint64, w int) {
	if w == 0 {
		switch {
		case n < 24:
			w = 1
		case n <= 0xff:
			w = 2
		case n <= 0xffff:
			w = 3
		case n <= 0xffffffff:
			w = 5
		default:
			w = 9
		}
	}
	switch w {
	case 1:
		if n >= 24 {
			panic("headW: value does not fit one byte")
		}
		e.b = append(e.b, m<<5|byte(n))
	case 2:
		e.b = append(e.b, m<<5|24, byte(n))
	case 3:
		e.b = append(e.b, m<<5|25)
		e.b = binary.BigEndian.AppendUint16(e.b, uint16(n))
	case 5:
		e.b = append(e.b, m<<5|26)
		e.b = binary.BigEndian.AppendUint32(e.b, uint32(n))
	case 9:
		e.b = append(e.b, m<<5|27)
		e.b = binary.BigEndian.AppendUint64(e.b, n)
	default:
		panic("headW: bad width")
	}
}
func (e *enc) uint(n uint64)  { e.headW(0, n, 0) }
func (e *enc) bytes(b []byte) { e.headW(2, uint64(len(b)), 0); e.b = append(e.b, b...) }
func (e *enc) array(n int)    { e.headW(4, uint64(n), 0) }
func (e *enc) mapn(n int)     { e.headW(5, uint64(n), 0) }
func (e *enc) raw(b []byte)   { e.b = append(e.b, b...) }

func minWidth(n uint64) int {
	switch {
	case n < 24:
		return 1
	case n <= 0xff:
		return 2
	case n <= 0xffff:
		return 3
	case n <= 0xffffffff:
		return 5
	}
	return 9
}

// ---------------------------------------------------------------- transactions

// knobs are the encoding choices of one transaction; none of them changes
// what the transaction says.
type knobs struct {
	env      int    // elements of the envelope: 3 or 4
	hd       string // envelope head: min (0x83/0x84), wide (0x98 n), indef (0x9f .. 0xff)
	bodyWide bool   // body map head 0xb8 0x04 instead of 0xa4
	inIndef  bool   // input list 0x9f .. 0xff instead of 0x81 ..
	ttlW     int    // bytes of the ttl integer (value 10): 1, 2, 3, 5, 9
	coinWide bool   // output amount 2000000 in 9 bytes instead of 5
	feeW     int    // bytes of the fee integer, 0 = shortest
	filler   int    // auxiliary data {0: bytes(filler)}; -1 = null
	p2       bool   // is_valid = false (Alonzo..Conway only; Dijkstra's decoder refuses it); content, not encoding
}

// padOf is |orig| - |canonical re-encoding| of a transaction built with k.
func (k knobs) padOf(fee uint64) int {
	p := k.ttlW - 1
	if k.hd != "min" {
		p++
	}
	if k.bodyWide {
		p++
	}
	if k.inIndef {
		p++
	}
	if k.coinWide {
		p += 4
	}
	if k.feeW != 0 {
		p += k.feeW - minWidth(fee)
	}
	return p
}

var (
	spendTxId = bytesOf(32, 0x5E)
	payAddr   = append([]byte{0x61}, bytesOf(28, 0x11)...) // enterprise key address, mainnet
)

const ttlValue = 10

func bytesOf(n int, v byte) []byte {
	b := make([]byte, n)
	for i := range b {
		b[i] = v
	}
	return b
}

func buildTx(k knobs, fee uint64) []byte {
	b := &enc{}
	if k.bodyWide {
		b.headW(5, 4, 2)
	} else {
		b.mapn(4)
	}
	b.uint(0)
	if k.inIndef {
		b.b = append(b.b, 0x9f)
	} else {
		b.array(1)
	}
	b.array(2)
	b.bytes(spendTxId)
	b.uint(0)
	if k.inIndef {
		b.b = append(b.b, 0xff)
	}
	b.uint(1)
	b.array(1)
	b.array(2)
	b.bytes(payAddr)
	if k.coinWide {
		b.headW(0, 2_000_000, 9)
	} else {
		b.uint(2_000_000)
	}
	b.uint(2)
	b.headW(0, fee, k.feeW)
	b.uint(3)
	b.headW(0, ttlValue, k.ttlW)

	t := &enc{}
	switch k.hd {
	case "min":
		t.array(k.env)
	case "wide":
		t.headW(4, uint64(k.env), 2)
	case "indef":
		t.b = append(t.b, 0x9f)
	default:
		panic("bad head " + k.hd)
	}
	t.raw(b.b)
	t.mapn(0) // witness set
	if k.env == 4 {
		if k.p2 {
			t.b = append(t.b, 0xf4) // is_valid = false
		} else {
			t.b = append(t.b, 0xf5) // is_valid = true
		}
	} else if k.p2 {
		panic("a three-element envelope cannot carry is_valid = false")
	}
	if k.filler < 0 {
		t.b = append(t.b, 0xf6)
	} else {
		t.mapn(1)
		t.uint(0)
		t.bytes(bytesOf(k.filler, 0x2a))
	}
	if k.hd == "indef" {
		t.b = append(t.b, 0xff)
	}
	return t.b
}

// padKnobs picks encoding knobs whose padding is exactly pad (for a fee in its
// shortest form).
func padKnobs(env int, hd string, pad int, rng *rand.Rand) (knobs, bool) {
	k := knobs{env: env, hd: hd, ttlW: 1, filler: -1}
	r := pad
	if hd != "min" {
		r--
	}
	if r < 0 {
		return k, false
	}
	type opt struct {
		ttl        int
		bw, ii, cw bool
	}
	var opts []opt
	for _, tw := range []int{1, 2, 3, 5, 9} {
		for _, bw := range []bool{false, true} {
			for _, ii := range []bool{false, true} {
				for _, cw := range []bool{false, true} {
					n := tw - 1
					if bw {
						n++
					}
					if ii {
						n++
					}
					if cw {
						n += 4
					}
					if n == r {
						opts = append(opts, opt{tw, bw, ii, cw})
					}
				}
			}
		}
	}
	if len(opts) == 0 {
		return k, false
	}
	o := opts[rng.Intn(len(opts))]
	k.ttlW, k.bodyWide, k.inIndef, k.coinWide = o.ttl, o.bw, o.ii, o.cw
	return k, true
}

// fitKnobs completes k (ttl width and filler) so that the transaction is
// exactly target bytes long; the fee is written in 9 bytes.
func fitKnobs(k knobs, target int) (knobs, bool) {
	k.feeW = 9
	for _, tw := range []int{1, 2, 3, 5, 9} {
		k.ttlW = tw
		k.filler = -1
		base := len(buildTx(k, 0))
		if base == target {
			return k, true
		}
		for f := 0; f <= target-base; f++ {
			k.filler = f
			n := base - 1 + 2 + minWidth(uint64(f)) + f
			if f >= 24 && minWidth(uint64(f)) == 1 {
				panic("unreachable")
			}
			if n == target {
				if len(buildTx(k, 0)) != target {
					panic("fitKnobs: length formula is wrong")
				}
				return k, true
			}
			if n > target {
				break
			}
		}
	}
	return k, false
}

// ---------------------------------------------------------------- eras

type ruleFn = common.UtxoValidationRuleFunc

type eraDef struct {
	name     string
	envs     []int
	decodeTx func([]byte) (common.Transaction, error)
	pparams  func(a, b, max uint, alt bool) common.ProtocolParameters
	minFee   func(common.Transaction, common.ProtocolParameters) (uint64, error)
	feeRule  ruleFn
	maxRule  ruleFn
	rules    []ruleFn
}

func eras() []*eraDef {
	return []*eraDef{
		{
			name: "shelley", envs: []int{3},
			decodeTx: func(b []byte) (common.Transaction, error) { return shelley.NewShelleyTransactionFromCbor(b) },
			pparams: func(a, b, max uint, _ bool) common.ProtocolParameters {
				return &shelley.ShelleyProtocolParameters{MinFeeA: a, MinFeeB: b, MaxTxSize: max}
			},
			minFee: shelley.MinFeeTx, feeRule: shelley.UtxoValidateFeeTooSmallUtxo,
			maxRule: shelley.UtxoValidateMaxTxSizeUtxo, rules: shelley.UtxoValidationRules,
		},
		{
			name: "allegra", envs: []int{3},
			decodeTx: func(b []byte) (common.Transaction, error) { return allegra.NewAllegraTransactionFromCbor(b) },
			pparams: func(a, b, max uint, _ bool) common.ProtocolParameters {
				return &allegra.AllegraProtocolParameters{MinFeeA: a, MinFeeB: b, MaxTxSize: max}
			},
			// Allegra has no MinFeeTx of its own; its fee rule delegates to Shelley's
			minFee: shelley.MinFeeTx, feeRule: allegra.UtxoValidateFeeTooSmallUtxo,
			maxRule: allegra.UtxoValidateMaxTxSizeUtxo, rules: allegra.UtxoValidationRules,
		},
		{
			name: "mary", envs: []int{3},
			decodeTx: func(b []byte) (common.Transaction, error) { return mary.NewMaryTransactionFromCbor(b) },
			pparams: func(a, b, max uint, _ bool) common.ProtocolParameters {
				return &mary.MaryProtocolParameters{MinFeeA: a, MinFeeB: b, MaxTxSize: max}
			},
			minFee: mary.MinFeeTx, feeRule: mary.UtxoValidateFeeTooSmallUtxo,
			maxRule: mary.UtxoValidateMaxTxSizeUtxo, rules: mary.UtxoValidationRules,
		},
		{
			name: "alonzo", envs: []int{4},
			decodeTx: func(b []byte) (common.Transaction, error) { return alonzo.NewAlonzoTransactionFromCbor(b) },
			pparams: func(a, b, max uint, _ bool) common.ProtocolParameters {
				return &alonzo.AlonzoProtocolParameters{MinFeeA: a, MinFeeB: b, MaxTxSize: max}
			},
			minFee: alonzo.MinFeeTx, feeRule: alonzo.UtxoValidateFeeTooSmallUtxo,
			maxRule: alonzo.UtxoValidateMaxTxSizeUtxo, rules: alonzo.UtxoValidationRules,
		},
		{
			name: "babbage", envs: []int{4},
			decodeTx: func(b []byte) (common.Transaction, error) { return babbage.NewBabbageTransactionFromCbor(b) },
			pparams: func(a, b, max uint, _ bool) common.ProtocolParameters {
				return &babbage.BabbageProtocolParameters{MinFeeA: a, MinFeeB: b, MaxTxSize: max}
			},
			minFee: babbage.MinFeeTx, feeRule: babbage.UtxoValidateFeeTooSmallUtxo,
			maxRule: babbage.UtxoValidateMaxTxSizeUtxo, rules: babbage.UtxoValidationRules,
		},
		{
			name: "conway", envs: []int{4},
			decodeTx: func(b []byte) (common.Transaction, error) { return conway.NewConwayTransactionFromCbor(b) },
			pparams: func(a, b, max uint, _ bool) common.ProtocolParameters {
				return &conway.ConwayProtocolParameters{MinFeeA: a, MinFeeB: b, MaxTxSize: max,
					ProtocolVersion: common.ProtocolParametersProtocolVersion{Major: 10}}
			},
			minFee: conway.MinFeeTx, feeRule: conway.UtxoValidateFeeTooSmallUtxo,
			maxRule: conway.UtxoValidateMaxTxSizeUtxo, rules: conway.UtxoValidationRules,
		},
		{
			name: "dijkstra", envs: []int{3, 4},
			decodeTx: func(b []byte) (common.Transaction, error) { return dijkstra.NewDijkstraTransactionFromCbor(b) },
			pparams: func(a, b, max uint, alt bool) common.ProtocolParameters {
				cp := conway.ConwayProtocolParameters{MinFeeA: a, MinFeeB: b, MaxTxSize: max,
					ProtocolVersion: common.ProtocolParametersProtocolVersion{Major: 12}}
				if alt {
					return &cp // the Dijkstra rules also take Conway parameters
				}
				return &dijkstra.DijkstraProtocolParameters{ConwayProtocolParameters: cp}
			},
			minFee: dijkstra.MinFeeTx, feeRule: dijkstra.UtxoValidateFeeTooSmallUtxo,
			maxRule: dijkstra.UtxoValidateMaxTxSizeUtxo, rules: dijkstra.UtxoValidationRules,
		},
	}
}

func eraByName(n string) *eraDef {
	for _, e := range eras() {
		if e.name == n {
			return e
		}
	}
	return nil
}

func p2Suffix(p2 bool) string {
	if p2 {
		return ":p2invalid"
	}
	return ""
}

type carrier struct {
	era *eraDef
	carrierRow
}

// readCarriers reads the specification's carriers (next to the rows) - the
// eras, envelopes and flags an arithmetic point is replayed on.
func readCarriers(rep *vh.Reporter, rowsPath string) []carrier {
	path := filepath.Join(filepath.Dir(rowsPath), "carriers.ndjson")
	rows, err := vh.ReadNDJSON[carrierRow](path)
	if err != nil || len(rows) == 0 {
		rep.Dead("carriers %s: %v (%d rows)", path, err, len(rows))
	}
	order := map[string]int{}
	for i, e := range eras() {
		order[e.name] = i
	}
	sort.SliceStable(rows, func(i, j int) bool {
		a, b := rows[i], rows[j]
		if a.Era != b.Era {
			return order[a.Era] < order[b.Era]
		}
		if a.Env != b.Env {
			return a.Env < b.Env
		}
		return !a.P2 && b.P2
	})
	var out []carrier
	flagged := 0
	for _, r := range rows {
		e := eraByName(r.Era)
		if e == nil {
			rep.Dead("carrier of unknown era %q", r.Era)
		}
		ok := false
		for _, env := range e.envs {
			ok = ok || env == r.Env
		}
		if !ok || (r.P2 && r.Env != 4) || r.Sub < 0 || r.Sub > 1 {
			rep.Dead("carrier %+v cannot be built", r)
		}
		if r.P2 {
			flagged++
		}
		out = append(out, carrier{e, r})
	}
	if flagged == 0 {
		rep.Dead("the specification lists no flagged carrier: the phase-2 dimension is missing")
	}
	return out
}

func ruleName(f ruleFn) string {
	fn := runtime.FuncForPC(reflect.ValueOf(f).Pointer())
	if fn == nil {
		return "?"
	}
	return fn.Name()
}

// ---------------------------------------------------------------- observation

type obs struct {
	txSize    int
	txSizeErr error
	minFee    uint64
	minFeeErr error
	feeRule   string // accept | tooSmall | error
	feeErr    string
	maxRule   string // accept | tooBig | error
	maxErr    string
	listFee   string // accept | tooSmall | error | unlisted
	listMax   string // accept | tooBig | error | unlisted
	listNote  []string
}

func classifyFee(err error) (string, string) {
	if err == nil {
		return "accept", ""
	}
	var e shelley.FeeTooSmallUtxoError
	if errors.As(err, &e) {
		return "tooSmall", err.Error()
	}
	return "error", err.Error()
}

func classifyMax(err error) (string, string) {
	if err == nil {
		return "accept", ""
	}
	var e shelley.MaxTxSizeUtxoError
	if errors.As(err, &e) {
		return "tooBig", err.Error()
	}
	return "error", err.Error()
}

var ledgerState common.LedgerState

func initLedger(rep *vh.Reporter) {
	o := &enc{}
	o.array(2)
	o.bytes(payAddr)
	o.uint(5_000_000)
	out, err := shelley.NewShelleyTransactionOutputFromCbor(o.b)
	if err != nil {
		rep.Dead("cannot decode the spent output: %v", err)
	}
	ledgerState = mockledger.NewLedgerStateBuilder().WithUtxos([]common.Utxo{{
		Id:     shelley.NewShelleyTransactionInput(fmt.Sprintf("%x", spendTxId), 0),
		Output: out,
	}}).Build()
}

func decode(rep *vh.Reporter, era *eraDef, raw []byte, fee uint64, p2 bool, what string) common.Transaction {
	tx, err := era.decodeTx(raw)
	if err != nil {
		rep.Dead("%s: cannot decode the transaction built for %s: %v (%x)", era.name, what, err, raw)
	}
	if tx.Fee() == nil || !tx.Fee().IsUint64() || tx.Fee().Uint64() != fee {
		rep.Dead("%s %s: decoded fee %v, built %d", era.name, what, tx.Fee(), fee)
	}
	if len(tx.Cbor()) != len(raw) {
		rep.Dead("%s %s: decoded transaction keeps %d bytes of %d", era.name, what, len(tx.Cbor()), len(raw))
	}
	if tx.IsValid() == p2 {
		rep.Dead("%s %s: built with is_valid = %v, decoded with IsValid() = %v", era.name, what, !p2, tx.IsValid())
	}
	if len(tx.Inputs()) != 1 || len(tx.Outputs()) != 1 || tx.TTL() != ttlValue {
		rep.Dead("%s %s: decoded transaction lost its content (inputs %d outputs %d ttl %d)", era.name, what,
			len(tx.Inputs()), len(tx.Outputs()), tx.TTL())
	}
	return tx
}

func observe(rep *vh.Reporter, era *eraDef, tx common.Transaction, pp common.ProtocolParameters, withList bool) *obs {
	o := &obs{listFee: "skipped", listMax: "skipped"}
	o.txSize, o.txSizeErr = common.TxSizeForFee(tx)
	o.minFee, o.minFeeErr = era.minFee(tx, pp)
	o.feeRule, o.feeErr = classifyFee(era.feeRule(tx, 100, ledgerState, pp))
	o.maxRule, o.maxErr = classifyMax(era.maxRule(tx, 100, ledgerState, pp))
	for _, m := range []string{o.feeErr, o.maxErr} {
		if strings.Contains(m, "not expected type") {
			rep.Dead("%s: rule rejects the harness's protocol parameters: %s", era.name, m)
		}
	}
	if !withList {
		return o
	}
	o.listFee, o.listMax = "unlisted", "unlisted"
	for i, r := range era.rules {
		name := ruleName(r)
		isFee := strings.HasSuffix(name, "UtxoValidateFeeTooSmallUtxo")
		isMax := strings.HasSuffix(name, "UtxoValidateMaxTxSizeUtxo")
		var err error
		func() {
			defer func() {
				if p := recover(); p != nil {
					// a panic of an unrelated rule on this (deliberately
					// incomplete) transaction is not a statement of C30
					o.listNote = append(o.listNote, fmt.Sprintf("rule[%d] %s panicked: %v", i, name, p))
					if isFee || isMax {
						err = fmt.Errorf("panic: %v", p)
					}
				}
			}()
			err = r(tx, 100, ledgerState, pp)
		}()
		fc, _ := classifyFee(err)
		mc, _ := classifyMax(err)
		switch {
		case isFee:
			o.listFee = fc
		case isMax:
			o.listMax = mc
		default:
			// an entry under another name that raises one of the two errors counts
			if fc == "tooSmall" && o.listFee != "error" {
				o.listFee = "tooSmall"
			}
			if mc == "tooBig" && o.listMax != "error" {
				o.listMax = "tooBig"
			}
			if err != nil && strings.Contains(err.Error(), "min fee overflow") {
				o.listFee = "error"
			}
		}
	}
	return o
}

// specFee maps the spec's verdict to the observation vocabulary.
func specFee(v string) string {
	if v == "overflow" {
		return "error"
	}
	return v
}

// ---------------------------------------------------------------- reporting

type reports struct {
	rep      *vh.Reporter
	seen     map[string]int
	deferred map[string]*deferredReport
}

type deferredReport struct {
	desc   string
	replay map[string]any
	score  int
}

// deferDisagree keeps, per key, the most telling case (highest score) and
// reports it when the slice is done.
func (rs *reports) deferDisagree(key, desc string, replay map[string]any, score int) {
	if d, ok := rs.deferred[key]; ok && d.score >= score {
		return
	}
	rs.deferred[key] = &deferredReport{desc, replay, score}
}

func (rs *reports) flush() {
	keys := make([]string, 0, len(rs.deferred))
	for k := range rs.deferred {
		keys = append(keys, k)
	}
	sort.Strings(keys)
	for _, k := range keys {
		rs.disagree(k, rs.deferred[k].desc, rs.deferred[k].replay)
	}
}

func (rs *reports) disagree(key, desc string, replay map[string]any) {
	rs.seen[key]++
	if rs.seen[key] > 1 {
		return
	}
	var rp any
	if len(rs.seen) <= 6 || len(rs.seen)%25 == 0 {
		rp = replay
	}
	rs.rep.Disagree(key, desc, rp)
}

func rel(n int64) string {
	switch {
	case n == 0:
		return "+0"
	case n > 0:
		return fmt.Sprintf("+%d", n)
	}
	return fmt.Sprint(n)
}

// checkFee compares everything the fee verdict is observed at.
//
// A wrong fee-relevant size is the root of everything downstream of it: it is
// reported once under sizeKey (the projection of the case on what the size
// depends on: era, envelope, head, padding) and the fee verdicts of that case
// are not reported again.
func checkFee(rs *reports, era *eraDef, o *obs, sizeKey, key string, want string, wantSize int, wantMin *big.Int, replay map[string]any) {
	w := specFee(want)
	if o.txSizeErr != nil || o.txSize != wantSize {
		score := 0
		if o.feeRule != w {
			score = 1
		}
		rs.deferDisagree(sizeKey, fmt.Sprintf("%s: TxSizeForFee = %d (err %v) for an original encoding of %v bytes; the specification's size is %d "+
			"(consequence in this case: MinFeeTx = %d, err %v; fee rule says %s where the specification says %s; %v)",
			era.name, o.txSize, o.txSizeErr, replay["length"], wantSize, o.minFee, o.minFeeErr, o.feeRule, want, replay["concrete"]), replay, score)
		return
	}
	switch {
	case w == "error" && o.minFeeErr == nil:
		rs.disagree(key+":at=minfee", fmt.Sprintf("%s: MinFeeTx returned %d without an error; a*size+b overflows 64 bits (%v)",
			era.name, o.minFee, replay["concrete"]), replay)
	case w != "error" && o.minFeeErr != nil:
		rs.disagree(key+":at=minfee", fmt.Sprintf("%s: MinFeeTx failed (%v); a*size+b = %v fits", era.name, o.minFeeErr, wantMin), replay)
	case w != "error" && wantMin != nil && new(big.Int).SetUint64(o.minFee).Cmp(wantMin) != 0:
		rs.disagree(key+":at=minfee", fmt.Sprintf("%s: MinFeeTx = %d, the specification's a*size+b = %v (%v)",
			era.name, o.minFee, wantMin, replay["concrete"]), replay)
	}
	if o.feeRule != w {
		rs.disagree(key+":at=feerule", fmt.Sprintf("%s: UtxoValidateFeeTooSmallUtxo says %s (%s), the specification says %s (%v)",
			era.name, o.feeRule, o.feeErr, want, replay["concrete"]), replay)
	}
	if o.listFee != "skipped" && o.listFee != w {
		rs.disagree(key+":at=list", fmt.Sprintf("%s: the entries of UtxoValidationRules say %s, the specification says %s (%v)",
			era.name, o.listFee, want, replay["concrete"]), replay)
	}
}

func checkMax(rs *reports, era *eraDef, o *obs, key string, want string, replay map[string]any) {
	if o.maxRule != want {
		rs.disagree(key+":at=maxrule", fmt.Sprintf("%s: UtxoValidateMaxTxSizeUtxo says %s (%s), the specification says %s (%v)",
			era.name, o.maxRule, o.maxErr, want, replay["concrete"]), replay)
	}
	if o.listMax != "skipped" && o.listMax != want {
		rs.disagree(key+":at=list", fmt.Sprintf("%s: the entries of UtxoValidationRules say %s, the specification says %s (%v)",
			era.name, o.listMax, want, replay["concrete"]), replay)
	}
}

// ---------------------------------------------------------------- size slice

func sizeSlice(rep *vh.Reporter, rs *reports, rng *rand.Rand, path string, only string) {
	rows, err := vh.ReadNDJSON[sizeRow](path)
	if err != nil || len(rows) == 0 {
		rep.Dead("cases %s: %v (%d rows)", path, err, len(rows))
	}
	sort.SliceStable(rows, func(i, j int) bool { return sizeKey(&rows[i]) < sizeKey(&rows[j]) })
	silent := map[string]int{}
	overSize := map[string]int{}
	overExample := map[string]any{}
	noFix := 0
	flagged := map[string]int{}
	sampled := map[string]bool{}
	for ri := range rows {
		r := &rows[ri]
		if only != "all" && r.Era != only {
			continue
		}
		era := eraByName(r.Era)
		if era == nil {
			rep.Dead("unknown era %q", r.Era)
		}
		k, ok := padKnobs(r.Env, r.Hd, int(r.Pad), rng)
		if !ok {
			rep.Dead("no encoding with head %s and %d bytes of padding", r.Hd, r.Pad)
		}
		k.p2 = r.P2
		p2s := p2Suffix(r.P2)
		// auxiliary data of a few bytes in every third case (not padding: it is
		// content, the canonical re-encoding has it too)
		if ri%3 == 1 {
			k.filler = rng.Intn(40)
		}
		// the fee is written in its shortest form, so the length depends on it:
		// iterate to the fixed point
		feeOf := func(L int) int64 { return r.Fee + r.A*(int64(L)-r.Orig) }
		L := len(buildTx(k, 0))
		var raw []byte
		fixed := false
		for i := 0; i < 8; i++ {
			f := feeOf(L)
			if f < 0 {
				break
			}
			raw = buildTx(k, uint64(f))
			if len(raw) == L {
				fixed = true
				break
			}
			L = len(raw)
		}
		if !fixed {
			noFix++
			continue
		}
		fee := uint64(feeOf(L))
		if k.padOf(fee) != int(r.Pad) {
			rep.Dead("padding bookkeeping: built %d, row says %d", k.padOf(fee), r.Pad)
		}
		d := int64(L) - r.Orig
		max := r.Max + d
		caseKey := fmt.Sprintf("era=%s:env=%d:hd=%s:pad=%d:a=%d:b=%d:fee=mf%s:max=orig%s",
			r.Era, r.Env, r.Hd, r.Pad, r.A, r.B, rel(r.Fee-r.MinFee), rel(r.Max-r.Orig)) + p2s
		tx := decode(rep, era, raw, fee, r.P2, caseKey)
		alt := era.name == "dijkstra" && ri%2 == 1
		pp := era.pparams(uint(r.A), uint(r.B), uint(max), alt)
		replay := map[string]any{"row": *r, "tx_cbor": fmt.Sprintf("%x", raw), "length": L,
			"concrete": fmt.Sprintf("a=%d b=%d fee=%d max=%d length=%d canonical=%d", r.A, r.B, fee, max, L, L-int(r.Pad))}
		var o *obs
		rep.Guard(caseKey, replay, func() { o = observe(rep, era, tx, pp, true) })
		if o == nil {
			continue
		}
		rep.Case(caseKey, true)
		if r.P2 {
			flagged[r.Era]++
		}
		if len(o.listNote) > 0 {
			replay["list_notes"] = o.listNote
		}
		feeKey := fmt.Sprintf("fee:era=%s:env=%d:hd=%s:pad=%d:a=%d:b=%d:fee=mf%s", r.Era, r.Env, r.Hd, r.Pad, r.A, r.B, rel(r.Fee-r.MinFee)) + p2s
		maxKey := fmt.Sprintf("max:era=%s:env=%d:hd=%s:pad=%d:max=orig%s", r.Era, r.Env, r.Hd, r.Pad, rel(r.Max-r.Orig)) + p2s
		if r.Silent {
			silent[fmt.Sprintf("%s env=%d hd=%s%s: TxSizeForFee = length%s", r.Era, r.Env, r.Hd, p2s, rel(int64(o.txSize-L)))]++
			// the statement does not fix the size here, but it has only two
			// readings: where both give the same verdict, that verdict binds
			if w := specFee(r.BothReadings); w != "either" {
				if o.feeRule != w {
					rs.disagree(feeKey+":at=feerule", fmt.Sprintf("%s: UtxoValidateFeeTooSmallUtxo says %s (%s); the specification says %s "+
						"whether the size is the length or the length - 1 (%v)", era.name, o.feeRule, o.feeErr, r.BothReadings, replay["concrete"]), replay)
				}
				if o.listFee != "skipped" && o.listFee != w {
					rs.disagree(feeKey+":at=list", fmt.Sprintf("%s: the entries of UtxoValidationRules say %s; the specification says %s "+
						"whether the size is the length or the length - 1 (%v)", era.name, o.listFee, r.BothReadings, replay["concrete"]), replay)
				}
			}
		} else {
			wantSize := int(r.Size + d)
			wantMin := big.NewInt(r.MinFee + r.A*d)
			szKey := fmt.Sprintf("txsize:era=%s:env=%d:hd=%s:pad=%d", r.Era, r.Env, r.Hd, r.Pad) + p2s
			if r.TolerateOver && o.txSizeErr == nil && o.txSize > wantSize {
				// over-estimated size: the minimum is only higher. Recorded, and
				// the one direction the property states is still enforced: no
				// acceptance below the stated minimum.
				ok := fmt.Sprintf("%s env=%d hd=indef%s: TxSizeForFee = length%s (specification: length%s)", r.Era, r.Env, p2s,
					rel(int64(o.txSize-L)), rel(int64(wantSize-L)))
				overSize[ok]++
				if overExample[r.Era] == nil && r.A > 0 && r.Fee == r.MinFee && o.feeRule == "tooSmall" {
					overExample[r.Era] = map[string]any{"case": caseKey, "tx": replay["tx_cbor"], "concrete": replay["concrete"],
						"TxSizeForFee": o.txSize, "spec_size": wantSize, "MinFeeTx": o.minFee, "spec_minfee": wantMin.String(),
						"fee_rule": o.feeRule + " (" + o.feeErr + ")", "spec_fee_verdict": r.FeeVerdict}
				}
				if r.FeeVerdict == "tooSmall" && (o.feeRule == "accept" || o.listFee == "accept") {
					rs.disagree(feeKey+":at=feerule", fmt.Sprintf("%s: fee below the stated minimum accepted (feerule %s, list %s; %v)",
						era.name, o.feeRule, o.listFee, replay["concrete"]), replay)
				}
			} else {
				checkFee(rs, era, o, szKey, feeKey, r.FeeVerdict, wantSize, wantMin, replay)
			}
		}
		checkMax(rs, era, o, maxKey, r.SizeVerdict, replay)
		sk := r.Era + r.Hd
		if !sampled[sk] && r.Pad > 0 && r.A > 0 && r.Fee == r.MinFee-1 && len(sampled) < 3 {
			sampled[sk] = true
			rep.Sample(map[string]any{"case": caseKey, "spec": []string{r.FeeVerdict, r.SizeVerdict},
				"code": map[string]any{"txsize": o.txSize, "minfee": o.minFee, "feerule": o.feeRule, "maxrule": o.maxRule,
					"list": []string{o.listFee, o.listMax}},
				"concrete": replay["concrete"], "tx": replay["tx_cbor"]})
		}
	}
	if len(silent) > 0 {
		rep.Extra["silent_cases_observed "+only] = silent
	}
	if len(overSize) > 0 {
		rep.Extra["observation_indefinite_envelope_size_over_estimated "+only] = map[string]any{
			"what": "common.TxSizeForFee cannot read an indefinite envelope head (0x9f .. 0xff) and keeps |orig| instead of |orig|-1 for " +
				"Alonzo..Conway: MinFeeTx is `a` too high and a fee of exactly a*(|orig|-1)+b is rejected; over-rejection only " +
				"(nothing is accepted below the stated minimum), so not a violation of the one-directional property",
			"cases": overSize, "examples": overExample}
	}
	if len(flagged) > 0 {
		rep.Extra["size_cases_flagged_is_valid_false "+only] = flagged
		// the specification flags Alonzo..Conway only (CanFlag): say what the
		// Dijkstra decoder does with is_valid = false, so that a decoder that
		// starts to admit it shows up as a hole of the case space
		dj := eraByName("dijkstra")
		raw := buildTx(knobs{env: 4, hd: "min", ttlW: 1, filler: -1, p2: true}, 1000)
		if tx, err := dj.decodeTx(raw); err != nil {
			rep.Extra["dijkstra_four_element_is_valid_false"] = "refused by the decoder (" + err.Error() + "): not part of the case space"
		} else {
			rep.Extra["dijkstra_four_element_is_valid_false"] = fmt.Sprintf("DECODES with IsValid() = %v: the specification's CanFlag "+
				"excludes Dijkstra, flagged Dijkstra transactions are not covered", tx.IsValid())
		}
	}
	if noFix > 0 {
		rep.Extra["size_cases_without_fee_width_fixed_point "+only] = noFix
	}
}

func sizeKey(r *sizeRow) string {
	return fmt.Sprintf("%s|%d|%s|%03d|%03d|%06d|%08d|%09d|%09d|%v", r.Era, r.Env, r.Hd, r.Orig, r.Pad, r.A, r.B, r.Fee, r.Max, r.P2)
}

// ---------------------------------------------------------------- arithmetic slice

func arithSlice(rep *vh.Reporter, rs *reports, rng *rand.Rand, path string) {
	rows, err := vh.ReadNDJSON[arithRow](path)
	if err != nil || len(rows) == 0 {
		rep.Dead("cases %s: %v (%d rows)", path, err, len(rows))
	}
	sort.SliceStable(rows, func(i, j int) bool {
		a, b := &rows[i], &rows[j]
		return fmt.Sprintf("%04d|%04d|%04d|%04d", a.A, a.S, a.B, a.Fee) < fmt.Sprintf("%04d|%04d|%04d|%04d", b.A, b.S, b.B, b.Fee)
	})
	W := rows[0].W
	if W <= 0 || W&(W-1) != 0 || W > 1<<16 {
		rep.Dead("word size %d is not a small power of two", W)
	}
	two64 := new(big.Int).Lsh(big.NewInt(1), 64)
	M := new(big.Int).Div(two64, big.NewInt(W)) // exact: W is a power of two
	scale := func(x int64) uint64 { return new(big.Int).Mul(big.NewInt(x), M).Uint64() }
	// (the specification lists no carrier whose fee size the property is silent on)
	ee := readCarriers(rep, path)
	thorough := vh.Tier() == "thorough"
	flaggedRows := 0
	minReal := map[string]int{}
	realRows, calcRows := 0, 0
	byCls := map[string]int{}
	sampled := 0
	for ri := range rows {
		r := &rows[ri]
		if r.W != W {
			rep.Dead("mixed word sizes in %s", path)
		}
		a, b, fee := scale(r.A), scale(r.B), scale(r.Fee)
		key := fmt.Sprintf("arith:w=%d:a=%d:s=%d:b=%d:fee=%d", W, r.A, r.S, r.B, r.Fee)
		wantMin := new(big.Int).Mul(new(big.Int).SetUint64(a), big.NewInt(r.S))
		wantMin.Add(wantMin, new(big.Int).SetUint64(b))
		replay := map[string]any{"row": *r, "scale": M.String(),
			"concrete": fmt.Sprintf("a=%d size=%d b=%d fee=%d", a, r.S, b, fee)}
		// calc: the pure function, every row
		rep.Guard(key, replay, func() {
			got, err := common.CalculateMinFee(int(r.S), uint(a), uint(b))
			calcRows++
			rep.Case(key+":calc", true)
			byCls[r.Cls]++
			switch {
			case r.Verdict == "overflow" && err == nil:
				rs.disagree(key+":at=calc", fmt.Sprintf("CalculateMinFee(%d, %d, %d) = %d without an error; the true value %v does not fit 64 bits",
					r.S, a, b, got, wantMin), replay)
			case r.Verdict != "overflow" && err != nil:
				rs.disagree(key+":at=calc", fmt.Sprintf("CalculateMinFee(%d, %d, %d) failed: %v; the true value is %v", r.S, a, b, err, wantMin), replay)
			case r.Verdict != "overflow" && new(big.Int).SetUint64(got).Cmp(wantMin) != 0:
				rs.disagree(key+":at=calc", fmt.Sprintf("CalculateMinFee(%d, %d, %d) = %d, the true value is %v", r.S, a, b, got, wantMin), replay)
			}
		})
		// real transactions whose fee-relevant size is exactly r.S
		for ei, x := range ee {
			// quick tier: a flagged carrier takes every third point, every point on
			// an overflow edge and every point exactly at the minimum
			if x.P2 && !thorough && (ri+ei)%3 != 0 && r.Edge == "inner" && r.Cls != "at" {
				continue
			}
			target := int(r.S) + x.Sub
			hd := []string{"min", "min", "wide"}[(ri+ei)%3]
			k, ok := fitKnobs(knobs{env: x.Env, hd: hd, p2: x.P2}, target)
			if !ok {
				continue
			}
			if m, seen := minReal[x.era.name]; !seen || int(r.S) < m {
				minReal[x.era.name] = int(r.S)
			}
			raw := buildTx(k, fee)
			ekey := fmt.Sprintf("%s:era=%s:env=%d%s", key, x.era.name, x.Env, p2Suffix(x.P2))
			tx := decode(rep, x.era, raw, fee, x.P2, ekey)
			pp := x.era.pparams(uint(a), uint(b), uint(len(raw)), (ri+ei)%2 == 1)
			erep := map[string]any{"row": *r, "era": x.era.name, "tx_cbor": fmt.Sprintf("%x", raw), "length": len(raw),
				"concrete": replay["concrete"]}
			var o *obs
			withList := (ri+ei)%4 == 0 || r.Edge != "inner" || r.Cls == "at"
			rep.Guard(ekey, erep, func() { o = observe(rep, x.era, tx, pp, withList) })
			if o == nil {
				continue
			}
			realRows++
			if x.P2 {
				flaggedRows++
			}
			rep.Case(ekey, true)
			var wm *big.Int
			if r.Verdict != "overflow" {
				wm = wantMin
			}
			checkFee(rs, x.era, o, fmt.Sprintf("txsize:era=%s:env=%d:hd=%s:s=%d%s", x.era.name, x.Env, hd, r.S, p2Suffix(x.P2)), ekey, r.Verdict, int(r.S), wm, erep)
			if sampled < 2 && r.Edge == "first" && r.Cls == "add" && x.era.name == "babbage" {
				sampled++
				rep.Sample(map[string]any{"case": ekey, "spec": r.Verdict, "class": r.Cls, "concrete": replay["concrete"],
					"code": map[string]any{"txsize": o.txSize, "minfee_err": fmt.Sprint(o.minFeeErr), "feerule": o.feeRule, "list": o.listFee}})
			}
		}
	}
	rep.Extra[fmt.Sprintf("arith W=%d", W)] = map[string]any{
		"scale":                          fmt.Sprintf("numbers multiplied by 2^64/W = %v", M),
		"rows_on_CalculateMinFee":        calcRows,
		"cases_on_real_transactions":     realRows,
		"of_them_flagged_is_valid_false": flaggedRows,
		"smallest_fee_size_of_a_real_tx": minReal,
		"rows_by_class":                  byCls,
	}
}

// ---------------------------------------------------------------- class table at 64 bits

type rep64 struct {
	name string
	a, b *big.Int
}

func classify(a *big.Int, s int, b, fee *big.Int) (string, *big.Int) {
	two64 := new(big.Int).Lsh(big.NewInt(1), 64)
	p := new(big.Int).Mul(a, big.NewInt(int64(s)))
	if p.Cmp(two64) >= 0 {
		return "mul", nil
	}
	m := new(big.Int).Add(p, b)
	if m.Cmp(two64) >= 0 {
		return "add", nil
	}
	switch fee.Cmp(m) {
	case -1:
		return "below", m
	case 0:
		return "at", m
	}
	return "above", m
}

func classSlice(rep *vh.Reporter, rs *reports, rng *rand.Rand, path string) {
	rows, err := vh.ReadNDJSON[classRow](path)
	if err != nil || len(rows) == 0 {
		rep.Dead("class table %s: %v", path, err)
	}
	table := map[string]string{}
	for _, r := range rows {
		if r.Witnesses == 0 {
			rep.Dead("class %s has no witness in the TLC grid", r.Cls)
		}
		table[r.Cls] = r.Verdict
	}
	for _, c := range []string{"mul", "add", "below", "at", "above"} {
		if _, ok := table[c]; !ok {
			rep.Dead("class %s missing from the table", c)
		}
	}
	one := big.NewInt(1)
	two64 := new(big.Int).Lsh(one, 64)
	maxU := new(big.Int).Sub(two64, one)
	u := func(x uint64) *big.Int { return new(big.Int).SetUint64(x) }
	covered := map[string]int{}
	sampled := 0
	rounds := 2
	if vh.Tier() == "thorough" {
		rounds = 12
	}
	for _, cr := range readCarriers(rep, path) {
		{
			era, env, p2s := cr.era, cr.Env, p2Suffix(cr.P2)
			for round := 0; round < rounds; round++ {
				if cr.P2 && vh.Tier() != "thorough" && round%2 == 0 {
					continue // quick tier: a flagged carrier takes every second round
				}
				hd := []string{"min", "wide", "min"}[round%3]
				k := knobs{env: env, hd: hd, ttlW: []int{1, 1, 2, 9}[round%4], feeW: 9, filler: -1, p2: cr.P2}
				if round > 0 {
					k.filler = rng.Intn(160)
					k.bodyWide = rng.Intn(2) == 0
					k.inIndef = rng.Intn(2) == 0
				}
				L := len(buildTx(k, 0))
				s := L - cr.Sub
				S := big.NewInt(int64(s))
				q := new(big.Int).Div(maxU, S) // largest a whose product fits
				p := new(big.Int).Mul(q, S)
				reps := []rep64{
					{"mulFirst/b=0", new(big.Int).Add(q, one), big.NewInt(0)},
					{"mulFirst/b=max", new(big.Int).Add(q, one), maxU},
					{"mul/a=2^63", u(1 << 63), u(7)},
					{"mul/a=max", maxU, u(0)},
					{"aLast/sum=max", q, new(big.Int).Sub(maxU, p)},
					{"aLast/addFirst", q, new(big.Int).Sub(two64, p)},
					{"aLast/b=max", q, maxU},
					{"a=1/sum=max", one, new(big.Int).Sub(maxU, S)},
					{"a=1/addFirst", one, new(big.Int).Sub(two64, S)},
					{"a=0/b=max", big.NewInt(0), maxU},
					{"mid", u(1<<32 + 1), u(1<<40 + 7)},
					{"mainnet", u(44), u(155381)},
					{"rnd", new(big.Int).Rand(rng, new(big.Int).Add(q, one)), u(rng.Uint64() >> uint(rng.Intn(40)))},
				}
				for _, rp := range reps {
					if !rp.a.IsUint64() || !rp.b.IsUint64() {
						continue // e.g. 2^64 - p when p = 0
					}
					sum := new(big.Int).Mul(rp.a, S)
					sum.Add(sum, rp.b)
					wrapped := new(big.Int).Mod(sum, two64)
					fees := map[string]*big.Int{"0": big.NewInt(0), "max": maxU, "wrapped": wrapped,
						"wrapped-1": new(big.Int).Sub(wrapped, one), "true-1": new(big.Int).Sub(sum, one),
						"true": sum, "true+1": new(big.Int).Add(sum, one)}
					names := make([]string, 0, len(fees))
					for n := range fees {
						names = append(names, n)
					}
					sort.Strings(names)
					for _, fn := range names {
						fee := fees[fn]
						if fee.Sign() < 0 || !fee.IsUint64() {
							continue
						}
						cls, min := classify(rp.a, s, rp.b, fee)
						want := table[cls]
						key := fmt.Sprintf("big:era=%s:env=%d:rep=%s:fee=%s", era.name, env, rp.name, fn) + p2s
						if rp.name == "rnd" {
							key = fmt.Sprintf("big:era=%s:env=%d:rep=rnd:cls=%s:fee=%s", era.name, env, cls, fn) + p2s
						}
						raw := buildTx(k, fee.Uint64())
						if len(raw) != L {
							rep.Dead("length changed with the fee: %d vs %d", len(raw), L)
						}
						tx := decode(rep, era, raw, fee.Uint64(), cr.P2, key)
						pp := era.pparams(uint(rp.a.Uint64()), uint(rp.b.Uint64()), uint(L), round%2 == 1)
						replay := map[string]any{"era": era.name, "class": cls, "tx_cbor": fmt.Sprintf("%x", raw), "length": L,
							"concrete": fmt.Sprintf("a=%v size=%d b=%v fee=%v", rp.a, s, rp.b, fee)}
						var o *obs
						rep.Guard(key, replay, func() { o = observe(rep, era, tx, pp, true) })
						if o == nil {
							continue
						}
						rep.Case(fmt.Sprintf("%s:s=%d", key, s), true)
						covered[era.name+":"+cls]++
						if cr.P2 {
							covered[era.name+":p2invalid:"+cls]++
						}
						checkFee(rs, era, o, fmt.Sprintf("txsize:era=%s:env=%d:hd=%s:big", era.name, env, hd)+p2s, key, want, s, min, replay)
						if sampled < 1 && cls == "add" && fn == "wrapped" {
							sampled++
							rep.Sample(map[string]any{"case": key, "class": cls, "spec": want, "concrete": replay["concrete"],
								"code": map[string]any{"minfee_err": fmt.Sprint(o.minFeeErr), "feerule": o.feeRule, "list": o.listFee}})
						}
					}
				}
			}
		}
	}
	for _, era := range eras() {
		for c := range table {
			if covered[era.name+":"+c] == 0 {
				rep.Dead("no 64-bit representative of class %s for %s", c, era.name)
			}
		}
	}
	rep.Extra["class_representatives_by_era_and_class"] = covered
}

// ---------------------------------------------------------------- probe (development aid)

func probe() {
	for _, era := range eras() {
		for _, env := range era.envs {
			for _, hd := range []string{"min", "wide", "indef"} {
				for _, v := range []knobs{
					{ttlW: 1, filler: -1}, {ttlW: 2, filler: -1}, {ttlW: 9, filler: -1, bodyWide: true},
					{ttlW: 1, filler: -1, inIndef: true}, {ttlW: 1, filler: 0}, {ttlW: 1, filler: 100}, {ttlW: 1, feeW: 9, filler: 30},
				} {
					v.env, v.hd = env, hd
					raw := buildTx(v, 1234)
					tx, err := era.decodeTx(raw)
					sz := -1
					if err == nil {
						sz, _ = common.TxSizeForFee(tx)
					}
					fmt.Printf("%-8s env=%d hd=%-5s %+v len=%d size=%d err=%v\n", era.name, env, hd, v, len(raw), sz, err)
				}
			}
		}
	}
}

func main() {
	if len(os.Args) >= 2 && os.Args[1] == "probe" {
		probe()
		return
	}
	rep := vh.NewReporter()
	if len(os.Args) < 3 {
		rep.Dead("usage: c30 size <era|all> <size.ndjson> | arith <arith.ndjson> | classes <classes.ndjson>")
	}
	initLedger(rep)
	rs := &reports{rep: rep, seen: map[string]int{}, deferred: map[string]*deferredReport{}}
	rng := rand.New(rand.NewSource(vh.Seed()*104729 + int64(len(os.Args[1]))))
	switch os.Args[1] {
	case "size":
		if len(os.Args) < 4 {
			rep.Dead("usage: c30 size <era|all> <size.ndjson>")
		}
		sizeSlice(rep, rs, rng, os.Args[3], os.Args[2])
	case "arith":
		arithSlice(rep, rs, rng, os.Args[2])
	case "classes":
		classSlice(rep, rs, rng, os.Args[2])
	default:
		rep.Dead("unknown mode %q", os.Args[1])
	}
	rs.flush()
	rep.Extra["observation_points"] = "common.TxSizeForFee, <era>.MinFeeTx, <era>.UtxoValidateFeeTooSmallUtxo, <era>.UtxoValidateMaxTxSizeUtxo, " +
		"every entry of <era>.UtxoValidationRules, common.CalculateMinFee; transactions decoded from CBOR by the era's decoder"
	rep.Finish()
}
