package main

// The binding table of C16: for every mini-protocol (and mode / version) the
// real client and server constructors, the package's exported StateMap
// variable (where there is one) and, per label of the specification's
// alphabet, a representative message built with the package constructor.
// Nothing here says which message is permitted where: that comes from the Go
// state maps (dump) and from the reference automaton (replay oracle).

import (
	"bytes"
	"net"

	"github.com/blinklabs-io/gouroboros/cbor"
	lcommon "github.com/blinklabs-io/gouroboros/ledger/common"
	"github.com/blinklabs-io/gouroboros/protocol"
	"github.com/blinklabs-io/gouroboros/protocol/blockfetch"
	"github.com/blinklabs-io/gouroboros/protocol/chainsync"
	pcommon "github.com/blinklabs-io/gouroboros/protocol/common"
	"github.com/blinklabs-io/gouroboros/protocol/handshake"
	"github.com/blinklabs-io/gouroboros/protocol/keepalive"
	"github.com/blinklabs-io/gouroboros/protocol/leiosfetch"
	"github.com/blinklabs-io/gouroboros/protocol/leiosnotify"
	"github.com/blinklabs-io/gouroboros/protocol/leiosvotes"
	"github.com/blinklabs-io/gouroboros/protocol/localmessagenotification"
	"github.com/blinklabs-io/gouroboros/protocol/localmessagesubmission"
	"github.com/blinklabs-io/gouroboros/protocol/localstatequery"
	"github.com/blinklabs-io/gouroboros/protocol/localtxmonitor"
	"github.com/blinklabs-io/gouroboros/protocol/localtxsubmission"
	"github.com/blinklabs-io/gouroboros/protocol/messagesubmission"
	"github.com/blinklabs-io/gouroboros/protocol/peersharing"
	"github.com/blinklabs-io/gouroboros/protocol/txsubmission"
)

type labelDef struct {
	name string
	mk   func() protocol.Message
}

type protoDef struct {
	name      string // name of the reference automaton in spec/net/MiniProtocols.tla
	mode      protocol.ProtocolMode
	version   uint16
	exported  protocol.StateMap // the package's exported StateMap variable (nil: none exported)
	newClient func(protocol.ProtocolOptions) *protocol.Protocol
	newServer func(protocol.ProtocolOptions) *protocol.Protocol
	labels    []labelDef
}

func L(name string, mk func() protocol.Message) labelDef { return labelDef{name, mk} }

func hash32(b byte) []byte { return bytes.Repeat([]byte{b}, 32) }

var (
	point1 = pcommon.NewPoint(1000, hash32(0xa1))
	point2 = pcommon.NewPoint(2000, hash32(0xa2))
	tip    = pcommon.Tip{Point: point2, BlockNumber: 77}
	// a "block": a CBOR list whose first element stands for the header
	fakeBlock = []byte{0x82, 0x82, 0x01, 0x02, 0x80}
)

func must[T any](v T, err error) T {
	if err != nil {
		panic("c16: cannot build representative message: " + err.Error())
	}
	return v
}

func dmqMessage() pcommon.DmqMessage {
	m := pcommon.DmqMessage{
		Payload: pcommon.DmqMessagePayload{
			MessageBody: []byte("c16"),
			KESPeriod:   3,
			ExpiresAt:   4000000000,
		},
		KESSignature: bytes.Repeat([]byte{0x5a}, 448),
		OperationalCertificate: pcommon.OperationalCertificate{
			KESVerificationKey: hash32(0x11),
			IssueNumber:        1,
			KESPeriod:          2,
			ColdSignature:      bytes.Repeat([]byte{0x22}, 64),
		},
		ColdVerificationKey: hash32(0x33),
	}
	if err := m.SetComputedMessageID(); err != nil {
		panic("c16: SetComputedMessageID: " + err.Error())
	}
	return m
}

func leiosVote() lcommon.LeiosVote {
	v := lcommon.LeiosVote{SlotNo: 5, VoterId: 7, VoteSignature: bytes.Repeat([]byte{0x42}, 48)}
	copy(v.EndorserBlockHash[:], hash32(0xe1))
	return v
}

func handshakeLabels(mode protocol.ProtocolMode) []labelDef {
	vm := func() protocol.ProtocolVersionMap {
		return protocol.GetProtocolVersionMap(mode, 764824073, true, true, false)
	}
	top := func() (uint16, protocol.VersionData) {
		var best uint16
		m := vm()
		for v := range m {
			if v > best {
				best = v
			}
		}
		return best, m[best]
	}
	return []labelDef{
		L("ProposeVersions", func() protocol.Message { return handshake.NewMsgProposeVersions(vm()) }),
		L("AcceptVersion", func() protocol.Message { v, d := top(); return handshake.NewMsgAcceptVersion(v, d) }),
		L("Refuse", func() protocol.Message {
			return handshake.NewMsgRefuse([]any{uint64(handshake.RefuseReasonVersionMismatch), []any{uint64(1), uint64(2)}})
		}),
		L("QueryReply", func() protocol.Message { return handshake.NewMsgQueryReply(vm()) }),
	}
}

func chainSyncLabels(mode protocol.ProtocolMode) []labelDef {
	rollForward := func() protocol.Message {
		if mode == protocol.ProtocolModeNodeToClient {
			return must(chainsync.NewMsgRollForwardNtC(6, fakeBlock, tip))
		}
		return must(chainsync.NewMsgRollForwardNtN(5, 0, fakeBlock, tip))
	}
	return []labelDef{
		L("RequestNext", func() protocol.Message { return chainsync.NewMsgRequestNext() }),
		L("AwaitReply", func() protocol.Message { return chainsync.NewMsgAwaitReply() }),
		L("RollForward", rollForward),
		L("RollBackward", func() protocol.Message { return chainsync.NewMsgRollBackward(point1, tip) }),
		L("FindIntersect", func() protocol.Message { return chainsync.NewMsgFindIntersect([]pcommon.Point{point1, point2}) }),
		L("IntersectFound", func() protocol.Message { return chainsync.NewMsgIntersectFound(point1, tip) }),
		L("IntersectNotFound", func() protocol.Message { return chainsync.NewMsgIntersectNotFound(tip) }),
		L("Done", func() protocol.Message { return chainsync.NewMsgDone() }),
	}
}

func messageSubmissionLabels() []labelDef {
	return []labelDef{
		L("Init", func() protocol.Message { return messagesubmission.NewMsgInit() }),
		L("RequestMessageIds/blocking", func() protocol.Message { return messagesubmission.NewMsgRequestMessageIds(true, 0, 3) }),
		L("RequestMessageIds/non-blocking", func() protocol.Message { return messagesubmission.NewMsgRequestMessageIds(false, 1, 3) }),
		L("ReplyMessageIds", func() protocol.Message {
			return messagesubmission.NewMsgReplyMessageIds([]pcommon.MessageIDAndSize{{MessageID: hash32(0x77), SizeInBytes: 600}})
		}),
		L("RequestMessages", func() protocol.Message { return messagesubmission.NewMsgRequestMessages([][]byte{hash32(0x77)}) }),
		L("ReplyMessages", func() protocol.Message { return messagesubmission.NewMsgReplyMessages([]pcommon.DmqMessage{dmqMessage()}) }),
		L("Done", func() protocol.Message { return messagesubmission.NewMsgDone() }),
	}
}

func protoDefs() []protoDef {
	ntn, ntc := protocol.ProtocolModeNodeToNode, protocol.ProtocolModeNodeToClient
	defs := []protoDef{}
	for _, m := range []struct {
		name string
		mode protocol.ProtocolMode
		sm   protocol.StateMap
	}{{"handshake/ntn", ntn, handshake.StateMapNtN}, {"handshake/ntc", ntc, handshake.StateMapNtC}} {
		defs = append(defs, protoDef{
			name: m.name, mode: m.mode, exported: m.sm,
			newClient: func(o protocol.ProtocolOptions) *protocol.Protocol {
				c := handshake.NewConfig()
				return handshake.NewClient(o, &c).Protocol
			},
			newServer: func(o protocol.ProtocolOptions) *protocol.Protocol {
				c := handshake.NewConfig()
				return handshake.NewServer(o, &c).Protocol
			},
			labels: handshakeLabels(m.mode),
		})
	}
	for _, m := range []struct {
		name string
		mode protocol.ProtocolMode
		sm   protocol.StateMap
	}{{"chain-sync/ntn", ntn, chainsync.StateMapNtN}, {"chain-sync/ntc", ntc, chainsync.StateMapNtC}} {
		defs = append(defs, protoDef{
			name: m.name, mode: m.mode, exported: m.sm,
			newClient: func(o protocol.ProtocolOptions) *protocol.Protocol {
				c := chainsync.NewConfig()
				return chainsync.NewClient(o, &c).Protocol
			},
			newServer: func(o protocol.ProtocolOptions) *protocol.Protocol {
				c := chainsync.NewConfig()
				return chainsync.NewServer(o, &c).Protocol
			},
			labels: chainSyncLabels(m.mode),
		})
	}
	defs = append(defs,
		protoDef{
			name: "block-fetch", mode: ntn, exported: blockfetch.StateMap,
			newClient: func(o protocol.ProtocolOptions) *protocol.Protocol {
				c := must(blockfetch.NewConfig())
				return blockfetch.NewClient(o, &c).Protocol
			},
			newServer: func(o protocol.ProtocolOptions) *protocol.Protocol {
				c := must(blockfetch.NewConfig())
				return blockfetch.NewServer(o, &c).Protocol
			},
			labels: []labelDef{
				L("RequestRange", func() protocol.Message { return blockfetch.NewMsgRequestRange(point1, point2) }),
				L("ClientDone", func() protocol.Message { return blockfetch.NewMsgClientDone() }),
				L("StartBatch", func() protocol.Message { return blockfetch.NewMsgStartBatch() }),
				L("NoBlocks", func() protocol.Message { return blockfetch.NewMsgNoBlocks() }),
				L("Block", func() protocol.Message {
					return blockfetch.NewMsgBlock(must(cbor.Encode(chainsync.NewWrappedBlock(6, fakeBlock))))
				}),
				L("BatchDone", func() protocol.Message { return blockfetch.NewMsgBatchDone() }),
			},
		},
		protoDef{
			name: "tx-submission", mode: ntn, exported: txsubmission.StateMap,
			newClient: func(o protocol.ProtocolOptions) *protocol.Protocol {
				c := txsubmission.NewConfig()
				return txsubmission.NewClient(o, &c).Protocol
			},
			newServer: func(o protocol.ProtocolOptions) *protocol.Protocol {
				c := txsubmission.NewConfig()
				return txsubmission.NewServer(o, &c).Protocol
			},
			labels: []labelDef{
				L("Init", func() protocol.Message { return txsubmission.NewMsgInit() }),
				L("RequestTxIds/blocking", func() protocol.Message { return txsubmission.NewMsgRequestTxIds(true, 0, 3) }),
				L("RequestTxIds/non-blocking", func() protocol.Message { return txsubmission.NewMsgRequestTxIds(false, 1, 3) }),
				L("ReplyTxIds", func() protocol.Message {
					id := txsubmission.TxId{EraId: 6}
					copy(id.TxId[:], hash32(0xb1))
					return txsubmission.NewMsgReplyTxIds([]txsubmission.TxIdAndSize{{TxId: id, Size: 300}})
				}),
				L("RequestTxs", func() protocol.Message {
					id := txsubmission.TxId{EraId: 6}
					copy(id.TxId[:], hash32(0xb1))
					return txsubmission.NewMsgRequestTxs([]txsubmission.TxId{id})
				}),
				L("ReplyTxs", func() protocol.Message {
					return txsubmission.NewMsgReplyTxs([]txsubmission.TxBody{{EraId: 6, TxBody: []byte{0x84, 0xa0, 0xa0, 0xf5, 0xf6}}})
				}),
				L("Done", func() protocol.Message { return txsubmission.NewMsgDone() }),
			},
		},
		protoDef{
			name: "keep-alive", mode: ntn, exported: keepalive.StateMap,
			newClient: func(o protocol.ProtocolOptions) *protocol.Protocol {
				c := keepalive.NewConfig()
				return keepalive.NewClient(o, &c).Protocol
			},
			newServer: func(o protocol.ProtocolOptions) *protocol.Protocol {
				c := keepalive.NewConfig()
				return keepalive.NewServer(o, &c).Protocol
			},
			labels: []labelDef{
				L("KeepAlive", func() protocol.Message { return keepalive.NewMsgKeepAlive(0xbeef) }),
				L("KeepAliveResponse", func() protocol.Message { return keepalive.NewMsgKeepAliveResponse(0xbeef) }),
				L("Done", func() protocol.Message { return keepalive.NewMsgDone() }),
			},
		},
		protoDef{
			name: "peer-sharing", mode: ntn, exported: peersharing.StateMap,
			newClient: func(o protocol.ProtocolOptions) *protocol.Protocol {
				c := peersharing.NewConfig()
				return peersharing.NewClient(o, &c).Protocol
			},
			newServer: func(o protocol.ProtocolOptions) *protocol.Protocol {
				c := peersharing.NewConfig()
				return peersharing.NewServer(o, &c).Protocol
			},
			labels: []labelDef{
				L("ShareRequest", func() protocol.Message { return peersharing.NewMsgShareRequest(4) }),
				L("SharePeers", func() protocol.Message {
					return peersharing.NewMsgSharePeers([]peersharing.PeerAddress{
						{IP: net.IPv4(10, 1, 2, 3), Port: 3001},
						{IP: net.ParseIP("2001:db8::7"), Port: 3002},
					})
				}),
				L("Done", func() protocol.Message { return peersharing.NewMsgDone() }),
			},
		},
		protoDef{
			name: "local-tx-submission", mode: ntc, exported: localtxsubmission.StateMap,
			newClient: func(o protocol.ProtocolOptions) *protocol.Protocol {
				c := localtxsubmission.NewConfig()
				return localtxsubmission.NewClient(o, &c).Protocol
			},
			newServer: func(o protocol.ProtocolOptions) *protocol.Protocol {
				c := localtxsubmission.NewConfig()
				return localtxsubmission.NewServer(o, &c).Protocol
			},
			labels: []labelDef{
				L("SubmitTx", func() protocol.Message {
					return localtxsubmission.NewMsgSubmitTx(6, []byte{0x84, 0xa0, 0xa0, 0xf5, 0xf6})
				}),
				L("AcceptTx", func() protocol.Message { return localtxsubmission.NewMsgAcceptTx() }),
				L("RejectTx", func() protocol.Message {
					return localtxsubmission.NewMsgRejectTx(must(cbor.Encode([]any{uint64(1), "c16"})))
				}),
				L("Done", func() protocol.Message { return localtxsubmission.NewMsgDone() }),
			},
		},
		protoDef{
			name: "local-state-query", mode: ntc, exported: localstatequery.StateMap,
			newClient: func(o protocol.ProtocolOptions) *protocol.Protocol {
				c := localstatequery.NewConfig()
				return localstatequery.NewClient(o, &c).Protocol
			},
			newServer: func(o protocol.ProtocolOptions) *protocol.Protocol {
				c := localstatequery.NewConfig()
				return localstatequery.NewServer(o, &c).Protocol
			},
			labels: []labelDef{
				L("Acquire/point", func() protocol.Message { return localstatequery.NewMsgAcquire(point1) }),
				L("Acquire/volatile", func() protocol.Message { return localstatequery.NewMsgAcquireVolatileTip() }),
				L("Acquire/immutable", func() protocol.Message { return localstatequery.NewMsgAcquireImmutableTip() }),
				L("Acquired", func() protocol.Message { return localstatequery.NewMsgAcquired() }),
				L("Failure", func() protocol.Message { return localstatequery.NewMsgFailure(1) }),
				L("Query", func() protocol.Message { return localstatequery.NewMsgQuery([]any{uint64(1)}) }),
				L("Result", func() protocol.Message {
					return localstatequery.NewMsgResult(must(cbor.Encode([]any{uint64(2017), uint64(1), uint64(2)})))
				}),
				L("Release", func() protocol.Message { return localstatequery.NewMsgRelease() }),
				L("ReAcquire/point", func() protocol.Message { return localstatequery.NewMsgReAcquire(point2) }),
				L("ReAcquire/volatile", func() protocol.Message { return localstatequery.NewMsgReAcquireVolatileTip() }),
				L("ReAcquire/immutable", func() protocol.Message { return localstatequery.NewMsgReAcquireImmutableTip() }),
				L("Done", func() protocol.Message { return localstatequery.NewMsgDone() }),
			},
		},
		protoDef{
			name: "local-tx-monitor", mode: ntc, exported: localtxmonitor.StateMap,
			newClient: func(o protocol.ProtocolOptions) *protocol.Protocol {
				c := localtxmonitor.NewConfig()
				return localtxmonitor.NewClient(o, &c).Protocol
			},
			newServer: func(o protocol.ProtocolOptions) *protocol.Protocol {
				c := localtxmonitor.NewConfig()
				return localtxmonitor.NewServer(o, &c).Protocol
			},
			labels: []labelDef{
				L("Acquire", func() protocol.Message { return localtxmonitor.NewMsgAcquire() }),
				L("Acquired", func() protocol.Message { return localtxmonitor.NewMsgAcquired(123456) }),
				L("Release", func() protocol.Message { return localtxmonitor.NewMsgRelease() }),
				L("NextTx", func() protocol.Message { return localtxmonitor.NewMsgNextTx() }),
				L("ReplyNextTx", func() protocol.Message {
					return localtxmonitor.NewMsgReplyNextTx(6, []byte{0x84, 0xa0, 0xa0, 0xf5, 0xf6})
				}),
				L("HasTx", func() protocol.Message { return localtxmonitor.NewMsgHasTx(hash32(0xc1)) }),
				L("ReplyHasTx", func() protocol.Message { return localtxmonitor.NewMsgReplyHasTx(true) }),
				L("GetSizes", func() protocol.Message { return localtxmonitor.NewMsgGetSizes() }),
				L("ReplyGetSizes", func() protocol.Message { return localtxmonitor.NewMsgReplyGetSizes(178176, 4096, 3) }),
				L("Done", func() protocol.Message { return localtxmonitor.NewMsgDone() }),
			},
		},
		protoDef{
			name: "leios-fetch", mode: ntn, exported: leiosfetch.StateMap,
			newClient: func(o protocol.ProtocolOptions) *protocol.Protocol {
				c := leiosfetch.NewConfig()
				return leiosfetch.NewClient(o, &c).Protocol
			},
			newServer: func(o protocol.ProtocolOptions) *protocol.Protocol {
				c := leiosfetch.NewConfig()
				return leiosfetch.NewServer(o, &c).Protocol
			},
			labels: []labelDef{
				L("BlockRequest", func() protocol.Message { return leiosfetch.NewMsgBlockRequest(point1) }),
				L("Block", func() protocol.Message { return leiosfetch.NewMsgBlock(cbor.RawMessage(fakeBlock)) }),
				L("NoBlock", func() protocol.Message { return leiosfetch.NewMsgNoBlock() }),
				L("BlockTxsRequest", func() protocol.Message {
					return leiosfetch.NewMsgBlockTxsRequest(point1, map[uint16]uint64{0: 5})
				}),
				L("BlockTxs", func() protocol.Message {
					return leiosfetch.NewMsgBlockTxs([]cbor.RawMessage{{0x84, 0xa0, 0xa0, 0xf5, 0xf6}})
				}),
				L("NoBlockTxs", func() protocol.Message { return leiosfetch.NewMsgNoBlockTxs() }),
				L("VotesRequest", func() protocol.Message {
					return leiosfetch.NewMsgVotesRequest([]leiosfetch.MsgVotesRequestVoteId{{SlotNo: 5, VoterId: 7}})
				}),
				L("Votes", func() protocol.Message {
					return must(leiosfetch.NewMsgVotesFromVotes([]lcommon.LeiosVote{leiosVote()}))
				}),
				L("BlockRangeRequest", func() protocol.Message { return leiosfetch.NewMsgBlockRangeRequest(point1, point2) }),
				L("NextBlockAndTxsInRange", func() protocol.Message {
					return leiosfetch.NewMsgNextBlockAndTxsInRange(cbor.RawMessage(fakeBlock), []cbor.RawMessage{{0x80}})
				}),
				L("LastBlockAndTxsInRange", func() protocol.Message {
					return leiosfetch.NewMsgLastBlockAndTxsInRange(cbor.RawMessage(fakeBlock), []cbor.RawMessage{{0x80}})
				}),
				L("Done", func() protocol.Message { return leiosfetch.NewMsgDone() }),
			},
		},
		protoDef{
			name: "leios-notify", mode: ntn, exported: leiosnotify.StateMap,
			newClient: func(o protocol.ProtocolOptions) *protocol.Protocol {
				c := leiosnotify.NewConfig()
				return leiosnotify.NewClient(o, &c).Protocol
			},
			newServer: func(o protocol.ProtocolOptions) *protocol.Protocol {
				c := leiosnotify.NewConfig()
				return leiosnotify.NewServer(o, &c).Protocol
			},
			labels: []labelDef{
				L("NotificationRequestNext", func() protocol.Message { return leiosnotify.NewMsgNotificationRequestNext() }),
				L("BlockAnnouncement", func() protocol.Message {
					return leiosnotify.NewMsgBlockAnnouncement(cbor.RawMessage{0x82, 0x01, 0x02})
				}),
				L("BlockOffer", func() protocol.Message { return leiosnotify.NewMsgBlockOffer(point1, 4096) }),
				L("BlockTxsOffer", func() protocol.Message { return leiosnotify.NewMsgBlockTxsOffer(point1) }),
				L("VotesOffer", func() protocol.Message {
					return leiosnotify.NewMsgVotesOffer([]leiosnotify.MsgVotesOfferVote{{SlotNo: 5, VoterId: 7}})
				}),
				L("Done", func() protocol.Message { return leiosnotify.NewMsgDone() }),
			},
		},
		protoDef{
			name: "leios-votes", mode: ntn, exported: leiosvotes.StateMap,
			newClient: func(o protocol.ProtocolOptions) *protocol.Protocol {
				c := leiosvotes.NewConfig()
				return leiosvotes.NewClient(o, &c).Protocol
			},
			newServer: func(o protocol.ProtocolOptions) *protocol.Protocol {
				c := leiosvotes.NewConfig()
				return leiosvotes.NewServer(o, &c).Protocol
			},
			labels: []labelDef{
				L("VotesRequestNext/0", func() protocol.Message { return leiosvotes.NewMsgVotesRequestNext(0) }),
				L("VotesRequestNext/1", func() protocol.Message { return leiosvotes.NewMsgVotesRequestNext(1) }),
				L("VotesRequestNext/2", func() protocol.Message { return leiosvotes.NewMsgVotesRequestNext(2) }),
				L("VotesRequestNext/3", func() protocol.Message { return leiosvotes.NewMsgVotesRequestNext(3) }),
				L("Vote", func() protocol.Message { return leiosvotes.NewMsgVote(leiosVote()) }),
				L("Done", func() protocol.Message { return leiosvotes.NewMsgDone() }),
			},
		},
		protoDef{
			name: "local-message-submission", mode: ntc, version: protocol.ProtocolVersionDMQNtCOffset + 1,
			newClient: func(o protocol.ProtocolOptions) *protocol.Protocol {
				c := localmessagesubmission.NewConfig()
				return localmessagesubmission.NewClient(o, &c).Protocol
			},
			newServer: func(o protocol.ProtocolOptions) *protocol.Protocol {
				c := localmessagesubmission.NewConfig()
				return localmessagesubmission.NewServer(o, &c).Protocol
			},
			labels: []labelDef{
				L("SubmitMessage", func() protocol.Message { return localmessagesubmission.NewMsgSubmitMessage(dmqMessage()) }),
				L("AcceptMessage", func() protocol.Message { return localmessagesubmission.NewMsgAcceptMessage() }),
				L("RejectMessage", func() protocol.Message {
					return must(localmessagesubmission.NewMsgRejectMessage(pcommon.InvalidReason{Message: "c16"}))
				}),
				L("Done", func() protocol.Message { return localmessagesubmission.NewMsgDone() }),
			},
		},
		protoDef{
			name: "local-message-notification", mode: ntc, version: protocol.ProtocolVersionDMQNtCOffset + 1,
			newClient: func(o protocol.ProtocolOptions) *protocol.Protocol {
				c := localmessagenotification.NewConfig()
				return localmessagenotification.NewClient(o, &c).Protocol
			},
			newServer: func(o protocol.ProtocolOptions) *protocol.Protocol {
				c := localmessagenotification.NewConfig()
				return localmessagenotification.NewServer(o, &c).Protocol
			},
			labels: []labelDef{
				L("RequestMessages/blocking", func() protocol.Message { return localmessagenotification.NewMsgRequestMessages(true) }),
				L("RequestMessages/non-blocking", func() protocol.Message { return localmessagenotification.NewMsgRequestMessages(false) }),
				L("ReplyMessagesNonBlocking", func() protocol.Message {
					return localmessagenotification.NewMsgReplyMessagesNonBlocking([]pcommon.DmqMessage{dmqMessage()}, false)
				}),
				L("ReplyMessagesBlocking", func() protocol.Message {
					return localmessagenotification.NewMsgReplyMessagesBlocking([]pcommon.DmqMessage{dmqMessage()})
				}),
				L("ClientDone", func() protocol.Message { return localmessagenotification.NewMsgClientDone() }),
			},
		},
	)
	for _, m := range []struct {
		name    string
		version uint16
	}{{"message-submission/v1", protocol.ProtocolVersionDMQNtN1}, {"message-submission/v2", protocol.ProtocolVersionDMQNtN2}} {
		defs = append(defs, protoDef{
			name: m.name, mode: ntn, version: m.version,
			newClient: func(o protocol.ProtocolOptions) *protocol.Protocol {
				c := messagesubmission.NewConfig()
				return messagesubmission.NewClient(o, &c).Protocol
			},
			newServer: func(o protocol.ProtocolOptions) *protocol.Protocol {
				c := messagesubmission.NewConfig()
				return messagesubmission.NewServer(o, &c).Protocol
			},
			labels: messageSubmissionLabels(),
		})
	}
	return defs
}
