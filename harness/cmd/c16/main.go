// c16: conformance driver for property C16 (mini-protocol state machines match
// the network specification).
//
//	c16 dump <impl_automata.json>
//	    TB: builds the REAL client and server object of every mini-protocol,
//	    reads the state map / initial state / state context / codec they are
//	    configured with, and unfolds each map from its initial state by
//	    evaluating every transition (MatchFuncs included) on representative
//	    messages built with the package constructors.  The result is the
//	    implementation automaton TLC compares with the reference automaton
//	    (spec/net/ProtoEquiv.tla, mode "prod").
//
//	c16 replay <cases16.ndjson> <labels16.ndjson>
//	    RP: every row is a label sequence over the reference automaton plus one
//	    more label, with the reference verdict of that last step.  Each row is
//	    driven through the real protocol engine (protocol.New with the state
//	    map, initial state, state context and MessageFromCborFunc taken from the
//	    real client / server object) in both roles; the peer is a raw
//	    segment-level peer that writes the real encodings.  Acceptance is
//	    observed through handler calls, the bytes the endpoint writes, and its
//	    ErrorChan.  The verdict is the row's, never computed here.
package main

import (
	"bufio"
	"fmt"
	"os"
	"reflect"
	"sort"
	"strconv"
	"strings"
	"sync"
	"time"
	"unsafe"

	"github.com/blinklabs-io/gouroboros/cbor"
	"github.com/blinklabs-io/gouroboros/muxer"
	"github.com/blinklabs-io/gouroboros/protocol"

	"verifharness/netx"
	"verifharness/trace"
	"verifharness/vh"
)

// ---------------------------------------------------------------- extraction

// configOf returns the ProtocolConfig a real client / server object handed to
// protocol.New (unexported field, read through reflection).
func configOf(p *protocol.Protocol) (protocol.ProtocolConfig, error) {
	if p == nil {
		return protocol.ProtocolConfig{}, fmt.Errorf("constructor returned no Protocol")
	}
	v := reflect.ValueOf(p).Elem().FieldByName("config")
	if !v.IsValid() || v.Type() != reflect.TypeOf(protocol.ProtocolConfig{}) {
		return protocol.ProtocolConfig{}, fmt.Errorf("protocol.Protocol has no field config of type ProtocolConfig")
	}
	return *(*protocol.ProtocolConfig)(unsafe.Pointer(v.UnsafeAddr())), nil
}

type impl struct {
	def    *protoDef
	client protocol.ProtocolConfig
	server protocol.ProtocolConfig
	labels map[string]labelDef
}

func load(rep *vh.Reporter) []*impl {
	var out []*impl
	defs := protoDefs()
	for i := range defs {
		d := &defs[i]
		im := &impl{def: d, labels: map[string]labelDef{}}
		for _, l := range d.labels {
			im.labels[l.name] = l
		}
		for _, role := range []protocol.ProtocolRole{protocol.ProtocolRoleClient, protocol.ProtocolRoleServer} {
			opts := protocol.ProtocolOptions{
				ConnectionId: netx.ConnId("c16"),
				ErrorChan:    make(chan error, 10),
				Mode:         d.mode,
				Role:         role,
				Version:      d.version,
			}
			var p *protocol.Protocol
			func() {
				defer func() {
					if r := recover(); r != nil {
						rep.Dead("%s: constructing the real %v object panicked: %v", d.name, role, r)
					}
				}()
				if role == protocol.ProtocolRoleClient {
					p = d.newClient(opts)
				} else {
					p = d.newServer(opts)
				}
			}()
			cfg, err := configOf(p)
			if err != nil {
				rep.Dead("%s: %v", d.name, err)
			}
			if cfg.StateMap == nil || cfg.MessageFromCborFunc == nil {
				rep.Dead("%s: the real object has no state map / codec", d.name)
			}
			if cfg.Role != role {
				rep.Dead("%s: the real %v object is configured with role %v", d.name, role, cfg.Role)
			}
			if role == protocol.ProtocolRoleClient {
				im.client = cfg
			} else {
				im.server = cfg
			}
		}
		out = append(out, im)
	}
	return out
}

func cloneCtx(ctx any) any {
	if ctx == nil {
		return nil
	}
	v := reflect.ValueOf(ctx)
	if v.Kind() == reflect.Pointer && !v.IsNil() {
		n := reflect.New(v.Type().Elem())
		n.Elem().Set(v.Elem())
		return n.Interface()
	}
	return ctx
}

func ctxKey(ctx any) string {
	if ctx == nil {
		return ""
	}
	v := reflect.ValueOf(ctx)
	if v.Kind() == reflect.Pointer && !v.IsNil() {
		return fmt.Sprintf("%+v", v.Elem())
	}
	return fmt.Sprintf("%+v", ctx)
}

// ---------------------------------------------------------------- dump (TB)

type stJSON struct {
	N string `json:"n"`
	A string `json:"a"`
}
type trJSON struct {
	F string `json:"f"`
	L string `json:"l"`
	T string `json:"t"`
}
type autoJSON struct {
	Proto     string   `json:"proto"`
	Src       string   `json:"src"`
	Init      string   `json:"init"`
	States    []stJSON `json:"states"`
	Trans     []trJSON `json:"trans"`
	Unreached []string `json:"unreached"`
	Unused    []string `json:"unused"`
}

type config struct {
	st  protocol.State
	ctx any
}

func (c config) name() string { return c.st.Name + ctxKey(c.ctx) }

// unfold explores the configurations (state, state context) of a state map
// from its initial state.  The successor of a configuration under a message is
// the engine's rule (protocol.nextState): the first transition of the current
// state with the message's type whose MatchFunc, if any, accepts it.
func unfold(proto, src string, sm protocol.StateMap, init protocol.State, ctx0 any, labels []labelDef) autoJSON {
	out := autoJSON{Proto: proto, Src: src, States: []stJSON{}, Trans: []trJSON{}, Unreached: []string{}, Unused: []string{}}
	start := config{init, cloneCtx(ctx0)}
	out.Init = start.name()
	seen := map[string]bool{start.name(): true}
	reached := map[string]bool{}
	used := map[string]bool{}
	queue := []config{start}
	known := map[uint8]bool{}
	msgs := make([]protocol.Message, len(labels))
	for i, l := range labels {
		msgs[i] = l.mk()
		known[msgs[i].Type()] = true
	}
	for len(queue) > 0 {
		c := queue[0]
		queue = queue[1:]
		entry := sm[c.st]
		reached[c.st.Name] = true
		out.States = append(out.States, stJSON{N: c.name(), A: trace.AgencyName(entry.Agency)})
		push := func(label string, n config) {
			out.Trans = append(out.Trans, trJSON{F: c.name(), L: label, T: n.name()})
			if !seen[n.name()] {
				seen[n.name()] = true
				queue = append(queue, n)
			}
		}
		for i, l := range labels {
			ctx := cloneCtx(c.ctx)
			for j, tr := range entry.Transitions {
				if tr.MsgType != msgs[i].Type() {
					continue
				}
				if tr.MatchFunc != nil && !tr.MatchFunc(ctx, msgs[i]) {
					continue
				}
				used[fmt.Sprintf("%s#%d", c.st.Name, j)] = true
				push(l.name, config{tr.NewState, ctx})
				break
			}
		}
		// a transition on a message type for which the binding table has no
		// representative: permitted by the map, unknown to the specification
		for j, tr := range entry.Transitions {
			if !known[tr.MsgType] {
				used[fmt.Sprintf("%s#%d", c.st.Name, j)] = true
				push(fmt.Sprintf("msgtype=%d", tr.MsgType), config{tr.NewState, cloneCtx(c.ctx)})
			}
		}
	}
	for st, e := range sm {
		if !reached[st.Name] {
			out.Unreached = append(out.Unreached, st.Name)
			continue
		}
		for j, tr := range e.Transitions {
			if !used[fmt.Sprintf("%s#%d", st.Name, j)] {
				out.Unused = append(out.Unused, fmt.Sprintf("%s#%d(type %d -> %s)", st.Name, j, tr.MsgType, tr.NewState.Name))
			}
		}
	}
	sort.Slice(out.States, func(a, b int) bool { return out.States[a].N < out.States[b].N })
	sort.Slice(out.Trans, func(a, b int) bool {
		x, y := out.Trans[a], out.Trans[b]
		return x.F+"|"+x.L < y.F+"|"+y.L
	})
	sort.Strings(out.Unreached)
	sort.Strings(out.Unused)
	return out
}

func dump(rep *vh.Reporter, path string) {
	impls := load(rep)
	var autos []autoJSON
	unreached, unused := []string{}, []string{}
	for _, im := range impls {
		d := im.def
		var list []autoJSON
		rep.Guard("dump:"+d.name, nil, func() {
			list = append(list, unfold(d.name, "client", im.client.StateMap, im.client.InitialState, im.client.StateContext, d.labels))
			list = append(list, unfold(d.name, "server", im.server.StateMap, im.server.InitialState, im.server.StateContext, d.labels))
			if d.exported != nil {
				list = append(list, unfold(d.name, "var", d.exported, im.client.InitialState, im.client.StateContext, d.labels))
			}
		})
		for _, a := range list {
			for _, u := range a.Unreached {
				unreached = append(unreached, a.Proto+"/"+a.Src+":"+u)
			}
			for _, u := range a.Unused {
				unused = append(unused, a.Proto+"/"+a.Src+":"+u)
			}
			rep.Case("dump:"+a.Proto+":"+a.Src, len(a.Trans) > 0)
		}
		autos = append(autos, list...)
	}
	if err := trace.WriteJSON(path, map[string]any{"autos": autos}); err != nil {
		rep.Dead("%v", err)
	}
	rep.Extra["c16_impl_automata_dumped"] = len(autos)
	rep.Extra["c16_impl_states_not_reachable_from_initial"] = unreached
	rep.Extra["c16_impl_transitions_selected_by_no_representative"] = unused
	for _, a := range autos {
		if a.Proto == "local-tx-monitor" && a.Src == "client" {
			rep.Sample(map[string]any{"dumped_automaton": a})
		}
	}
}

// ---------------------------------------------------------------- replay (RP)

type caseRow struct {
	Proto  string   `json:"proto"`
	Seq    []string `json:"seq"`
	At     string   `json:"at"`
	Dev    string   `json:"dev"`
	Expect string   `json:"expect"`
}

type labelRow struct {
	Proto string `json:"proto"`
	Label string `json:"label"`
	Side  string `json:"side"`
}

type verdict struct {
	got    string // accept | reject | held
	detail string
}

type runResult struct {
	step    int // index of the step that deviated from the expectation (-1: none)
	label   string
	expect  string
	verdict verdict
	dead    string
}

type waits struct {
	decide time.Duration // how long to wait for an expected accept / reject
	grace  time.Duration // how long a message from the side without agency must stay unprocessed
}

func stripTimeouts(sm protocol.StateMap) protocol.StateMap {
	out := protocol.StateMap{}
	for s, e := range sm {
		e.Timeout = 0
		e.TimeoutFunc = nil
		out[s] = e
	}
	return out
}

func msgTypeOf(b []byte) (uint, bool) {
	var tmp []cbor.RawMessage
	if _, err := cbor.Decode(b, &tmp); err != nil || len(tmp) == 0 {
		return 0, false
	}
	var t uint
	if _, err := cbor.Decode(tmp[0], &t); err != nil {
		return 0, false
	}
	return t, true
}

// ---- optional engine traces (C16_ENGINE_TRACES): every run is also recorded at the engine's
// verif hooks and appended to one ndjson file in the format spec/net/EngineTrace.tla reads.

var recorders sync.Map // *protocol.Protocol -> *trace.Recorder

func dispatch(p *protocol.Protocol, e protocol.VerifEvent) {
	if r, ok := recorders.Load(p); ok {
		r.(*trace.Recorder).Hook(p, e)
	}
}

type traceSink struct {
	mu     sync.Mutex
	f      *os.File
	w      *bufio.Writer
	traces int
	events int
}

func openSink(rep *vh.Reporter) *traceSink {
	path := os.Getenv("C16_ENGINE_TRACES")
	if path == "" {
		return nil
	}
	f, err := os.Create(path)
	if err != nil {
		rep.Dead("C16_ENGINE_TRACES: %v", err)
	}
	protocol.VerifTracer = dispatch
	return &traceSink{f: f, w: bufio.NewWriterSize(f, 1<<20)}
}

func (s *traceSink) close() {
	s.mu.Lock()
	defer s.mu.Unlock()
	s.w.Flush()
	s.f.Close()
}

// atRest adds the End line once the endpoint has come to rest: after a protocol error when its
// four loops have logged their exit, otherwise when every handler call has returned and released
// its bytes and nothing has been logged for a while.
func atRest(rec *trace.Recorder, ep string, failed bool) {
	if failed {
		deadline := time.Now().Add(10 * time.Second)
		for time.Now().Before(deadline) && rec.Count(ep, "Exit") < 4 {
			time.Sleep(2 * time.Millisecond)
		}
	} else {
		deadline := time.Now().Add(5 * time.Second)
		for time.Now().Before(deadline) &&
			rec.Count(ep, "Handle") != rec.Count(ep, "Release")+rec.Count(ep, "RecvErr") {
			time.Sleep(time.Millisecond)
		}
		n, since := len(rec.Lines()), time.Now()
		for time.Now().Before(deadline) && time.Since(since) < 25*time.Millisecond {
			time.Sleep(3 * time.Millisecond)
			if m := len(rec.Lines()); m != n {
				n, since = m, time.Now()
			}
		}
	}
	rec.Add(trace.Line{Ep: ep, Ev: "End", S1: "any"})
}

// runCase drives one row through one real endpoint.
func runCase(im *impl, role string, row *caseRow, sides map[string]string, seed int64, w waits, sink *traceSink, id string) (res runResult) {
	base := im.client
	prole, rawRole := protocol.ProtocolRoleClient, muxer.ProtocolRoleResponder
	if role == "server" {
		base = im.server
		prole, rawRole = protocol.ProtocolRoleServer, muxer.ProtocolRoleInitiator
	}
	ma, mb, _, _ := netx.MuxPair(seed, seed%4 == 0)
	for _, m := range []*muxer.Muxer{ma, mb} {
		go func(m *muxer.Muxer) {
			for range m.ErrorChan() {
			}
		}(m)
	}
	errCh := make(chan error, 16)
	handled := make(chan uint8, 64)
	wire := make(chan []byte, 64)
	cfg := base
	cfg.ErrorChan = errCh
	cfg.Muxer = ma
	cfg.Logger = nil
	cfg.Role = prole
	cfg.StateMap = stripTimeouts(base.StateMap) // C16 is not about timeouts (C14)
	cfg.StateContext = cloneCtx(base.StateContext)
	cfg.MessageHandlerFunc = func(m protocol.Message) error {
		handled <- m.Type()
		return nil
	}
	real := protocol.New(cfg)
	sawErr := false // the endpoint reported a protocol error
	var rec *trace.Recorder
	if sink != nil {
		rec = trace.NewRecorder(cfg.Name)
		recorders.Store(real, rec)
	}
	sendCh, recvCh, _ := mb.RegisterProtocol(cfg.ProtocolId, rawRole)
	if sendCh == nil || recvCh == nil {
		return runResult{dead: "raw peer could not register with its muxer"}
	}
	go func() {
		for seg := range recvCh {
			wire <- append([]byte(nil), seg.Payload...)
		}
	}()
	real.Start()
	ma.Start()
	mb.Start()
	defer func() {
		if rec != nil {
			atRest(rec, role, sawErr)
		}
		real.Stop()
		ma.Stop()
		mb.Stop()
		select {
		case <-real.DoneChan():
		case <-time.After(5 * time.Second):
		}
		if rec != nil {
			recorders.Delete(real)
			sm := trace.DumpStateMap(cfg.StateMap, cfg.InitialState)
			sink.mu.Lock()
			rec.AppendTo(sink.w, row.Proto+"|"+id, sm, sm, false)
			sink.traces++
			sink.events += len(rec.Lines())
			sink.mu.Unlock()
		}
	}()

	steps := append(append([]string{}, row.Seq...), row.Dev)
	for n, label := range steps {
		expect := "accept"
		if n == len(steps)-1 {
			expect = row.Expect
		}
		ld, ok := im.labels[label]
		if !ok {
			return runResult{dead: fmt.Sprintf("%s: no representative message for label %q", row.Proto, label)}
		}
		side, ok := sides[row.Proto+"|"+label]
		if !ok {
			return runResult{dead: fmt.Sprintf("%s: the specification names no sender for label %q", row.Proto, label)}
		}
		msg := ld.mk()
		own := side == role
		if own {
			if err := real.SendMessage(msg); err != nil {
				return runResult{step: n, label: label, expect: expect, verdict: verdict{"reject", "SendMessage: " + err.Error()}}
			}
		} else {
			b, err := cbor.Encode(msg)
			if err != nil {
				return runResult{dead: fmt.Sprintf("%s: cannot encode %q: %v", row.Proto, label, err)}
			}
			select {
			case sendCh <- muxer.NewSegment(cfg.ProtocolId, b, rawRole == muxer.ProtocolRoleResponder):
			case <-time.After(w.decide):
				return runResult{dead: "raw peer could not write a segment"}
			}
		}
		wait := w.decide
		if expect == "held" {
			wait = w.grace
		}
		v := verdict{got: "held"}
		timer := time.NewTimer(wait)
		select {
		case t := <-handled:
			v = verdict{"accept", fmt.Sprintf("handler called with message type %d", t)}
			if own || t != msg.Type() {
				timer.Stop()
				return runResult{dead: fmt.Sprintf("%s: handler saw message type %d while step %q (type %d, own=%v) was in flight", row.Proto, t, label, msg.Type(), own)}
			}
		case b := <-wire:
			t, ok := msgTypeOf(b)
			v = verdict{"accept", fmt.Sprintf("endpoint wrote %d bytes, message type %d", len(b), t)}
			if !own || !ok || t != uint(msg.Type()) {
				timer.Stop()
				return runResult{dead: fmt.Sprintf("%s: endpoint wrote message type %d (%v) while step %q (type %d, own=%v) was in flight", row.Proto, t, ok, label, msg.Type(), own)}
			}
		case e := <-errCh:
			sawErr = true
			v = verdict{"reject", e.Error()}
		case <-timer.C:
		}
		timer.Stop()
		if v.got != expect {
			return runResult{step: n, label: label, expect: expect, verdict: v}
		}
	}
	return runResult{step: -1}
}

type job struct {
	row  *caseRow
	role string
	idx  int
}

func (j job) key() string {
	return fmt.Sprintf("proto=%s:role=%s:at=%s:seq=%s:step=%s", j.row.Proto, j.role, j.row.At, strings.Join(j.row.Seq, ">"), j.row.Dev)
}

func envMs(name string, def int) time.Duration {
	if v, err := strconv.Atoi(os.Getenv(name)); err == nil && v > 0 {
		return time.Duration(v) * time.Millisecond
	}
	return time.Duration(def) * time.Millisecond
}

func replay(rep *vh.Reporter, casesPath, labelsPath string) {
	rows, err := vh.ReadNDJSON[caseRow](casesPath)
	if err != nil || len(rows) == 0 {
		rep.Dead("cases: %v (n=%d)", err, len(rows))
	}
	lrows, err := vh.ReadNDJSON[labelRow](labelsPath)
	if err != nil || len(lrows) == 0 {
		rep.Dead("labels: %v (n=%d)", err, len(lrows))
	}
	sides := map[string]string{}
	for _, l := range lrows {
		sides[l.Proto+"|"+l.Label] = l.Side
	}
	impls := map[string]*impl{}
	for _, im := range load(rep) {
		impls[im.def.name] = im
	}
	var jobs []job
	for i := range rows {
		if impls[rows[i].Proto] == nil {
			rep.Dead("no binding for protocol %q of the specification", rows[i].Proto)
		}
		for _, role := range []string{"client", "server"} {
			jobs = append(jobs, job{&rows[i], role, len(jobs)})
		}
	}
	seed := vh.Seed()
	first := waits{decide: envMs("C16_DECIDE_MS", 6000), grace: envMs("C16_GRACE_MS", 80)}
	final := waits{decide: envMs("C16_FINAL_MS", 25000), grace: envMs("C16_GRACE_MS", 80)}

	sink := openSink(rep)
	id := func(i int, pass string) string { return fmt.Sprintf("c16%s%d%s", pass, i, jobs[i].role[:1]) }
	results := make([]runResult, len(jobs))
	var wg sync.WaitGroup
	sem := make(chan struct{}, 48)
	for i := range jobs {
		wg.Add(1)
		sem <- struct{}{}
		go func(i int) {
			defer wg.Done()
			defer func() { <-sem }()
			j := jobs[i]
			rep.Guard("replay:"+j.key(), j.row, func() {
				results[i] = runCase(impls[j.row.Proto], j.role, j.row, sides, seed*1000003+int64(i), first, sink, id(i, "r"))
			})
		}(i)
	}
	wg.Wait()

	// A step that showed no reaction in time may be load: such cases are run again, alone,
	// with a long wait; only what is observed then is reported.
	retried, confirmed, loadInduced, notRetried := 0, 0, 0, 0
	for i := range jobs {
		r := &results[i]
		if r.dead != "" || r.step < 0 || r.verdict.got != "held" {
			continue
		}
		if confirmed >= 6 {
			notRetried++
			r.step = -2 // not confirmed, not reported
			continue
		}
		retried++
		j := jobs[i]
		rep.Guard("replay:"+j.key(), j.row, func() {
			*r = runCase(impls[j.row.Proto], j.role, j.row, sides, seed*1000003+int64(i), final, sink, id(i, "again"))
		})
		if r.step >= 0 && r.verdict.got == "held" {
			confirmed++
		} else if r.step < 0 {
			loadInduced++
		}
	}

	if sink != nil {
		sink.close()
		rep.Extra["c16_engine_traces"] = sink.traces
		rep.Extra["c16_engine_trace_events"] = sink.events
	}
	perProto := map[string]int{}
	expects := map[string]int{}
	for i, j := range jobs {
		r := results[i]
		if r.dead != "" {
			rep.Dead("case %s: %s", j.key(), r.dead)
		}
		rep.Case(j.key(), true)
		perProto[j.row.Proto]++
		expects[j.row.Expect]++
		if i%997 == 0 {
			rep.Sample(map[string]any{"row": j.row, "role": j.role, "outcome": "as the specification says"})
		}
		if r.step < 0 {
			continue
		}
		key := fmt.Sprintf("replay:%s:expect=%s:got=%s", j.key(), r.expect, r.verdict.got)
		where := "last step"
		if r.step < len(j.row.Seq) {
			key = fmt.Sprintf("replay:%s:prefix-step=%d:%s:expect=%s:got=%s", j.key(), r.step+1, r.label, r.expect, r.verdict.got)
			where = fmt.Sprintf("step %d of the common prefix", r.step+1)
		}
		rep.Disagree(key,
			fmt.Sprintf("%s, real %s endpoint: after %v the reference automaton (state %s) says %s for %q at the %s, the engine: %s (%s)",
				j.row.Proto, j.role, j.row.Seq, j.row.At, r.expect, r.label, where, r.verdict.got, r.verdict.detail),
			map[string]any{"row": j.row, "role": j.role, "step": r.step + 1, "label": r.label, "expect": r.expect,
				"got": r.verdict.got, "detail": r.verdict.detail})
	}
	rep.Extra["c16_replay_rows"] = len(rows)
	rep.Extra["c16_replay_runs"] = len(jobs)
	rep.Extra["c16_replay_runs_per_protocol"] = perProto
	rep.Extra["c16_replay_rows_by_expected_verdict_x2_roles"] = expects
	rep.Extra["c16_replay_silent_steps_rerun_alone"] = retried
	rep.Extra["c16_replay_silent_steps_load_induced"] = loadInduced
	rep.Extra["c16_replay_silent_steps_confirmed"] = confirmed
	rep.Extra["c16_replay_silent_steps_not_rerun"] = notRetried
}

func main() {
	rep := vh.NewReporter()
	switch {
	case len(os.Args) == 3 && os.Args[1] == "dump":
		dump(rep, os.Args[2])
	case len(os.Args) == 4 && os.Args[1] == "replay":
		replay(rep, os.Args[2], os.Args[3])
	default:
		rep.Dead("usage: c16 dump <impl_automata.json> | c16 replay <cases16.ndjson> <labels16.ndjson>")
	}
	rep.Finish()
}
