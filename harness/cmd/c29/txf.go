// txf.go — per-era transaction factory at CBOR level (shared verbatim by the
// c26 and c29 drivers; candidate for a common harness/txfactory package).
//
// It writes the bytes of a small but fully valid transaction (one input locked
// by a key or by a native script, one output to a key address, real
// ed25519 witnesses over the body hash), decodes it with the era's own
// decoder, and pairs it with a mock ledger state that holds the spent UTxO and
// with permissive protocol parameters of the era's parameter type.  Presence
// of the validity bounds (body keys 3 and 8) is decided at byte level, so
// "present and zero" and "absent" are different inputs.
package main

import (
	"crypto/ed25519"
	"encoding/binary"
	"encoding/hex"
	"fmt"
	"math/rand"
	"reflect"
	"runtime"
	"strings"
	"sync"

	mockledger "github.com/blinklabs-io/ouroboros-mock/ledger"
	"golang.org/x/crypto/blake2b"

	"github.com/blinklabs-io/gouroboros/ledger/allegra"
	"github.com/blinklabs-io/gouroboros/ledger/alonzo"
	"github.com/blinklabs-io/gouroboros/ledger/babbage"
	"github.com/blinklabs-io/gouroboros/ledger/common"
	"github.com/blinklabs-io/gouroboros/ledger/conway"
	"github.com/blinklabs-io/gouroboros/ledger/dijkstra"
	"github.com/blinklabs-io/gouroboros/ledger/mary"
	"github.com/blinklabs-io/gouroboros/ledger/shelley"
)

var Eras = []string{"shelley", "allegra", "mary", "alonzo", "babbage", "conway", "dijkstra"}

// ---- minimal CBOR writer -------------------------------------------------

func cborHead(major byte, n uint64) []byte {
	m := major << 5
	switch {
	case n < 24:
		return []byte{m | byte(n)}
	case n <= 0xff:
		return []byte{m | 24, byte(n)}
	case n <= 0xffff:
		b := []byte{m | 25, 0, 0}
		binary.BigEndian.PutUint16(b[1:], uint16(n))
		return b
	case n <= 0xffffffff:
		b := []byte{m | 26, 0, 0, 0, 0}
		binary.BigEndian.PutUint32(b[1:], uint32(n))
		return b
	}
	b := []byte{m | 27, 0, 0, 0, 0, 0, 0, 0, 0}
	binary.BigEndian.PutUint64(b[1:], n)
	return b
}

// cborHeadWide writes a deliberately non-minimal head (8-byte argument).
func cborHeadWide(major byte, n uint64) []byte {
	b := []byte{major<<5 | 27, 0, 0, 0, 0, 0, 0, 0, 0}
	binary.BigEndian.PutUint64(b[1:], n)
	return b
}

func cUint(n uint64) []byte  { return cborHead(0, n) }
func cBytes(b []byte) []byte { return append(cborHead(2, uint64(len(b))), b...) }
func cArr(items ...[]byte) []byte {
	out := cborHead(4, uint64(len(items)))
	for _, it := range items {
		out = append(out, it...)
	}
	return out
}

type kv struct {
	k uint64
	v []byte
}

func cMap(items ...kv) []byte {
	out := cborHead(5, uint64(len(items)))
	for _, it := range items {
		out = append(out, cUint(it.k)...)
		out = append(out, it.v...)
	}
	return out
}

// ---- keys ------------------------------------------------------------------

type Key struct {
	Priv ed25519.PrivateKey
	Pub  ed25519.PublicKey
	Hash []byte // Blake2b-224 of the public key
}

func NewKey(rng *rand.Rand) Key {
	seed := make([]byte, ed25519.SeedSize)
	rng.Read(seed)
	priv := ed25519.NewKeyFromSeed(seed)
	pub := priv.Public().(ed25519.PublicKey)
	h, _ := blake2b.New(28, nil)
	h.Write(pub)
	return Key{Priv: priv, Pub: pub, Hash: h.Sum(nil)}
}

func Blake224(b []byte) []byte {
	h, _ := blake2b.New(28, nil)
	h.Write(b)
	return h.Sum(nil)
}

// ---- transaction -----------------------------------------------------------

const (
	networkID = 1
	inCoin    = 50_000_000
	feeCoin   = 2_000_000
)

type TxSpec struct {
	Era    string
	Start  *uint64 // body key 8 (nil = key absent)
	End    *uint64 // body key 3 (nil = key absent)
	Owner  Key     // payment key of the produced output, and of the spent one unless Script != nil
	Script []byte  // native script locking the spent output (nil = key-locked)
	Sign   []Key   // keys that witness the transaction
	TxID   []byte  // 32 bytes: id of the spent output's transaction
	// Phase2Invalid sets the Alonzo+ is_valid flag to false (a transaction whose scripts fail:
	// only its collateral is collected). The validity interval is a phase-1 check.
	Phase2Invalid bool
}

type Built struct {
	Tx    common.Transaction
	Bytes []byte
	LS    common.LedgerState
	PP    common.ProtocolParameters
	Rules []common.UtxoValidationRuleFunc
}

// spentAddr is the address of the spent output: the script's, or the owner's.
func spentAddr(spec TxSpec) []byte {
	if spec.Script != nil {
		return append([]byte{0x70 | networkID}, Blake224(append([]byte{0}, spec.Script...))...)
	}
	return append([]byte{0x60 | networkID}, spec.Owner.Hash...)
}

var sigCache sync.Map // body hash ++ public key -> signature

func signBody(k Key, bodyHash [32]byte) []byte {
	ck := string(bodyHash[:]) + string(k.Pub)
	if v, ok := sigCache.Load(ck); ok {
		return v.([]byte)
	}
	sig := ed25519.Sign(k.Priv, bodyHash[:])
	sigCache.Store(ck, sig)
	return sig
}

// eraEnv: decoder, parameters (permissive, of the era's own type, read-only
// and shared) and rule list of one era.
type eraEnv struct {
	pp        common.ProtocolParameters
	rules     []common.UtxoValidationRuleFunc
	decodeTx  func([]byte) (common.Transaction, error)
	decodeOut func([]byte) (common.TransactionOutput, error)
}

var (
	envOnce sync.Once
	envs    map[string]*eraEnv
)

func eraEnvOf(era string) (*eraEnv, error) {
	envOnce.Do(func() {
		shOut := func(b []byte) (common.TransactionOutput, error) {
			return shelley.NewShelleyTransactionOutputFromCbor(b)
		}
		baOut := func(b []byte) (common.TransactionOutput, error) {
			return babbage.NewBabbageTransactionOutputFromCbor(b)
		}
		alp := mockledger.NewMockAlonzoProtocolParams()
		alp.MinFeeA, alp.MinFeeB = 0, 0
		bap := mockledger.NewMockBabbageProtocolParams()
		bap.MinFeeA, bap.MinFeeB = 0, 0
		cop := mockledger.NewMockConwayProtocolParams()
		cop.MinFeeA, cop.MinFeeB = 0, 0
		dip := mockledger.NewMockConwayProtocolParams()
		dip.MinFeeA, dip.MinFeeB = 0, 0
		dip.ProtocolVersion.Major = 12
		envs = map[string]*eraEnv{
			"shelley": {
				pp:    &shelley.ShelleyProtocolParameters{MaxTxSize: 16384, MinUtxoValue: 1_000_000, ProtocolMajor: 2},
				rules: shelley.UtxoValidationRules,
				decodeTx: func(b []byte) (common.Transaction, error) {
					return shelley.NewShelleyTransactionFromCbor(b)
				},
				decodeOut: shOut,
			},
			"allegra": {
				pp:    &allegra.AllegraProtocolParameters{MaxTxSize: 16384, MinUtxoValue: 1_000_000, ProtocolMajor: 3},
				rules: allegra.UtxoValidationRules,
				decodeTx: func(b []byte) (common.Transaction, error) {
					return allegra.NewAllegraTransactionFromCbor(b)
				},
				decodeOut: shOut,
			},
			"mary": {
				pp:    &mary.MaryProtocolParameters{MaxTxSize: 16384, MinUtxoValue: 1_000_000, ProtocolMajor: 4},
				rules: mary.UtxoValidationRules,
				decodeTx: func(b []byte) (common.Transaction, error) {
					return mary.NewMaryTransactionFromCbor(b)
				},
				decodeOut: func(b []byte) (common.TransactionOutput, error) {
					return mary.NewMaryTransactionOutputFromCbor(b)
				},
			},
			"alonzo": {
				pp:    &alp,
				rules: alonzo.UtxoValidationRules,
				decodeTx: func(b []byte) (common.Transaction, error) {
					return alonzo.NewAlonzoTransactionFromCbor(b)
				},
				decodeOut: func(b []byte) (common.TransactionOutput, error) {
					return alonzo.NewAlonzoTransactionOutputFromCbor(b)
				},
			},
			"babbage": {
				pp:    &bap,
				rules: babbage.UtxoValidationRules,
				decodeTx: func(b []byte) (common.Transaction, error) {
					return babbage.NewBabbageTransactionFromCbor(b)
				},
				decodeOut: baOut,
			},
			"conway": {
				pp:    &cop,
				rules: conway.UtxoValidationRules,
				decodeTx: func(b []byte) (common.Transaction, error) {
					return conway.NewConwayTransactionFromCbor(b)
				},
				decodeOut: baOut,
			},
			"dijkstra": {
				pp:    &dijkstra.DijkstraProtocolParameters{ConwayProtocolParameters: dip},
				rules: dijkstra.UtxoValidationRules,
				decodeTx: func(b []byte) (common.Transaction, error) {
					return dijkstra.NewDijkstraTransactionFromCbor(b)
				},
				decodeOut: baOut,
			},
		}
	})
	e, ok := envs[era]
	if !ok {
		return nil, fmt.Errorf("unknown era %q", era)
	}
	return e, nil
}

// BuildTx writes, decodes and returns the transaction with its environment.
func BuildTx(spec TxSpec) (*Built, error) {
	// the produced output always goes to the owner's key address, so the body
	// (and with it every signature) does not depend on the locking script
	addr := spentAddr(spec)
	payTo := append([]byte{0x60 | networkID}, spec.Owner.Hash...)
	input := cArr(cBytes(spec.TxID), cUint(0))
	body := []kv{
		{0, cArr(input)},
		{1, cArr(cArr(cBytes(payTo), cUint(inCoin-feeCoin)))},
		{2, cUint(feeCoin)},
	}
	if spec.End != nil {
		body = append(body, kv{3, cUint(*spec.End)})
	}
	if spec.Start != nil {
		if spec.Era == "shelley" {
			return nil, fmt.Errorf("shelley has no validity start")
		}
		body = append(body, kv{8, cUint(*spec.Start)})
	}
	bodyBytes := cMap(body...)
	bodyHash := blake2b.Sum256(bodyBytes)
	var vk [][]byte
	for _, k := range spec.Sign {
		vk = append(vk, cArr(cBytes(k.Pub), cBytes(signBody(k, bodyHash))))
	}
	var wits []kv
	if len(vk) > 0 {
		wits = append(wits, kv{0, cArr(vk...)})
	}
	if spec.Script != nil {
		wits = append(wits, kv{1, cArr(spec.Script)})
	}
	witBytes := cMap(wits...)
	null := []byte{0xf6}
	var txBytes []byte
	switch spec.Era {
	case "shelley", "allegra", "mary":
		txBytes = cArr(bodyBytes, witBytes, null)
	default:
		flag := []byte{0xf5}
		if spec.Phase2Invalid {
			flag = []byte{0xf4}
		}
		txBytes = cArr(bodyBytes, witBytes, flag, null)
	}
	outBytes := cArr(cBytes(addr), cUint(inCoin))
	b := &Built{Bytes: txBytes}
	var (
		out common.TransactionOutput
		err error
	)
	env, eerr := eraEnvOf(spec.Era)
	if eerr != nil {
		return nil, eerr
	}
	b.PP, b.Rules = env.pp, env.rules
	b.Tx, err = env.decodeTx(txBytes)
	if err == nil {
		out, err = env.decodeOut(outBytes)
	}
	if err != nil {
		return nil, fmt.Errorf("decode %s transaction %x: %w", spec.Era, txBytes, err)
	}
	utxo := common.Utxo{
		Id:     shelley.NewShelleyTransactionInput(hex.EncodeToString(spec.TxID), 0),
		Output: out,
	}
	b.LS = mockledger.NewLedgerStateBuilder().
		WithNetworkId(networkID).
		WithUtxos([]common.Utxo{utxo}).
		Build()
	return b, nil
}

// RuleName is the function name of a rule ("conway.UtxoValidateNativeScripts").
func RuleName(r common.UtxoValidationRuleFunc) string {
	f := runtime.FuncForPC(reflect.ValueOf(r).Pointer())
	if f == nil {
		return "?"
	}
	n := f.Name()
	if i := strings.LastIndex(n, "/"); i >= 0 {
		n = n[i+1:]
	}
	return n
}

type RuleFailure struct {
	Index int
	Rule  string
	Type  string // %T of the innermost error
	Err   string
}

// RunRules runs every rule of the era's list on its own (no short-circuit), so
// that one rule's rejection cannot hide what another rule does.
func RunRules(b *Built, slot uint64) []RuleFailure {
	var out []RuleFailure
	for i, r := range b.Rules {
		if err := r(b.Tx, slot, b.LS, b.PP); err != nil {
			out = append(out, RuleFailure{Index: i, Rule: RuleName(r), Type: fmt.Sprintf("%T", err), Err: err.Error()})
		}
	}
	return out
}
