// c29: replays every (script, context) pair of spec/ledger/NativeScript.tla
// on the real code.  The script is rendered to CBOR bytes from the
// specification's token sequence, decoded with the real decoder, and
//
//	eval  common.NativeScript.Evaluate on the decoded script (absent bounds
//	      passed the way the API documents them: start 0, end MaxUint64),
//	rule  the era's UtxoValidationRules on a decoded, signed transaction whose
//	      input is locked by the script (the native-script rule found in the
//	      era's list for every pair; the whole list, rule by rule, for a sample);
//	      in the eras whose transactions have an is_valid flag (eras.ndjson, from
//	      the specification) also on the transaction flagged is_valid = false,
//	      with the specification's verdict `vf` for the flagged transaction,
//	hash  NativeScript.Hash against Blake2b-224(0x00 ++ the bytes fed in).
//
// The expected verdict is the `v` entry computed by TLC; this file maps the
// abstract time line onto uint64 (order-isomorphic maps), keys onto real
// ed25519 keys, and builds the bytes.  The `de`/`dr` deviation names computed
// by TLC are only used to name disagreeing cases.
package main

import (
	"bufio"
	"bytes"
	"encoding/hex"
	"encoding/json"
	"fmt"
	"hash/fnv"
	"math/rand"
	"os"
	"sort"
	"strconv"
	"strings"
	"sync"

	gcbor "github.com/blinklabs-io/gouroboros/cbor"
	"github.com/blinklabs-io/gouroboros/ledger/common"
	"github.com/blinklabs-io/gouroboros/ledger/dijkstra"

	"verifharness/vh"
)

const maxU = ^uint64(0)

type tok struct {
	K string
	N int
}

func (t *tok) UnmarshalJSON(b []byte) error {
	var a []json.RawMessage
	if err := json.Unmarshal(b, &a); err != nil || len(a) != 2 {
		return fmt.Errorf("token %s", b)
	}
	if err := json.Unmarshal(a[0], &t.K); err != nil {
		return err
	}
	return json.Unmarshal(a[1], &t.N)
}

type srow struct {
	Idx   int               `json:"idx"`
	Name  string            `json:"name"`
	Depth int               `json:"depth"`
	Tok   []tok             `json:"tok"`
	V     []int             `json:"v"`  // verdict per context (index into ctx.ndjson)
	Vf    []int             `json:"vf"` // rule-level verdict per context for the transaction flagged is_valid = false
	De    map[string]string `json:"de"` // context index -> deviation name, Evaluate level
	Dr    map[string]string `json:"dr"` // context index -> deviation name, rule level
}

// eraRow: where the is_valid flag of an era's transactions comes from
// ("envelope", "block", "none") and the values it can take.
type eraRow struct {
	Era     string `json:"era"`
	Flag    string `json:"flag"`
	IsValid []bool `json:"is_valid"`
}

type ctxRow struct {
	Keys  []int `json:"keys"`
	Start int   `json:"start"`
	End   int   `json:"end"`
}

type tmap struct {
	name string
	v    []uint64
	z    bool // 0 -> 0 and T -> 2^64-1
}

func timeMaps(T int, rng *rand.Rand) []tmap {
	n := T + 1
	ext, adj, low, rnd, nz := make([]uint64, n), make([]uint64, n), make([]uint64, n), make([]uint64, n), make([]uint64, n)
	for i := 0; i < n; i++ {
		ext[i] = (uint64(1) << 63) + uint64(i)
		adj[i] = maxU - uint64(T-i)
		low[i] = uint64(i)
	}
	ext[0], adj[0] = 0, 0
	ext[1] = 1
	ext[T], low[T] = maxU, maxU
	var vals []uint64
	seen := map[uint64]bool{}
	for len(vals) < T-1 {
		x := rng.Uint64()
		if x > 1 && x < maxU-1 && !seen[x] {
			seen[x] = true
			vals = append(vals, x)
		}
	}
	sort.Slice(vals, func(i, j int) bool { return vals[i] < vals[j] })
	copy(rnd[1:], vals)
	rnd[T] = maxU
	base := uint64(rng.Int63n(1<<62)) + 1
	for i := 0; i < n; i++ {
		nz[i] = base + uint64(i)*uint64(i+1) // non-zero, below the maximum, adjacent at the bottom
	}
	return []tmap{{"zext", ext, true}, {"zadj", adj, true}, {"zlow", low, true}, {"zrnd", rnd, true}, {"nz", nz, false}}
}

// ---- rendering the token sequence ------------------------------------------

type renderer struct {
	enc  string // min | wide | indef | widehdr
	m    tmap
	keys map[int]Key
	t    []tok
	p    int
	out  []byte
}

func (r *renderer) next(kind string) (int, error) {
	if r.p >= len(r.t) || r.t[r.p].K != kind {
		return 0, fmt.Errorf("token %d: want %q in %v", r.p, kind, r.t)
	}
	n := r.t[r.p].N
	r.p++
	return n, nil
}

func (r *renderer) uint(n uint64) {
	if r.enc == "wide" {
		r.out = append(r.out, cborHeadWide(0, n)...)
	} else {
		r.out = append(r.out, cUint(n)...)
	}
}

func (r *renderer) script() error {
	n, err := r.next("a")
	if err != nil {
		return err
	}
	if r.enc == "widehdr" {
		r.out = append(r.out, 0x98, byte(n)) // non-minimal head of the script's own array
	} else {
		r.out = append(r.out, cborHead(4, uint64(n))...)
	}
	id, err := r.next("g")
	if err != nil {
		return err
	}
	r.out = append(r.out, cUint(uint64(id))...)
	switch id {
	case 0:
		k, err := r.next("k")
		if err != nil {
			return err
		}
		h := r.keys[k].Hash
		if r.enc == "wide" {
			r.out = append(r.out, 0x59, 0x00, byte(len(h))) // 2-byte length
			r.out = append(r.out, h...)
		} else {
			r.out = append(r.out, cBytes(h)...)
		}
	case 1, 2, 3:
		if id == 3 {
			u, err := r.next("u")
			if err != nil {
				return err
			}
			r.uint(uint64(u))
		}
		l, err := r.next("l")
		if err != nil {
			return err
		}
		switch r.enc {
		case "indef":
			r.out = append(r.out, 0x9f)
		case "wide":
			r.out = append(r.out, 0x98, byte(l))
		default:
			r.out = append(r.out, cborHead(4, uint64(l))...)
		}
		for i := 0; i < l; i++ {
			if err := r.script(); err != nil {
				return err
			}
		}
		if r.enc == "indef" {
			r.out = append(r.out, 0xff)
		}
	case 4, 5:
		b, err := r.next("t")
		if err != nil {
			return err
		}
		r.uint(r.m.v[b])
	default:
		return fmt.Errorf("type id %d", id)
	}
	return nil
}

func render(t []tok, enc string, m tmap, keys map[int]Key) ([]byte, error) {
	r := &renderer{enc: enc, m: m, keys: keys, t: t}
	if err := r.script(); err != nil {
		return nil, err
	}
	if r.p != len(t) {
		return nil, fmt.Errorf("trailing tokens in %v", t)
	}
	return r.out, nil
}

// ---- reporting ---------------------------------------------------------------

// out collects disagreement records.  Records are grouped in classes (level,
// era, map, encoding, deviation name): a class named by the specification's
// deviation tables ("s", "e", "z", ...) is capped at 25 records (its size is
// reported in the summary), every other class at 300, so that thousands of
// cases of one cause cannot crowd out a different disagreement.
type out struct {
	mu     sync.Mutex
	w      *bufio.Writer
	counts map[string]int
	notes  map[string]int
	total  int
}

func (o *out) disagree(class string, named bool, key, desc string, replay any) {
	o.mu.Lock()
	defer o.mu.Unlock()
	o.total++
	o.counts[class]++
	limit := 300
	if named {
		limit = 25
	}
	if o.counts[class] > limit {
		return
	}
	if o.counts[class] > 2 {
		replay = nil
	}
	b, _ := json.Marshal(map[string]any{"t": "disagree", "key": key, "desc": desc, "replay": replay})
	o.w.Write(b)
	o.w.WriteByte('\n')
}

func (o *out) note(class string) {
	o.mu.Lock()
	o.notes[class]++
	o.mu.Unlock()
}

func keysName(ks []int) string {
	s := ""
	for _, k := range ks {
		s += strconv.Itoa(k)
	}
	if s == "" {
		return "none"
	}
	return s
}

func bname(a int) string {
	if a < 0 {
		return "A"
	}
	return strconv.Itoa(a)
}

func conc(m tmap, a int) *uint64 {
	if a < 0 {
		return nil
	}
	v := m.v[a]
	return &v
}

func show(p *uint64) any {
	if p == nil {
		return nil
	}
	return strconv.FormatUint(*p, 10)
}

type env struct {
	rep   *vh.Reporter
	o     *out
	ctxs  []ctxRow
	keys  map[int]Key
	owner Key
	txid  []byte
	// flag: era -> source of the is_valid flag, for the eras whose transactions can be flagged
	// is_valid = false (from the specification's eras.ndjson)
	flag map[string]string
	// p2base: era -> rules that reject the flagged factory transaction whatever its script
	p2base map[string]map[string]bool
}

// buildTx builds the factory transaction; flagged: with is_valid = false, set the
// way the era's transactions get the flag - in the transaction's envelope
// (Alonzo..Conway), or, for a Dijkstra transaction (whose envelope cannot say
// is_valid = false), the way the block decoder marks the transactions listed in
// the block body's invalid_transactions set.
func buildTx(spec TxSpec, flagged bool, source string) (*Built, error) {
	if !flagged {
		return BuildTx(spec)
	}
	switch source {
	case "envelope":
		spec.Phase2Invalid = true
		b, err := BuildTx(spec)
		if err == nil && b.Tx.IsValid() {
			return nil, fmt.Errorf("%s transaction with is_valid = false in its envelope decodes with IsValid() = true", spec.Era)
		}
		return b, err
	case "block":
		b, err := BuildTx(spec)
		if err != nil {
			return nil, err
		}
		dt, ok := b.Tx.(*dijkstra.DijkstraTransaction)
		if !ok {
			return nil, fmt.Errorf("%s transaction is a %T: do not know how its block flags it", spec.Era, b.Tx)
		}
		dt.TxIsValid = false
		if b.Tx.IsValid() {
			return nil, fmt.Errorf("%s transaction marked by its block still has IsValid() = true", spec.Era)
		}
		return b, nil
	}
	return nil, fmt.Errorf("%s transactions have no is_valid flag (source %q)", spec.Era, source)
}

func isValidityFailure(f RuleFailure) bool {
	return strings.Contains(f.Type, "ExpiredUtxo") || strings.Contains(f.Type, "OutsideValidityInterval") ||
		strings.Contains(f.Rule, "ValidityInterval") || strings.Contains(f.Rule, "TimeToLive")
}

func isScriptFailure(f RuleFailure) bool { return strings.Contains(f.Type, "NativeScriptFailed") }

func (e *env) caseKey(level, era string, s *srow, c ctxRow, dev, enc string, m tmap, flagged ...bool) string {
	pre := level
	if era != "" {
		pre += ":era=" + era
	}
	suf := ""
	if len(flagged) > 0 && flagged[0] {
		suf = ":p2invalid"
	}
	return fmt.Sprintf("%s:s=%s:keys=%s:start=%s:end=%s:dev=%s:enc=%s:map=%s%s",
		pre, s.Name, keysName(c.Keys), bname(c.Start), bname(c.End), dev, enc, m.name, suf)
}

// evalLevel: Evaluate on the standalone-decoded script, all contexts; hash.
func (e *env) evalLevel(s *srow, enc string, m tmap) {
	raw, err := render(s.Tok, enc, m, e.keys)
	if err != nil {
		e.rep.Dead("render %s: %v", s.Name, err)
	}
	gk := fmt.Sprintf("eval:s=%s:enc=%s:map=%s", s.Name, enc, m.name)
	e.rep.Guard(gk, map[string]any{"script_cbor": hex.EncodeToString(raw)}, func() {
		var ns common.NativeScript
		if _, err := gcbor.Decode(raw, &ns); err != nil {
			if enc != "min" {
				// whether unusual (but well-formed) encodings decode is not C29's subject
				e.o.note("undecodable/" + enc)
				return
			}
			key := fmt.Sprintf("decode:s=%s:enc=%s:map=%s", s.Name, enc, m.name)
			e.rep.Case(h64(key), true)
			e.o.disagree("decode/"+enc, false, key, fmt.Sprintf("well-formed native script %x does not decode: %v", raw, err),
				map[string]any{"script_cbor": hex.EncodeToString(raw)})
			return
		}
		// hash = Blake2b-224(0x00 ++ original bytes)
		hk := fmt.Sprintf("hash:s=%s:enc=%s:map=%s", s.Name, enc, m.name)
		e.rep.Case(h64(hk), true)
		want := Blake224(append([]byte{0}, raw...))
		if got := ns.Hash(); !bytes.Equal(got.Bytes(), want) {
			e.o.disagree("hash/"+enc, false, hk, fmt.Sprintf("Hash() = %x, Blake2b-224(0x00 ++ %x) = %x", got.Bytes(), raw, want),
				map[string]any{"script_cbor": hex.EncodeToString(raw)})
		}
		for ci, c := range e.ctxs {
			dev := "-"
			if m.z {
				if d, ok := s.De[strconv.Itoa(ci+1)]; ok {
					dev = d
				}
			}
			key := e.caseKey("eval", "", s, c, dev, enc, m)
			e.rep.Case(h64(key), true)
			kh := map[common.Blake2b224]bool{}
			for _, k := range c.Keys {
				var h common.Blake2b224
				copy(h[:], e.keys[k].Hash)
				kh[h] = true
			}
			// the documented calling convention: start 0 / end MaxUint64 when not set
			vs, ve := uint64(0), maxU
			if p := conc(m, c.Start); p != nil {
				vs = *p
			}
			if p := conc(m, c.End); p != nil {
				ve = *p
			}
			got := ns.Evaluate(vs^1, vs, ve, kh) // the slot argument must be irrelevant
			if got != (s.V[ci] == 1) {
				e.o.disagree("eval/"+m.name+"/"+enc+"/"+dev, dev != "-", key,
					fmt.Sprintf("NativeScript.Evaluate(start=%v, end=%v, keys=%v) on decoded %s = %v, specification: %v",
						show(conc(m, c.Start)), show(conc(m, c.End)), c.Keys, s.Name, got, s.V[ci] == 1),
					map[string]any{"level": "eval", "script": s.Name, "script_cbor": hex.EncodeToString(raw), "keys": c.Keys,
						"start": show(conc(m, c.Start)), "end": show(conc(m, c.End)), "spec": s.V[ci] == 1, "code": got, "key": key})
			}
		}
	})
}

// ruleLevel: a transaction of the era spending an input locked by the script.
// full=false runs the rules of the era's list named *NativeScripts*; full=true
// runs the whole list rule by rule (no other rule may reject).  flagged: the
// transaction is flagged is_valid = false; the expected verdict is then the
// specification's verdict for the flagged transaction (vf).
func (e *env) ruleLevel(s *srow, era, enc string, m tmap, full bool, flagged bool) {
	raw, err := render(s.Tok, enc, m, e.keys)
	if err != nil {
		e.rep.Dead("render %s: %v", s.Name, err)
	}
	wantHash := Blake224(append([]byte{0}, raw...))
	gk := fmt.Sprintf("rule:era=%s:s=%s:enc=%s:map=%s", era, s.Name, enc, m.name)
	source, psuf := "", ""
	if flagged {
		source = e.flag[era]
		if source == "" {
			e.rep.Dead("%s: the specification has no flagged %s transactions", gk, era)
		}
		gk += ":p2invalid"
		psuf = "/p2invalid"
	}
	e.rep.Guard(gk, map[string]any{"script_cbor": hex.EncodeToString(raw)}, func() {
		for ci, c := range e.ctxs {
			spec := s.V[ci] == 1
			if flagged {
				spec = s.Vf[ci] == 1
			}
			dev := "-"
			if m.z {
				if d, ok := s.Dr[strconv.Itoa(ci+1)]; ok {
					dev = d
				}
			}
			key := e.caseKey("rule", era, s, c, dev, enc, m, flagged)
			var sign []Key
			for _, k := range c.Keys {
				sign = append(sign, e.keys[k])
			}
			start, end := conc(m, c.Start), conc(m, c.End)
			b, err := buildTx(TxSpec{Era: era, Start: start, End: end, Owner: e.owner, Script: raw, Sign: sign, TxID: e.txid}, flagged, source)
			if err != nil {
				e.rep.Dead("%s: cannot build transaction: %v", key, err)
			}
			if n := len(b.Tx.Witnesses().NativeScripts()); n != 1 {
				e.rep.Dead("%s: decoded transaction carries %d native scripts", key, n)
			}
			// a slot that is neither 0 nor the validity start: the script must not look at it
			slot := maxU - 1
			if start != nil {
				slot = *start ^ 1
			}
			var fails []RuleFailure
			ran := 0
			for i, r := range b.Rules {
				name := RuleName(r)
				if !full && !strings.Contains(name, "NativeScript") {
					continue
				}
				ran++
				if err := r(b.Tx, slot, b.LS, b.PP); err != nil {
					fails = append(fails, RuleFailure{Index: i, Rule: name, Type: fmt.Sprintf("%T", err), Err: err.Error()})
				}
			}
			if ran == 0 {
				// no rule of that name in the era's list: judge by the whole list
				fails = RunRules(b, slot)
				full = true
			}
			rejected := false
			for _, f := range fails {
				switch {
				case isScriptFailure(f):
					rejected = true
					if !strings.Contains(f.Err, hex.EncodeToString(wantHash)) {
						e.o.disagree("rulehash/"+era, false, "rulehash:"+key,
							fmt.Sprintf("%s reports script hash %q, Blake2b-224(0x00 ++ bytes) = %x", f.Rule, f.Err, wantHash), nil)
					}
				case isValidityFailure(f):
					// the interval itself is C26's subject; the slot cannot lie inside an empty interval
				case flagged && e.p2base[era][f.Rule]:
					// the factory's flagged transaction has no redeemer; the rule that says so rejects it
					// whatever script it carries (see baseline) and reads nothing the native-script rule reads
				default:
					e.rep.Dead("%s: rejected by a rule unrelated to native scripts: %+v", key, f)
				}
			}
			e.rep.Case(h64(key), true)
			holds := !rejected
			if holds != spec {
				lvl := "rule"
				if full {
					lvl = "rulefull"
				}
				what := "a transaction"
				if flagged {
					what = "a transaction flagged is_valid = false (" + source + ")"
				}
				e.o.disagree(lvl+"/"+era+"/"+m.name+"/"+enc+"/"+dev+psuf, dev != "-", key,
					fmt.Sprintf("%s rule list on %s (validity start %v, invalid-hereafter %v, witnesses %v) locked by %s: script %s, specification: %s",
						era, what, show(start), show(end), c.Keys, s.Name, okw(holds), okw(spec)),
					map[string]any{"level": "rule", "era": era, "script": s.Name, "script_cbor": hex.EncodeToString(raw), "keys": c.Keys,
						"start": show(start), "end": show(end), "spec": spec, "code": holds, "key": key,
						"p2invalid": flagged, "flag": source,
						"tx_cbor": hex.EncodeToString(b.Bytes), "failed_rules": fails})
			}
		}
	})
}

// h64 shortens a case key for the reporter's distinctness set (millions of keys).
func h64(s string) string {
	h := fnv.New64a()
	h.Write([]byte(s))
	return string(h.Sum(nil))
}

func okw(b bool) string {
	if b {
		return "holds"
	}
	return "fails"
}

// baseline: the factory's script-locked transaction passes the whole list of
// every era when the script holds, and is rejected with a native-script error
// when it does not (so the rule lists are live).
func (e *env) baseline(m tmap) {
	yes := []tok{{"a", 2}, {"g", 1}, {"l", 0}} // all []
	no := []tok{{"a", 2}, {"g", 2}, {"l", 0}}  // any []
	for _, era := range Eras[1:] {
		for ti, t := range [][]tok{yes, no} {
			raw, _ := render(t, "min", m, e.keys)
			b, err := BuildTx(TxSpec{Era: era, Owner: e.owner, Script: raw, TxID: e.txid})
			if err != nil {
				e.rep.Dead("baseline: %v", err)
			}
			f := RunRules(b, 1)
			if ti == 0 && len(f) != 0 {
				e.rep.Dead("baseline %s transaction locked by all[] is not valid: %+v", era, f)
			}
			if ti == 1 {
				if len(f) == 0 {
					e.rep.Dead("negative control: %s transaction locked by any[] passes the whole rule list", era)
				}
				for _, x := range f {
					if !isScriptFailure(x) {
						e.rep.Dead("baseline %s transaction locked by any[] rejected by an unrelated rule: %+v", era, x)
					}
				}
			}
		}
		source := e.flag[era]
		if source == "" {
			continue
		}
		// is_valid = false: apart from the script's own verdict only "marked invalid but no
		// redeemer" may reject the factory's transaction.  Whether the native-script rule
		// rejects the flagged any[] transaction is the property (judged per case, not here).
		e.p2base[era] = map[string]bool{}
		for _, t := range [][]tok{yes, no} {
			raw, _ := render(t, "min", m, e.keys)
			b, err := buildTx(TxSpec{Era: era, Owner: e.owner, Script: raw, TxID: e.txid}, true, source)
			if err != nil {
				e.rep.Dead("baseline: %v", err)
			}
			for _, slot := range []uint64{0, 1, maxU - 1} {
				for _, x := range RunRules(b, slot) {
					if isScriptFailure(x) {
						continue
					}
					if !strings.Contains(x.Rule, "IsValidFlag") {
						e.rep.Dead("baseline flagged %s transaction rejected at slot %d by an unrelated rule: %+v", era, slot, x)
					}
					e.p2base[era][x.Rule] = true
				}
			}
		}
	}
}

func c03Fixed(keys map[int]Key, m tmap) bool {
	// all[sig1] with a non-minimal head: decodes as all-of only when F-C03 is repaired
	raw, err := render([]tok{{"a", 2}, {"g", 1}, {"l", 1}, {"a", 2}, {"g", 0}, {"k", 1}}, "widehdr", m, keys)
	if err != nil {
		return false
	}
	var ns common.NativeScript
	if _, err := gcbor.Decode(raw, &ns); err != nil {
		return false
	}
	_, ok := ns.Item().(*common.NativeScriptAll)
	return ok
}

type replayCase struct {
	Level  string  `json:"level"`
	Era    string  `json:"era"`
	Script string  `json:"script"`
	Cbor   string  `json:"script_cbor"`
	Keys   []int   `json:"keys"`
	Start  *string `json:"start"`
	End    *string `json:"end"`
	Spec   bool    `json:"spec"`
	Key    string  `json:"key"`
	P2     bool    `json:"p2invalid"` // the transaction is flagged is_valid = false
	Flag   string  `json:"flag"`      // where the flag comes from (envelope | block)
}

func parseP(s *string) *uint64 {
	if s == nil {
		return nil
	}
	v, err := strconv.ParseUint(*s, 10, 64)
	if err != nil {
		return nil
	}
	return &v
}

// replayOne re-executes one recorded case from its bytes (keys come from VERIF_SEED).
func replayOne(rep *vh.Reporter, path string) {
	raw, err := os.ReadFile(path)
	if err != nil {
		rep.Dead("replay: %v", err)
	}
	var rc replayCase
	if err := json.Unmarshal(raw, &rc); err != nil || rc.Cbor == "" {
		rep.Dead("replay: not a C29 case (%v)", err)
	}
	script, err := hex.DecodeString(rc.Cbor)
	if err != nil {
		rep.Dead("replay: %v", err)
	}
	rng := rand.New(rand.NewSource(vh.Seed()))
	keys := map[int]Key{1: NewKey(rng), 2: NewKey(rng)}
	owner := NewKey(rng)
	txid := make([]byte, 32)
	rng.Read(txid)
	start, end := parseP(rc.Start), parseP(rc.End)
	rep.Case(rc.Key, true)
	var got bool
	rep.Guard(rc.Key, rc, func() {
		if rc.Level == "eval" {
			var ns common.NativeScript
			if _, err := gcbor.Decode(script, &ns); err != nil {
				rep.Dead("replay: script does not decode: %v", err)
			}
			kh := map[common.Blake2b224]bool{}
			for _, k := range rc.Keys {
				var h common.Blake2b224
				copy(h[:], keys[k].Hash)
				kh[h] = true
			}
			vs, ve := uint64(0), maxU
			if start != nil {
				vs = *start
			}
			if end != nil {
				ve = *end
			}
			got = ns.Evaluate(0, vs, ve, kh)
		} else {
			var sign []Key
			for _, k := range rc.Keys {
				sign = append(sign, keys[k])
			}
			b, err := buildTx(TxSpec{Era: rc.Era, Start: start, End: end, Owner: owner, Script: script, Sign: sign, TxID: txid}, rc.P2, rc.Flag)
			if err != nil {
				rep.Dead("replay: %v", err)
			}
			got = true
			for _, f := range RunRules(b, 0) {
				if isScriptFailure(f) {
					got = false
				}
			}
		}
		if got != rc.Spec {
			rep.Disagree(rc.Key, fmt.Sprintf("replayed %s case: script %s on the code, specification: %s", rc.Level, okw(got), okw(rc.Spec)), rc)
		}
	})
	rep.Finish()
}

func main() {
	rep := vh.NewReporter()
	if len(os.Args) == 3 && os.Args[1] == "--replay" {
		replayOne(rep, os.Args[2])
		return
	}
	if len(os.Args) < 4 {
		rep.Dead("usage: c29 <ctx.ndjson> <pairs.ndjson> <eras.ndjson> | --replay <file>")
	}
	ctxs, err := vh.ReadNDJSON[ctxRow](os.Args[1])
	if err != nil || len(ctxs) == 0 {
		rep.Dead("ctx: %v", err)
	}
	rows, err := vh.ReadNDJSON[srow](os.Args[2])
	if err != nil || len(rows) == 0 {
		rep.Dead("pairs: %v", err)
	}
	T := 0
	for _, c := range ctxs {
		if c.Start > T {
			T = c.Start
		}
	}
	for _, r := range rows {
		if len(r.V) != len(ctxs) || len(r.Vf) != len(ctxs) {
			rep.Dead("script %s has %d + %d verdicts for %d contexts", r.Name, len(r.V), len(r.Vf), len(ctxs))
		}
	}
	eras, err := vh.ReadNDJSON[eraRow](os.Args[3])
	if err != nil || len(eras) == 0 {
		rep.Dead("eras: %v", err)
	}
	// the eras whose transactions can be flagged is_valid = false, in the order of the factory's list
	flag := map[string]string{}
	for _, er := range eras {
		known, canFalse, canTrue := false, false, false
		for _, x := range Eras[1:] {
			known = known || x == er.Era
		}
		for _, b := range er.IsValid {
			canFalse = canFalse || !b
			canTrue = canTrue || b
		}
		if !known || !canTrue || canFalse != (er.Flag != "none") {
			rep.Dead("eras: cannot bind %+v", er)
		}
		if canFalse {
			flag[er.Era] = er.Flag
		}
	}
	var flaggedEras []string
	for _, x := range Eras[1:] {
		if flag[x] != "" {
			flaggedEras = append(flaggedEras, x)
		}
	}
	if len(eras) != len(Eras)-1 || len(flaggedEras) == 0 {
		rep.Dead("eras: %d rule-level eras, %d of them with a flag; the factory has %d", len(eras), len(flaggedEras), len(Eras)-1)
	}
	rng := rand.New(rand.NewSource(vh.Seed()))
	e := &env{rep: rep, ctxs: ctxs, keys: map[int]Key{1: NewKey(rng), 2: NewKey(rng)}, owner: NewKey(rng), txid: make([]byte, 32),
		flag: flag, p2base: map[string]map[string]bool{}}
	rng.Read(e.txid)
	e.o = &out{w: bufio.NewWriterSize(os.Stdout, 1<<20), counts: map[string]int{}, notes: map[string]int{}}
	maps := timeMaps(T, rng)
	for _, m := range maps {
		for i := 1; i <= T; i++ {
			if m.v[i] <= m.v[i-1] {
				rep.Dead("map %s not increasing: %v", m.name, m.v)
			}
		}
		if m.z != (m.v[0] == 0 && m.v[T] == maxU) {
			rep.Dead("map %s: z flag wrong", m.name)
		}
	}
	e.baseline(maps[0])
	thorough := vh.Tier() == "thorough"
	encs := []string{"min", "wide", "indef"}
	hdr := c03Fixed(e.keys, maps[0])
	if hdr {
		encs = append(encs, "widehdr")
	}
	rep.Extra["c29_nonminimal_script_head_checked"] = hdr
	if !hdr {
		rep.Extra["c29_note_c03"] = "scripts with a non-minimal head of their own array are skipped: they decode as the wrong kind (F-C03, property C03)"
	}

	// sampling of the expensive rule-level runs
	fullEvery, sideEvery := 16, 4
	if thorough {
		fullEvery, sideEvery = 24, 6
	}
	type job func()
	jobs := make(chan job, 256)
	var wg sync.WaitGroup
	for w := 0; w < 16; w++ {
		wg.Add(1)
		go func() {
			defer wg.Done()
			for j := range jobs {
				j()
			}
		}()
	}
	for ri := range rows {
		s := &rows[ri]
		s.Idx = ri
		jobs <- func() {
			for _, m := range maps {
				for _, enc := range encs {
					if enc != "min" && m.name != "zext" && m.name != "nz" {
						continue
					}
					e.evalLevel(s, enc, m)
				}
			}
		}
		// the three implementations of the rule, every pair
		// (depth-3 scripts, and in the thorough tier the many wide depth-2 scripts,
		// get one of the three in rotation)
		for k, era := range []string{"allegra", "conway", "dijkstra"} {
			era := era
			if (s.Depth > 2 || (thorough && s.Depth > 1)) && ri%8 != 0 && ri%3 != k {
				continue
			}
			jobs <- func() { e.ruleLevel(s, era, "min", maps[0], false, false) }
			// the same pairs on the transaction flagged is_valid = false, where the era has the flag:
			// every leaf, and in the quick tier every 2nd (Conway) / 8th (Dijkstra) of the other scripts
			if e.flag[era] != "" && (s.Depth == 1 || thorough || (era == "conway" && ri%2 == 0) || (era != "conway" && ri%8 == 1)) {
				jobs <- func() { e.ruleLevel(s, era, "min", maps[0], false, true) }
			}
		}
		// the eras that delegate, other maps and encodings: every sideEvery-th script
		if s.Depth == 1 || ri%sideEvery == 0 {
			nd := 0
			for _, era := range []string{"mary", "alonzo", "babbage"} {
				era := era
				jobs <- func() { e.ruleLevel(s, era, "min", maps[0], false, false) }
				// flagged: the delegating eras that have the flag take turns (all of them for the
				// leaves and in the thorough tier)
				if e.flag[era] != "" {
					if s.Depth == 1 || thorough || (ri/sideEvery)%2 == nd%2 {
						jobs <- func() { e.ruleLevel(s, era, "min", maps[0], false, true) }
					}
					nd++
				}
			}
			jobs <- func() {
				e.ruleLevel(s, Eras[1+ri%6], "min", maps[4], false, false)
				e.ruleLevel(s, Eras[1+(ri/2)%6], "wide", maps[1+ri%3], false, false)
				if fe := flaggedEras[ri%len(flaggedEras)]; thorough || s.Depth == 1 {
					e.ruleLevel(s, fe, "min", maps[4], false, true)
					e.ruleLevel(s, fe, "wide", maps[1+ri%3], false, true)
				}
			}
		}
		// the whole rule list, rule by rule
		if s.Depth == 1 || ri%fullEvery == 0 {
			for _, era := range Eras[1:] {
				era := era
				jobs <- func() { e.ruleLevel(s, era, "min", maps[0], true, false) }
				if e.flag[era] != "" && (s.Depth == 1 || thorough) {
					jobs <- func() { e.ruleLevel(s, era, "min", maps[0], true, true) }
				}
			}
		}
	}
	close(jobs)
	wg.Wait()

	// samples
	for _, s := range rows {
		if s.Depth == 3 && strings.Contains(s.Name, "after") && strings.Contains(s.Name, "sig") {
			raw, _ := render(s.Tok, "min", maps[0], e.keys)
			rep.Sample(map[string]any{"script": s.Name, "script_cbor": hex.EncodeToString(raw), "contexts": len(ctxs),
				"holds_in": sum(s.V), "map": maps[0].name})
			break
		}
	}
	md := map[string][]string{}
	for _, m := range maps {
		for _, v := range m.v {
			md[m.name] = append(md[m.name], strconv.FormatUint(v, 10))
		}
	}
	rep.Extra["c29_time_maps"] = md
	rep.Extra["c29_encodings"] = encs
	rep.Extra["c29_is_valid_false_eras"] = e.flag
	rep.Extra["c29_is_valid_false_set_aside"] = e.p2base
	rep.Extra["c29_disagreements_by_class"] = e.o.counts
	rep.Extra["c29_disagreements_total"] = e.o.total
	rep.Extra["c29_skipped"] = e.o.notes
	e.o.w.Flush()
	rep.Finish()
}

func sum(v []int) int {
	n := 0
	for _, x := range v {
		n += x
	}
	return n
}
