package main

import (
	"fmt"

	"github.com/blinklabs-io/gouroboros/pipeline"
)

func main() {
	p := pipeline.NewBlockPipeline()
	fmt.Println(p.PendingCount())
}
