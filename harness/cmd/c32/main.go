// c32: replays every TLC-generated collateral case (spec/ledger/Collateral.tla)
// on the real Alonzo, Babbage, Conway and Dijkstra collateral rules.
//
// For each case a real transaction of the era is built as CBOR and decoded with
// the era's own decoder, the collateral inputs (and the other inputs) are put
// into a mock ledger state as decoded outputs, and the verdict is observed at
// two places:
//
//	func  the era's exported rule functions (UtxoValidateInsufficientCollateral, ...)
//	list  every entry of the era's UtxoValidationRules, run one by one; only the
//	      four collateral error types are looked at
//
// The expected set of collateral failures is the `errors` field of the TLC row;
// nothing is decided here.  Numbers TLC cannot hold (64-bit fees) are computed
// with math/big for the boundary classes of big.ndjson.
package main

import (
	"encoding/binary"
	"errors"
	"fmt"
	"math/big"
	"math/rand"
	"os"
	"sort"
	"strings"

	"github.com/blinklabs-io/gouroboros/cbor"
	"github.com/blinklabs-io/gouroboros/ledger/alonzo"
	"github.com/blinklabs-io/gouroboros/ledger/babbage"
	"github.com/blinklabs-io/gouroboros/ledger/common"
	"github.com/blinklabs-io/gouroboros/ledger/conway"
	"github.com/blinklabs-io/gouroboros/ledger/dijkstra"
	"github.com/blinklabs-io/gouroboros/ledger/mary"
	"github.com/blinklabs-io/gouroboros/ledger/shelley"
	mockledger "github.com/blinklabs-io/ouroboros-mock/ledger"

	"verifharness/vh"
)

// ---------------------------------------------------------------- rows

type row struct {
	Style        string   `json:"style"`
	Scripts      bool     `json:"scripts"`
	Fee          int64    `json:"fee"`
	Pct          int64    `json:"pct"`
	Bal          int64    `json:"bal"`
	Ret          int64    `json:"ret"`
	NIn          int      `json:"nIn"`
	MaxColl      int      `json:"maxColl"`
	TokIn        int64    `json:"tokIn"`
	TokRet       int64    `json:"tokRet"`
	Errors       []string `json:"errors"`
	Free         []string `json:"free"`
	FloorDiffers bool     `json:"floorDiffers"`
}

type bigRow struct {
	Pct    int64 `json:"pct"`
	Rel    int64 `json:"rel"`
	Enough bool  `json:"enough"`
}

var classes = []string{"Insufficient", "NonAda", "NoCollateral", "TooMany"}

func has(xs []string, x string) bool {
	for _, y := range xs {
		if x == y {
			return true
		}
	}
	return false
}

// ---------------------------------------------------------------- tiny CBOR writer

type enc struct{ b []byte }

func (e *enc) head(major byte, n uint64) {
	switch {
	case n < 24:
		e.b = append(e.b, major<<5|byte(n))
	case n <= 0xff:
		e.b = append(e.b, major<<5|24, byte(n))
	case n <= 0xffff:
		e.b = append(e.b, major<<5|25)
		e.b = binary.BigEndian.AppendUint16(e.b, uint16(n))
	case n <= 0xffffffff:
		e.b = append(e.b, major<<5|26)
		e.b = binary.BigEndian.AppendUint32(e.b, uint32(n))
	default:
		e.b = append(e.b, major<<5|27)
		e.b = binary.BigEndian.AppendUint64(e.b, n)
	}
}
func (e *enc) uint(n uint64)  { e.head(0, n) }
func (e *enc) bytes(b []byte) { e.head(2, uint64(len(b))); e.b = append(e.b, b...) }
func (e *enc) array(n int)    { e.head(4, uint64(n)) }
func (e *enc) mapn(n int)     { e.head(5, uint64(n)) }
func (e *enc) tag(n uint64)   { e.head(6, n) }
func (e *enc) bool(v bool) {
	if v {
		e.b = append(e.b, 0xf5)
	} else {
		e.b = append(e.b, 0xf4)
	}
}
func (e *enc) null()                   { e.b = append(e.b, 0xf6) }
func (e *enc) raw(b []byte)            { e.b = append(e.b, b...) }
func (e *enc) input(id []byte, ix int) { e.array(2); e.bytes(id); e.uint(uint64(ix)) }

// ---------------------------------------------------------------- concrete case

// conc is the concrete transaction-level content of one case: everything the
// four rules read.
type conc struct {
	fee      uint64
	pct      uint
	maxColl  uint
	scripts  bool
	collAda  []uint64 // ada of each collateral input
	collTok  []uint64 // token quantity of each collateral input
	hasRet   bool
	retAda   uint64
	retTok   uint64
	isValid  bool
	redMap   bool // Conway-style redeemer map (else legacy array)
	retMap   bool // collateral return in post-Alonzo map format
	oldOuts  bool // collateral UTxOs are older-era outputs (Shelley / Mary)
	emptyMA  bool // token-free collateral outputs are encoded as [coin, {}]
	setTags  bool // tag-258 sets (Conway and later)
	ppConway bool // Dijkstra rules driven with *conway.ConwayProtocolParameters
}

var (
	policy    = bytesOf(28, 0xA1)
	assetName = []byte("verif")
	payAddr   = append([]byte{0x61}, bytesOf(28, 0x11)...) // enterprise key address, mainnet
	collTxId  = bytesOf(32, 0xC0)
	spendTxId = bytesOf(32, 0x5E)
)

func bytesOf(n int, v byte) []byte {
	b := make([]byte, n)
	for i := range b {
		b[i] = v
	}
	return b
}

func encValue(e *enc, ada, tok uint64, emptyMA bool) {
	if tok == 0 && !emptyMA {
		e.uint(ada)
		return
	}
	e.array(2)
	e.uint(ada)
	if tok == 0 {
		e.mapn(0)
		return
	}
	e.mapn(1)
	e.bytes(policy)
	e.mapn(1)
	e.bytes(assetName)
	e.uint(tok)
}

func encOutput(ada, tok uint64, asMap, emptyMA bool) []byte {
	e := &enc{}
	if asMap {
		e.mapn(2)
		e.uint(0)
		e.bytes(payAddr)
		e.uint(1)
		encValue(e, ada, tok, emptyMA)
	} else {
		e.array(2)
		e.bytes(payAddr)
		encValue(e, ada, tok, emptyMA)
	}
	return e.b
}

func (c *conc) txCbor(era *eraDef) []byte {
	b := &enc{}
	n := 4
	if len(c.collAda) > 0 {
		n++
	}
	if c.hasRet {
		n++
	}
	b.mapn(n)
	b.uint(0)
	if c.setTags {
		b.tag(258)
	}
	b.array(1)
	b.input(spendTxId, 0)
	b.uint(1)
	b.array(1)
	b.raw(encOutput(2_000_000, 0, era.style == "babbage", false))
	b.uint(2)
	b.uint(c.fee)
	b.uint(3)
	b.uint(1_000_000) // ttl
	if len(c.collAda) > 0 {
		b.uint(13)
		if c.setTags {
			b.tag(258)
		}
		b.array(len(c.collAda))
		for i := range c.collAda {
			b.input(collTxId, i)
		}
	}
	if c.hasRet {
		b.uint(16)
		b.raw(encOutput(c.retAda, c.retTok, c.retMap, false))
	}
	w := &enc{}
	if c.scripts {
		w.mapn(1)
		w.uint(5)
		if c.redMap {
			w.mapn(1)
			w.array(2)
			w.uint(0)
			w.uint(0)
			w.array(2)
			w.uint(42)
			w.array(2)
			w.uint(1000)
			w.uint(1000)
		} else {
			w.array(1)
			w.array(4)
			w.uint(0)
			w.uint(0)
			w.uint(42)
			w.array(2)
			w.uint(1000)
			w.uint(1000)
		}
	} else {
		w.mapn(0)
	}
	t := &enc{}
	t.array(4)
	t.raw(b.b)
	t.raw(w.b)
	t.bool(c.isValid)
	t.null()
	return t.b
}

// ---------------------------------------------------------------- eras

type ruleFn = common.UtxoValidationRuleFunc

type eraDef struct {
	name     string
	style    string
	decodeTx func([]byte) (common.Transaction, error)
	// decodeOut decodes a UTxO entry of this era (the newest output format the era knows)
	decodeOut    func([]byte) (common.TransactionOutput, error)
	outAsMap     bool
	pparams      func(c *conc) common.ProtocolParameters
	rules        []ruleFn
	direct       map[string]ruleFn
	conwayish    bool // redeemer map and tag-258 sets exist
	redMapOnly   bool // legacy redeemer array is not decodable (Dijkstra)
	canBeInvalid bool
}

func eras() []*eraDef {
	return []*eraDef{
		{
			name: "alonzo", style: "alonzo",
			decodeTx: func(b []byte) (common.Transaction, error) { return alonzo.NewAlonzoTransactionFromCbor(b) },
			decodeOut: func(b []byte) (common.TransactionOutput, error) {
				return alonzo.NewAlonzoTransactionOutputFromCbor(b)
			},
			pparams: func(c *conc) common.ProtocolParameters {
				return &alonzo.AlonzoProtocolParameters{CollateralPercentage: c.pct, MaxCollateralInputs: c.maxColl}
			},
			rules: alonzo.UtxoValidationRules,
			direct: map[string]ruleFn{
				"Insufficient": alonzo.UtxoValidateInsufficientCollateral,
				"NonAda":       alonzo.UtxoValidateCollateralContainsNonAda,
				"NoCollateral": alonzo.UtxoValidateNoCollateralInputs,
			},
			canBeInvalid: true,
		},
		{
			name: "babbage", style: "babbage",
			decodeTx: func(b []byte) (common.Transaction, error) { return babbage.NewBabbageTransactionFromCbor(b) },
			decodeOut: func(b []byte) (common.TransactionOutput, error) {
				return babbage.NewBabbageTransactionOutputFromCbor(b)
			},
			outAsMap: true,
			pparams: func(c *conc) common.ProtocolParameters {
				return &babbage.BabbageProtocolParameters{CollateralPercentage: c.pct, MaxCollateralInputs: c.maxColl}
			},
			rules: babbage.UtxoValidationRules,
			direct: map[string]ruleFn{
				"Insufficient": babbage.UtxoValidateInsufficientCollateral,
				"NonAda":       babbage.UtxoValidateCollateralContainsNonAda,
				"NoCollateral": babbage.UtxoValidateNoCollateralInputs,
				"TooMany":      babbage.UtxoValidateTooManyCollateralInputs,
			},
			canBeInvalid: true,
		},
		{
			name: "conway", style: "babbage",
			decodeTx: func(b []byte) (common.Transaction, error) { return conway.NewConwayTransactionFromCbor(b) },
			decodeOut: func(b []byte) (common.TransactionOutput, error) {
				return babbage.NewBabbageTransactionOutputFromCbor(b)
			},
			outAsMap: true,
			pparams: func(c *conc) common.ProtocolParameters {
				return &conway.ConwayProtocolParameters{
					CollateralPercentage: c.pct, MaxCollateralInputs: c.maxColl,
					ProtocolVersion: common.ProtocolParametersProtocolVersion{Major: 10},
				}
			},
			rules: conway.UtxoValidationRules,
			direct: map[string]ruleFn{
				"Insufficient": conway.UtxoValidateInsufficientCollateral,
				"NonAda":       conway.UtxoValidateCollateralContainsNonAda,
				"NoCollateral": conway.UtxoValidateNoCollateralInputs,
				"TooMany":      conway.UtxoValidateTooManyCollateralInputs,
			},
			conwayish: true, canBeInvalid: true,
		},
		{
			name: "dijkstra", style: "babbage",
			decodeTx: func(b []byte) (common.Transaction, error) { return dijkstra.NewDijkstraTransactionFromCbor(b) },
			decodeOut: func(b []byte) (common.TransactionOutput, error) {
				var o dijkstra.DijkstraTransactionOutput
				if _, err := cbor.Decode(b, &o); err != nil {
					return nil, err
				}
				return &o, nil
			},
			outAsMap: true,
			pparams: func(c *conc) common.ProtocolParameters {
				cp := conway.ConwayProtocolParameters{
					CollateralPercentage: c.pct, MaxCollateralInputs: c.maxColl,
					ProtocolVersion: common.ProtocolParametersProtocolVersion{Major: 12},
				}
				if c.ppConway {
					return &cp
				}
				return &dijkstra.DijkstraProtocolParameters{ConwayProtocolParameters: cp}
			},
			rules: dijkstra.UtxoValidationRules,
			direct: map[string]ruleFn{
				"Insufficient": dijkstra.UtxoValidateInsufficientCollateral,
				"NonAda":       dijkstra.UtxoValidateCollateralContainsNonAda,
				"NoCollateral": dijkstra.UtxoValidateNoCollateralInputs,
				"TooMany":      dijkstra.UtxoValidateTooManyCollateralInputs,
			},
			conwayish: true, redMapOnly: true,
		},
	}
}

func classify(err error) string {
	if err == nil {
		return ""
	}
	var e1 alonzo.InsufficientCollateralError
	var e2 alonzo.CollateralContainsNonAdaError
	var e3 alonzo.NoCollateralInputsError
	var e4 babbage.TooManyCollateralInputsError
	switch {
	case errors.As(err, &e1):
		return "Insufficient"
	case errors.As(err, &e2):
		return "NonAda"
	case errors.As(err, &e3):
		return "NoCollateral"
	case errors.As(err, &e4):
		return "TooMany"
	}
	return "other"
}

// ---------------------------------------------------------------- execution

type obs struct {
	fn      map[string]string // class -> "", class, or "other:<msg>"
	list    map[string]bool   // collateral classes raised by some entry of the rule list
	panics  []string
	listLen int
}

func (c *conc) ledgerState(era *eraDef) (common.LedgerState, error) {
	utxos := []common.Utxo{}
	addOut := func(id []byte, ix int, raw []byte, old bool, tok uint64) error {
		var out common.TransactionOutput
		var err error
		if old {
			if tok == 0 && !c.emptyMA {
				out, err = shelley.NewShelleyTransactionOutputFromCbor(raw)
			} else {
				out, err = mary.NewMaryTransactionOutputFromCbor(raw)
			}
		} else {
			out, err = era.decodeOut(raw)
		}
		if err != nil {
			return err
		}
		utxos = append(utxos, common.Utxo{
			Id:     shelley.NewShelleyTransactionInput(fmt.Sprintf("%x", id), ix),
			Output: out,
		})
		return nil
	}
	for i := range c.collAda {
		asMap := era.outAsMap && !c.oldOuts && i%2 == 0
		raw := encOutput(c.collAda[i], c.collTok[i], asMap, c.emptyMA)
		if err := addOut(collTxId, i, raw, c.oldOuts, c.collTok[i]); err != nil {
			return nil, fmt.Errorf("collateral utxo %d: %w", i, err)
		}
	}
	if err := addOut(spendTxId, 0, encOutput(5_000_000, 0, false, false), false, 0); err != nil {
		return nil, err
	}
	return mockledger.NewLedgerStateBuilder().WithUtxos(utxos).Build(), nil
}

func run(rep *vh.Reporter, era *eraDef, c *conc, key string, replay map[string]any) *obs {
	raw := c.txCbor(era)
	replay["tx_cbor"] = fmt.Sprintf("%x", raw)
	tx, err := era.decodeTx(raw)
	if err != nil {
		rep.Dead("%s: cannot decode the transaction built for %s: %v (%x)", era.name, key, err, raw)
	}
	// the decoded transaction must say what the case says, otherwise the
	// harness is not testing what it claims
	if got := len(tx.Collateral()); got != len(c.collAda) {
		rep.Dead("%s %s: decoded tx has %d collateral inputs, built %d", era.name, key, got, len(c.collAda))
	}
	if tx.Fee() == nil || !tx.Fee().IsUint64() || tx.Fee().Uint64() != c.fee {
		rep.Dead("%s %s: decoded fee %v, built %d", era.name, key, tx.Fee(), c.fee)
	}
	if (tx.CollateralReturn() != nil) != c.hasRet {
		rep.Dead("%s %s: decoded collateral return presence %v, built %v", era.name, key, tx.CollateralReturn() != nil, c.hasRet)
	}
	if tx.IsValid() != c.isValid {
		rep.Dead("%s %s: decoded isValid %v, built %v", era.name, key, tx.IsValid(), c.isValid)
	}
	ls, err := c.ledgerState(era)
	if err != nil {
		rep.Dead("%s %s: ledger state: %v", era.name, key, err)
	}
	pp := era.pparams(c)
	o := &obs{fn: map[string]string{}, list: map[string]bool{}, listLen: len(era.rules)}
	rep.Guard(key, replay, func() {
		for cl, f := range era.direct {
			e := f(tx, 100, ls, pp)
			k := classify(e)
			if k == "other" {
				k = "other:" + e.Error()
			}
			o.fn[cl] = k
		}
	})
	for i, r := range era.rules {
		func() {
			defer func() {
				if p := recover(); p != nil {
					o.panics = append(o.panics, fmt.Sprintf("rule[%d]: %v", i, p))
				}
			}()
			if k := classify(r(tx, 100, ls, pp)); k != "" && k != "other" {
				o.list[k] = true
			}
		}()
	}
	return o
}

func retStr(r *row) string {
	if r.Ret < 0 {
		return "-"
	}
	return fmt.Sprint(r.Ret)
}

func b2i(b bool) int {
	if b {
		return 1
	}
	return 0
}

// split distributes total over n parts (all but the last get total/n).
func split(total *big.Int, n int) ([]uint64, bool) {
	if n == 0 {
		return nil, total.Sign() == 0
	}
	out := make([]uint64, n)
	q := new(big.Int).Div(total, big.NewInt(int64(n)))
	rest := new(big.Int).Set(total)
	for i := 0; i < n-1; i++ {
		if !q.IsUint64() {
			return nil, false
		}
		out[i] = q.Uint64()
		rest.Sub(rest, q)
	}
	if !rest.IsUint64() {
		return nil, false
	}
	out[n-1] = rest.Uint64()
	return out, true
}

// reporter state: disagreements are keyed by the failing input projected on
// the variables the violated predicate reads (era, fee, pct, balance[, return]
// for the inequality; number of inputs and maximum for the count; ...). Other
// variants of the same projection are counted, not reported again.
type reports struct {
	rep      *vh.Reporter
	seen     map[string]int
	variants map[string][]string
	observed map[string]int // behaviour outside the property's statement, reported in the evidence only
}

func (rs *reports) disagree(key, caseKey, desc string, replay map[string]any) {
	rs.seen[key]++
	if rs.seen[key] > 1 {
		if len(rs.variants[key]) < 4 {
			rs.variants[key] = append(rs.variants[key], caseKey)
		}
		return
	}
	// replay objects become files when the disagreement is not a listed
	// finding: attach them to the first 60 keys of a process and to every 10th
	// after that
	var rp any
	if len(rs.seen) <= 60 || len(rs.seen)%10 == 0 {
		rp = replay
	}
	rs.rep.Disagree(key, desc+" [case "+caseKey+"]", rp)
}

// projKey is the disagreement key of class cl for row r.
func projKey(era string, r *row, cl string, scale *big.Int) string {
	switch cl {
	case "Insufficient":
		k := fmt.Sprintf("era=%s:fee=%d:pct=%d:bal=%d", era, r.Fee, r.Pct, r.Bal)
		if r.Ret > 0 {
			k += fmt.Sprintf(":ret=%d", r.Ret)
		}
		if scale != nil && scale.Cmp(big.NewInt(1)) != 0 {
			k += fmt.Sprintf(":x=%v", scale)
		}
		return k
	case "NonAda":
		return fmt.Sprintf("era=%s:tok=%d/%d:ret=%s", era, r.TokIn, r.TokRet, map[bool]string{false: "none", true: "present"}[r.Ret >= 0])
	case "NoCollateral":
		return fmt.Sprintf("era=%s:n=%d", era, r.NIn)
	case "TooMany":
		return fmt.Sprintf("era=%s:n=%d:max=%d", era, r.NIn, r.MaxColl)
	}
	return "era=" + era
}

func compare(rs *reports, era *eraDef, want func(cl string) (bool, bool), keyOf func(cl string) string, o *obs, caseKey string, replay map[string]any) {
	if len(o.panics) > 0 {
		// a panic of an unrelated rule on this (deliberately incomplete)
		// transaction is not a statement of C32; it is recorded
		replay["list_panics"] = o.panics
	}
	for _, cl := range classes {
		w, constrained := want(cl)
		if !constrained {
			continue
		}
		key := keyOf(cl)
		var got []string
		if f, ok := o.fn[cl]; ok {
			if f != "" && f != cl {
				// the rule function failed for a reason that is not its own
				// condition: a rejection the property does not talk about. It is
				// recorded; for the verdict the function did not raise cl.
				rs.observed["rule function of "+cl+" failed with something else: "+strings.SplitN(f, ":", 2)[0]]++
				f = ""
			}
			if (f == cl) != w {
				got = append(got, "func")
			}
		}
		if o.list[cl] != w {
			got = append(got, "list")
		}
		if len(got) == 0 {
			continue
		}
		if w {
			rs.disagree(key+":miss="+cl, caseKey, fmt.Sprintf("spec demands %s, %s does not raise it (observed at: %s)", cl, era.name, strings.Join(got, ",")), replay)
		} else {
			rs.disagree(key+":extra="+cl, caseKey, fmt.Sprintf("spec does not allow %s, %s raises it (observed at: %s)", cl, era.name, strings.Join(got, ",")), replay)
		}
	}
}

// variant picks the dimensions the four predicates do not depend on.
func variant(c *conc, era *eraDef, rng *rand.Rand) {
	c.isValid = !era.canBeInvalid || rng.Intn(3) > 0
	c.redMap = era.conwayish && (rng.Intn(2) == 0 || era.redMapOnly)
	c.setTags = era.conwayish && rng.Intn(2) == 0
	c.retMap = rng.Intn(2) == 0
	c.oldOuts = rng.Intn(4) == 0
	c.ppConway = era.name == "dijkstra" && rng.Intn(2) == 0
}

func main() {
	rep := vh.NewReporter()
	if len(os.Args) < 4 {
		rep.Dead("usage: c32 <era> amount|return|shape|big <file.ndjson>")
	}
	var era *eraDef
	for _, e := range eras() {
		if e.name == os.Args[1] {
			era = e
		}
	}
	if era == nil {
		rep.Dead("unknown era %q", os.Args[1])
	}
	rng := rand.New(rand.NewSource(vh.Seed()*7919 + int64(len(era.name))))
	rs := &reports{rep: rep, seen: map[string]int{}, variants: map[string][]string{}, observed: map[string]int{}}
	freeSeen := map[string]int{}
	mode := os.Args[2]
	switch mode {
	case "amount", "return", "shape":
		grid(rep, rs, era, rng, os.Args[3], freeSeen)
	case "big":
		bigs(rep, rs, era, rng, os.Args[3])
	default:
		rep.Dead("unknown slice %q", mode)
	}
	collapsed, extraCases := 0, 0
	for _, n := range rs.seen {
		if n > 1 {
			collapsed++
			extraCases += n - 1
		}
	}
	tag := era.name + "/" + mode
	if len(freeSeen) > 0 {
		rep.Extra["free_cases_observed "+tag] = freeSeen
	}
	if len(rs.observed) > 0 {
		rep.Extra["observed_outside_the_property "+tag] = rs.observed
	}
	if collapsed > 0 {
		rep.Extra["disagreement_keys_with_further_cases "+tag] = fmt.Sprintf("%d keys stand for %d further cases (same projection, other #inputs / scale / encoding)", collapsed, extraCases)
	}
	rep.Extra["observation_points"] = "exported rule functions and every entry of <era>.UtxoValidationRules, on transactions decoded from CBOR by the era's decoder"
	rep.Finish()
}

func baseName(p string) string {
	if i := strings.LastIndex(p, "/"); i >= 0 {
		return p[i+1:]
	}
	return p
}

func grid(rep *vh.Reporter, rs *reports, era *eraDef, rng *rand.Rand, path string, freeSeen map[string]int) {
	rows, err := vh.ReadNDJSON[row](path)
	if err != nil || len(rows) == 0 {
		rep.Dead("cases %s: %v (%d rows)", path, err, len(rows))
	}
	// TLC's SetToSeq order is not part of the contract: fix the order
	sort.SliceStable(rows, func(i, j int) bool { return rowKey(&rows[i]) < rowKey(&rows[j]) })
	scales := []*big.Int{big.NewInt(1), big.NewInt(1000003), new(big.Int).Lsh(big.NewInt(1), 58)}
	sampled := 0
	ran := 0
	for ri := range rows {
		r := &rows[ri]
		if r.Style != era.style {
			continue
		}
		// the grid is replayed at 64-bit magnitudes too where only amounts matter
		// (invariant Homogeneous of the spec: the verdict is the same)
		// (cases with an ada return have their 64-bit representatives in big.ndjson)
		amountOnly := r.Scripts && r.TokIn == 0 && r.TokRet == 0 && r.NIn >= 1 && r.NIn <= r.MaxColl && r.Ret <= 0
		for vi, m := range append(scales, nil) {
			// the last pass repeats scale 1 with token-free collateral UTxOs
			// encoded as [coin, {}] (an empty multi-asset map is still ada-only)
			ema := m == nil
			si := vi
			if ema {
				if r.TokIn != 0 || r.NIn == 0 {
					continue
				}
				m, si = scales[0], 0
			}
			if si > 0 && !amountOnly {
				continue
			}
			c := &conc{emptyMA: ema,
				pct: uint(r.Pct), maxColl: uint(r.MaxColl), scripts: r.Scripts,
				hasRet: r.Ret >= 0,
			}
			fee := new(big.Int).Mul(big.NewInt(r.Fee), m)
			sum := new(big.Int).Mul(big.NewInt(r.Bal), m)
			if r.Ret > 0 {
				rt := new(big.Int).Mul(big.NewInt(r.Ret), m)
				if !rt.IsUint64() {
					rep.Dead("return does not fit 64 bits: %+v scale %v", *r, m)
				}
				sum.Add(sum, rt)
				c.retAda = rt.Uint64()
			}
			parts, ok := split(sum, r.NIn)
			if !ok || !fee.IsUint64() {
				rep.Dead("case does not fit 64 bits: %+v scale %v", *r, m)
			}
			c.fee = fee.Uint64()
			c.collAda = parts
			c.collTok = make([]uint64, r.NIn)
			// tokens: one unit per input from the front, the rest on the first
			left := uint64(r.TokIn)
			for i := 0; i < r.NIn && left > 0; i++ {
				c.collTok[i] = 1
				left--
			}
			if r.NIn > 0 {
				c.collTok[0] += left
			}
			c.retTok = uint64(r.TokRet)
			variant(c, era, rng)

			caseKey := fmt.Sprintf("era=%s:fee=%d:pct=%d:bal=%d:ret=%s:n=%d:max=%d:tok=%d/%d:s=%d",
				era.name, r.Fee, r.Pct, r.Bal, retStr(r), r.NIn, r.MaxColl, r.TokIn, r.TokRet, b2i(r.Scripts))
			if si > 0 {
				caseKey += fmt.Sprintf(":x=%v", m)
			}
			if ema {
				caseKey += ":ema=1"
			}
			replay := map[string]any{"row": *r, "era": era.name, "scale": m.String(), "concrete": fmt.Sprintf("%+v", *c)}
			o := run(rep, era, c, caseKey, replay)
			ran++
			rep.Case(caseKey, r.Scripts)
			compare(rs, era, func(cl string) (bool, bool) {
				if ema && cl == "NonAda" {
					// C32 states what an accepted transaction must satisfy. Whether
					// an ada-only value written as [coin, {}] is also accepted as
					// collateral is not part of it: observed, never a disagreement.
					if o.list[cl] || o.fn[cl] == cl {
						rs.observed["ada-only collateral encoded as [coin, {}] rejected as non-ada"]++
					} else {
						rs.observed["ada-only collateral encoded as [coin, {}] accepted"]++
					}
					return false, false
				}
				if has(r.Free, cl) {
					if o.list[cl] {
						freeSeen[cl+":raised"]++
					} else {
						freeSeen[cl+":not-raised"]++
					}
					return false, false
				}
				return has(r.Errors, cl), true
			}, func(cl string) string {
				k := projKey(era.name, r, cl, m)
				if ema && cl == "NonAda" {
					k += ":ema=1" // only the token predicate reads the encoding of the value
				}
				return k
			}, o, caseKey, replay)
			if sampled < 2 && r.Scripts && r.FloorDiffers && r.NIn == 2 && si == 0 && !ema {
				sampled++
				rep.Sample(map[string]any{"case": caseKey, "spec_errors": r.Errors, "func": o.fn, "list": keys(o.list), "tx": replay["tx_cbor"]})
			}
		}
	}
	if ran == 0 {
		rep.Extra["no_rows "+era.name+" "+baseName(path)] = "slice has no case of this era's style"
	}
}

func bigs(rep *vh.Reporter, rs *reports, era *eraDef, rng *rand.Rand, path string) {
	rows, err := vh.ReadNDJSON[bigRow](path)
	if err != nil || len(rows) == 0 {
		rep.Dead("big %s: %v (%d rows)", path, err, len(rows))
	}
	sort.SliceStable(rows, func(i, j int) bool {
		if rows[i].Pct != rows[j].Pct {
			return rows[i].Pct < rows[j].Pct
		}
		return rows[i].Rel < rows[j].Rel
	})
	// 64-bit boundary classes: balance = ceil(fee*pct/100) + rel
	bigFees := []uint64{1<<32 + 1, 1_000_000_000_007, 1<<63 - 1, 1 << 63, 1<<64 - 1}
	const bigRet = uint64(1<<40 + 3)
	for _, br := range rows {
		for _, f := range bigFees {
			need := new(big.Int).Mul(new(big.Int).SetUint64(f), big.NewInt(br.Pct))
			need.Add(need, big.NewInt(99))
			need.Div(need, big.NewInt(100))
			bal := new(big.Int).Add(need, big.NewInt(br.Rel))
			if bal.Sign() < 0 {
				continue
			}
			for _, withRet := range []bool{false, true} {
				if withRet && era.style != "babbage" {
					continue
				}
				c := &conc{fee: f, pct: uint(br.Pct), maxColl: 3, scripts: true, hasRet: withRet}
				sum := new(big.Int).Set(bal)
				if withRet {
					c.retAda = bigRet
					sum.Add(sum, new(big.Int).SetUint64(c.retAda))
				}
				parts, ok := split(sum, 3)
				if !ok {
					rep.Dead("big case does not fit: fee %d pct %d", f, br.Pct)
				}
				c.collAda = parts
				c.collTok = make([]uint64, 3)
				variant(c, era, rng)
				c.oldOuts = false
				key := fmt.Sprintf("era=%s:fee=%d:pct=%d:rel=%d", era.name, f, br.Pct, br.Rel)
				if withRet {
					key += fmt.Sprintf(":ret=%d", bigRet)
				}
				replay := map[string]any{"big": br, "era": era.name, "concrete": fmt.Sprintf("%+v", *c), "balance": bal.String()}
				o := run(rep, era, c, key, replay)
				rep.Case(key, true)
				compare(rs, era, func(cl string) (bool, bool) {
					if cl == "Insufficient" {
						return !br.Enough, true
					}
					return false, true
				}, func(cl string) string { return key }, o, key, replay)
			}
		}
	}
}

func keys(m map[string]bool) []string {
	out := []string{}
	for k, v := range m {
		if v {
			out = append(out, k)
		}
	}
	sort.Strings(out)
	return out
}

func rowKey(r *row) string {
	return fmt.Sprintf("%s|%v|%03d|%03d|%03d|%03d|%d|%d|%d|%d", r.Style, r.Scripts, r.Fee, r.Pct, r.Bal, r.Ret+1, r.NIn, r.MaxColl, r.TokIn, r.TokRet)
}
