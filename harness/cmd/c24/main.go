// c24: replays the behaviours TLC generated from spec/net/TxSubmission.tla on
// the real tx-submission mini-protocol.
//
//	kind "hist": an API call history of the inbound side. A real
//	  txsubmission.Server and a real txsubmission.Client talk over two real
//	  muxers joined by an in-memory pipe; the driver calls
//	  Server.RequestTxIds / RequestTxs as the row says, the Client's callbacks
//	  answer with the TLC-chosen number of ids (or ErrStopServerProcess). After
//	  every call the driver compares with the row: the call's result, whether a
//	  RequestTxIds message was put on the wire, the (blocking, ack, req) values
//	  that travelled (bytes the server enqueued, bytes the client's engine
//	  received, and the arguments the client callback saw), and whether Done was
//	  sent.
//	kind "out": one request of a raw inbound peer (hand-made CBOR, any uint64
//	  counts) against the real Client; compared: did the application see the
//	  request (with exactly those values), what came back on the wire, did the
//	  protocol instance report an error.
//
// Abstract counts 0..Limit+1 are mapped monotonically onto
// 0, 1, mid, 65535, 65536.. (mid seeded), -1 onto negative ints. The verdict
// always comes from the row.
package main

import (
	"encoding/json"
	"errors"
	"fmt"
	"hash/fnv"
	"math"
	"math/rand"
	"os"
	"strings"
	"sync"
	"sync/atomic"
	"time"

	"github.com/blinklabs-io/gouroboros/cbor"
	"github.com/blinklabs-io/gouroboros/muxer"
	"github.com/blinklabs-io/gouroboros/protocol"
	"github.com/blinklabs-io/gouroboros/protocol/txsubmission"

	"verifharness/netx"
	"verifharness/vh"
)

// ---------------------------------------------------------------- rows

type call struct {
	Op       string `json:"op,omitempty"`
	Blocking bool   `json:"blocking"`
	Req      int    `json:"req"`
	Ans      int    `json:"ans"`
	N        int    `json:"n"`
	Ack      int    `json:"ack"` // kind "out" only
}

type exp struct {
	// kind "hist"
	Res  string `json:"res,omitempty"`
	Wire bool   `json:"wire"`
	Ack  int    `json:"ack"`
	Req  int    `json:"req"`
	Done bool   `json:"done"`
	N    int    `json:"n"`
	// kind "out"
	Cb    bool   `json:"cb"`
	Reply string `json:"reply,omitempty"`
	Err   bool   `json:"err"`
}

type entry struct {
	C call `json:"c"`
	E exp  `json:"e"`
}

type row struct {
	Kind  string  `json:"kind"`
	Limit int     `json:"limit"`
	Steps []entry `json:"steps"`
	Rseed *int64  `json:"rseed,omitempty"` // replay: force the concretisation seed
	Rep   *int    `json:"rep,omitempty"`   // replay (kind out): force the representative
}

func bl(b bool) string {
	if b {
		return "b"
	}
	return "nb"
}

func (c call) String() string {
	switch c.Op {
	case "txs":
		return fmt.Sprintf("txs(%d)", c.N)
	case "ids":
		a := fmt.Sprint(c.Ans)
		if c.Ans < 0 {
			a = "stop"
		}
		return fmt.Sprintf("ids(%s,req=%d,ans=%s)", bl(c.Blocking), c.Req, a)
	}
	a := fmt.Sprint(c.Ans)
	if c.Ans < 0 {
		a = "stop"
	}
	return fmt.Sprintf("wire(%s,ack=%d,req=%d,ans=%s)", bl(c.Blocking), c.Ack, c.Req, a)
}

func histKey(steps []entry, upto int) string {
	parts := make([]string, 0, upto+1)
	for i := 0; i <= upto && i < len(steps); i++ {
		parts = append(parts, steps[i].C.String())
	}
	return strings.Join(parts, ";")
}

// ---------------------------------------------------------------- concretisation

const wireLimit = 65535

type conc struct {
	limit    int
	midCount int   // concrete value of abstract reply counts strictly between 1 and Limit
	midReq   int   // the same for req arguments
	negReq   int   // concrete value of req = -1
	overReq  int   // concrete value of req = Limit+1
	overWire uint64 // kind "out": concrete value of an over-limit wire count
	midWire  uint64
}

var midReqs = []int{2, 3, 255, 256, 1000, 32767, 32768, 65534}
var negReqs = []int{-1, -2, -65535, -65536, math.MinInt32, math.MinInt64}
var overReqs = []int{65536, 65537, 131071, 1 << 31, 1 << 32, math.MaxInt64}
var overWires = []uint64{65536, 65537, 1<<32 - 1, 1 << 32, 1 << 63, math.MaxUint64}
var midWires = []uint64{2, 256, 65534}

func newConc(limit int, rng *rand.Rand, big bool) *conc {
	c := &conc{limit: limit}
	c.midCount = 2 + rng.Intn(30)
	if !big && rng.Intn(12) == 0 {
		c.midCount = 300 + rng.Intn(3000)
	}
	c.midReq = midReqs[rng.Intn(len(midReqs))]
	if rng.Intn(3) == 0 {
		c.midReq = 2 + rng.Intn(wireLimit-2)
	}
	c.negReq = negReqs[rng.Intn(len(negReqs))]
	c.overReq = overReqs[rng.Intn(len(overReqs))]
	return c
}

// count maps an abstract reply / ack count (0..Limit+1) to the concrete one.
func (c *conc) count(v int) int {
	switch {
	case v <= 1:
		return v
	case v < c.limit:
		return c.midCount + (v - 2) // monotone; Limit = 3 has a single middle value
	case v == c.limit:
		return wireLimit
	default:
		return wireLimit + 1 + (v - c.limit - 1)
	}
}

// req maps an abstract req argument (-1..Limit+1).
func (c *conc) req(v int) int {
	switch {
	case v < 0:
		return c.negReq
	case v <= 1:
		return v
	case v < c.limit:
		return c.midReq + (v - 2)
	case v == c.limit:
		return wireLimit
	default:
		return c.overReq
	}
}

func (c *conc) wire(v int) uint64 {
	switch {
	case v <= 1:
		return uint64(v)
	case v < c.limit:
		return c.midWire
	case v == c.limit:
		return wireLimit
	default:
		return c.overWire
	}
}

// ---------------------------------------------------------------- observation of the engine (build tag verif)

type wireReq struct {
	Blocking bool
	Ack, Req uint64
	raw      string
}

func decodeReq(b []byte) (wireReq, error) {
	var raw []cbor.RawMessage
	if _, err := cbor.Decode(b, &raw); err != nil {
		return wireReq{}, err
	}
	if len(raw) != 4 {
		return wireReq{}, fmt.Errorf("RequestTxIds with %d fields", len(raw))
	}
	var w wireReq
	var t uint64
	if _, err := cbor.Decode(raw[0], &t); err != nil || t != txsubmission.MessageTypeRequestTxIds {
		return wireReq{}, fmt.Errorf("not a RequestTxIds message")
	}
	if _, err := cbor.Decode(raw[1], &w.Blocking); err != nil {
		return wireReq{}, err
	}
	if _, err := cbor.Decode(raw[2], &w.Ack); err != nil {
		return wireReq{}, err
	}
	if _, err := cbor.Decode(raw[3], &w.Req); err != nil {
		return wireReq{}, err
	}
	w.raw = string(b)
	return w, nil
}

type cbArgs struct {
	Blocking bool
	Ack, Req uint16
}

// watch is what the tracers and callbacks record for the conversation that is
// currently running (conversations run one at a time in this process).
type watch struct {
	mu       sync.Mutex
	srvEnq   [][]byte // RequestTxIds messages the server's engine accepted for sending
	cliIn    [][]byte // RequestTxIds messages the client's engine decoded from the wire
	cliDone  int      // Done messages the client's engine accepted for sending
	errTexts []string
	cbs      []cbArgs
	txsSeen  []int
	doneFunc int
	srvMux   *muxer.Muxer
	reg      atomic.Int32 // registrations of protocol 4 (responder) on the server's muxer
}

var cur atomic.Pointer[watch]

func protoTracer(p *protocol.Protocol, e protocol.VerifEvent) {
	if e.Name != txsubmission.ProtocolName {
		return
	}
	w := cur.Load()
	if w == nil {
		return
	}
	switch {
	case e.Ev == "Enq" && e.Role == protocol.ProtocolRoleServer && e.MsgType == txsubmission.MessageTypeRequestTxIds:
		w.mu.Lock()
		w.srvEnq = append(w.srvEnq, append([]byte(nil), e.Data...))
		w.mu.Unlock()
	case e.Ev == "MsgIn" && e.Role == protocol.ProtocolRoleClient && e.MsgType == txsubmission.MessageTypeRequestTxIds:
		w.mu.Lock()
		w.cliIn = append(w.cliIn, append([]byte(nil), e.Data...))
		w.mu.Unlock()
	case e.Ev == "Enq" && e.Role == protocol.ProtocolRoleClient && e.MsgType == txsubmission.MessageTypeDone:
		w.mu.Lock()
		w.cliDone++
		w.mu.Unlock()
	case e.Ev == "Error":
		w.mu.Lock()
		w.errTexts = append(w.errTexts, e.S1)
		w.mu.Unlock()
	}
}

func muxTracer(m *muxer.Muxer, e muxer.VerifEvent) {
	w := cur.Load()
	if w == nil || m != w.srvMux {
		return
	}
	if e.Ev == "Reg" && e.ProtoId == txsubmission.ProtocolId && e.Role == muxer.ProtocolRoleResponder {
		w.reg.Add(1)
	}
}

// ---------------------------------------------------------------- shared data

var (
	idPool   []txsubmission.TxIdAndSize
	bodyPool []txsubmission.TxBody
	txIdPool []txsubmission.TxId
)

func initPools(seed int64) {
	rng := rand.New(rand.NewSource(seed))
	idPool = make([]txsubmission.TxIdAndSize, wireLimit+1)
	for i := range idPool {
		idPool[i].TxId.EraId = uint16(rng.Intn(7))
		rng.Read(idPool[i].TxId.TxId[:])
		idPool[i].Size = uint32(rng.Intn(16384))
	}
	for i := 0; i < 8; i++ {
		bodyPool = append(bodyPool, txsubmission.TxBody{EraId: uint16(i % 7), TxBody: []byte{0x82, byte(i), 0x00}})
		txIdPool = append(txIdPool, idPool[i].TxId)
	}
}

const longWait = 120 * time.Second

type deadErr struct{ msg string }

func errWatch(ch chan error, m *muxer.Muxer, n *atomic.Int32) {
	go func() {
		for range ch {
			n.Add(1)
			m.Stop()
		}
	}()
}

func loadInduced(w *watch) bool {
	w.mu.Lock()
	defer w.mu.Unlock()
	for _, t := range w.errTexts {
		if strings.Contains(t, "timeout waiting on transition") {
			return true
		}
	}
	return false
}

// ---------------------------------------------------------------- kind "hist": real Server against real Client

type pairConv struct {
	w          *watch
	ma, mb     *muxer.Muxer
	cli        *txsubmission.Client
	srv        *txsubmission.Server
	errA, errB chan error
	nErrA      atomic.Int32
	nErrB      atomic.Int32
	initCh     chan struct{}
	ansMu      sync.Mutex
	ans        int // concrete number of ids the next callback returns; <0: stop
	txsN       int
}

func newPair(seed int64, fragment bool) *pairConv {
	pc := &pairConv{w: &watch{}, initCh: make(chan struct{}, 16)}
	pc.ma, pc.mb, _, _ = netx.MuxPair(seed, fragment)
	pc.w.srvMux = pc.mb
	cur.Store(pc.w)
	pc.errA, pc.errB = make(chan error, 10), make(chan error, 10)
	errWatch(pc.errA, pc.ma, &pc.nErrA)
	errWatch(pc.errB, pc.mb, &pc.nErrB)
	cliCfg := txsubmission.NewConfig(
		txsubmission.WithRequestTxIdsFunc(func(_ txsubmission.CallbackContext, blocking bool, ack uint16, req uint16) ([]txsubmission.TxIdAndSize, error) {
			pc.w.mu.Lock()
			pc.w.cbs = append(pc.w.cbs, cbArgs{blocking, ack, req})
			pc.w.mu.Unlock()
			pc.ansMu.Lock()
			k := pc.ans
			pc.ansMu.Unlock()
			if k < 0 {
				return nil, txsubmission.ErrStopServerProcess
			}
			return idPool[:k], nil
		}),
		txsubmission.WithRequestTxsFunc(func(_ txsubmission.CallbackContext, ids []txsubmission.TxId) ([]txsubmission.TxBody, error) {
			pc.w.mu.Lock()
			pc.w.txsSeen = append(pc.w.txsSeen, len(ids))
			pc.w.mu.Unlock()
			pc.ansMu.Lock()
			k := pc.txsN
			pc.ansMu.Unlock()
			return bodyPool[:k], nil
		}),
	)
	srvCfg := txsubmission.NewConfig(
		txsubmission.WithInitFunc(func(txsubmission.CallbackContext) error {
			pc.initCh <- struct{}{}
			return nil
		}),
		txsubmission.WithDoneFunc(func(txsubmission.CallbackContext) error {
			pc.w.mu.Lock()
			pc.w.doneFunc++
			pc.w.mu.Unlock()
			return nil
		}),
	)
	pc.cli = txsubmission.NewClient(protocol.ProtocolOptions{
		ConnectionId: netx.ConnId("c24-outbound"), Muxer: pc.ma, ErrorChan: pc.errA,
		Mode: protocol.ProtocolModeNodeToNode, Role: protocol.ProtocolRoleClient,
	}, &cliCfg)
	pc.srv = txsubmission.NewServer(protocol.ProtocolOptions{
		ConnectionId: netx.ConnId("c24-inbound"), Muxer: pc.mb, ErrorChan: pc.errB,
		Mode: protocol.ProtocolModeNodeToNode, Role: protocol.ProtocolRoleServer,
	}, &srvCfg)
	return pc
}

func (pc *pairConv) open() *deadErr {
	pc.srv.Start()
	pc.cli.Start()
	pc.ma.Start()
	pc.mb.Start()
	pc.cli.Init()
	select {
	case <-pc.initCh:
		return nil
	case <-time.After(longWait):
		return &deadErr{"the server never saw Init"}
	}
}

// reopen: after Done the server has restarted its protocol instance; the
// outbound side starts a new conversation on the same connection.
func (pc *pairConv) reopen(wantReg int32) *deadErr {
	deadline := time.Now().Add(longWait)
	for pc.w.reg.Load() < wantReg {
		if time.Now().After(deadline) {
			return &deadErr{"the server did not re-register after Done"}
		}
		time.Sleep(200 * time.Microsecond)
	}
	if err := pc.cli.Stop(); err != nil {
		return &deadErr{"client stop: " + err.Error()}
	}
	pc.cli.Start()
	pc.cli.Init()
	select {
	case <-pc.initCh:
		return nil
	case <-time.After(longWait):
		return &deadErr{"the restarted server never saw Init"}
	}
}

// settle is called before an unexpected early return of a call is reported: if
// the library is about to panic (the peer's answer meets a result channel that
// was closed under it) the crash must be the report, not a follow-up symptom.
func (pc *pairConv) settle() {
	select {
	case <-pc.srv.ProtocolInstance().DoneChan():
	case <-time.After(3 * time.Second):
	}
	time.Sleep(50 * time.Millisecond)
}

func (pc *pairConv) close() {
	_ = pc.cli.Stop()
	pc.srv.Stop()
	pc.ma.Stop()
	pc.mb.Stop()
	for _, ch := range []<-chan struct{}{pc.srv.ProtocolInstance().DoneChan()} {
		select {
		case <-ch:
		case <-time.After(5 * time.Second):
		}
	}
	cur.Store(nil)
}

type idsResult struct {
	ids []txsubmission.TxIdAndSize
	txs []txsubmission.TxBody
	err error
}

func classify(err error) string {
	switch {
	case err == nil:
		return "ids"
	case errors.Is(err, protocol.ErrProtocolViolationRequestExceeded):
		return "refused"
	case errors.Is(err, txsubmission.ErrStopServerProcess):
		return "stopped"
	default:
		return "aborted"
	}
}

type mismatch struct {
	field, desc string
}

// runHist replays one history; it returns the index of the failing step and what differed.
func runHist(r *row, rng *rand.Rand, rep *vh.Reporter) (int, *mismatch, *deadErr, map[string]any) {
	big := false
	for _, s := range r.Steps {
		if s.C.Op == "ids" && s.C.Ans >= r.Limit {
			big = true
		}
	}
	cc := newConc(r.Limit, rng, big)
	info := map[string]any{"mid_count": cc.midCount, "mid_req": cc.midReq, "neg_req": cc.negReq, "over_req": cc.overReq}
	fragment := !big && rng.Intn(2) == 0
	info["fragment"] = fragment
	pc := newPair(rng.Int63(), fragment)
	defer pc.close()
	if d := pc.open(); d != nil {
		return 0, nil, d, info
	}
	w := pc.w
	wantDone := 0
	regs := int32(1)
	for i, s := range r.Steps {
		w.mu.Lock()
		enq0, in0, cb0, txs0 := len(w.srvEnq), len(w.cliIn), len(w.cbs), len(w.txsSeen)
		w.mu.Unlock()
		resCh := make(chan idsResult, 1)
		switch s.C.Op {
		case "txs":
			pc.ansMu.Lock()
			pc.txsN = s.C.N
			pc.ansMu.Unlock()
			go func() {
				txs, err := pc.srv.RequestTxs(txIdPool[:s.C.N])
				resCh <- idsResult{txs: txs, err: err}
			}()
		case "ids":
			pc.ansMu.Lock()
			if s.C.Ans < 0 {
				pc.ans = -1
			} else {
				pc.ans = cc.count(s.C.Ans)
			}
			pc.ansMu.Unlock()
			req := cc.req(s.C.Req)
			go func() {
				ids, err := pc.srv.RequestTxIds(s.C.Blocking, req)
				resCh <- idsResult{ids: ids, err: err}
			}()
		default:
			return i, nil, &deadErr{"unknown op " + s.C.Op}, info
		}
		var res idsResult
		select {
		case res = <-resCh:
		case <-time.After(longWait):
			return i, nil, &deadErr{fmt.Sprintf("call %s did not return within %s", s.C, longWait)}, info
		}
		if loadInduced(w) {
			return i, nil, &deadErr{"a protocol state timeout fired (machine overloaded): not a verdict"}, info
		}
		w.mu.Lock()
		enq := append([][]byte(nil), w.srvEnq[enq0:]...)
		in := append([][]byte(nil), w.cliIn[in0:]...)
		cbs := append([]cbArgs(nil), w.cbs[cb0:]...)
		txsSeen := append([]int(nil), w.txsSeen[txs0:]...)
		w.mu.Unlock()

		if s.C.Op == "txs" {
			if res.err != nil {
				pc.settle()
				return i, &mismatch{"result", fmt.Sprintf("RequestTxs(%d ids) failed: %v", s.C.N, res.err)}, nil, info
			}
			if len(res.txs) != s.E.N || len(txsSeen) != 1 || txsSeen[0] != s.C.N {
				pc.settle()
				return i, &mismatch{"result", fmt.Sprintf("RequestTxs(%d ids): outbound side saw %v, %d bodies came back, specification says %d", s.C.N, txsSeen, len(res.txs), s.E.N)}, nil, info
			}
			if len(enq) != 0 {
				return i, &mismatch{"wire", "RequestTxs put a RequestTxIds message on the wire"}, nil, info
			}
			continue
		}

		got := classify(res.err)
		// whether and what was sent
		if s.E.Wire != (len(enq) == 1) {
			if len(enq) > 1 {
				return i, &mismatch{"wire", fmt.Sprintf("%d RequestTxIds messages sent by one call", len(enq))}, nil, info
			}
			if s.E.Wire {
				return i, &mismatch{"wire", fmt.Sprintf("specification: the request (ack=%d, req=%d) goes on the wire; the server sent nothing and returned %q (%v)", cc.count(s.E.Ack), cc.req(s.E.Req), got, res.err)}, nil, info
			}
			wr, _ := decodeReq(enq[0])
			return i, &mismatch{"wire", fmt.Sprintf("specification: refused locally, nothing sent; the server sent blocking=%v ack=%d req=%d for RequestTxIds(%v, %d)", wr.Blocking, wr.Ack, wr.Req, s.C.Blocking, cc.req(s.C.Req))}, nil, info
		}
		if s.E.Wire {
			wr, err := decodeReq(enq[0])
			if err != nil {
				return i, &mismatch{"wire", "undecodable RequestTxIds sent: " + err.Error()}, nil, info
			}
			wantAck, wantReq := uint64(cc.count(s.E.Ack)), uint64(cc.req(s.E.Req))
			if wr.Ack != wantAck {
				return i, &mismatch{"ack", fmt.Sprintf("ack on the wire is %d, specification says %d (abstract %d)", wr.Ack, wantAck, s.E.Ack)}, nil, info
			}
			if wr.Req != wantReq {
				return i, &mismatch{"req", fmt.Sprintf("req on the wire is %d, specification says %d (abstract %d)", wr.Req, wantReq, s.E.Req)}, nil, info
			}
			if wr.Blocking != s.C.Blocking {
				return i, &mismatch{"blocking", fmt.Sprintf("blocking on the wire is %v, called with %v", wr.Blocking, s.C.Blocking)}, nil, info
			}
			if wr.Ack > wireLimit || wr.Req > wireLimit {
				return i, &mismatch{"range", fmt.Sprintf("count outside 0..65535 on the wire: ack=%d req=%d", wr.Ack, wr.Req)}, nil, info
			}
			// what travelled is what the outbound side received and showed its application
			if len(in) != 1 || string(in[0]) != wr.raw {
				return i, &mismatch{"travel", fmt.Sprintf("the outbound engine received %d RequestTxIds messages (expected exactly the one sent)", len(in))}, nil, info
			}
			if len(cbs) != 1 || cbs[0].Blocking != wr.Blocking || uint64(cbs[0].Ack) != wr.Ack || uint64(cbs[0].Req) != wr.Req {
				return i, &mismatch{"callback", fmt.Sprintf("the outbound application saw %+v for wire request %+v", cbs, wr)}, nil, info
			}
		} else if len(cbs) != 0 || len(in) != 0 {
			return i, &mismatch{"wire", "a refused call reached the outbound side"}, nil, info
		}
		// the call's result
		if got != s.E.Res {
			if s.E.Res == "stopped" && got == "aborted" {
				// the property does not demand that Done can be sent; only that it is sent for blocking requests only
				pc.settle()
				w.mu.Lock()
				sent := w.cliDone
				w.mu.Unlock()
				if sent == wantDone {
					n, _ := rep.Extra["silent_done_refused"].(int)
					rep.Extra["silent_done_refused"] = n + 1
					return -1, nil, nil, info
				}
			}
			if got == "aborted" {
				// an abort nobody asked for: if the library is about to panic (the reply meets a
				// channel that was closed under it) let the crash be the report, not this line
				pc.settle()
			}
			return i, &mismatch{"result", fmt.Sprintf("RequestTxIds(%v, %d) returned %q (%v), specification says %q", s.C.Blocking, cc.req(s.C.Req), got, res.err, s.E.Res)}, nil, info
		}
		if got == "ids" && len(res.ids) != cc.count(s.E.N) {
			return i, &mismatch{"result", fmt.Sprintf("RequestTxIds returned %d ids, the outbound side replied %d", len(res.ids), cc.count(s.E.N))}, nil, info
		}
		// Done
		if s.E.Done {
			wantDone++
		}
		switch s.E.Res {
		case "stopped":
			regs++
			if d := pc.reopen(regs); d != nil {
				if loadInduced(w) {
					d = &deadErr{"a protocol state timeout fired (machine overloaded): not a verdict"}
				}
				return i, nil, d, info
			}
		case "aborted":
			// let both sides wind down before counting Done messages
			select {
			case <-pc.srv.ProtocolInstance().DoneChan():
			case <-time.After(longWait):
				return i, nil, &deadErr{"the inbound side did not stop after the abort"}, info
			}
		}
		w.mu.Lock()
		doneFunc, cliDone := w.doneFunc, w.cliDone
		w.mu.Unlock()
		if doneFunc != wantDone || cliDone != wantDone {
			return i, &mismatch{"done", fmt.Sprintf("Done messages sent by the outbound side: %d, seen by the inbound side: %d, specification says %d (Done answers blocking requests only)", cliDone, doneFunc, wantDone)}, nil, info
		}
		if s.E.Res != "aborted" && (pc.nErrA.Load() != 0 || pc.nErrB.Load() != 0) {
			w.mu.Lock()
			t := strings.Join(w.errTexts, " | ")
			w.mu.Unlock()
			return i, &mismatch{"error", "protocol error although the specification predicts none: " + t}, nil, info
		}
		if s.E.Res == "aborted" {
			break
		}
	}
	return -1, nil, nil, info
}

// ---------------------------------------------------------------- kind "out": raw inbound peer against the real Client

var outReps = 6

func runOut(r *row, rng *rand.Rand, repIdx int) (*mismatch, *deadErr, map[string]any) {
	s := r.Steps[0]
	cc := newConc(r.Limit, rng, false)
	cc.overWire = overWires[repIdx%len(overWires)]
	cc.midWire = midWires[repIdx%len(midWires)]
	ack, req := cc.wire(s.C.Ack), cc.wire(s.C.Req)
	nIds := 0
	if s.C.Ans > 0 {
		nIds = cc.count(s.C.Ans)
	}
	info := map[string]any{"ack": fmt.Sprint(ack), "req": fmt.Sprint(req), "rep": repIdx}

	w := &watch{}
	ma, mb, _, _ := netx.MuxPair(rng.Int63(), rng.Intn(2) == 0)
	cur.Store(w)
	defer cur.Store(nil)
	errA := make(chan error, 10)
	var nErrA atomic.Int32
	errSig := make(chan struct{}, 10)
	go func() {
		for range errA {
			nErrA.Add(1)
			errSig <- struct{}{}
			ma.Stop()
		}
	}()
	go func() {
		for range mb.ErrorChan() {
		}
	}()
	cbCh := make(chan cbArgs, 4)
	cfg := txsubmission.NewConfig(
		txsubmission.WithRequestTxIdsFunc(func(_ txsubmission.CallbackContext, blocking bool, a uint16, q uint16) ([]txsubmission.TxIdAndSize, error) {
			cbCh <- cbArgs{blocking, a, q}
			if s.C.Ans < 0 {
				return nil, txsubmission.ErrStopServerProcess
			}
			return idPool[:nIds], nil
		}),
		txsubmission.WithRequestTxsFunc(func(txsubmission.CallbackContext, []txsubmission.TxId) ([]txsubmission.TxBody, error) {
			return nil, nil
		}),
	)
	cli := txsubmission.NewClient(protocol.ProtocolOptions{
		ConnectionId: netx.ConnId("c24-outbound"), Muxer: ma, ErrorChan: errA,
		Mode: protocol.ProtocolModeNodeToNode, Role: protocol.ProtocolRoleClient,
	}, &cfg)
	sendCh, recvCh, _ := mb.RegisterProtocol(txsubmission.ProtocolId, muxer.ProtocolRoleResponder)
	defer func() {
		_ = cli.Stop()
		ma.Stop()
		mb.Stop()
	}()
	cli.Start()
	ma.Start()
	mb.Start()
	cli.Init()

	// reassembly of what the client writes
	var buf []byte
	nextMsg := func(d time.Duration, alsoErr bool) (int, []cbor.RawMessage, string) {
		timer := time.After(d)
		for {
			if len(buf) > 0 {
				var raw []cbor.RawMessage
				if n, err := cbor.Decode(buf, &raw); err == nil && len(raw) > 0 {
					buf = buf[n:]
					var t uint64
					if _, err := cbor.Decode(raw[0], &t); err != nil {
						return -1, nil, "garbage"
					}
					return int(t), raw, ""
				}
			}
			var es chan struct{}
			if alsoErr {
				es = errSig
			}
			select {
			case seg, ok := <-recvCh:
				if !ok {
					return -1, nil, "closed"
				}
				buf = append(buf, seg.Payload...)
			case <-es:
				return -1, nil, "error"
			case <-timer:
				return -1, nil, "timeout"
			}
		}
	}
	if t, _, why := nextMsg(longWait, true); t != txsubmission.MessageTypeInit {
		return nil, &deadErr{"raw peer did not receive Init: " + why}, info
	}
	msg, err := cbor.Encode([]any{uint64(txsubmission.MessageTypeRequestTxIds), s.C.Blocking, ack, req})
	if err != nil {
		return nil, &deadErr{"encode: " + err.Error()}, info
	}
	info["cbor"] = fmt.Sprintf("%x", msg)
	select {
	case sendCh <- muxer.NewSegment(txsubmission.ProtocolId, msg, true):
	case <-time.After(longWait):
		return nil, &deadErr{"raw peer could not write"}, info
	}
	// either the application sees the request or the instance reports an error
	sawCb := false
	var args cbArgs
	select {
	case args = <-cbCh:
		sawCb = true
	case <-errSig:
	case <-time.After(longWait):
		return nil, &deadErr{"neither callback nor error after the raw request"}, info
	}
	if sawCb != s.E.Cb {
		if sawCb {
			return &mismatch{"callback", fmt.Sprintf("the application was shown ack=%d req=%d for a wire request with ack=%d req=%d, which exceeds the limits", args.Ack, args.Req, ack, req)}, nil, info
		}
		return &mismatch{"callback", fmt.Sprintf("in-range request ack=%d req=%d was refused", ack, req)}, nil, info
	}
	reply, n, gotErr := "none", 0, !sawCb
	if sawCb {
		if args.Blocking != s.C.Blocking || uint64(args.Ack) != ack || uint64(args.Req) != req {
			return &mismatch{"callback", fmt.Sprintf("the application saw %+v for wire request blocking=%v ack=%d req=%d", args, s.C.Blocking, ack, req)}, nil, info
		}
		t, raw, why := nextMsg(longWait, true)
		switch {
		case t == txsubmission.MessageTypeReplyTxIds:
			reply = "ids"
			var ids []txsubmission.TxIdAndSize
			if len(raw) == 2 {
				if _, err := cbor.Decode(raw[1], &ids); err != nil {
					return nil, &deadErr{"raw peer cannot decode the reply: " + err.Error()}, info
				}
			}
			n = len(ids)
		case t == txsubmission.MessageTypeDone:
			reply = "done"
		case why == "error" || why == "closed":
			gotErr = true
		case why == "timeout":
			return nil, &deadErr{"neither reply nor error after the callback"}, info
		default:
			reply = fmt.Sprintf("type%d", t)
		}
	}
	if loadInduced(w) {
		return nil, &deadErr{"a protocol state timeout fired (machine overloaded): not a verdict"}, info
	}
	if gotErr {
		// collect whatever was written before the connection went down
		_ = cli.Stop()
		ma.Stop()
		mb.Stop()
		if t, _, _ := nextMsg(10*time.Second, false); t >= 0 {
			reply = fmt.Sprintf("type%d", t)
			if t == txsubmission.MessageTypeDone {
				reply = "done"
			} else if t == txsubmission.MessageTypeReplyTxIds {
				reply = "ids"
			}
		}
	} else if nErrA.Load() > 0 {
		gotErr = true
	}
	wantN := 0
	if s.E.Reply == "ids" {
		wantN = nIds
	}
	if reply != s.E.Reply || n != wantN {
		return &mismatch{"reply", fmt.Sprintf("reply on the wire: %s (%d ids), specification says %s (%d ids)", reply, n, s.E.Reply, wantN)}, nil, info
	}
	if gotErr != s.E.Err {
		return &mismatch{"error", fmt.Sprintf("protocol error reported: %v, specification says %v", gotErr, s.E.Err)}, nil, info
	}
	return nil, nil, info
}

// ---------------------------------------------------------------- main

func rowSeed(seed int64, r *row) int64 {
	if r.Rseed != nil {
		return *r.Rseed
	}
	h := fnv.New64a()
	fmt.Fprintf(h, "%d|%s|%s", seed, r.Kind, histKey(r.Steps, len(r.Steps)))
	return int64(h.Sum64() >> 1)
}

func main() {
	rep := vh.NewReporter()
	defer rep.Finish()
	if len(os.Args) < 2 {
		rep.Dead("usage: c24 rows.ndjson...")
	}
	protocol.VerifTracer = protoTracer
	// The property is about counts, not about time: stretch the mini-protocol's
	// state timeouts (10 s for a non-blocking reply) so that a reply of 65536 ids
	// on an overloaded machine is not cut short. A timeout that fires anyway is
	// reported as a machinery failure, never as a verdict.
	for st, e := range txsubmission.StateMap {
		if e.Timeout > 0 {
			e.Timeout *= 60
			txsubmission.StateMap[st] = e
		}
	}
	muxer.VerifTracer = muxTracer
	seed := vh.Seed()
	initPools(seed)
	var rows []row
	for _, p := range os.Args[1:] {
		raw, err := vh.ReadNDJSON[json.RawMessage](p)
		if err != nil {
			rep.Dead("read %s: %v", p, err)
		}
		for _, b := range raw {
			var s string
			if json.Unmarshal(b, &s) == nil { // a JSON string holding the row
				b = []byte(s)
			}
			var r row
			if err := json.Unmarshal(b, &r); err != nil {
				rep.Dead("row in %s: %v", p, err)
			}
			if r.Limit < 2 || len(r.Steps) == 0 {
				rep.Dead("row in %s has no limit / steps", p)
			}
			rows = append(rows, r)
		}
	}
	maxLen, outRuns := 0, 0
	for ri := range rows {
		if rep.Disagreements() >= 25 {
			// the tree is violating; more of the same only floods the replay directory
			rep.Extra["stopped_after_25_disagreements"] = true
			break
		}
		r := &rows[ri]
		rs := rowSeed(seed, r)
		switch r.Kind {
		case "hist":
			key := "hist:" + histKey(r.Steps, len(r.Steps))
			rep.Case(key, true)
			if len(r.Steps) > maxLen {
				maxLen = len(r.Steps)
			}
			var at int
			var mm *mismatch
			var dead *deadErr
			var info map[string]any
			replay := map[string]any{"row": r, "verif_seed": fmt.Sprint(seed), "rseed": rs}
			rep.Guard(key, replay, func() {
				at, mm, dead, info = runHist(r, rand.New(rand.NewSource(rs)), rep)
			})
			if dead != nil {
				rep.Dead("%s: %s", key, dead.msg)
			}
			if mm != nil {
				replay["concrete"] = info
				replay["failing_step"] = at
				rep.Disagree(fmt.Sprintf("hist:%s:%s", histKey(r.Steps, at), mm.field),
					fmt.Sprintf("step %d %s: %s", at+1, r.Steps[at].C, mm.desc), replay)
				rep.Finish() // flush: a later crash of the process must not lose this line
			} else if ri%97 == 0 {
				rep.Sample(map[string]any{"kind": "hist", "history": histKey(r.Steps, len(r.Steps)), "concrete": info,
					"expected_last": map[string]any{"res": r.Steps[len(r.Steps)-1].E.Res, "wire": r.Steps[len(r.Steps)-1].E.Wire,
						"ack": r.Steps[len(r.Steps)-1].E.Ack, "req": r.Steps[len(r.Steps)-1].E.Req, "done": r.Steps[len(r.Steps)-1].E.Done}})
			}
		case "out":
			s := r.Steps[0]
			key := "out:" + s.C.String()
			rep.Case(key, true)
			reps := []int{0, 1, 2}
			if s.C.Ack > r.Limit || s.C.Req > r.Limit {
				reps = []int{0, 1, 2, 3, 4, 5}
			}
			if r.Rep != nil {
				reps = []int{*r.Rep}
			}
			for _, k := range reps {
				outRuns++
				var mm *mismatch
				var dead *deadErr
				var info map[string]any
				replay := map[string]any{"row": r, "verif_seed": fmt.Sprint(seed), "rseed": rs, "rep": k}
				rep.Guard(key, replay, func() {
					mm, dead, info = runOut(r, rand.New(rand.NewSource(rs+int64(k))), k)
				})
				if dead != nil {
					rep.Dead("%s: %s", key, dead.msg)
				}
				if mm != nil {
					replay["concrete"] = info
					rep.Disagree(fmt.Sprintf("%s:%s", key, mm.field), fmt.Sprintf("%s (concrete %v): %s", s.C, info, mm.desc), replay)
					rep.Finish() // flush
					break
				} else if ri%41 == 0 && k == len(reps)-1 {
					rep.Sample(map[string]any{"kind": "out", "request": s.C.String(), "concrete": info,
						"expected": map[string]any{"cb": s.E.Cb, "reply": s.E.Reply, "err": s.E.Err, "n": s.E.N}})
				}
			}
		default:
			rep.Dead("unknown row kind %q", r.Kind)
		}
	}
	add := func(k string, v int) {
		n, _ := rep.Extra[k].(int)
		rep.Extra[k] = n + v
	}
	add("behaviours_completed_by_driver_processes", len(rows))
	add("raw_peer_conversations", outRuns)
	if maxLen > 0 {
		rep.Extra["longest_history"] = maxLen
	}
	rep.Extra["silent"] = "a blocking request with req = 0, replies with more ids than requested, and whether Done can actually be sent are outside the property; the engine's state-timeout errors are treated as machinery failures"
}
