package main

// The clients' Stop() paths (spec/net/ClientStop.tla) on real Connections.
//
// The driver is the user of the model: it performs the scenario's steps, each one when the library has come to
// rest (every library goroutine parked, nothing changing; a goroutine in time.Sleep - chain-sync Stop's TryLock
// loop, WaitSendQueueDrained - is not at rest).  "parked" needs the two-dump evidence of where().

import (
	"fmt"
	"strings"
	"sync/atomic"
	"time"

	ouroboros "github.com/blinklabs-io/gouroboros"
	"github.com/blinklabs-io/gouroboros/ledger"
	"github.com/blinklabs-io/gouroboros/protocol"
	"github.com/blinklabs-io/gouroboros/protocol/blockfetch"
	"github.com/blinklabs-io/gouroboros/protocol/chainsync"
	pcommon "github.com/blinklabs-io/gouroboros/protocol/common"
	"github.com/blinklabs-io/gouroboros/protocol/keepalive"
	"github.com/blinklabs-io/gouroboros/protocol/txsubmission"
)

type stopClient struct {
	conn     string
	pid      uint16
	pkg      string // package of the client (needles)
	stopFunc string // the function a parked Stop sits in
	callFunc string
	patience time.Duration // how long Stop may legitimately take before it is looked at (chain-sync: 5 s TryLock + 250 ms)
}

var stopClients = map[string]stopClient{
	"chainsync":         {"ntc", 5, "chainsync", "/protocol/chainsync.(*Client).Stop", "/protocol/chainsync.(*Client).Sync", 9 * time.Second},
	"blockfetch":        {"ntn", 3, "blockfetch", "/protocol/blockfetch.(*Client).Stop", "/protocol/blockfetch.(*Client).GetBlock", 3 * time.Second},
	"txsubmission":      {"ntn", 4, "txsubmission", "/protocol/txsubmission.(*Client).Stop", "", 2 * time.Second},
	"localtxmonitor":    {"ntc", 9, "localtxmonitor", "/protocol/localtxmonitor.(*Client).Stop", "/protocol/localtxmonitor.(*Client).HasTx", 2 * time.Second},
	"localtxsubmission": {"ntc", 6, "localtxsubmission", "/protocol/localtxsubmission.(*Client).Stop", "/protocol/localtxsubmission.(*Client).SubmitTx", 2 * time.Second},
	"localstatequery":   {"ntc", 7, "localstatequery", "/protocol.(*Protocol).Stop", "/protocol/localstatequery.(*Client).GetCurrentEra", 2 * time.Second},
	"keepalive":         {"ntn", 8, "keepalive", "/protocol.(*Protocol).Stop", "", 2 * time.Second},
	"peersharing":       {"ntn", 10, "peersharing", "/protocol.(*Protocol).Stop", "/protocol/peersharing.(*Client).GetPeers", 2 * time.Second},
}

func (r *caseRun) runStop(w *lifeRow, lr *lifeReport) (map[string]any, string) {
	sc, ok := stopClients[w.Client]
	if !ok {
		return nil, "unknown client " + w.Client
	}
	r.base = map[int]bool{}
	for id := range snapshot() {
		r.base[id] = true
	}
	// ---- callbacks that can be held
	entered := make(chan struct{}, 4)
	releaseCb := make(chan struct{})
	var cbReleased atomic.Bool
	held := func() {
		select {
		case entered <- struct{}{}:
		default:
		}
		<-releaseCb
	}
	hold := w.Scenario == "handler"
	csCfg := chainsync.NewConfig(
		chainsync.WithRollForwardFunc(func(chainsync.CallbackContext, uint, any, chainsync.Tip) error {
			if hold {
				held()
			}
			return nil
		}),
		chainsync.WithRollBackwardFunc(func(chainsync.CallbackContext, pcommon.Point, chainsync.Tip) error { return nil }),
		chainsync.WithIntersectTimeout(longTimeout), chainsync.WithBlockTimeout(longTimeout),
		chainsync.WithPipelineLimit(2), // F-C21-stopfull needs a limit above the send queue: not the subject here
	)
	bfCfg, err := blockfetch.NewConfig(
		blockfetch.WithBlockFunc(func(blockfetch.CallbackContext, uint, ledger.Block) error {
			if hold {
				held()
			}
			return nil
		}),
		blockfetch.WithBatchDoneFunc(func(blockfetch.CallbackContext) error { return nil }),
		blockfetch.WithBatchStartTimeout(longTimeout), blockfetch.WithBlockTimeout(longTimeout),
	)
	if err != nil {
		return nil, "blockfetch config: " + err.Error()
	}
	txCfg := txsubmission.NewConfig(
		txsubmission.WithInitFunc(func(txsubmission.CallbackContext) error { return nil }),
		txsubmission.WithDoneFunc(func(txsubmission.CallbackContext) error { return nil }),
		txsubmission.WithRequestTxIdsFunc(func(txsubmission.CallbackContext, bool, uint16, uint16) ([]txsubmission.TxIdAndSize, error) {
			if hold {
				held()
			}
			return nil, nil
		}),
		txsubmission.WithRequestTxsFunc(func(txsubmission.CallbackContext, []txsubmission.TxId) ([]txsubmission.TxBody, error) {
			return nil, nil
		}),
	)
	kaCfg := keepalive.NewConfig(keepalive.WithPeriod(longTimeout), keepalive.WithTimeout(longTimeout),
		keepalive.WithKeepAliveResponseFunc(func(keepalive.CallbackContext, uint16) error {
			if hold && w.Client == "keepalive" {
				held()
			}
			return nil
		}))
	// requests the raw peer waits for before it plays its part of the scenario
	var reqTypes []uint
	switch {
	case hold && w.Client == "chainsync":
		reqTypes = []uint{chainsync.MessageTypeFindIntersect, chainsync.MessageTypeRequestNext}
	case hold && w.Client == "blockfetch":
		reqTypes = []uint{blockfetch.MessageTypeRequestRange}
	case hold && w.Client == "txsubmission":
		reqTypes = []uint{txsubmission.MessageTypeInit}
	case w.Scenario == "blocked":
		reqTypes = []uint{map[string]uint{"chainsync": chainsync.MessageTypeFindIntersect, "blockfetch": blockfetch.MessageTypeRequestRange,
			"localtxmonitor": 1, "localtxsubmission": 0, "localstatequery": 8, "peersharing": 0}[w.Client]}
	}
	lc, why := r.lifeConnect(sc.conn, sc.pid, reqTypes, nil,
		ouroboros.WithChainSyncConfig(csCfg), ouroboros.WithBlockFetchConfig(bfCfg), ouroboros.WithTxSubmissionConfig(txCfg),
		ouroboros.WithKeepAliveConfig(kaCfg))
	defer lc.cleanup()
	defer func() {
		if cbReleased.CompareAndSwap(false, true) {
			close(releaseCb)
		}
	}()
	if why != "" {
		return nil, why
	}
	c := lc.conn
	pt := pcommon.NewPoint(r.fx.slot, r.fx.hash)

	var proto *protocol.Protocol
	var stop func() error
	var call func() error
	switch w.Client {
	case "chainsync":
		proto, stop = c.ChainSync().Client.ProtocolInstance(), c.ChainSync().Client.Stop
		call = func() error { return c.ChainSync().Client.Sync([]pcommon.Point{intersectPoint}) }
	case "blockfetch":
		proto, stop = c.BlockFetch().Client.ProtocolInstance(), c.BlockFetch().Client.Stop
		call = func() error { _, err := c.BlockFetch().Client.GetBlock(pt); return err }
	case "txsubmission":
		proto, stop = c.TxSubmission().Client.ProtocolInstance(), c.TxSubmission().Client.Stop
	case "localtxmonitor":
		proto, stop = c.LocalTxMonitor().Client.Protocol, c.LocalTxMonitor().Client.Stop
		call = func() error { _, err := c.LocalTxMonitor().Client.HasTx(fill(32, 0x22)); return err }
	case "localtxsubmission":
		proto, stop = c.LocalTxSubmission().Client.Protocol, c.LocalTxSubmission().Client.Stop
		call = func() error { return c.LocalTxSubmission().Client.SubmitTx(6, []byte{0x84, 0xa0, 0xa0, 0xf5, 0xf6}) }
	case "localstatequery":
		proto = c.LocalStateQuery().Client.Protocol
		stop = func() error { c.LocalStateQuery().Client.Stop(); return nil }
		call = func() error { _, err := c.LocalStateQuery().Client.GetCurrentEra(); return err }
	case "keepalive":
		proto = c.KeepAlive().Client.Protocol
		stop = func() error { c.KeepAlive().Client.Stop(); return nil }
	case "peersharing":
		proto = c.PeerSharing().Client.Protocol
		stop = func() error { c.PeerSharing().Client.Stop(); return nil }
		call = func() error { _, err := c.PeerSharing().Client.GetPeers(3); return err }
	}
	mine := map[string]bool{ptrOf(proto): true}
	rest := func(what string) string {
		if !waitRest(r.base, 90*time.Second) {
			return "the library did not come to rest within 90s (" + what + ")"
		}
		return ""
	}
	if why := rest("after the connection was set up"); why != "" {
		return nil, why
	}

	var call1, call2, stop1, stop2, aux *task
	place := func(t *task, needle, what string) (string, string) {
		if t == nil {
			return "none", ""
		}
		switch x := r.where(t, libPath+needle, sc.patience, what); x {
		case "":
			return "", what + " neither returned nor is provably parked"
		default:
			if t.pan != "" {
				lr.dis(what+"=panic", what+" panicked: "+t.pan)
			}
			return x, ""
		}
	}
	peerClose := func() { _ = lc.b.Close() }

	// ---- the scenario up to the observation at rest
	switch w.Scenario {
	case "blocked":
		call1 = r.startCallLife(call)
		if !lc.peer.waitRequests(1, 60*time.Second) {
			return nil, "the request of the call did not reach the peer within 60s"
		}
		if why := rest("the call waiting"); why != "" {
			return nil, why
		}
		stop1 = r.startCallLife(stop)
	case "twice":
		stop1 = r.startCallLife(stop)
		if _, why := place(stop1, sc.stopFunc, "stop1"); why != "" {
			return nil, why
		}
		if why := rest("after the first Stop"); why != "" {
			return nil, why
		}
		stop2 = r.startCallLife(stop)
	case "conc":
		stop1 = r.startCallLife(stop)
		stop2 = r.startCallLife(stop)
	case "afterclose":
		peerClose()
		if why := rest("after the peer's close"); why != "" {
			return nil, why
		}
		stop1 = r.startCallLife(stop)
	case "handler":
		switch w.Client {
		case "chainsync":
			aux = r.startCallLife(call)
			if !lc.peer.waitRequests(1, 60*time.Second) {
				return nil, "FindIntersect did not reach the peer"
			}
			_ = lc.peer.write(sc.pid, message("chainsync", "IntersectFound", r.fx))
			if !lc.peer.waitRequests(2, 60*time.Second) {
				return nil, "RequestNext did not reach the peer"
			}
			_ = lc.peer.write(sc.pid, message("chainsync", "RollForward", r.fx))
		case "blockfetch":
			aux = r.startCallLife(func() error { return c.BlockFetch().Client.GetBlockRange(pt, pt) })
			if !lc.peer.waitRequests(1, 60*time.Second) {
				return nil, "RequestRange did not reach the peer"
			}
			_ = lc.peer.write(sc.pid, message("blockfetch", "StartBatch", r.fx))
			_ = lc.peer.write(sc.pid, message("blockfetch", "Block", r.fx))
		case "txsubmission":
			c.TxSubmission().Client.Init()
			if !lc.peer.waitRequests(1, 60*time.Second) {
				return nil, "Init did not reach the peer"
			}
			_ = lc.peer.write(sc.pid, message("txsubmission", "RequestTxIdsBlocking", r.fx))
		case "keepalive":
			// the raw peer echoes the first keep-alive by itself
		}
		select {
		case <-entered:
		case <-time.After(60 * time.Second):
			return nil, "the callback was not entered within 60s"
		}
		if aux != nil {
			if x, why := place(aux, "", "the call that set the stream up"); why != "" || x != "ret" {
				return nil, "the call that sets the stream up did not return: " + why
			}
		}
		if why := rest("the handler in its callback"); why != "" {
			return nil, why
		}
		stop1 = r.startCallLife(stop)
	default:
		return nil, "unknown scenario " + w.Scenario
	}

	// ---- at rest after the Stop(s)
	obsRest := map[string]any{}
	var s string
	if s, why = place(stop1, sc.stopFunc, "stop1"); why != "" {
		return nil, why
	}
	obsRest["stop1"] = s
	if s, why = place(stop2, sc.stopFunc, "stop2"); why != "" {
		return nil, why
	}
	obsRest["stop2"] = s
	if why := rest("after Stop"); why != "" {
		return nil, why
	}
	// once more, at rest: a Stop that was running a moment ago may have returned
	for _, x := range []struct {
		t *task
		k string
	}{{stop1, "stop1"}, {stop2, "stop2"}} {
		if x.t != nil && x.t.returned() {
			obsRest[x.k] = "ret"
		}
	}
	if call1 == nil {
		obsRest["call"] = "none"
	} else if call1.returned() {
		obsRest["call"] = "ret"
	} else {
		obsRest["call"] = "parked"
	}
	obsRest["alive"] = loopsOf(r.base, mine)
	if out := outside(w.Pred, "rest", obsRest); out != "" {
		lr.dis("rest:unpredicted:"+out, fmt.Sprintf("at rest after Stop %v is none of the observations ClientStop.tla reaches for this case", obsRest))
	}
	lifeStats[fmt.Sprintf("stop at rest: stop1=%v call=%v", obsRest["stop1"], obsRest["call"])]++

	// ---- the rest of the scenario
	if w.Scenario == "handler" {
		if cbReleased.CompareAndSwap(false, true) {
			close(releaseCb)
		}
		if why := rest("after the callback returned"); why != "" {
			return nil, why
		}
	}
	if w.Scenario == "twice" && call != nil {
		call2 = r.startCallLife(call)
		if why := rest("after the call on the stopped client"); why != "" {
			return nil, why
		}
	}
	if w.Ending == "peerclose" && w.Scenario != "afterclose" {
		peerClose()
		if why := rest("after the peer's close"); why != "" {
			return nil, why
		}
	}
	closeRet, errClosed, errs, why := r.closeAndDrain(lc)
	if why != "" {
		return nil, why
	}
	r.obs.Errors = errs
	end := map[string]any{"closeret": closeRet, "errclosed": errClosed}
	bad := false
	for _, x := range []struct {
		t      *task
		k      string
		needle string
	}{{stop1, "stop1", sc.stopFunc}, {stop2, "stop2", sc.stopFunc}, {call1, "call", sc.callFunc}, {call2, "call2", sc.callFunc}} {
		s, why := place(x.t, x.needle, x.k)
		if why != "" {
			return nil, why
		}
		end[x.k] = s
		bad = lr.obligation(s == "parked", "end", x.k, "parked", x.k+"=hang",
			x.k+" never returns although the connection has been closed (the property demands a result or an error)") || bad
	}
	alive, ok := r.finalLeftovers()
	if !ok {
		return nil, "the leftover goroutines did not become stable within 60s"
	}
	end["alive"] = alive
	bad = lr.obligation(len(alive) > 0, "end", "alive", alive, "leak="+strings.Join(alive, "+"), "goroutines started for the connection remain after Close: "+strings.Join(alive, ", ")) || bad
	bad = lr.obligation(!closeRet, "end", "closeret", false, "close=hang", "Close did not return") || bad
	bad = lr.obligation(closeRet && !errClosed, "end", "errclosed", false, "errchan=open", "ErrorChan was not closed after Close returned") || bad
	if out := outside(w.Pred, "end", end); out != "" && !bad {
		lr.dis("end:unpredicted:"+out, fmt.Sprintf("the final observation %v is none of the observations ClientStop.tla reaches for this case", end))
	}
	end["rest"] = obsRest
	return end, ""
}
