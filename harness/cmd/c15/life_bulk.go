package main

// A large reply is pending when the peer stops reading and the connection ends (spec/net/BulkSend.tla).
//
//	txsubmission-client  the raw peer (server side) asks for transactions; the RequestTxs callback returns 64 x 16 KiB
//	lsq-server           the raw peer (client side) acquires and queries; the Query callback returns 1.2 MiB
//	blockfetch-server    the raw peer asks for a range; the RequestRange callback streams 170 blocks (StartBatch,
//	                     Block ..., BatchDone) from inside the handler and fills the send queue
//
// The peer reads `reads` segments of the reply, then reads no more; when the library has come to rest (sendLoop
// parked in the hand-off to the muxer, whose sender is parked in the write) it closes, or stays silent.  Then
// Close().  Everything must end.

import (
	"fmt"
	"strings"
	"sync/atomic"
	"time"

	ouroboros "github.com/blinklabs-io/gouroboros"
	"github.com/blinklabs-io/gouroboros/protocol"
	"github.com/blinklabs-io/gouroboros/protocol/blockfetch"
	pcommon "github.com/blinklabs-io/gouroboros/protocol/common"
	"github.com/blinklabs-io/gouroboros/protocol/localstatequery"
	"github.com/blinklabs-io/gouroboros/protocol/txsubmission"
)

func (r *caseRun) runBulk(w *lifeRow, lr *lifeReport) (map[string]any, string) {
	r.base = map[int]bool{}
	for id := range snapshot() {
		r.base[id] = true
	}
	type target struct {
		conn string
		pid  uint16
	}
	tg, ok := map[string]target{
		"txsubmission-client": {"ntn", 4},
		"lsq-server":          {"ntc-server", 7},
		"blockfetch-server":   {"ntn-server", 3},
	}[w.Target]
	if !ok {
		return nil, "unknown target " + w.Target
	}
	var segOuts, pendingAtLast atomic.Int64
	theHub.set(func(p *protocol.Protocol, e protocol.VerifEvent) {
		if e.Id == tg.pid && e.Ev == "SegOut" {
			segOuts.Add(1)
			pendingAtLast.Store(e.A - int64(e.Len))
		}
	}, nil)
	var cbErr atomic.Value
	txCfg := txsubmission.NewConfig(
		txsubmission.WithInitFunc(func(txsubmission.CallbackContext) error { return nil }),
		txsubmission.WithDoneFunc(func(txsubmission.CallbackContext) error { return nil }),
		txsubmission.WithRequestTxIdsFunc(func(txsubmission.CallbackContext, bool, uint16, uint16) ([]txsubmission.TxIdAndSize, error) {
			return nil, nil
		}),
		txsubmission.WithRequestTxsFunc(func(txsubmission.CallbackContext, []txsubmission.TxId) ([]txsubmission.TxBody, error) {
			txs := make([]txsubmission.TxBody, 64)
			for i := range txs {
				txs[i] = txsubmission.TxBody{EraId: 6, TxBody: make([]byte, 16*1024)}
			}
			return txs, nil
		}),
	)
	lsqCfg := localstatequery.NewConfig(
		localstatequery.WithAcquireFunc(func(localstatequery.CallbackContext, localstatequery.AcquireTarget, bool) error { return nil }),
		localstatequery.WithQueryFunc(func(localstatequery.CallbackContext, localstatequery.QueryWrapper) (any, error) {
			return make([]byte, 1200*1024), nil
		}),
		localstatequery.WithReleaseFunc(func(localstatequery.CallbackContext) error { return nil }),
		localstatequery.WithAcquireTimeout(longTimeout), localstatequery.WithQueryTimeout(longTimeout),
	)
	bfCfg, err := blockfetch.NewConfig(
		blockfetch.WithRequestRangeFunc(func(ctx blockfetch.CallbackContext, _ pcommon.Point, _ pcommon.Point) error {
			if err := ctx.Server.StartBatch(); err != nil {
				cbErr.Store(err.Error())
				return err
			}
			for i := 0; i < 170; i++ {
				if err := ctx.Server.Block(r.fx.typ, r.fx.raw); err != nil {
					cbErr.Store(fmt.Sprintf("Block %d: %v", i, err))
					return err
				}
			}
			return ctx.Server.BatchDone()
		}),
		blockfetch.WithBatchStartTimeout(longTimeout), blockfetch.WithBlockTimeout(longTimeout),
	)
	if err != nil {
		return nil, "blockfetch config: " + err.Error()
	}
	var reqTypes []uint
	switch w.Target {
	case "txsubmission-client":
		reqTypes = []uint{txsubmission.MessageTypeInit}
	case "lsq-server":
		reqTypes = []uint{localstatequery.MessageTypeAcquired}
	}
	lc, why := r.lifeConnect(tg.conn, tg.pid, reqTypes, nil,
		ouroboros.WithTxSubmissionConfig(txCfg), ouroboros.WithLocalStateQueryConfig(lsqCfg), ouroboros.WithBlockFetchConfig(bfCfg))
	defer lc.cleanup()
	if why != "" {
		return nil, why
	}
	// the peer reads `reads` segments of the reply and then no more
	var counting atomic.Bool
	var got atomic.Int32
	lc.peer.onSegment = func(id uint16, n int) {
		if id == tg.pid && counting.Load() {
			if int(got.Add(1)) >= w.Reads {
				lc.peer.stalled.Store(true)
			}
		}
	}
	arm := func() {
		if w.Reads == 0 {
			lc.peer.stalled.Store(true) // (takes effect after the read that is under way: at most one segment)
		}
		counting.Store(true)
	}
	switch w.Target {
	case "txsubmission-client":
		lc.conn.TxSubmission().Client.Init()
		if !lc.peer.waitRequests(1, 60*time.Second) {
			return nil, "Init did not reach the peer"
		}
		arm()
		if err := lc.peer.write(tg.pid, message("txsubmission", "RequestTxs", r.fx)); err != nil {
			return nil, "the peer could not write RequestTxs: " + err.Error()
		}
	case "lsq-server":
		if err := lc.peer.write(tg.pid, message("localstatequery", "AcquireVolatileTip", r.fx)); err != nil {
			return nil, "the peer could not write the acquire: " + err.Error()
		}
		if !lc.peer.waitRequests(1, 60*time.Second) {
			return nil, "Acquired did not reach the peer"
		}
		arm()
		if err := lc.peer.write(tg.pid, message("localstatequery", "Query", r.fx)); err != nil {
			return nil, "the peer could not write the query: " + err.Error()
		}
	case "blockfetch-server":
		arm()
		if err := lc.peer.write(tg.pid, message("blockfetch", "RequestRange", r.fx)); err != nil {
			return nil, "the peer could not write RequestRange: " + err.Error()
		}
	}
	// rest: the reply is stuck behind the peer that does not read
	deadline := time.Now().Add(90 * time.Second)
	for segOuts.Load() < 12 || !lifeAtRest(r.base, 200*time.Millisecond) {
		if time.Now().After(deadline) {
			return nil, fmt.Sprintf("the reply did not get stuck behind the stalled peer (%d segments handed to the muxer, %d read by the peer)", segOuts.Load(), got.Load())
		}
		time.Sleep(30 * time.Millisecond)
	}
	if pendingAtLast.Load() > 0 {
		lifeStats["bulk cases with sendLoop parked in the hand-off and more segments to come"]++
	}
	r.note("%d segments handed to the muxer, %d bytes of the batch still to be cut, %d read by the peer", segOuts.Load(), pendingAtLast.Load(), got.Load())
	if w.Close {
		_ = lc.b.Close()
		if !waitRest(r.base, 90*time.Second) {
			return nil, "the library did not come to rest after the peer's close"
		}
	}
	closeRet, errClosed, errs, why := r.closeAndDrain(lc)
	if why != "" {
		return nil, why
	}
	r.obs.Errors = errs
	alive, ok := r.finalLeftovers()
	if !ok {
		return nil, "the leftover goroutines did not become stable within 60s"
	}
	obs := map[string]any{"alive": alive, "closeret": closeRet, "errclosed": errClosed}
	bad := lr.obligation(len(alive) > 0, "end", "alive", alive, "leak="+strings.Join(alive, "+"),
		"goroutines started for the connection remain after Close (a large reply was pending behind a peer that had stopped reading): "+strings.Join(alive, ", "))
	bad = lr.obligation(!closeRet, "end", "closeret", false, "close=hang", "Close did not return") || bad
	bad = lr.obligation(closeRet && !errClosed, "end", "errclosed", false, "errchan=open", "ErrorChan was not closed after Close returned") || bad
	if out := outside(w.Pred, "end", obs); out != "" && !bad {
		lr.dis("end:unpredicted:"+out, fmt.Sprintf("the final observation %v is none of the observations BulkSend.tla reaches for this case", obs))
	}
	if v := cbErr.Load(); v != nil {
		r.note("callback: %v", v)
	}
	return obs, ""
}
