// extract: the code half of the C15 table. For every row of
// spec/net/ClientApiTable.json the client.go / server.go of the tree under test
// is parsed (go/ast, nothing is executed) and the facts that decide the property
// are read off the source:
//
//   - the receive sites of the API method (and of the methods of the same type it
//     calls): channel, plain receive or select, and whether that select also has a
//     case receiving from DoneChan() (directly or through a variable assigned from it)
//   - whether the method (or a callee) locks the named mutex
//   - for every handler the sends on channel fields of the client along the path
//     with the most sends: plain blocking send or select, with or without a
//     DoneChan case
//   - the capacity each channel field is made with
//   - the channels a goroutine started by Start closes after receiving from DoneChan
//   - whether Connection.shutdown waits for its wait group before closing ErrorChan
//   - the Config fields the client's state map takes its state timeouts from
package main

import (
	"encoding/json"
	"fmt"
	"go/ast"
	"go/parser"
	"go/token"
	"os"
	"path/filepath"
	"sort"
	"strings"
)

type site struct {
	Ch    string `json:"ch"`
	Sel   bool   `json:"sel"`   // inside a select
	Done  bool   `json:"done"`  // that select has a DoneChan case
	Field bool   `json:"field"` // channel is a field of the receiver (else a local)
}

type funcFacts struct {
	Recvs []site   `json:"recvs"`
	Sends []site   `json:"sends"` // longest path
	Locks []string `json:"locks"`
	Found bool     `json:"found"`
}

type fileFacts struct {
	Funcs        map[string]*funcFacts `json:"funcs"` // "Type.method"
	ChanCap      map[string]int        `json:"chancap"`
	ClosedOnDone []string              `json:"closed_on_done"`
	Cleanup      bool                  `json:"cleanup"`
	// Config fields a state map entry's Timeout is taken from: entry.Timeout = c.config.<field>
	TimeoutFields []string `json:"timeout_fields"`
}

type allFacts struct {
	Files map[string]*fileFacts `json:"files"`
	Conn  struct {
		Waits bool `json:"waits"`
		Found bool `json:"found"`
	} `json:"conn"`
	Engine struct {
		StartFailDone bool `json:"startfail_done"` // Protocol.Start closes doneChan when it cannot register
		Found         bool `json:"found"`
	} `json:"engine"`
	KeepAlive struct {
		ArmChecksDone bool `json:"arm_checks_done"` // keepalive.Client.startTimer looks at DoneChan / IsDone before it arms a timer
		Found         bool `json:"found"`
	} `json:"keepalive"`
}

type parsedFile struct {
	fset  *token.FileSet
	file  *ast.File
	decls map[string]*ast.FuncDecl // "Type.method"
}

func recvTypeName(fd *ast.FuncDecl) (typ, ident string) {
	if fd.Recv == nil || len(fd.Recv.List) == 0 {
		return "", ""
	}
	f := fd.Recv.List[0]
	t := f.Type
	if s, ok := t.(*ast.StarExpr); ok {
		t = s.X
	}
	if id, ok := t.(*ast.Ident); ok {
		typ = id.Name
	}
	if len(f.Names) > 0 {
		ident = f.Names[0].Name
	}
	return
}

func parseGo(path string) (*parsedFile, error) {
	fset := token.NewFileSet()
	f, err := parser.ParseFile(fset, path, nil, 0)
	if err != nil {
		return nil, err
	}
	pf := &parsedFile{fset: fset, file: f, decls: map[string]*ast.FuncDecl{}}
	for _, d := range f.Decls {
		if fd, ok := d.(*ast.FuncDecl); ok && fd.Body != nil {
			if typ, _ := recvTypeName(fd); typ != "" {
				pf.decls[typ+"."+fd.Name.Name] = fd
			}
		}
	}
	return pf, nil
}

// isDoneCall: x.DoneChan()
func isDoneCall(e ast.Expr) bool {
	c, ok := e.(*ast.CallExpr)
	if !ok {
		return false
	}
	s, ok := c.Fun.(*ast.SelectorExpr)
	return ok && s.Sel.Name == "DoneChan"
}

// doneIdents: local names assigned from a DoneChan() call anywhere in the function
func doneIdents(body ast.Node) map[string]bool {
	out := map[string]bool{}
	ast.Inspect(body, func(n ast.Node) bool {
		if as, ok := n.(*ast.AssignStmt); ok {
			for i, r := range as.Rhs {
				if isDoneCall(r) && i < len(as.Lhs) {
					if id, ok := as.Lhs[i].(*ast.Ident); ok {
						out[id.Name] = true
					}
				}
			}
		}
		return true
	})
	return out
}

type ctx struct {
	self string // receiver identifier
	done map[string]bool
}

func (c *ctx) isDone(e ast.Expr) bool {
	if isDoneCall(e) {
		return true
	}
	if id, ok := e.(*ast.Ident); ok {
		return c.done[id.Name]
	}
	return false
}

// chanName: c.field -> (field, true); ident -> (ident, false)
func (c *ctx) chanName(e ast.Expr) (string, bool, bool) {
	switch x := e.(type) {
	case *ast.SelectorExpr:
		if id, ok := x.X.(*ast.Ident); ok && id.Name == c.self {
			return x.Sel.Name, true, true
		}
		return x.Sel.Name, false, true
	case *ast.Ident:
		return x.Name, false, true
	case *ast.ParenExpr:
		return c.chanName(x.X)
	}
	return "", false, false
}

// commOf: the channel operation of a select clause
func commOf(cc *ast.CommClause) (recvFrom ast.Expr, send *ast.SendStmt) {
	switch s := cc.Comm.(type) {
	case *ast.ExprStmt:
		if u, ok := s.X.(*ast.UnaryExpr); ok && u.Op == token.ARROW {
			return u.X, nil
		}
	case *ast.AssignStmt:
		if len(s.Rhs) == 1 {
			if u, ok := s.Rhs[0].(*ast.UnaryExpr); ok && u.Op == token.ARROW {
				return u.X, nil
			}
		}
	case *ast.SendStmt:
		return nil, s
	}
	return nil, nil
}

func (c *ctx) selectHasDone(s *ast.SelectStmt) bool {
	for _, cl := range s.Body.List {
		if r, _ := commOf(cl.(*ast.CommClause)); r != nil && c.isDone(r) {
			return true
		}
	}
	return false
}

// collectRecvs walks a function body (function literals included) and the methods
// of the same type it calls.
func collectRecvs(pf *parsedFile, typ string, fd *ast.FuncDecl, seen map[string]bool, ff *funcFacts) {
	key := typ + "." + fd.Name.Name
	if seen[key] {
		return
	}
	seen[key] = true
	_, self := recvTypeName(fd)
	c := &ctx{self: self, done: doneIdents(fd.Body)}
	inSelect := map[*ast.UnaryExpr]*ast.SelectStmt{}
	ast.Inspect(fd.Body, func(n ast.Node) bool {
		if s, ok := n.(*ast.SelectStmt); ok {
			for _, cl := range s.Body.List {
				cc := cl.(*ast.CommClause)
				switch st := cc.Comm.(type) {
				case *ast.ExprStmt:
					if u, ok := st.X.(*ast.UnaryExpr); ok {
						inSelect[u] = s
					}
				case *ast.AssignStmt:
					if len(st.Rhs) == 1 {
						if u, ok := st.Rhs[0].(*ast.UnaryExpr); ok {
							inSelect[u] = s
						}
					}
				}
			}
		}
		return true
	})
	ast.Inspect(fd.Body, func(n ast.Node) bool {
		switch x := n.(type) {
		case *ast.UnaryExpr:
			if x.Op != token.ARROW || c.isDone(x.X) {
				return true
			}
			name, field, ok := c.chanName(x.X)
			if !ok {
				return true
			}
			st := site{Ch: name, Field: field}
			if s := inSelect[x]; s != nil {
				st.Sel = true
				st.Done = c.selectHasDone(s)
			}
			ff.Recvs = append(ff.Recvs, st)
		case *ast.RangeStmt:
			// for v := range ch
			if name, field, ok := c.chanName(x.X); ok && strings.HasSuffix(name, "Chan") {
				ff.Recvs = append(ff.Recvs, site{Ch: name, Field: field})
			}
		case *ast.CallExpr:
			if s, ok := x.Fun.(*ast.SelectorExpr); ok {
				// c.mutex.Lock()
				if s.Sel.Name == "Lock" {
					if in, ok := s.X.(*ast.SelectorExpr); ok {
						if id, ok := in.X.(*ast.Ident); ok && id.Name == self {
							ff.Locks = append(ff.Locks, in.Sel.Name)
						}
					}
				}
				// c.method(...)
				if id, ok := s.X.(*ast.Ident); ok && id.Name == self {
					if callee := pf.decls[typ+"."+s.Sel.Name]; callee != nil {
						collectRecvs(pf, typ, callee, seen, ff)
					}
				}
			}
		}
		return true
	})
}

// ---- handler sends: the path with the most sends on channel fields

type path struct {
	sends []site
	term  bool
}

func pathKey(p path) string {
	var b strings.Builder
	for _, s := range p.sends {
		fmt.Fprintf(&b, "%s/%v/%v/%v;", s.Ch, s.Sel, s.Done, s.Field)
	}
	if p.term {
		b.WriteString("T")
	}
	return b.String()
}

func dedupe(ps []path) []path {
	seen := map[string]bool{}
	var out []path
	for _, p := range ps {
		k := pathKey(p)
		if !seen[k] {
			seen[k] = true
			out = append(out, p)
		}
	}
	if len(out) > 512 {
		sort.SliceStable(out, func(i, j int) bool { return len(out[i].sends) > len(out[j].sends) })
		out = out[:512]
	}
	return out
}

func (c *ctx) stmtPaths(s ast.Stmt) []path {
	switch x := s.(type) {
	case nil:
		return []path{{}}
	case *ast.BlockStmt:
		return c.listPaths(x.List)
	case *ast.ReturnStmt:
		return []path{{term: true}}
	case *ast.SendStmt:
		if name, field, ok := c.chanName(x.Chan); ok {
			return []path{{sends: []site{{Ch: name, Field: field}}}}
		}
		return []path{{}}
	case *ast.IfStmt:
		out := c.stmtPaths(x.Body)
		if x.Else != nil {
			out = append(out, c.stmtPaths(x.Else)...)
		} else {
			out = append(out, path{})
		}
		return dedupe(out)
	case *ast.SwitchStmt:
		return c.clausePaths(x.Body, true)
	case *ast.TypeSwitchStmt:
		return c.clausePaths(x.Body, true)
	case *ast.SelectStmt:
		done := c.selectHasDone(x)
		var out []path
		for _, cl := range x.Body.List {
			cc := cl.(*ast.CommClause)
			var pre []site
			if _, snd := commOf(cc); snd != nil {
				if name, field, ok := c.chanName(snd.Chan); ok {
					pre = []site{{Ch: name, Sel: true, Done: done, Field: field}}
				}
			}
			for _, p := range c.listPaths(cc.Body) {
				out = append(out, path{sends: append(append([]site{}, pre...), p.sends...), term: p.term})
			}
		}
		return dedupe(out)
	case *ast.ForStmt:
		return dedupe(append(c.loopOnce(x.Body), path{}))
	case *ast.RangeStmt:
		return dedupe(append(c.loopOnce(x.Body), path{}))
	case *ast.LabeledStmt:
		return c.stmtPaths(x.Stmt)
	}
	return []path{{}}
}

// a loop body taken once; a return inside still ends the function, break/continue are ignored
func (c *ctx) loopOnce(b *ast.BlockStmt) []path { return c.stmtPaths(b) }

func (c *ctx) clausePaths(body *ast.BlockStmt, addEmptyWithoutDefault bool) []path {
	var out []path
	hasDefault := false
	for _, cl := range body.List {
		cc, ok := cl.(*ast.CaseClause)
		if !ok {
			continue
		}
		if cc.List == nil {
			hasDefault = true
		}
		out = append(out, c.listPaths(cc.Body)...)
	}
	if !hasDefault && addEmptyWithoutDefault {
		out = append(out, path{})
	}
	return dedupe(out)
}

func (c *ctx) listPaths(list []ast.Stmt) []path {
	cur := []path{{}}
	for _, s := range list {
		sp := c.stmtPaths(s)
		var next []path
		for _, p := range cur {
			if p.term {
				next = append(next, p)
				continue
			}
			for _, q := range sp {
				next = append(next, path{sends: append(append([]site{}, p.sends...), q.sends...), term: q.term})
			}
		}
		cur = dedupe(next)
	}
	return cur
}

func handlerSends(fd *ast.FuncDecl) []site {
	_, self := recvTypeName(fd)
	c := &ctx{self: self, done: doneIdents(fd.Body)}
	best := []site{}
	bestN := -1
	for _, p := range c.listPaths(fd.Body.List) {
		var fs []site
		for _, s := range p.sends {
			if s.Field {
				fs = append(fs, s)
			}
		}
		if len(fs) > bestN {
			bestN, best = len(fs), fs
		}
	}
	if best == nil {
		best = []site{}
	}
	return best
}

// ---- file level: channel capacities, cleanup goroutine

func makeChanCap(e ast.Expr) (int, bool) {
	c, ok := e.(*ast.CallExpr)
	if !ok {
		return 0, false
	}
	id, ok := c.Fun.(*ast.Ident)
	if !ok || id.Name != "make" || len(c.Args) == 0 {
		return 0, false
	}
	if _, ok := c.Args[0].(*ast.ChanType); !ok {
		return 0, false
	}
	if len(c.Args) == 1 {
		return 0, true
	}
	if bl, ok := c.Args[1].(*ast.BasicLit); ok && bl.Kind == token.INT {
		n := 0
		fmt.Sscanf(bl.Value, "%d", &n)
		return n, true
	}
	return -1, true // capacity is not a literal: buffered by configuration
}

func fileLevel(pf *parsedFile, typ string, ff *fileFacts) {
	timeoutFields := map[string]bool{}
	defer func() {
		ff.TimeoutFields = []string{}
		for k := range timeoutFields {
			ff.TimeoutFields = append(ff.TimeoutFields, k)
		}
		sort.Strings(ff.TimeoutFields)
	}()
	ast.Inspect(pf.file, func(n ast.Node) bool {
		switch x := n.(type) {
		case *ast.KeyValueExpr:
			if id, ok := x.Key.(*ast.Ident); ok {
				if n, ok := makeChanCap(x.Value); ok {
					ff.ChanCap[id.Name] = n
				}
			}
		case *ast.AssignStmt:
			// entry.Timeout = c.config.<Field>
			if len(x.Lhs) == 1 && len(x.Rhs) == 1 {
				if l, ok := x.Lhs[0].(*ast.SelectorExpr); ok && l.Sel.Name == "Timeout" {
					if r, ok := x.Rhs[0].(*ast.SelectorExpr); ok {
						if in, ok := r.X.(*ast.SelectorExpr); ok && in.Sel.Name == "config" {
							timeoutFields[r.Sel.Name] = true
						}
					}
				}
			}
			for i, r := range x.Rhs {
				if n, ok := makeChanCap(r); ok && i < len(x.Lhs) {
					switch l := x.Lhs[i].(type) {
					case *ast.SelectorExpr:
						ff.ChanCap[l.Sel.Name] = n
					case *ast.Ident:
						if _, have := ff.ChanCap[l.Name]; !have {
							ff.ChanCap[l.Name] = n
						}
					}
				}
			}
		}
		return true
	})
	closed := map[string]bool{}
	for key, fd := range pf.decls {
		if !strings.HasPrefix(key, typ+".") {
			continue
		}
		_, self := recvTypeName(fd)
		c := &ctx{self: self, done: doneIdents(fd.Body)}
		ast.Inspect(fd.Body, func(n ast.Node) bool {
			g, ok := n.(*ast.GoStmt)
			if !ok {
				return true
			}
			lit, ok := g.Call.Fun.(*ast.FuncLit)
			if !ok || len(lit.Body.List) == 0 {
				return true
			}
			first, ok := lit.Body.List[0].(*ast.ExprStmt)
			if !ok {
				return true
			}
			u, ok := first.X.(*ast.UnaryExpr)
			if !ok || u.Op != token.ARROW || !c.isDone(u.X) {
				return true
			}
			if fd.Name.Name == "Start" {
				ff.Cleanup = true
			}
			ast.Inspect(lit.Body, func(m ast.Node) bool {
				if call, ok := m.(*ast.CallExpr); ok {
					if id, ok := call.Fun.(*ast.Ident); ok && id.Name == "close" && len(call.Args) == 1 {
						if name, _, ok := c.chanName(call.Args[0]); ok {
							closed[name] = true
						}
					}
				}
				return true
			})
			return true
		})
	}
	for k := range closed {
		ff.ClosedOnDone = append(ff.ClosedOnDone, k)
	}
	sort.Strings(ff.ClosedOnDone)
}

type handRow struct {
	Name   string `json:"name"`
	File   string `json:"file"`
	Type   string `json:"type"`
	Func   string `json:"func"`
	Stages []struct {
		Replies []struct {
			Handler string `json:"handler"`
		} `json:"replies"`
	} `json:"stages"`
}

func extract(repo, handPath string) {
	raw, err := os.ReadFile(handPath)
	if err != nil {
		fail("extract: %v", err)
	}
	var hand struct {
		Apis []handRow `json:"apis"`
	}
	if err := json.Unmarshal(raw, &hand); err != nil {
		fail("extract: %s: %v", handPath, err)
	}
	out := allFacts{Files: map[string]*fileFacts{}}
	parsed := map[string]*parsedFile{}
	for _, row := range hand.Apis {
		pf := parsed[row.File]
		if pf == nil {
			pf, err = parseGo(filepath.Join(repo, row.File))
			if err != nil {
				fail("extract: %v", err)
			}
			parsed[row.File] = pf
		}
		ff := out.Files[row.File]
		if ff == nil {
			ff = &fileFacts{Funcs: map[string]*funcFacts{}, ChanCap: map[string]int{}, ClosedOnDone: []string{}}
			out.Files[row.File] = ff
			fileLevel(pf, row.Type, ff)
		}
		want := []string{row.Func}
		for _, st := range row.Stages {
			for _, r := range st.Replies {
				want = append(want, r.Handler)
			}
		}
		for _, fn := range want {
			key := row.Type + "." + fn
			if ff.Funcs[key] != nil {
				continue
			}
			f := &funcFacts{Recvs: []site{}, Sends: []site{}, Locks: []string{}}
			ff.Funcs[key] = f
			fd := pf.decls[key]
			if fd == nil {
				continue
			}
			f.Found = true
			collectRecvs(pf, row.Type, fd, map[string]bool{}, f)
			f.Sends = handlerSends(fd)
		}
	}
	// Connection.shutdown: waitGroup.Wait() before close(c.errorChan)
	if pf, err := parseGo(filepath.Join(repo, "connection.go")); err == nil {
		if fd := pf.decls["Connection.shutdown"]; fd != nil {
			out.Conn.Found = true
			var posWait, posClose token.Pos
			ast.Inspect(fd.Body, func(n ast.Node) bool {
				call, ok := n.(*ast.CallExpr)
				if !ok {
					return true
				}
				if s, ok := call.Fun.(*ast.SelectorExpr); ok && s.Sel.Name == "Wait" {
					if in, ok := s.X.(*ast.SelectorExpr); ok && in.Sel.Name == "waitGroup" {
						posWait = call.Pos()
					}
				}
				if id, ok := call.Fun.(*ast.Ident); ok && id.Name == "close" && len(call.Args) == 1 {
					if s, ok := call.Args[0].(*ast.SelectorExpr); ok && s.Sel.Name == "errorChan" {
						posClose = call.Pos()
					}
				}
				return true
			})
			out.Conn.Waits = posWait != token.NoPos && posClose != token.NoPos && posWait < posClose
		}
	}
	// Protocol.Start: if p.muxerDoneChan == nil { ...; close(p.doneChan) ...; return }
	if pf, err := parseGo(filepath.Join(repo, "protocol", "protocol.go")); err == nil {
		if fd := pf.decls["Protocol.Start"]; fd != nil {
			ast.Inspect(fd.Body, func(n ast.Node) bool {
				ifs, ok := n.(*ast.IfStmt)
				if !ok {
					return true
				}
				be, ok := ifs.Cond.(*ast.BinaryExpr)
				if !ok || be.Op != token.EQL {
					return true
				}
				sel, ok := be.X.(*ast.SelectorExpr)
				if !ok || sel.Sel.Name != "muxerDoneChan" {
					return true
				}
				out.Engine.Found = true
				ast.Inspect(ifs.Body, func(m ast.Node) bool {
					if call, ok := m.(*ast.CallExpr); ok {
						if id, ok := call.Fun.(*ast.Ident); ok && id.Name == "close" && len(call.Args) == 1 {
							if s, ok := call.Args[0].(*ast.SelectorExpr); ok && s.Sel.Name == "doneChan" {
								out.Engine.StartFailDone = true
							}
						}
					}
					return true
				})
				return false
			})
		}
	}
	// keepalive.Client.startTimer: does it consult DoneChan() / IsDone() (before time.AfterFunc)?
	if pf, err := parseGo(filepath.Join(repo, "protocol", "keepalive", "client.go")); err == nil {
		if fd := pf.decls["Client.startTimer"]; fd != nil && fd.Body != nil {
			out.KeepAlive.Found = true
			var posCheck, posArm token.Pos
			ast.Inspect(fd.Body, func(n ast.Node) bool {
				if call, ok := n.(*ast.CallExpr); ok {
					if sel, ok := call.Fun.(*ast.SelectorExpr); ok {
						switch sel.Sel.Name {
						case "DoneChan", "IsDone":
							if posCheck == token.NoPos {
								posCheck = call.Pos()
							}
						case "AfterFunc", "NewTimer", "Reset":
							posArm = call.Pos()
						}
					}
				}
				return true
			})
			out.KeepAlive.ArmChecksDone = posCheck != token.NoPos && (posArm == token.NoPos || posCheck < posArm)
		}
	}
	b, _ := json.MarshalIndent(out, "", " ")
	os.Stdout.Write(b)
	os.Stdout.WriteString("\n")
}

func fail(format string, a ...any) {
	fmt.Fprintf(os.Stderr, format+"\n", a...)
	os.Exit(2)
}
