// c15: no call hangs and nothing leaks, whatever the peer does.
//
//	c15 extract <repo> <ClientApiTable.json>   the code half of the table (go/ast, see extract.go)
//	c15 run <c15_table.json> <rows.ndjson>     replay of the cases TLC generated from spec/net/ClientApi.tla
//	c15 life <rows.ndjson>                     replay of the life-cycle cases (ServerRestart.tla, ClientStop.tla,
//	                                           KeepAliveTimer.tla), see life.go
//
// Every case (API call, peer script) runs on a real ouroboros.Connection over an
// in-memory pipe with fragmented reads; the other end is a raw segment-level
// peer that completes the handshake, answers keep-alives, waits for the requests
// of the call under test and plays the script (correct / wrong-kind / forbidden /
// surplus replies, malformed bytes, truncated segments, stalls, segments the muxer
// rejects, close, and "tmo": silence until the state timeout of the state the
// protocol waits in - scaled down to 120..300 ms through the public option the
// table names for that stage - has fired). The driver plays the user of ClientApi.tla: it closes the
// connection once the script is played and the call has returned or the library
// has come to rest, starts reading ErrorChan when Close has returned, makes one
// more call of the same API, and then compares, aspect by aspect, with the set of
// terminal observations TLC reached for the case:
//
//	call / call2   returned, or hangs
//	close          Close returned
//	errchan        ErrorChan was closed
//	leak           the library goroutines that remain (snapshot diff of runtime.Stack,
//	               retried until stable), mapped onto the goroutine names of the model
//
// One process runs its cases one after the other, so a leftover goroutine belongs
// to the case that just ran; checks/c15.py shards the cases over processes.
//
// A "hang" is never a timeout alone: the peer must have written its whole script,
// the connection must have ended, and two goroutine dumps 1.5 s apart must show the
// caller parked inside the library method while every library goroutine of the case
// is parked and unchanged (on a busy machine the driver keeps waiting, and a case it
// cannot decide is a machinery failure, never a violation).
package main

import (
	"encoding/hex"
	"encoding/json"
	"fmt"
	"io"
	"log/slog"
	"os"
	"sort"
	"strconv"
	"strings"
	"sync"
	"time"

	ouroboros "github.com/blinklabs-io/gouroboros"
	"github.com/blinklabs-io/gouroboros/ledger"
	"github.com/blinklabs-io/gouroboros/protocol"
	"github.com/blinklabs-io/gouroboros/protocol/blockfetch"
	"github.com/blinklabs-io/gouroboros/protocol/chainsync"
	pcommon "github.com/blinklabs-io/gouroboros/protocol/common"
	"github.com/blinklabs-io/gouroboros/protocol/keepalive"
	"github.com/blinklabs-io/gouroboros/protocol/localstatequery"
	"github.com/blinklabs-io/gouroboros/protocol/localtxmonitor"
	"github.com/blinklabs-io/gouroboros/protocol/localtxsubmission"
	"github.com/blinklabs-io/gouroboros/protocol/peersharing"
	"github.com/blinklabs-io/gouroboros/protocol/txsubmission"

	"verifharness/hs"
	"verifharness/netx"
	"verifharness/vh"
)

// ---- table and cases

type reply struct {
	Name string `json:"name"`
	Eff  string `json:"eff"`
}

type stage struct {
	Req     string  `json:"req"`
	ReqType uint    `json:"reqtype"`
	Bg      bool    `json:"bg"`
	Forbid  string  `json:"forbid"`
	Replies []reply `json:"replies"`
	Timed   bool    `json:"timed"`    // the state waited in has a state timeout
	TmOpt   string  `json:"tmopt"`    // the Config field it is taken from (scaled through that field's option), or
	TmFixed bool    `json:"tmofixed"` // the name of the package constant if there is no option
}

type apiRow struct {
	Name   string  `json:"name"`
	Proto  string  `json:"proto"`
	Conn   string  `json:"conn"`
	Pid    uint16  `json:"pid"`
	File   string  `json:"file"`
	Type   string  `json:"type"`
	Func   string  `json:"func"`
	Stages []stage `json:"stages"`
}

type prediction struct {
	Ret       []bool     `json:"ret"`
	Ret2      []bool     `json:"ret2"`
	CloseRet  []bool     `json:"closeret"`
	ErrClosed []bool     `json:"errclosed"`
	Safe      []bool     `json:"safe"`
	Alive     [][]string `json:"alive"`
	Played    []int      `json:"played"`
	Tmo       []bool     `json:"tmo"` // the state timeout fired (information: an error may come first)
}

type caseRow struct {
	Api    string     `json:"api"`
	Script []string   `json:"script"`
	Idx    int        `json:"idx"`
	Pred   prediction `json:"pred"`
	Rseed  *int64     `json:"rseed,omitempty"`
	Repeat int        `json:"repeat,omitempty"` // the model has a race that decides the verdict: run the case several times
}

func has(set []bool, v bool) bool {
	for _, x := range set {
		if x == v {
			return true
		}
	}
	return false
}

func scriptName(s []string) string {
	if len(s) == 0 {
		return "silence"
	}
	return strings.Join(s, ".")
}

func caseKey(c *caseRow) string { return "api=" + c.Api + ":script=" + scriptName(c.Script) }

// ---- one case

type observation struct {
	Ret       string   `json:"call"`  // "return" | "hang"
	RetVal    string   `json:"value"` // ok / error text (information)
	Ret2      string   `json:"call2"`
	CloseRet  bool     `json:"close_returned"`
	ErrClosed bool     `json:"errchan_closed"`
	Errors    []string `json:"errors"`
	Leak      []string `json:"leak"`
	Played    int      `json:"played"`
	Notes     []string `json:"notes"`
	Ms        int64    `json:"ms"`
	Timeout   string   `json:"state_timeout,omitempty"` // tmo scripts: the state whose timeout fired
}

type callResult struct {
	err   error
	panic string
}

type caseRun struct {
	c      *caseRow
	api    *apiRow
	fx     *fixtureBlock
	seed   uint64
	conn   *ouroboros.Connection
	base   map[int]bool
	obs    observation
	peer   *rawPeer
	needle string
	// scripts that end in tmo: the option that is scaled down, and what the engine's trace hook saw
	shortOpt string // "<proto>.<Config field>"
	shortDur time.Duration
	tmo      *tmoWatch
}

func (r *caseRun) note(format string, a ...any) {
	r.obs.Notes = append(r.obs.Notes, fmt.Sprintf(format, a...))
}

var quiet = slog.New(slog.NewTextHandler(io.Discard, nil))

const longTimeout = 10 * time.Minute // state timeouts (C14's subject) are kept out of the way

// d: the value of the timeout option `field` of protocol `proto` for this case: out of the way, except the one the
// script's tmo step waits for
func (r *caseRun) d(proto, field string) time.Duration {
	if r.shortOpt == proto+"."+field {
		return r.shortDur
	}
	return longTimeout
}

func (r *caseRun) options(a net_Conn, errCh chan error) []ouroboros.ConnectionOptionFunc {
	bfCfg, err := blockfetch.NewConfig(
		blockfetch.WithBlockFunc(func(blockfetch.CallbackContext, uint, ledger.Block) error { return nil }),
		blockfetch.WithBatchDoneFunc(func(blockfetch.CallbackContext) error { return nil }),
		blockfetch.WithBatchStartTimeout(r.d("blockfetch", "BatchStartTimeout")),
		blockfetch.WithBlockTimeout(r.d("blockfetch", "BlockTimeout")),
	)
	if err != nil {
		panic(err)
	}
	csCfg := chainsync.NewConfig(
		chainsync.WithRollForwardFunc(func(chainsync.CallbackContext, uint, any, chainsync.Tip) error { return nil }),
		chainsync.WithRollBackwardFunc(func(chainsync.CallbackContext, pcommon.Point, chainsync.Tip) error { return nil }),
		chainsync.WithIntersectTimeout(r.d("chainsync", "IntersectTimeout")),
		chainsync.WithBlockTimeout(r.d("chainsync", "BlockTimeout")),
	)
	txCfg := txsubmission.NewConfig(
		txsubmission.WithInitFunc(func(txsubmission.CallbackContext) error { return nil }),
		txsubmission.WithDoneFunc(func(txsubmission.CallbackContext) error { return nil }),
		txsubmission.WithRequestTxIdsFunc(func(txsubmission.CallbackContext, bool, uint16, uint16) ([]txsubmission.TxIdAndSize, error) {
			return nil, nil
		}),
		txsubmission.WithRequestTxsFunc(func(txsubmission.CallbackContext, []txsubmission.TxId) ([]txsubmission.TxBody, error) {
			return nil, nil
		}),
	)
	opts := []ouroboros.ConnectionOptionFunc{
		ouroboros.WithConnection(a),
		ouroboros.WithNetworkMagic(magicOf(r.seed)),
		ouroboros.WithErrorChan(errCh),
		ouroboros.WithLogger(quiet),
		ouroboros.WithBlockFetchConfig(bfCfg),
		ouroboros.WithChainSyncConfig(csCfg),
		ouroboros.WithTxSubmissionConfig(txCfg),
		ouroboros.WithKeepAliveConfig(keepalive.NewConfig(keepalive.WithPeriod(longTimeout), keepalive.WithTimeout(longTimeout))),
		ouroboros.WithPeerSharingConfig(peersharing.NewConfig(peersharing.WithTimeout(r.d("peersharing", "Timeout")))),
		ouroboros.WithLocalTxSubmissionConfig(localtxsubmission.NewConfig(
			localtxsubmission.WithTimeout(r.d("localtxsubmission", "Timeout")))),
		ouroboros.WithLocalTxMonitorConfig(localtxmonitor.NewConfig(
			localtxmonitor.WithAcquireTimeout(r.d("localtxmonitor", "AcquireTimeout")),
			localtxmonitor.WithQueryTimeout(r.d("localtxmonitor", "QueryTimeout")))),
		ouroboros.WithLocalStateQueryConfig(localstatequery.NewConfig(
			localstatequery.WithAcquireTimeout(r.d("localstatequery", "AcquireTimeout")),
			localstatequery.WithQueryTimeout(r.d("localstatequery", "QueryTimeout")))),
	}
	switch r.api.Conn {
	case "ntn":
		opts = append(opts, ouroboros.WithNodeToNode(true), ouroboros.WithPeerSharing(true), ouroboros.WithKeepAlive(true))
	case "ntn-server":
		opts = append(opts, ouroboros.WithNodeToNode(true), ouroboros.WithPeerSharing(true), ouroboros.WithServer(true))
	case "ntc-server":
		opts = append(opts, ouroboros.WithServer(true))
	}
	return opts
}

// the timeout options the driver can scale (the table's stage.tmopt must be one of them)
var scalable = map[string]bool{
	"blockfetch.BatchStartTimeout": true, "blockfetch.BlockTimeout": true,
	"chainsync.IntersectTimeout": true, "chainsync.BlockTimeout": true,
	"peersharing.Timeout": true, "localtxsubmission.Timeout": true,
	"localtxmonitor.AcquireTimeout": true, "localtxmonitor.QueryTimeout": true,
	"localstatequery.AcquireTimeout": true, "localstatequery.QueryTimeout": true,
}

var magics = []uint32{764824073, 1, 2, 42, 0xffffffff, 3141592}

func magicOf(seed uint64) uint32 { return magics[seed%uint64(len(magics))] }

type connResult struct {
	c   *ouroboros.Connection
	err error
}

func (r *caseRun) connect(opts []ouroboros.ConnectionOptionFunc, ch chan connResult) {
	c, err := ouroboros.NewConnection(opts...)
	ch <- connResult{c, err}
}

// the API call under test
func (r *caseRun) call() error {
	c := r.conn
	pt := pcommon.NewPoint(r.fx.slot, r.fx.hash)
	switch r.api.Name {
	case "localtxsubmission.SubmitTx":
		return c.LocalTxSubmission().Client.SubmitTx(6, []byte{0x84, 0xa0, 0xa0, 0xf5, 0xf6})
	case "localtxmonitor.Acquire":
		return c.LocalTxMonitor().Client.Acquire()
	case "localtxmonitor.HasTx":
		_, err := c.LocalTxMonitor().Client.HasTx(fill(32, 0x22))
		return err
	case "localtxmonitor.NextTx":
		_, err := c.LocalTxMonitor().Client.NextTx()
		return err
	case "localtxmonitor.GetSizes":
		_, _, _, err := c.LocalTxMonitor().Client.GetSizes()
		return err
	case "localstatequery.AcquireVolatileTip":
		return c.LocalStateQuery().Client.AcquireVolatileTip()
	case "localstatequery.GetCurrentEra":
		_, err := c.LocalStateQuery().Client.GetCurrentEra()
		return err
	case "chainsync.GetCurrentTip":
		_, err := c.ChainSync().Client.GetCurrentTip()
		return err
	case "chainsync.Sync", "chainsync-ntn.Sync":
		return c.ChainSync().Client.Sync([]pcommon.Point{intersectPoint})
	case "chainsync.GetAvailableBlockRange":
		_, _, err := c.ChainSync().Client.GetAvailableBlockRange([]pcommon.Point{intersectPoint})
		return err
	case "blockfetch.GetBlock":
		_, err := c.BlockFetch().Client.GetBlock(pt)
		return err
	case "blockfetch.GetBlockRange":
		return c.BlockFetch().Client.GetBlockRange(pt, pt)
	case "peersharing.GetPeers":
		_, err := c.PeerSharing().Client.GetPeers(3)
		return err
	case "txsubmission.RequestTxIdsBlocking":
		_, err := c.TxSubmission().Server.RequestTxIds(true, 1)
		return err
	case "txsubmission.RequestTxIdsNonBlocking":
		_, err := c.TxSubmission().Server.RequestTxIds(false, 1)
		return err
	case "txsubmission.RequestTxs":
		var id [32]byte
		copy(id[:], fill(32, 0x11))
		_, err := c.TxSubmission().Server.RequestTxs([]txsubmission.TxId{{EraId: 6, TxId: id}})
		return err
	}
	panic("no call for " + r.api.Name)
}

func (r *caseRun) startCall() (chan callResult, int) {
	ret := make(chan callResult, 1)
	gidCh := make(chan int, 1)
	go func() {
		gidCh <- curGid()
		var out callResult
		defer func() {
			if p := recover(); p != nil {
				out.panic = fmt.Sprint(p)
			}
			ret <- out
		}()
		out.err = r.startCallInner()
	}()
	return ret, <-gidCh
}

// startCallInner exists so that the caller goroutine is recognisable in a dump
// ("main.(*caseRun).startCall" prefix matches it as well)
func (r *caseRun) startCallInner() error { return r.call() }

type waitVerdict int

const (
	returned waitVerdict = iota
	hangs
	undecidedWait
)

// awaitReturn waits for the call; "hangs" needs the two-dump evidence described at the top.
func (r *caseRun) awaitReturn(ret chan callResult, gid int, needle string, expectHang bool, what string) (waitVerdict, callResult) {
	first := waitReturnLong
	if expectHang {
		first = waitReturnShort
	}
	t0 := time.Now()
	for attempt := 0; attempt < 8; attempt++ {
		select {
		case v := <-ret:
			return returned, v
		case <-time.After(first):
		}
		ok1, d1 := parkedIn(gid, needle)
		if ok1 {
			select {
			case v := <-ret:
				return returned, v
			case <-time.After(1500 * time.Millisecond):
			}
			ok2, d2 := parkedIn(gid, needle)
			rest := libraryAtRest(r.base, 200*time.Millisecond)
			if ok2 && rest && d1 == d2 {
				r.note("%s has not returned %.1fs after it was made: %s; every library goroutine of the case is parked and unchanged over 1.7s", what, time.Since(t0).Seconds(), d2)
				return hangs, callResult{}
			}
			r.note("%s: %s, library at rest=%v: waiting longer", what, d2, rest)
		} else {
			r.note("%s: deadline passed but %s: waiting longer", what, d1)
		}
		first = 5 * time.Second
	}
	return undecidedWait, callResult{}
}

var (
	waitReturnLong  = 20 * time.Second
	waitReturnShort = 1500 * time.Millisecond
)

type net_Conn = *netx.FragConn

func needed(st []stage, k int) int {
	n := 0
	for i := 0; i < k && i < len(st); i++ {
		if st[i].Req != "" {
			n++
		}
	}
	return n
}

// playScript is the peer's side of the case; it returns a text if the script could not be played.
func (r *caseRun) playScript(b net_Conn) string {
	p := r.peer
	st := r.api.Stages
	n := len(st)
	pk := 1
	var last []byte
	widx := map[string]int{"ok": 0, "w1": 1, "w2": 2}
	split := func(m []byte, i int) error {
		// one message in one segment, or cut in two segments (seeded)
		if len(m) > 3 && (r.seed>>(8+uint(i)))%3 == 0 {
			cut := 1 + int((r.seed>>(16+uint(i)))%uint64(len(m)-1))
			if err := p.write(p.pid, m[:cut]); err != nil {
				return err
			}
			return p.write(p.pid, m[cut:])
		}
		return p.write(p.pid, m)
	}
	for i, x := range r.c.Script {
		answering := x == "ok" || x == "w1" || x == "w2" || x == "forbid" || x == "garbage" || x == "trunc" || x == "tmo"
		if answering {
			if pk > n {
				return fmt.Sprintf("step %d (%s): no stage left to answer", i+1, x)
			}
			if st[pk-1].Req != "" && !p.waitRequests(needed(st, pk), 60*time.Second) {
				return fmt.Sprintf("step %d (%s): request %q of stage %d did not arrive within 60s", i+1, x, st[pk-1].Req, pk)
			}
		}
		var err error
		switch x {
		case "ok", "w1", "w2":
			rp := st[pk-1].Replies[widx[x]]
			last = message(r.api.Proto, rp.Name, r.fx)
			err = split(last, i)
			switch rp.Eff {
			case "adv":
				pk++
			case "ends":
				pk = n + 1
			}
		case "forbid":
			err = split(message(r.api.Proto, st[pk-1].Forbid, r.fx), i)
			pk = n + 1
		case "garbage":
			err = p.write(p.pid, garbageVariants[(r.seed>>24)%uint64(len(garbageVariants))])
			pk = n + 1
		case "surplus":
			err = split(last, i)
		case "trunc":
			m := message(r.api.Proto, st[pk-1].Replies[0].Name, r.fx)
			if len(m) < 2 {
				m = append(m, 0x00)
			}
			if (r.seed>>28)%2 == 0 {
				// a segment that announces the whole message and carries half of it
				p.wmu.Lock()
				err = writeRaw(b, append(segmentHeader(p.pid, p.responder, len(m)), m[:len(m)/2]...))
				p.wmu.Unlock()
				r.note("trunc: segment header announces %d bytes, %d written", len(m), len(m)/2)
			} else {
				// a complete segment that carries the first half of the message
				half := m[:(len(m)+1)/2]
				if len(m) == 2 {
					half = []byte{0x82, 0x18} // a 2-array whose first item is cut
				}
				err = p.write(p.pid, half)
				r.note("trunc: complete segment with %d of %d message bytes", len(half), len(m))
			}
		case "stall":
			p.stalled.Store(true)
		case "tmo":
			// nothing is written: the step is played when the timeout of the state the protocol waits in has fired
			if why := r.awaitStateTimeout(&st[pk-1]); why != "" {
				return fmt.Sprintf("step %d (tmo): %s", i+1, why)
			}
		case "muxerr":
			switch (r.seed >> 32) % 3 {
			case 0:
				p.wmu.Lock()
				err = writeRaw(b, segmentHeader(p.pid, p.responder, 0))
				p.wmu.Unlock()
				r.note("muxerr: zero-length segment")
			case 1:
				err = p.write(0x7abc, []byte{0x80})
				r.note("muxerr: segment for an unknown protocol")
			default:
				p.wmu.Lock()
				_ = b.SetWriteDeadline(time.Now().Add(60 * time.Second))
				err = hs.WriteSegment(b, p.pid, !p.responder, []byte{0x80})
				p.wmu.Unlock()
				r.note("muxerr: segment with the wrong direction bit")
			}
		case "close":
			err = b.Close()
		default:
			return "unknown step " + x
		}
		if err != nil {
			// the library may already have closed its end (e.g. after a protocol error): the bytes are lost, as in the model
			r.note("step %d (%s): write failed: %v", i+1, x, err)
		}
		p.played.Add(1)
	}
	return ""
}

// ---- scripts that end in tmo

// tmoWatch is fed by the engine's trace hook (protocol.VerifTracer) with the events of the protocol under test
type tmoWatch struct {
	pid     uint16
	mu      sync.Mutex
	state   string // state whose timeout fired
	armed   []string
	fired   chan struct{}
	stopped chan struct{}
}

func newTmoWatch(pid uint16) *tmoWatch {
	return &tmoWatch{pid: pid, fired: make(chan struct{}), stopped: make(chan struct{})}
}

func (w *tmoWatch) event(_ *protocol.Protocol, e protocol.VerifEvent) {
	if e.Id != w.pid {
		return
	}
	w.mu.Lock()
	defer w.mu.Unlock()
	switch e.Ev {
	case "TimerArm":
		if len(w.armed) < 8 {
			w.armed = append(w.armed, fmt.Sprintf("%s=%v", e.S1, time.Duration(e.A)))
		}
	case "Timeout":
		select {
		case <-w.fired:
		default:
			w.state = e.S1
			close(w.fired)
		}
	case "Stop":
		select {
		case <-w.stopped:
		default:
			close(w.stopped)
		}
	}
}

func endsInTmo(s []string) bool { return len(s) > 0 && s[len(s)-1] == "tmo" }

// tmoStage: the stage the peer is at when it comes to the script's tmo step (0: the script has none)
func tmoStage(st []stage, script []string) int {
	pk := 1
	widx := map[string]int{"ok": 0, "w1": 1, "w2": 2}
	for _, x := range script {
		switch x {
		case "ok", "w1", "w2":
			if pk > len(st) || widx[x] >= len(st[pk-1].Replies) {
				return 0
			}
			switch st[pk-1].Replies[widx[x]].Eff {
			case "adv":
				pk++
			case "ends":
				pk = len(st) + 1
			}
		case "forbid", "garbage":
			pk = len(st) + 1
		case "tmo":
			if pk > len(st) {
				return 0
			}
			return pk
		}
	}
	return 0
}

// generous: no upper bound is asserted on when a timeout fires other than this
const tmoDeadline = 45 * time.Second

// awaitStateTimeout: the silence lasts until the engine reports that the state timer has fired (or that the protocol
// has stopped for another reason: an error that came first, as in some behaviours of the model).
func (r *caseRun) awaitStateTimeout(st *stage) string {
	w := r.tmo
	if w == nil || !st.Timed {
		return "the table does not give this stage a state timeout"
	}
	limit := tmoDeadline
	if st.TmFixed {
		limit += 30 * time.Second
	}
	t0 := time.Now()
	what := fmt.Sprintf("%s = %v", r.shortOpt, r.shortDur)
	if st.TmFixed {
		what = "the fixed " + st.TmOpt
	}
	select {
	case <-w.fired:
		w.mu.Lock()
		r.obs.Timeout = w.state
		w.mu.Unlock()
		r.note("tmo: the timeout of state %s fired %.0f ms into the silence (%s)", r.obs.Timeout, float64(time.Since(t0).Microseconds())/1000, what)
	case <-w.stopped:
		select {
		case <-w.fired:
			w.mu.Lock()
			r.obs.Timeout = w.state
			w.mu.Unlock()
			r.note("tmo: the timeout of state %s fired (%s)", r.obs.Timeout, what)
		case <-time.After(300 * time.Millisecond):
			r.note("tmo: the protocol stopped before its state timeout fired (%s)", what)
		}
	case <-time.After(limit):
		w.mu.Lock()
		armed := strings.Join(w.armed, ",")
		w.mu.Unlock()
		return fmt.Sprintf("no state timeout fired and the protocol did not stop within %v of silence (%s; timers armed: %s): the case cannot be established (whether timeouts fire is C14's subject)",
			limit, what, armed)
	}
	return ""
}

func endsByPeer(s []string) bool {
	return len(s) > 0 && (s[len(s)-1] == "close" || s[len(s)-1] == "muxerr")
}

func (r *caseRun) run() (undecided string) {
	t0 := time.Now()
	defer func() { r.obs.Ms = time.Since(t0).Milliseconds() }()
	r.base = map[int]bool{}
	for id := range snapshot() {
		r.base[id] = true
	}
	a, b := netx.Pipe(int64(r.seed>>20), (r.seed>>3)%4 != 0)
	defer b.Close()
	defer a.Close()
	capacity := 0
	if (r.seed>>5)%2 == 0 {
		capacity = 10
	}
	errCh := make(chan error, capacity)
	r.note("ErrorChan capacity %d", capacity)
	if endsInTmo(r.c.Script) {
		k := tmoStage(r.api.Stages, r.c.Script)
		if k == 0 || !r.api.Stages[k-1].Timed {
			return "tmo step at a stage without a state timeout (table and case do not fit)"
		}
		st := &r.api.Stages[k-1]
		if !st.TmFixed {
			r.shortOpt = r.api.Proto + "." + st.TmOpt
			if !scalable[r.shortOpt] {
				return "the driver has no option for " + r.shortOpt
			}
			r.shortDur = time.Duration(120+60*((r.seed>>36)%4)) * time.Millisecond
		}
		r.tmo = newTmoWatch(r.api.Pid)
		theHub.set(r.tmo.event, nil)
		defer theHub.set(nil, nil)
	}

	connCh := make(chan connResult, 1)
	go r.connect(r.options(a, errCh), connCh)
	if _, why := handshake(b, r.api.Conn, magicOf(r.seed)); why != "" {
		return "handshake with the raw peer failed: " + why
	}
	var reqTypes []uint
	for _, st := range r.api.Stages {
		if st.Req != "" {
			reqTypes = append(reqTypes, st.ReqType)
		}
	}
	r.peer = newRawPeer(b, r.api.Conn != "ntn-server", r.api.Pid, reqTypes)
	go r.peer.readLoop()
	defer func() {
		_ = b.Close()
		close(r.peer.resume)
		select {
		case <-r.peer.readDone:
		case <-time.After(10 * time.Second):
		}
	}()
	select {
	case x := <-connCh:
		if x.err != nil {
			return "NewConnection failed after the raw peer agreed the version: " + x.err.Error()
		}
		r.conn = x.c
	case <-time.After(60 * time.Second):
		return "NewConnection did not return"
	}
	if r.api.Conn == "ntn-server" {
		if err := r.peer.write(r.api.Pid, message("txsubmission", "Init", r.fx)); err != nil {
			return "the raw peer could not write Init: " + err.Error()
		}
	}
	pkg := r.api.Proto
	r.needle = libPath + "/protocol/" + pkg + ".(*" + r.api.Type + ")." + r.api.Func

	// ---- the call and the script
	ret, gid := r.startCall()
	if why := r.playScript(b); why != "" {
		return why
	}
	r.obs.Played = int(r.peer.played.Load())

	var got callResult
	callDone := false
	setCall := func(v waitVerdict, res callResult) string {
		switch v {
		case returned:
			callDone, got = true, res
			r.obs.Ret = "return"
		case hangs:
			r.obs.Ret = "hang"
		default:
			return "call neither returned nor is provably parked (machine too busy?)"
		}
		return ""
	}
	expectHang := has(r.c.Pred.Ret, false) // a hang is possible: look for the evidence early (it is needed either way)
	if endsByPeer(r.c.Script) {
		// the connection has ended: the call must return without any help from Close
		if why := setCall(r.awaitReturn(ret, gid, r.needle, expectHang, "the call")); why != "" {
			return why
		}
	} else {
		// wait until the call has returned or nothing moves in the library any more
		deadline := time.Now().Add(60 * time.Second)
		for !callDone {
			select {
			case got = <-ret:
				callDone = true
				r.obs.Ret = "return"
				continue
			case <-time.After(40 * time.Millisecond):
			}
			if libraryAtRest(r.base, 120*time.Millisecond) {
				break
			}
			if time.Now().After(deadline) {
				return "the library did not come to rest within 60s after the script"
			}
		}
	}

	// ---- Close
	closed := make(chan struct{})
	cgid := make(chan int, 1)
	go func() {
		cgid <- curGid()
		_ = r.closeConn()
		close(closed)
	}()
	closeGid := <-cgid
	closeNeedle := libPath + ".(*Connection).Close"
	for attempt := 0; ; attempt++ {
		select {
		case <-closed:
			r.obs.CloseRet = true
		case <-time.After(20 * time.Second):
			ok1, d1 := parkedIn(closeGid, closeNeedle)
			time.Sleep(1500 * time.Millisecond)
			ok2, d2 := parkedIn(closeGid, closeNeedle)
			if ok1 && ok2 && d1 == d2 && libraryAtRest(r.base, 200*time.Millisecond) {
				r.note("Close has not returned: %s", d2)
			} else if attempt < 4 {
				continue
			} else {
				return "Close neither returned nor is provably parked"
			}
		}
		break
	}

	// ---- ErrorChan: read from now on, until it is closed
	if r.obs.CloseRet {
		t1 := time.Now()
	drain:
		for {
			select {
			case err, ok := <-errCh:
				if !ok {
					r.obs.ErrClosed = true
					break drain
				}
				if err != nil && len(r.obs.Errors) < 4 {
					r.obs.Errors = append(r.obs.Errors, err.Error())
				}
			case <-time.After(5 * time.Second):
				if time.Since(t1) > 20*time.Second && libraryAtRest(r.base, 1500*time.Millisecond) {
					r.note("ErrorChan still open %.0fs after Close returned, library at rest", time.Since(t1).Seconds())
					break drain
				}
				if time.Since(t1) > 90*time.Second {
					return "ErrorChan neither closed nor the library at rest"
				}
			}
		}
	}

	// ---- the call, if it is still out
	if !callDone && r.obs.Ret == "" {
		if why := setCall(r.awaitReturn(ret, gid, r.needle, expectHang, "the call")); why != "" {
			return why
		}
	}
	if callDone {
		switch {
		case got.panic != "":
			r.obs.RetVal = "panic: " + got.panic
		case got.err != nil:
			r.obs.RetVal = "error: " + got.err.Error()
		default:
			r.obs.RetVal = "ok"
		}
	}

	// ---- one more call on the closed connection
	ret2, gid2 := r.startCall()
	switch v, res := r.awaitReturn(ret2, gid2, r.needle, has(r.c.Pred.Ret2, false), "the second call"); v {
	case returned:
		r.obs.Ret2 = "return"
		if res.panic != "" {
			r.obs.Ret2 = "panic"
			r.note("second call: panic: %s", res.panic)
		}
	case hangs:
		r.obs.Ret2 = "hang"
	default:
		return "second call neither returned nor is provably parked"
	}

	// ---- what is left
	gs, ok := stableLeftovers(r.base, 1500*time.Millisecond, 60*time.Second)
	if !ok {
		return "the leftover goroutines did not become stable within 60s"
	}
	r.obs.Leak = []string{}
	for _, g := range gs {
		r.obs.Leak = append(r.obs.Leak, g.class())
		if len(r.obs.Notes) < 12 {
			r.note("left: goroutine %d [%s] %s at %s", g.id, g.state, g.class(), g.top)
		}
	}
	sort.Strings(r.obs.Leak)
	return ""
}

func (r *caseRun) closeConn() error { return r.conn.Close() }

// ---- comparison with the specification

func sameSet(a, b []string) bool {
	if len(a) != len(b) {
		return false
	}
	x := append([]string{}, a...)
	y := append([]string{}, b...)
	sort.Strings(x)
	sort.Strings(y)
	for i := range x {
		if x[i] != y[i] {
			return false
		}
	}
	return true
}

func compare(rep *vh.Reporter, c *caseRow, o *observation, replay map[string]any, reported map[string]bool) int {
	key := caseKey(c)
	n := 0
	dis := func(suffix, desc string) {
		if reported[suffix] {
			return // the same verdict in an earlier run of this case
		}
		reported[suffix] = true
		n++
		notes := o.Notes
		if len(notes) > 6 {
			notes = notes[:6]
		}
		rep.Disagree(key+":"+suffix, desc+"; "+strings.Join(notes, "; "), replay)
	}
	retAspect := func(name, obs string, allowed []bool) {
		switch obs {
		case "hang":
			s := name + "=hang"
			d := fmt.Sprintf("%s never returns although the connection has ended (the property demands a result or an error)", name)
			if !has(allowed, false) {
				s += ":unpredicted"
				d += "; ClientApi.tla instantiated from this tree's source predicts a return in every behaviour"
			} else {
				d += "; ClientApi.tla instantiated from this tree's source predicts exactly this"
			}
			dis(s, d)
		case "return":
			if !has(allowed, true) {
				dis(name+"=return:predicted-hang", name+" returned although ClientApi.tla instantiated from this tree's source has no behaviour in which it returns (the table does not describe the code)")
			}
		case "panic":
			dis(name+"=panic", name+" panicked")
		}
	}
	retAspect("call", o.Ret, c.Pred.Ret)
	if strings.HasPrefix(o.RetVal, "panic") {
		dis("call=panic", "the call panicked: "+o.RetVal)
	}
	retAspect("call2", o.Ret2, c.Pred.Ret2)
	if !o.CloseRet {
		s := "close=hang"
		if !has(c.Pred.CloseRet, false) {
			s += ":unpredicted"
		}
		dis(s, "Close did not return")
	} else if !has(c.Pred.CloseRet, true) {
		dis("close=return:predicted-hang", "Close returned although the model has no such behaviour")
	}
	if o.CloseRet {
		if !o.ErrClosed {
			s := "errchan=open"
			if !has(c.Pred.ErrClosed, false) {
				s += ":unpredicted"
			}
			dis(s, "ErrorChan was not closed after Close returned")
		} else if !has(c.Pred.ErrClosed, true) {
			dis("errchan=closed:predicted-open", "ErrorChan was closed although the model has no such behaviour")
		}
	}
	predicted := false
	for _, a := range c.Pred.Alive {
		if sameSet(a, o.Leak) {
			predicted = true
		}
	}
	if len(o.Leak) > 0 {
		s := "leak=" + strings.Join(o.Leak, "+")
		d := "goroutines started for the connection remain after Close: " + strings.Join(o.Leak, ", ")
		if !predicted {
			s += ":unpredicted"
			d += fmt.Sprintf("; the model allows only %v", c.Pred.Alive)
		}
		dis(s, d)
	} else if !predicted {
		dis("leak=none:predicted-leak", fmt.Sprintf("no goroutine remains although every behaviour of the model leaves one of %v", c.Pred.Alive))
	}
	return n
}

func readJSON(path string, v any) error {
	b, err := os.ReadFile(path)
	if err != nil {
		return err
	}
	return json.Unmarshal(b, v)
}

func readHex(path string) ([]byte, error) {
	txt, err := os.ReadFile(path)
	if err != nil {
		return nil, err
	}
	return hex.DecodeString(strings.TrimSpace(string(txt)))
}

func main() {
	if len(os.Args) >= 4 && os.Args[1] == "extract" {
		extract(os.Args[2], os.Args[3])
		return
	}
	if len(os.Args) >= 3 && os.Args[1] == "life" {
		lifeMain(os.Args[2]) // server restart, client Stop, keep-alive timer (life*.go)
		return
	}
	rep := vh.NewReporter()
	installTracers()
	if len(os.Args) < 4 || os.Args[1] != "run" {
		rep.Dead("usage: c15 extract <repo> <hand.json> | c15 run <table.json> <rows.ndjson> | c15 life <rows.ndjson>")
	}
	if ms, err := strconv.Atoi(os.Getenv("VERIF_C15_HANG_MS")); err == nil && ms > 0 {
		waitReturnShort = time.Duration(ms) * time.Millisecond
	}
	var table struct {
		Apis []apiRow `json:"apis"`
	}
	if err := readJSON(os.Args[2], &table); err != nil {
		rep.Dead("table: %v", err)
	}
	apis := map[string]*apiRow{}
	for i := range table.Apis {
		apis[table.Apis[i].Name] = &table.Apis[i]
	}
	rows, err := vh.ReadNDJSON[caseRow](os.Args[3])
	if err != nil || len(rows) == 0 {
		rep.Dead("rows: %v (%d rows)", err, len(rows))
	}
	root := os.Getenv("VERIF_REPO")
	if root == "" {
		root = "/repo"
	}
	fx, err := loadFixture(root)
	if err != nil {
		rep.Dead("fixture block: %v", err)
	}
	seed := vh.Seed()
	hangsSeen, maxMs, leaks, tmoCases, tmoFired := 0, int64(0), 0, 0, 0
	byObs := map[string]int{}
	for i := range rows {
		c := &rows[i]
		api := apis[c.Api]
		if api == nil {
			rep.Dead("case for an API that is not in the table: %s", c.Api)
		}
		cs0 := int64(hs.Mix(seed, c.Api, scriptName(c.Script)) >> 1)
		runs := 1
		if c.Rseed != nil {
			cs0 = *c.Rseed
		}
		if c.Repeat > 1 {
			runs = c.Repeat
		}
		key := caseKey(c)
		reported := map[string]bool{}
		for k := 0; k < runs; k++ {
			cs := cs0 + int64(k)*7919
			var run *caseRun
			var why string
			for attempt := 0; attempt < 3; attempt++ {
				run = &caseRun{c: c, api: api, fx: fx, seed: uint64(cs)}
				rep.Guard(key, map[string]any{"row": c, "rseed": cs}, func() { why = run.run() })
				if why == "" {
					break
				}
				fmt.Fprintf(os.Stderr, "c15: %s undecided (attempt %d): %s\n", key, attempt+1, why)
				time.Sleep(time.Second)
			}
			if why != "" {
				rep.Dead("%s could not be decided after 3 attempts: %s", key, why)
			}
			rep.Case(key, true)
			o := &run.obs
			rc := *c
			rc.Rseed = &cs
			rc.Repeat = 0
			replay := map[string]any{"row": rc, "rseed": cs, "verif_seed": seed, "observed": o}
			compare(rep, c, o, replay, reported)
			if o.Ret == "hang" || o.Ret2 == "hang" {
				hangsSeen++
			}
			if len(o.Leak) > 0 {
				leaks++
			}
			if endsInTmo(c.Script) {
				tmoCases++
				if o.Timeout != "" {
					tmoFired++
				}
			}
			if o.Ms > maxMs {
				maxMs = o.Ms
			}
			if os.Getenv("VERIF_C15_VERBOSE") != "" {
				fmt.Fprintf(os.Stderr, "c15: %s: %dms call=%s(%s) call2=%s close=%v errchan=%v leak=%v notes=%v\n", key, o.Ms, o.Ret, o.RetVal, o.Ret2, o.CloseRet, o.ErrClosed, o.Leak, o.Notes)
			}
			byObs[fmt.Sprintf("call=%s call2=%s close=%v errchan=%v leak=%d", o.Ret, o.Ret2, o.CloseRet, o.ErrClosed, len(o.Leak))]++
			if k == 0 && (c.Idx+int(seed))%41 == 0 {
				rep.Sample(map[string]any{"case": key, "observed": fmt.Sprintf("call=%s (%s) call2=%s close=%v errchan_closed=%v leak=%v errors=%v",
					o.Ret, o.RetVal, o.Ret2, o.CloseRet, o.ErrClosed, o.Leak, o.Errors), "predicted": c.Pred})
			}
		}
	}
	rep.Extra["c15_cases_with_a_hanging_call"] = hangsSeen
	rep.Extra["c15_cases_with_leftover_goroutines"] = leaks
	rep.Extra["c15_cases_of_silence_beyond_a_state_timeout"] = tmoCases
	rep.Extra["c15_cases_where_the_state_timeout_fired"] = tmoFired
	_ = maxMs
	for k, n := range byObs {
		rep.Extra["c15_observed: "+k] = n // numbers, so that the shards add up
	}
	rep.Finish()
}
