package main

// c15 life <rows.ndjson>: the life-cycle cases of C15 - server restart on Done
// (spec/net/ServerRestart.tla), the clients' Stop() paths (ClientStop.tla) and the
// keep-alive timer chain (KeepAliveTimer.tla).
//
// A row is one case TLC generated, with the set of observations TLC reached for it
// ("pred": the distinct terminal / at-rest rows).  The driver executes the case on a
// real ouroboros.Connection against the raw segment-level peer, takes the same
// observations and demands (a) the obligations of the property - nothing left after
// Close, every call and every Stop back once the connection has ended, no goroutine
// of an old protocol instance at rest, no timer armed after shutdown - and (b) that
// the observation is one of the predicted ones.
//
// Schedules the model distinguishes are forced with the `verif` trace hooks of the
// engine and the muxer (protocol.VerifTracer / muxer.VerifTracer): a hook may hold the
// goroutine that emits an event (never one that is emitted under a library mutex).

import (
	"encoding/json"
	"fmt"
	"os"
	"reflect"
	"regexp"
	"sort"
	"strings"
	"sync"
	"time"
	"unsafe"

	ouroboros "github.com/blinklabs-io/gouroboros"
	"github.com/blinklabs-io/gouroboros/muxer"
	"github.com/blinklabs-io/gouroboros/protocol"
	"github.com/blinklabs-io/gouroboros/protocol/keepalive"

	"verifharness/hs"
	"verifharness/netx"
	"verifharness/vh"
)

type lifeRow struct {
	Kind string `json:"kind"`
	Idx  int    `json:"idx"`
	// timer: script, hold, late; restart: proto, script, timing; stop: client, scenario, ending
	Script   []string         `json:"script,omitempty"`
	Hold     string           `json:"hold,omitempty"`
	Late     bool             `json:"late,omitempty"`
	Proto    string           `json:"proto,omitempty"`
	Timing   string           `json:"timing,omitempty"`
	Client   string           `json:"client,omitempty"`
	Scenario string           `json:"scenario,omitempty"`
	Ending   string           `json:"ending,omitempty"`
	Who      string           `json:"who,omitempty"` // bulk: who, target, reads, close
	Target   string           `json:"target,omitempty"`
	Reads    int              `json:"reads,omitempty"`
	Close    bool             `json:"close,omitempty"`
	Pred     []map[string]any `json:"pred"`
	Repeat   int              `json:"repeat,omitempty"`
	Rseed    *int64           `json:"rseed,omitempty"`
}

func (w *lifeRow) key() string {
	switch w.Kind {
	case "timer":
		k := "timer:script=" + scriptName(w.Script) + ":hold=" + w.Hold
		if w.Late {
			k += ":late"
		}
		return k
	case "restart":
		return "restart:proto=" + w.Proto + ":script=" + scriptName(w.Script) + ":timing=" + w.Timing
	case "stop":
		return "stop:client=" + w.Client + ":scenario=" + w.Scenario + ":end=" + w.Ending
	case "bulk":
		return fmt.Sprintf("bulk:target=%s:reads=%d:close=%v", w.Target, w.Reads, w.Close)
	}
	return "?" + w.Kind
}

// ---- the trace hooks

type hub struct {
	mu    sync.RWMutex
	proto func(p *protocol.Protocol, e protocol.VerifEvent)
	mux   func(m *muxer.Muxer, e muxer.VerifEvent)
}

var theHub hub

func (h *hub) set(p func(*protocol.Protocol, protocol.VerifEvent), m func(*muxer.Muxer, muxer.VerifEvent)) {
	h.mu.Lock()
	h.proto, h.mux = p, m
	h.mu.Unlock()
}

func installTracers() {
	protocol.VerifTracer = func(p *protocol.Protocol, e protocol.VerifEvent) {
		theHub.mu.RLock()
		f := theHub.proto
		theHub.mu.RUnlock()
		if f != nil {
			f(p, e)
		}
	}
	muxer.VerifTracer = func(m *muxer.Muxer, e muxer.VerifEvent) {
		theHub.mu.RLock()
		f := theHub.mux
		theHub.mu.RUnlock()
		if f != nil {
			f(m, e)
		}
	}
}

// ---- rest

func lifeParked(g *gor) bool { return g.parked() && g.state != "sleep" }

// lifeAtRest: every library goroutine created since base (the driver's callers included) is parked - a goroutine
// in time.Sleep is polling, not at rest - and nothing changed between two looks `gap` apart.
func lifeAtRest(base map[int]bool, gap time.Duration) bool {
	look := func() (string, bool) {
		var s []string
		for id, g := range snapshot() {
			if base[id] || !g.library() {
				continue
			}
			if !lifeParked(g) {
				return "", false
			}
			s = append(s, fmt.Sprintf("%d/%s/%s", id, g.state, g.top))
		}
		sort.Strings(s)
		return strings.Join(s, "|"), true
	}
	a, ok := look()
	if !ok {
		return false
	}
	time.Sleep(gap)
	b, ok := look()
	return ok && a == b
}

func waitRest(base map[int]bool, limit time.Duration) bool {
	deadline := time.Now().Add(limit)
	for {
		if lifeAtRest(base, 150*time.Millisecond) {
			return true
		}
		if time.Now().After(deadline) {
			return false
		}
		time.Sleep(30 * time.Millisecond)
	}
}

var reArg = regexp.MustCompile(`\((0x[0-9a-f]+)\??[,)]`)

// entryLine returns the frame line of the function the goroutine was started with (last library frame).
func (g *gor) entryLine() string {
	lines := strings.Split(g.text, "\n")
	for i := len(lines) - 1; i >= 1; i-- {
		l := strings.TrimSpace(lines[i])
		if strings.HasPrefix(l, libPath) && !strings.Contains(l, ".gowrap") {
			return l
		}
	}
	return ""
}

// loopsOf: the classes (recv, send, read, state) of the engine goroutines whose receiver is one of ptrs.
func loopsOf(base map[int]bool, ptrs map[string]bool) []string {
	out := []string{}
	for _, g := range leftovers(base) {
		cl := g.class()
		if cl != "recv" && cl != "send" && cl != "read" && cl != "state" {
			continue
		}
		m := reArg.FindStringSubmatch(g.entryLine())
		if m != nil && ptrs[m[1]] {
			out = append(out, cl)
		}
	}
	sort.Strings(out)
	return out
}

func ptrOf(p *protocol.Protocol) string { return fmt.Sprintf("0x%x", uintptr(unsafe.Pointer(p))) }

// ---- callers

type task struct {
	done chan struct{}
	gid  int
	err  error
	pan  string
}

func (t *task) returned() bool {
	select {
	case <-t.done:
		return true
	default:
		return false
	}
}

// startCallLife runs f on its own goroutine; the name makes the goroutine one of the driver's callers in a dump
// (gor.driverCaller matches the prefix "main.(*caseRun).startCall").
func (r *caseRun) startCallLife(f func() error) *task {
	t := &task{done: make(chan struct{})}
	gidCh := make(chan int, 1)
	go func() {
		gidCh <- curGid()
		defer func() {
			if p := recover(); p != nil {
				t.pan = fmt.Sprint(p)
			}
			close(t.done)
		}()
		t.err = f()
	}()
	t.gid = <-gidCh
	return t
}

// where: "ret", or "parked" with the evidence of two dumps 1.5 s apart (the caller parked inside `needle`, the library
// at rest); "" if neither can be established.
func (r *caseRun) where(t *task, needle string, patience time.Duration, what string) string {
	select {
	case <-t.done:
		return "ret"
	case <-time.After(patience):
	}
	for attempt := 0; attempt < 6; attempt++ {
		ok1, d1 := parkedIn(t.gid, needle)
		select {
		case <-t.done:
			return "ret"
		case <-time.After(1500 * time.Millisecond):
		}
		ok2, d2 := parkedIn(t.gid, needle)
		if ok1 && ok2 && d1 == d2 && lifeAtRest(r.base, 200*time.Millisecond) {
			r.note("%s has not returned: %s; the library is at rest", what, d2)
			return "parked"
		}
		select {
		case <-t.done:
			return "ret"
		case <-time.After(3 * time.Second):
		}
	}
	return ""
}

// ---- the connection of a life case

type lifeConn struct {
	a, b    net_Conn
	errCh   chan error
	conn    *ouroboros.Connection
	peer    *rawPeer
	drained chan struct{} // closed when the reader has seen ErrorChan closed
	emu     sync.Mutex
	errs    []string
}

func (r *caseRun) lifeConnect(kind string, pid uint16, reqTypes []uint, hook func(uint16, uint, []rawItem) bool,
	extra ...ouroboros.ConnectionOptionFunc) (*lifeConn, string) {
	lc := &lifeConn{}
	lc.a, lc.b = netx.Pipe(int64(r.seed>>20), (r.seed>>3)%4 != 0)
	capacity := 0
	if (r.seed>>5)%2 == 0 {
		capacity = 10
	}
	lc.errCh = make(chan error, capacity)
	lc.drained = make(chan struct{})
	// the user of these cases reads ErrorChan all the time (ClientApi.tla's cases read it only after Close)
	go func() {
		for err := range lc.errCh {
			if err != nil {
				lc.emu.Lock()
				if len(lc.errs) < 4 {
					lc.errs = append(lc.errs, err.Error())
				}
				lc.emu.Unlock()
			}
		}
		close(lc.drained)
	}()
	r.api = &apiRow{Conn: kind}
	connCh := make(chan connResult, 1)
	opts := append(r.options(lc.a, lc.errCh), extra...)
	go r.connect(opts, connCh)
	if _, why := handshake(lc.b, kind, magicOf(r.seed)); why != "" {
		return lc, "handshake with the raw peer failed: " + why
	}
	lc.peer = newRawPeer(lc.b, !strings.HasSuffix(kind, "-server"), pid, reqTypes)
	lc.peer.hook = hook
	r.peer = lc.peer
	go lc.peer.readLoop()
	select {
	case x := <-connCh:
		if x.err != nil {
			return lc, "NewConnection failed after the raw peer agreed the version: " + x.err.Error()
		}
		lc.conn = x.c
		r.conn = x.c
	case <-time.After(60 * time.Second):
		return lc, "NewConnection did not return"
	}
	return lc, ""
}

func (lc *lifeConn) cleanup() {
	if lc.b != nil {
		_ = lc.b.Close()
	}
	if lc.a != nil {
		_ = lc.a.Close()
	}
	if lc.peer != nil {
		close(lc.peer.resume)
		select {
		case <-lc.peer.readDone:
		case <-time.After(10 * time.Second):
		}
	}
}

// closeAndDrain: Close() on its own goroutine, then ErrorChan must be closed.
func (r *caseRun) closeAndDrain(lc *lifeConn) (closeRet, errClosed bool, errs []string, why string) {
	closed := make(chan struct{})
	cgid := make(chan int, 1)
	go func() {
		cgid <- curGid()
		_ = r.closeConn()
		close(closed)
	}()
	closeGid := <-cgid
	closeNeedle := libPath + ".(*Connection).Close"
	for attempt := 0; ; attempt++ {
		select {
		case <-closed:
			closeRet = true
		case <-time.After(20 * time.Second):
			ok1, d1 := parkedIn(closeGid, closeNeedle)
			time.Sleep(1500 * time.Millisecond)
			ok2, d2 := parkedIn(closeGid, closeNeedle)
			if ok1 && ok2 && d1 == d2 && lifeAtRest(r.base, 200*time.Millisecond) {
				r.note("Close has not returned: %s", d2)
			} else if attempt < 4 {
				continue
			} else {
				return false, false, nil, "Close neither returned nor is provably parked"
			}
		}
		break
	}
	if !closeRet {
		return
	}
	// the reader started with the connection sees ErrorChan closed
	t1 := time.Now()
	for {
		select {
		case <-lc.drained:
			lc.emu.Lock()
			errs = append(errs, lc.errs...)
			lc.emu.Unlock()
			return closeRet, true, errs, ""
		case <-time.After(5 * time.Second):
			if time.Since(t1) > 20*time.Second && lifeAtRest(r.base, 1500*time.Millisecond) {
				r.note("ErrorChan still open %.0fs after Close returned, library at rest", time.Since(t1).Seconds())
				return closeRet, false, errs, ""
			}
			if time.Since(t1) > 90*time.Second {
				return closeRet, false, errs, "ErrorChan neither closed nor the library at rest"
			}
		}
	}
}

// finalLeftovers: the classes of the library goroutines that remain (stable), or ok=false.
func (r *caseRun) finalLeftovers() ([]string, bool) {
	gs, ok := stableLeftovers(r.base, 1500*time.Millisecond, 60*time.Second)
	if !ok {
		return nil, false
	}
	out := []string{}
	for _, g := range gs {
		cl := g.class()
		if strings.HasSuffix(cl, "chainsync.(*Client).syncLoop") {
			cl = "aux"
		}
		out = append(out, cl)
		if len(r.obs.Notes) < 12 {
			r.note("left: goroutine %d [%s] %s at %s", g.id, g.state, cl, g.top)
		}
	}
	sort.Strings(out)
	return out, true
}

// ---- comparison with the predicted observations

func canon(v any) string {
	switch x := v.(type) {
	case []any:
		s := make([]string, len(x))
		for i := range x {
			s[i] = canon(x[i])
		}
		sort.Strings(s)
		return "[" + strings.Join(s, ",") + "]"
	case []string:
		s := append([]string{}, x...)
		sort.Strings(s)
		return "[" + strings.Join(s, ",") + "]"
	case float64:
		return fmt.Sprintf("%d", int64(x))
	case int:
		return fmt.Sprintf("%d", x)
	case bool:
		return fmt.Sprintf("%v", x)
	case string:
		return x
	}
	return fmt.Sprint(v)
}

// outside reports why obs (of the given "at") is none of the predicted rows: the first field whose value no
// predicted row has, or "combination"; "" if it is one of them.
func outside(pred []map[string]any, at string, obs map[string]any) string {
	var rows []map[string]any
	for _, p := range pred {
		if p["at"] == at {
			rows = append(rows, p)
		}
	}
	keys := make([]string, 0, len(obs))
	for k := range obs {
		keys = append(keys, k)
	}
	sort.Strings(keys)
	for _, p := range rows {
		same := true
		for _, k := range keys {
			if pv, ok := p[k]; ok && canon(pv) != canon(obs[k]) {
				same = false
				break
			}
		}
		if same {
			return ""
		}
	}
	for _, k := range keys {
		seen := false
		known := false
		for _, p := range rows {
			if pv, ok := p[k]; ok {
				known = true
				if canon(pv) == canon(obs[k]) {
					seen = true
				}
			}
		}
		if known && !seen {
			return k + "=" + canon(obs[k])
		}
	}
	return "combination"
}

func predicts(pred []map[string]any, at, field string, v any) bool {
	for _, p := range pred {
		if p["at"] == at {
			if pv, ok := p[field]; ok && canon(pv) == canon(v) {
				return true
			}
		}
	}
	return false
}

type lifeReport struct {
	rep      *vh.Reporter
	row      *lifeRow
	replay   map[string]any
	reported map[string]bool
	notes    func() []string
}

func (l *lifeReport) dis(suffix, desc string) {
	if l.reported[suffix] {
		return
	}
	l.reported[suffix] = true
	notes := l.notes()
	if len(notes) > 6 {
		notes = notes[:6]
	}
	l.rep.Disagree(l.row.key()+":"+suffix, desc+"; "+strings.Join(notes, "; "), l.replay)
}

// obligation: `bad` is a breach of the property whatever the model says; the key says whether the model predicted it.
func (l *lifeReport) obligation(bad bool, at, field string, v any, suffix, desc string) bool {
	if !bad {
		return false
	}
	if !predicts(l.row.Pred, at, field, v) {
		suffix += ":unpredicted"
		desc += "; the specification has no behaviour with this observation"
	} else {
		desc += "; the specification predicts exactly this"
	}
	l.dis(suffix, desc)
	return true
}

// ---- the keep-alive client's timer (unexported fields, read under its own mutex)

func kaTimer(cl *keepalive.Client) (*sync.Mutex, **time.Timer, bool) {
	v := reflect.ValueOf(cl).Elem()
	ft := v.FieldByName("timer")
	fm := v.FieldByName("timerMutex")
	if !ft.IsValid() || !fm.IsValid() || ft.Type() != reflect.TypeOf((*time.Timer)(nil)) || fm.Type() != reflect.TypeOf(sync.Mutex{}) {
		return nil, nil, false
	}
	return (*sync.Mutex)(unsafe.Pointer(fm.UnsafeAddr())), (**time.Timer)(unsafe.Pointer(ft.UnsafeAddr())), true
}

// ---- main loop of the mode

func lifeMain(rowsPath string) {
	rep := vh.NewReporter()
	rows, err := vh.ReadNDJSON[lifeRow](rowsPath)
	if err != nil || len(rows) == 0 {
		rep.Dead("rows: %v (%d rows)", err, len(rows))
	}
	root := os.Getenv("VERIF_REPO")
	if root == "" {
		root = "/repo"
	}
	fx, err := loadFixture(root)
	if err != nil {
		rep.Dead("fixture block: %v", err)
	}
	installTracers()
	seed := vh.Seed()
	byKind := map[string]int{}
	for i := range rows {
		w := &rows[i]
		key := w.key()
		cs0 := int64(hs.Mix(seed, key) >> 1)
		if w.Rseed != nil {
			cs0 = *w.Rseed
		}
		runs := 1
		if w.Repeat > 1 {
			runs = w.Repeat
		}
		reported := map[string]bool{}
		for k := 0; k < runs; k++ {
			cs := cs0 + int64(k)*7919
			var run *caseRun
			var why string
			var obs map[string]any
			for attempt := 0; attempt < 3; attempt++ {
				run = &caseRun{fx: fx, seed: uint64(cs)}
				rc := *w
				rc.Rseed = &cs
				rc.Repeat = 0
				replay := map[string]any{"row": rc, "rseed": cs, "verif_seed": seed}
				lr := &lifeReport{rep: rep, row: w, replay: replay, reported: reported, notes: func() []string { return run.obs.Notes }}
				rep.Guard(key, replay, func() {
					t0 := time.Now()
					switch w.Kind {
					case "timer":
						obs, why = run.runTimer(w, lr)
					case "restart":
						obs, why = run.runRestart(w, lr)
					case "stop":
						obs, why = run.runStop(w, lr)
					case "bulk":
						obs, why = run.runBulk(w, lr)
					default:
						why = "unknown kind " + w.Kind
					}
					run.obs.Ms = time.Since(t0).Milliseconds()
				})
				theHub.set(nil, nil)
				if why == "" {
					break
				}
				fmt.Fprintf(os.Stderr, "c15: %s undecided (attempt %d): %s\n", key, attempt+1, why)
				time.Sleep(time.Second)
			}
			if why != "" {
				rep.Dead("%s could not be decided after 3 attempts: %s", key, why)
			}
			rep.Case(key, true)
			byKind[w.Kind]++
			if os.Getenv("VERIF_C15_VERBOSE") != "" {
				b, _ := json.Marshal(obs)
				fmt.Fprintf(os.Stderr, "c15: %s: %dms %s errors=%v notes=%v\n", key, run.obs.Ms, b, run.obs.Errors, run.obs.Notes)
			}
			if k == 0 && (w.Idx+int(seed))%29 == 0 {
				rep.Sample(map[string]any{"case": key, "observed": obs, "predicted_rows": len(w.Pred)})
			}
		}
	}
	for k, n := range byKind {
		rep.Extra["c15_life_cases_"+k] = n
	}
	for k, n := range lifeStats {
		rep.Extra["c15_life: "+k] = n
	}
	rep.Finish()
}

var lifeStats = map[string]int{}
