package main

import (
	"bytes"
	"encoding/binary"
	"fmt"
	"net"
	"sync"
	"sync/atomic"
	"time"

	fcbor "github.com/fxamacker/cbor/v2"

	"github.com/blinklabs-io/gouroboros/cbor"
	"github.com/blinklabs-io/gouroboros/ledger"
	"github.com/blinklabs-io/gouroboros/protocol"
	"github.com/blinklabs-io/gouroboros/protocol/blockfetch"
	"github.com/blinklabs-io/gouroboros/protocol/chainsync"
	pcommon "github.com/blinklabs-io/gouroboros/protocol/common"
	"github.com/blinklabs-io/gouroboros/protocol/localstatequery"
	"github.com/blinklabs-io/gouroboros/protocol/localtxmonitor"
	"github.com/blinklabs-io/gouroboros/protocol/localtxsubmission"
	"github.com/blinklabs-io/gouroboros/protocol/peersharing"
	"github.com/blinklabs-io/gouroboros/protocol/txsubmission"

	"verifharness/hs"
)

// ---- the raw peer: segments in, scripted segments out

type rawItem = fcbor.RawMessage

func unmarshalItem(b rawItem, v any) error { return fcbor.Unmarshal(b, v) }

type rawPeer struct {
	conn      net.Conn
	responder bool // the peer answers as the responder (our Connection is the initiator)
	pid       uint16
	reqTypes  []uint // message type of the request of every stage that has one, in order
	mu        sync.Mutex
	seen      int // requests of the call under test seen so far (matched against reqTypes in order)
	seenCh    chan struct{}
	stalled   atomic.Bool
	resume    chan struct{}
	readDone  chan struct{}
	played    atomic.Int32
	problem   atomic.Value
	wmu       sync.Mutex
	// hook, when set, sees every message the library writes (protocol id, message type, items) before the
	// default treatment; it returns true if it has dealt with the message (life.go: scripted keep-alive replies)
	hook func(id uint16, typ uint, v []rawItem) bool
	// onSegment, when set, sees every segment read (it may set stalled: the loop then stops before the next read)
	onSegment func(id uint16, n int)
}

func newRawPeer(conn net.Conn, responder bool, pid uint16, reqTypes []uint) *rawPeer {
	return &rawPeer{conn: conn, responder: responder, pid: pid, reqTypes: reqTypes,
		seenCh: make(chan struct{}, 1), resume: make(chan struct{}), readDone: make(chan struct{})}
}

func (p *rawPeer) write(pid uint16, payload []byte) error {
	p.wmu.Lock()
	defer p.wmu.Unlock()
	_ = p.conn.SetWriteDeadline(time.Now().Add(60 * time.Second))
	return hs.WriteSegment(p.conn, pid, p.responder, payload)
}

// readLoop consumes everything the library writes: keep-alives are answered, requests of the
// protocol under test are counted, everything else is swallowed.
func (p *rawPeer) readLoop() {
	defer close(p.readDone)
	bufs := map[uint16][]byte{}
	for {
		if p.stalled.Load() {
			<-p.resume // never resumed: closed at the end of the case
			return
		}
		id, _, payload, err := hs.ReadSegment(p.conn)
		if err != nil {
			return
		}
		if p.onSegment != nil {
			p.onSegment(id, len(payload))
		}
		buf := append(bufs[id], payload...)
		for len(buf) > 0 {
			var v []fcbor.RawMessage
			dec := fcbor.NewDecoder(bytes.NewReader(buf))
			if err := dec.Decode(&v); err != nil {
				break // incomplete: wait for the next segment
			}
			buf = buf[dec.NumBytesRead():]
			if len(v) == 0 {
				continue
			}
			var typ uint
			if fcbor.Unmarshal(v[0], &typ) != nil {
				continue
			}
			if p.hook != nil && p.hook(id, typ, v) {
				continue
			}
			switch {
			case id == 8 && typ == 0 && len(v) == 2: // keep-alive: echo the cookie
				var cookie uint16
				if fcbor.Unmarshal(v[1], &cookie) == nil {
					_ = p.write(8, hs.Array(hs.Uint(1), hs.Uint(uint64(cookie))))
				}
			case id == p.pid:
				p.mu.Lock()
				if p.seen < len(p.reqTypes) && p.reqTypes[p.seen] == typ {
					p.seen++
					select {
					case p.seenCh <- struct{}{}:
					default:
					}
				}
				p.mu.Unlock()
			}
		}
		bufs[id] = buf
	}
}

// waitRequests blocks until n requests of the call under test have been read.
func (p *rawPeer) waitRequests(n int, d time.Duration) bool {
	t := time.NewTimer(d)
	defer t.Stop()
	for {
		p.mu.Lock()
		ok := p.seen >= n
		p.mu.Unlock()
		if ok {
			return true
		}
		select {
		case <-p.seenCh:
		case <-p.readDone:
			p.mu.Lock()
			ok := p.seen >= n
			p.mu.Unlock()
			return ok
		case <-t.C:
			return false
		}
	}
}

// ---- message bytes

func enc(m any) []byte {
	b, err := cbor.Encode(m)
	if err != nil {
		panic(fmt.Sprintf("cannot encode %T: %v", m, err))
	}
	return b
}

func fill(n int, b byte) []byte {
	return bytes.Repeat([]byte{b}, n)
}

type fixtureBlock struct {
	typ  uint
	raw  []byte
	hash []byte
	slot uint64
}

func uintHeader(n uint) []byte {
	if n < 24 {
		return []byte{byte(n)}
	}
	return []byte{0x18, byte(n)}
}

func bstrHeader(n int) []byte {
	switch {
	case n < 24:
		return []byte{0x40 + byte(n)}
	case n < 1<<8:
		return []byte{0x58, byte(n)}
	case n < 1<<16:
		return []byte{0x59, byte(n >> 8), byte(n)}
	default:
		return []byte{0x5a, byte(n >> 24), byte(n >> 16), byte(n >> 8), byte(n)}
	}
}

// msgBlock = [4, 24(h'[type, block]')]
func msgBlock(f *fixtureBlock) []byte {
	wrapped := append([]byte{0x82}, uintHeader(f.typ)...)
	wrapped = append(wrapped, f.raw...)
	out := []byte{0x82, 0x04, 0xd8, 0x18}
	out = append(out, bstrHeader(len(wrapped))...)
	return append(out, wrapped...)
}

var (
	intersectPoint = pcommon.NewPoint(10, fill(32, 0xaa))
	tipPoint       = pcommon.NewPoint(1000, fill(32, 0xbb))
	theTip         = pcommon.Tip{Point: tipPoint, BlockNumber: 77}
)

// message returns the bytes of the named message of protocol `proto`.
func message(proto, name string, fx *fixtureBlock) []byte {
	switch proto + "." + name {
	case "localtxsubmission.AcceptTx":
		return enc(localtxsubmission.NewMsgAcceptTx())
	case "localtxsubmission.RejectTx":
		return enc(localtxsubmission.NewMsgRejectTx([]byte{0x82, 0x01, 0x63, 'b', 'a', 'd'}))
	case "localtxsubmission.SubmitTx":
		return enc(localtxsubmission.NewMsgSubmitTx(6, []byte{0x84, 0xa0, 0xa0, 0xf5, 0xf6}))
	case "localtxmonitor.Acquired":
		return enc(localtxmonitor.NewMsgAcquired(42))
	case "localtxmonitor.ReplyHasTx":
		return enc(localtxmonitor.NewMsgReplyHasTx(true))
	case "localtxmonitor.ReplyNextTx":
		return enc(localtxmonitor.NewMsgReplyNextTx(6, []byte{0x84, 0xa0, 0xa0, 0xf5, 0xf6}))
	case "localtxmonitor.ReplyGetSizes":
		return enc(localtxmonitor.NewMsgReplyGetSizes(1000, 10, 1))
	case "localstatequery.Acquired":
		return enc(localstatequery.NewMsgAcquired())
	case "localstatequery.Failure":
		return enc(localstatequery.NewMsgFailure(localstatequery.AcquireFailurePointTooOld))
	case "localstatequery.Result":
		return enc(localstatequery.NewMsgResult([]byte{0x06}))
	case "chainsync.AwaitReply":
		return enc(chainsync.NewMsgAwaitReply())
	case "chainsync.IntersectFound":
		return enc(chainsync.NewMsgIntersectFound(intersectPoint, theTip))
	case "chainsync.IntersectNotFound":
		return enc(chainsync.NewMsgIntersectNotFound(theTip))
	case "chainsync.RollBackward":
		return enc(chainsync.NewMsgRollBackward(intersectPoint, theTip))
	case "chainsync.RollForward":
		m, err := chainsync.NewMsgRollForwardNtC(fx.typ, fx.raw, theTip)
		if err != nil {
			panic(err)
		}
		return enc(m)
	case "blockfetch.StartBatch":
		return enc(blockfetch.NewMsgStartBatch())
	case "blockfetch.NoBlocks":
		return enc(blockfetch.NewMsgNoBlocks())
	case "blockfetch.BatchDone":
		return enc(blockfetch.NewMsgBatchDone())
	case "blockfetch.Block":
		return msgBlock(fx)
	case "peersharing.SharePeers":
		return enc(peersharing.NewMsgSharePeers(nil))
	case "peersharing.ShareRequest":
		return enc(peersharing.NewMsgShareRequest(3))
	case "txsubmission.Init":
		return enc(txsubmission.NewMsgInit())
	case "txsubmission.ReplyTxIds":
		var id [32]byte
		copy(id[:], fill(32, 0x11))
		return enc(txsubmission.NewMsgReplyTxIds([]txsubmission.TxIdAndSize{{TxId: txsubmission.TxId{EraId: 6, TxId: id}, Size: 100}}))
	case "txsubmission.ReplyTxs":
		return enc(txsubmission.NewMsgReplyTxs([]txsubmission.TxBody{{EraId: 6, TxBody: []byte{0x84, 0xa0, 0xa0, 0xf5, 0xf6}}}))
	case "txsubmission.Done":
		return enc(txsubmission.NewMsgDone())
	case "txsubmission.RequestTxIdsBlocking":
		return enc(txsubmission.NewMsgRequestTxIds(true, 0, 1))
	case "txsubmission.RequestTxs":
		var id [32]byte
		copy(id[:], fill(32, 0x11))
		return enc(txsubmission.NewMsgRequestTxs([]txsubmission.TxId{{EraId: 6, TxId: id}}))
	case "localstatequery.AcquireVolatileTip":
		return enc(localstatequery.NewMsgAcquireVolatileTip())
	case "localstatequery.Query":
		// [0, [2, [1]]]: block query / hard-fork query / current era
		return enc(localstatequery.NewMsgQuery([]any{0, []any{2, []any{1}}}))
	case "chainsync.Done":
		return enc(chainsync.NewMsgDone())
	case "chainsync.FindIntersect":
		return enc(chainsync.NewMsgFindIntersect([]pcommon.Point{intersectPoint}))
	case "chainsync.RequestNext":
		return enc(chainsync.NewMsgRequestNext())
	case "blockfetch.ClientDone":
		return enc(blockfetch.NewMsgClientDone())
	case "blockfetch.RequestRange":
		return enc(blockfetch.NewMsgRequestRange(intersectPoint, intersectPoint))
	}
	panic("no bytes for message " + proto + "." + name)
}

var garbageVariants = [][]byte{
	{0xff},             // a break outside an indefinite-length item
	{0x01},             // a well-formed item that is not a message (no array)
	{0x81, 0x18, 0x63}, // [99]: a message type the protocol does not have
	{0x81, 0x61, 0x78}, // ["x"]: the type is not a number
}

// ---- handshake (raw side)

func ntcVersionData(version uint16, magic uint32) []byte {
	if version&0x7fff >= 15 {
		return hs.DataUB(magic, false)
	}
	return hs.DataU(magic)
}

func ntnVersionData(version uint16, magic uint32, initiatorOnly bool) []byte {
	if version >= 11 {
		return hs.DataUBUB(magic, initiatorOnly, 1, false)
	}
	return hs.DataUB(magic, initiatorOnly)
}

// handshake performs the peer's side; it returns the agreed version or an error text.
func handshake(conn net.Conn, kind string, magic uint32) (uint16, string) {
	_ = conn.SetDeadline(time.Now().Add(60 * time.Second))
	defer conn.SetDeadline(time.Time{})
	if kind == "ntn-server" || kind == "ntc-server" {
		// the peer is the initiator: propose one node-to-node (node-to-client) version
		v := uint16(14)
		data := ntnVersionData(14, magic, true)
		if kind == "ntc-server" {
			v = 16 | 0x8000
			data = ntcVersionData(v, magic)
		}
		msg := hs.Array(hs.Uint(0), hs.Map(map[uint16][]byte{v: data}))
		if err := hs.WriteSegment(conn, 0, false, msg); err != nil {
			return 0, "writing the proposal: " + err.Error()
		}
		for n := 0; n < 64; n++ {
			id, fromResp, pl, err := hs.ReadSegment(conn)
			if err != nil {
				return 0, "reading the handshake reply: " + err.Error()
			}
			if id != 0 {
				continue // a protocol that speaks first overtook the accept
			}
			var m []fcbor.RawMessage
			if err := fcbor.Unmarshal(pl, &m); err != nil || len(m) < 2 || !fromResp {
				return 0, fmt.Sprintf("handshake reply %x", pl)
			}
			var tag, ver uint64
			_ = fcbor.Unmarshal(m[0], &tag)
			_ = fcbor.Unmarshal(m[1], &ver)
			if tag != 1 || ver != uint64(v) {
				return 0, fmt.Sprintf("the responder did not accept version %d: %x", v, pl)
			}
			return v, ""
		}
		return 0, "no handshake reply"
	}
	id, fromResp, payload, err := hs.ReadSegment(conn)
	if err != nil {
		return 0, "reading the proposal: " + err.Error()
	}
	if id != 0 || fromResp {
		return 0, fmt.Sprintf("first segment: protocol %d, responder flag %v", id, fromResp)
	}
	var m []fcbor.RawMessage
	if err := fcbor.Unmarshal(payload, &m); err != nil || len(m) != 2 {
		return 0, fmt.Sprintf("proposal is not a 2-array: %x", payload)
	}
	var tab map[uint16]fcbor.RawMessage
	if err := fcbor.Unmarshal(m[1], &tab); err != nil {
		return 0, "proposal table: " + err.Error()
	}
	var best uint16
	for v := range tab {
		if v > best {
			best = v
		}
	}
	var data []byte
	if kind == "ntc" {
		data = ntcVersionData(best, magic)
	} else {
		data = ntnVersionData(best, magic, true)
	}
	if err := hs.WriteSegment(conn, 0, true, hs.MsgAccept(best, data)); err != nil {
		return 0, "writing the accept: " + err.Error()
	}
	return best, ""
}

// ---- raw writes for truncated / rejected segments

func writeRaw(conn net.Conn, b []byte) error {
	_ = conn.SetWriteDeadline(time.Now().Add(60 * time.Second))
	_, err := conn.Write(b)
	return err
}

func segmentHeader(pid uint16, fromResponder bool, length int) []byte {
	h := make([]byte, 8)
	binary.BigEndian.PutUint32(h[0:4], uint32(time.Now().UnixNano()&0xffffffff))
	id := pid
	if fromResponder {
		id |= 0x8000
	}
	binary.BigEndian.PutUint16(h[4:6], id)
	binary.BigEndian.PutUint16(h[6:8], uint16(length))
	return h
}

func loadFixture(root string) (*fixtureBlock, error) {
	raw, err := readHex(root + "/internal/testdata/conway_block.hex")
	if err != nil {
		return nil, err
	}
	b, err := ledger.NewBlockFromCbor(ledger.BlockTypeConway, raw)
	if err != nil {
		return nil, err
	}
	return &fixtureBlock{typ: ledger.BlockTypeConway, raw: raw, hash: b.Hash().Bytes(), slot: b.SlotNumber()}, nil
}

var _ = protocol.ProtocolModeNodeToNode
