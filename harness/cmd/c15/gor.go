package main

import (
	"fmt"
	"regexp"
	"runtime"
	"sort"
	"strconv"
	"strings"
	"time"
)

// ---- goroutine inspection (runtime.Stack snapshots)

type gor struct {
	id      int
	state   string // first word(s) of the header: "chan receive", "select", "running", ...
	text    string
	created string // function of the "created by" line
	top     string // first function frame
}

var reHdr = regexp.MustCompile(`^goroutine (\d+) \[([^\]]*)\]:`)

func curGid() int {
	buf := make([]byte, 64)
	buf = buf[:runtime.Stack(buf, false)]
	m := reHdr.FindSubmatch(buf)
	if m == nil {
		return -1
	}
	n, _ := strconv.Atoi(string(m[1]))
	return n
}

func allStacks() string {
	buf := make([]byte, 1<<20)
	for {
		n := runtime.Stack(buf, true)
		if n < len(buf) {
			return string(buf[:n])
		}
		buf = make([]byte, 2*len(buf))
	}
}

func snapshot() map[int]*gor {
	out := map[int]*gor{}
	for _, blk := range strings.Split(allStacks(), "\n\n") {
		m := reHdr.FindStringSubmatch(blk)
		if m == nil {
			continue
		}
		id, _ := strconv.Atoi(m[1])
		g := &gor{id: id, state: strings.TrimSpace(strings.Split(m[2], ",")[0]), text: blk}
		lines := strings.Split(blk, "\n")
		if len(lines) > 1 {
			g.top = strings.TrimSpace(lines[1])
		}
		for i, l := range lines {
			if strings.HasPrefix(l, "created by ") {
				g.created = strings.TrimSpace(strings.TrimPrefix(l, "created by "))
				if j := strings.Index(g.created, " in goroutine"); j > 0 {
					g.created = g.created[:j]
				}
				_ = i
			}
		}
		out[id] = g
	}
	return out
}

func (g *gor) parked() bool {
	s := g.state
	return s == "select" || strings.HasPrefix(s, "chan ") || strings.HasPrefix(s, "sync.") ||
		s == "semacquire" || s == "IO wait" || s == "sleep" || s == "select (no cases)"
}

const libPath = "github.com/blinklabs-io/gouroboros"

func (g *gor) library() bool { return strings.Contains(g.text, libPath) }

// driver-side goroutines that legitimately carry library frames: the callers of the API
// under test (a hung call is reported on its own) and NewConnection's caller
func (g *gor) driverCaller() bool {
	return strings.Contains(g.text, "main.(*caseRun).startCall") || strings.Contains(g.text, "main.(*caseRun).connect") ||
		strings.Contains(g.text, "main.(*caseRun).closeConn")
}

func funcOf(frameLine string) string {
	// "github.com/x/y.(*T).m(0xc000..., ...)" -> "github.com/x/y.(*T).m"
	if i := strings.LastIndex(frameLine, "("); i > 0 {
		return frameLine[:i]
	}
	return frameLine
}

// class maps a leftover goroutine onto the goroutine names of ClientApi.tla
func (g *gor) class() string {
	short := func(f string) string {
		f = strings.TrimPrefix(f, libPath)
		f = strings.TrimPrefix(f, "/")
		return f
	}
	// the function the goroutine was started with is the last library frame of its stack
	entry := ""
	lines := strings.Split(g.text, "\n")
	for i := len(lines) - 1; i >= 1; i-- {
		l := strings.TrimSpace(lines[i])
		if strings.HasPrefix(l, libPath) && !strings.Contains(l, ".gowrap") {
			entry = funcOf(l)
			break
		}
	}
	e := short(entry)
	switch {
	case strings.HasSuffix(e, "protocol.(*Protocol).recvLoop"):
		return "recv"
	case strings.HasSuffix(e, "protocol.(*Protocol).sendLoop"):
		return "send"
	case strings.HasSuffix(e, "protocol.(*Protocol).readLoop"):
		return "read"
	case strings.HasSuffix(e, "protocol.(*Protocol).stateLoop"):
		return "state"
	case strings.Contains(e, "protocol.(*Protocol).Start."):
		return "closer"
	case strings.Contains(e, ".(*Client).Start.") || strings.Contains(e, ".(*Server).Start."):
		return "cleanup"
	case strings.HasSuffix(e, "releaseBusyOnProtocolDone"):
		return "watcher"
	case strings.Contains(e, "(*Connection).setupConnection.func1"):
		return "shutdown"
	case strings.Contains(e, "(*Connection).setupConnection.func2"):
		return "fwdMuxer"
	case strings.Contains(e, "(*Connection).setupConnection.func3"):
		return "fwdProto"
	case strings.HasPrefix(e, "muxer."):
		return "muxer:" + strings.TrimPrefix(e, "muxer.")
	}
	if e == "" {
		return "other:" + g.top
	}
	return "other:" + e
}

// leftovers: library goroutines that were not there before the case and are not the
// driver's own callers
func leftovers(base map[int]bool) []*gor {
	var out []*gor
	for id, g := range snapshot() {
		if base[id] || !g.library() || g.driverCaller() {
			continue
		}
		out = append(out, g)
	}
	sort.Slice(out, func(i, j int) bool { return out[i].id < out[j].id })
	return out
}

func sig(gs []*gor) string {
	var s []string
	for _, g := range gs {
		s = append(s, fmt.Sprintf("%d/%s/%s", g.id, g.state, g.top))
	}
	return strings.Join(s, "|")
}

func allParked(gs []*gor) bool {
	for _, g := range gs {
		if !g.parked() {
			return false
		}
	}
	return true
}

// stableLeftovers polls until the set of leftover goroutines is empty, or has stayed the
// same, all parked, for `hold`; it gives up after `limit` (ok=false: the machine is too busy
// to tell).
func stableLeftovers(base map[int]bool, hold, limit time.Duration) (gs []*gor, ok bool) {
	start := time.Now()
	var last string
	var since time.Time
	for {
		gs = leftovers(base)
		if len(gs) == 0 {
			return gs, true
		}
		s := sig(gs)
		if s != last || !allParked(gs) {
			last, since = s, time.Now()
		} else if time.Since(since) >= hold {
			return gs, true
		}
		if time.Since(start) > limit {
			return gs, false
		}
		time.Sleep(50 * time.Millisecond)
	}
}

// libraryAtRest: every library goroutine created since base (callers included) is parked and
// nothing changed between two looks `gap` apart.
func libraryAtRest(base map[int]bool, gap time.Duration) bool {
	look := func() (string, bool) {
		var s []string
		for id, g := range snapshot() {
			if base[id] || !g.library() {
				continue
			}
			if !g.parked() {
				return "", false
			}
			s = append(s, fmt.Sprintf("%d/%s/%s", id, g.state, g.top))
		}
		sort.Strings(s)
		return strings.Join(s, "|"), true
	}
	a, ok := look()
	if !ok {
		return false
	}
	time.Sleep(gap)
	b, ok := look()
	return ok && a == b
}

// parkedIn reports whether goroutine gid is parked with a frame of `needle` on its stack.
func parkedIn(gid int, needle string) (bool, string) {
	g := snapshot()[gid]
	if g == nil {
		return false, "caller goroutine not in the dump"
	}
	in := strings.Contains(g.text, needle)
	return g.parked() && in, fmt.Sprintf("caller goroutine %d [%s] at %s, inside %s=%v", gid, g.state, g.top, needle, in)
}
