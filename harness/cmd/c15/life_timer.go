package main

// The keep-alive timer chain (spec/net/KeepAliveTimer.tla) on a real keepalive.Client with a short period.
//
// Observations: Close returned, ErrorChan closed, goroutines left, Stop returned and - the subject - "leak": after
// the connection has been closed, ErrorChan closed and every goroutine gone, is the client's timer still being
// re-armed?  The client's `timer` field is read (under the client's own timerMutex) three times 0.6 - 0.75 s (>= 5
// periods) apart: a chain that is alive replaces the timer every period.  Finally the timer is stopped by the
// driver (so that a leaked chain does not run on into the next case); Stop() == true says it was still armed.
//
// hold = "tick": the first timer-fired sendKeepAlive is held at the engine's "Enq" event (inside enqueueMessage,
// after its shutdown check, before the queue send; no mutex is held there) until the connection has been closed and
// every other goroutine of the connection has gone - the schedule of KeepAliveTimer.tla's `Held`.

import (
	"fmt"
	"strings"
	"sync"
	"sync/atomic"
	"time"

	ouroboros "github.com/blinklabs-io/gouroboros"
	"github.com/blinklabs-io/gouroboros/protocol"
	"github.com/blinklabs-io/gouroboros/protocol/keepalive"

	"verifharness/hs"
)

// the period: short where a timer tick is awaited and held; longer in the free schedules, where each tick is a small
// window for the (genuine, recorded) race of F-C15-katimer to happen by itself
func kaPeriodOf(hold bool) time.Duration {
	if hold {
		return 60 * time.Millisecond
	}
	return 150 * time.Millisecond
}

func (r *caseRun) runTimer(w *lifeRow, lr *lifeReport) (map[string]any, string) {
	r.base = map[int]bool{}
	for id := range snapshot() {
		r.base[id] = true
	}
	hold := w.Hold == "tick"
	kaPeriod := kaPeriodOf(hold)
	gap := 10 * kaPeriod
	if gap > 750*time.Millisecond {
		gap = 750 * time.Millisecond
	}
	var enqN, enqAfterStop atomic.Int32
	var stopSeen atomic.Bool
	gate := make(chan struct{})
	caught := make(chan struct{}, 1)
	var gateOnce sync.Once
	release := func() { gateOnce.Do(func() { close(gate) }) }
	defer release()
	theHub.set(func(p *protocol.Protocol, e protocol.VerifEvent) {
		if e.Id != keepalive.ProtocolId || e.Role != protocol.ProtocolRoleClient {
			return
		}
		switch e.Ev {
		case "Stop":
			stopSeen.Store(true)
		case "Enq":
			if stopSeen.Load() {
				enqAfterStop.Add(1)
			}
			// the first Enq is Start's own sendKeepAlive, the second the first timer-fired one
			if n := enqN.Add(1); hold && n == 2 {
				caught <- struct{}{}
				<-gate
			}
		}
	}, nil)

	// the raw peer: keep-alives are counted, answered only by the script
	var kaMu sync.Mutex
	var cookies []uint16
	kaCh := make(chan struct{}, 64)
	hook := func(id uint16, typ uint, v []rawItem) bool {
		if id != 8 || typ != 0 || len(v) != 2 {
			return false
		}
		var cookie uint16
		_ = unmarshalItem(v[1], &cookie)
		kaMu.Lock()
		cookies = append(cookies, cookie)
		kaMu.Unlock()
		select {
		case kaCh <- struct{}{}:
		default:
		}
		return true
	}
	kaCount := func() int { kaMu.Lock(); defer kaMu.Unlock(); return len(cookies) }
	waitKa := func(n int, d time.Duration) bool {
		t := time.NewTimer(d)
		defer t.Stop()
		for kaCount() < n {
			select {
			case <-kaCh:
			case <-time.After(20 * time.Millisecond):
			case <-t.C:
				return kaCount() >= n
			}
		}
		return true
	}

	extra := []ouroboros.ConnectionOptionFunc{
		ouroboros.WithKeepAliveConfig(keepalive.NewConfig(keepalive.WithPeriod(kaPeriod), keepalive.WithTimeout(longTimeout))),
	}
	if w.Late {
		extra = append(extra, ouroboros.WithDelayProtocolStart(true))
	}
	lc, why := r.lifeConnect("ntn", 8, nil, hook, extra...)
	defer lc.cleanup()
	if why != "" {
		return nil, why
	}
	cl := lc.conn.KeepAlive().Client
	mu, tp, ok := kaTimer(cl)
	if !ok {
		return nil, "keepalive.Client has no timer / timerMutex fields of the expected types (the binding does not fit this tree)"
	}
	obs := map[string]any{"stopret": false}
	played := 0

	if w.Late {
		// the connection ends before the client is started: read ErrorChan from the start, wait for its close
		_ = lc.b.Close()
		select {
		case <-lc.drained:
		case <-time.After(60 * time.Second):
			return nil, "late: the connection did not shut down within 60s of the peer's close"
		}
		if !waitRest(r.base, 60*time.Second) {
			return nil, "late: the library did not come to rest"
		}
		t := r.startCallLife(func() error { cl.Start(); return nil })
		if r.where(t, libPath+"/protocol/keepalive.(*Client).Start", 20*time.Second, "Client.Start") != "ret" {
			return nil, "late: Client.Start did not return"
		}
	} else {
		if !waitKa(1, 60*time.Second) {
			return nil, "the first keep-alive did not reach the peer within 60s"
		}
		if hold {
			select {
			case <-caught:
			case <-time.After(60 * time.Second):
				return nil, "hold=tick: no timer-fired keep-alive within 60s"
			}
		}
		replies := 0
		for i, x := range w.Script {
			var err error
			switch x {
			case "resp", "badresp":
				replies++
				if !waitKa(replies, 60*time.Second) {
					return nil, fmt.Sprintf("step %d (%s): keep-alive %d did not reach the peer within 60s", i+1, x, replies)
				}
				kaMu.Lock()
				cookie := cookies[replies-1]
				kaMu.Unlock()
				if x == "badresp" {
					cookie ^= 1
				}
				err = lc.peer.write(8, hs.Array(hs.Uint(1), hs.Uint(uint64(cookie))))
			case "stop":
				t := r.startCallLife(func() error { cl.Stop(); return nil })
				switch r.where(t, libPath+"/protocol.(*Protocol).Stop", 20*time.Second, "Client.Stop") {
				case "ret":
					obs["stopret"] = true
				case "":
					return nil, "Client.Stop neither returned nor is provably parked"
				}
			case "close":
				err = lc.b.Close()
			default:
				return nil, "unknown step " + x
			}
			if err != nil {
				r.note("step %d (%s): write failed: %v", i+1, x, err)
			}
			played++
		}
	}
	r.obs.Played = played

	closeRet, errClosed, errs, why := r.closeAndDrain(lc)
	if why != "" {
		return nil, why
	}
	obs["closeret"], obs["errclosed"] = closeRet, errClosed
	r.obs.Errors = errs
	if hold {
		// hold until everything else of the connection has gone: what is left is the held tick alone
		deadline := time.Now().Add(60 * time.Second)
		for {
			gs, ok := stableLeftovers(r.base, 700*time.Millisecond, 20*time.Second)
			if ok && len(gs) == 1 && strings.Contains(gs[0].text, "sendKeepAlive") {
				break
			}
			if time.Now().After(deadline) {
				r.note("hold=tick: other goroutines than the held tick remain after Close (%d)", len(gs))
				break
			}
		}
		release()
	}
	alive, ok := r.finalLeftovers()
	if !ok {
		return nil, "the leftover goroutines did not become stable within 60s"
	}
	obs["alive"] = alive

	// ---- the timer, now that nothing of the connection is left
	read := func() *time.Timer { mu.Lock(); defer mu.Unlock(); return *tp }
	keep := []*time.Timer{read()} // kept reachable: a new timer cannot reuse the address of an old one
	changes := 0
	for i := 0; i < 2; i++ {
		time.Sleep(gap)
		t := read()
		if t != keep[len(keep)-1] {
			changes++
		}
		keep = append(keep, t)
	}
	armed := false
	for i := 0; i < 50; i++ {
		mu.Lock()
		t := *tp
		stoppedNow := t != nil && t.Stop()
		mu.Unlock()
		if stoppedNow {
			armed = true
			break
		}
		if changes == 0 {
			break // never re-armed and not armed now: the chain has ended
		}
		time.Sleep(kaPeriod / 2) // a tick is in flight: it re-arms in a moment
	}
	leak := changes == 2 || armed
	obs["leak"] = leak
	if leak {
		r.note("keep-alive timer after shutdown: replaced %d times in %.1fs, armed at the end=%v (period %s)", changes,
			(2 * gap).Seconds(), armed, kaPeriod)
		lifeStats["timer cases with a timer alive after shutdown"]++
	}
	if n := enqAfterStop.Load(); n > 0 {
		lifeStats["keep-alive Enq events after the Stop event"] += int(n)
	}
	for _, e := range errs {
		if strings.Contains(e, "shutting down") {
			lifeStats["timer cases where ErrorChan delivered 'protocol is shutting down'"]++
			break
		}
	}

	// ---- verdicts
	lr.obligation(leak, "end", "leak", true, "leak=timer",
		"the keep-alive client's timer is still armed / re-armed after Close returned, ErrorChan was closed and every goroutine of the connection had gone: startTimer armed it after the clean-up goroutine's only Stop, nobody stops it any more (sendKeepAlive re-arms it every period for ever)")
	lr.obligation(len(alive) > 0, "end", "alive", alive, "leak="+strings.Join(alive, "+"), "goroutines started for the connection remain after Close: "+strings.Join(alive, ", "))
	lr.obligation(!closeRet, "end", "closeret", false, "close=hang", "Close did not return")
	lr.obligation(closeRet && !errClosed, "end", "errclosed", false, "errchan=open", "ErrorChan was not closed after Close returned")
	if out := outside(w.Pred, "end", obs); out != "" && !leak && len(alive) == 0 && closeRet && errClosed {
		lr.dis("end:unpredicted:"+out, fmt.Sprintf("the observation %v is none of the %d observations KeepAliveTimer.tla reaches for this case", obs, len(w.Pred)))
	}
	return obs, ""
}
