package main

// Server-side restart on Done (spec/net/ServerRestart.tla) on a real node-to-node server Connection.
//
// The raw peer (initiator) plays the script; the timing of the steps after the first Done is forced with the trace
// hooks: early = the old instance's recvLoop is held at its "Handle" event of the Done (before the handler runs)
// until everything has been written and read; mid = the peer writes when the muxer's "Unreg" event of the old
// instance has been seen; late = when the second "Reg" event has been seen.
//
// Observations: at rest (script played, gates open, every library goroutine parked): engine goroutines whose
// receiver is an OLD Protocol instance (instances are told apart by the *Protocol the trace events carry), whether
// the muxer is up, instances created, registrations, requests handled, calls returned; after Close: the usual.

import (
	"fmt"
	"strings"
	"sync"
	"sync/atomic"
	"time"

	ouroboros "github.com/blinklabs-io/gouroboros"
	"github.com/blinklabs-io/gouroboros/muxer"
	"github.com/blinklabs-io/gouroboros/protocol"
	"github.com/blinklabs-io/gouroboros/protocol/blockfetch"
	"github.com/blinklabs-io/gouroboros/protocol/chainsync"
	pcommon "github.com/blinklabs-io/gouroboros/protocol/common"
	"github.com/blinklabs-io/gouroboros/protocol/txsubmission"
)

type restartProto struct {
	conn     string
	pid      uint16
	doneType int
	doneMsg  string
	reqMsg   string
}

var restartProtos = map[string]restartProto{
	// chain-sync runs node-to-client here: its node-to-node CanAwait state has a fixed 10 s timeout on the server side
	// (C14's subject), the restart code is the same
	"chainsync":    {"ntc-server", 5, chainsync.MessageTypeDone, "Done", "RequestNext"},
	"blockfetch":   {"ntn-server", 3, blockfetch.MessageTypeClientDone, "ClientDone", "RequestRange"},
	"txsubmission": {"ntn-server", 4, txsubmission.MessageTypeDone, "Done", "Init"},
}

func (r *caseRun) runRestart(w *lifeRow, lr *lifeReport) (map[string]any, string) {
	rp, ok := restartProtos[w.Proto]
	if !ok {
		return nil, "unknown protocol " + w.Proto
	}
	tx := w.Proto == "txsubmission"
	r.base = map[int]bool{}
	for id := range snapshot() {
		r.base[id] = true
	}
	firstDone := -1
	for i, x := range w.Script {
		if x == "done" {
			firstDone = i
			break
		}
	}

	// ---- trace hooks
	var imu sync.Mutex
	var insts []*protocol.Protocol // instances of the protocol under test in the order they were first seen
	var regs, unregs atomic.Int32
	var muxDown atomic.Bool
	gate := make(chan struct{})
	caught := make(chan struct{}, 1)
	var gateOnce sync.Once
	release := func() { gateOnce.Do(func() { close(gate) }) }
	defer release()
	var gateUsed, doneHandled atomic.Bool
	theHub.set(func(p *protocol.Protocol, e protocol.VerifEvent) {
		if e.Id != rp.pid || e.Role != protocol.ProtocolRoleServer {
			return
		}
		imu.Lock()
		known := false
		for _, q := range insts {
			if q == p {
				known = true
			}
		}
		if !known {
			insts = append(insts, p)
		}
		first := len(insts) > 0 && insts[0] == p
		imu.Unlock()
		if e.Ev == "Handle" && e.MsgType == rp.doneType {
			doneHandled.Store(true)
		}
		if w.Timing == "early" && e.Ev == "Handle" && e.MsgType == rp.doneType && first && gateUsed.CompareAndSwap(false, true) {
			caught <- struct{}{}
			<-gate
		}
	}, func(m *muxer.Muxer, e muxer.VerifEvent) {
		switch e.Ev {
		case "Reg":
			if e.ProtoId == rp.pid && e.Role == muxer.ProtocolRoleResponder {
				regs.Add(1)
			}
		case "Unreg":
			if e.ProtoId == rp.pid && e.Role == muxer.ProtocolRoleResponder {
				unregs.Add(1)
			}
		case "Exit", "Err":
			muxDown.Store(true)
		}
	})

	// ---- the server's callbacks
	var handled atomic.Int32
	csCfg := chainsync.NewConfig(
		chainsync.WithFindIntersectFunc(func(chainsync.CallbackContext, []pcommon.Point) (pcommon.Point, chainsync.Tip, error) {
			handled.Add(1)
			return intersectPoint, theTip, nil
		}),
		// the request handlers do not answer: the answer is the user's server call (call 2 of the model)
		chainsync.WithRequestNextFunc(func(chainsync.CallbackContext) error { handled.Add(1); return nil }),
		chainsync.WithIntersectTimeout(longTimeout), chainsync.WithBlockTimeout(longTimeout), chainsync.WithIdleTimeout(longTimeout),
	)
	bfCfg, err := blockfetch.NewConfig(
		blockfetch.WithRequestRangeFunc(func(_ blockfetch.CallbackContext, _ pcommon.Point, _ pcommon.Point) error {
			handled.Add(1)
			return nil
		}),
		blockfetch.WithBatchStartTimeout(longTimeout), blockfetch.WithBlockTimeout(longTimeout),
	)
	if err != nil {
		return nil, "blockfetch config: " + err.Error()
	}
	txCfg := txsubmission.NewConfig(
		txsubmission.WithInitFunc(func(txsubmission.CallbackContext) error { handled.Add(1); return nil }),
		txsubmission.WithDoneFunc(func(txsubmission.CallbackContext) error { return nil }),
	)
	var reqTypes []uint
	if tx {
		reqTypes = []uint{txsubmission.MessageTypeRequestTxIds}
	}
	lc, why := r.lifeConnect(rp.conn, rp.pid, reqTypes, nil,
		ouroboros.WithChainSyncConfig(csCfg), ouroboros.WithBlockFetchConfig(bfCfg), ouroboros.WithTxSubmissionConfig(txCfg))
	defer lc.cleanup()
	if why != "" {
		return nil, why
	}
	current := func() *protocol.Protocol {
		switch w.Proto {
		case "chainsync":
			return lc.conn.ChainSync().Server.ProtocolInstance()
		case "blockfetch":
			return lc.conn.BlockFetch().Server.ProtocolInstance()
		}
		return lc.conn.TxSubmission().Server.ProtocolInstance()
	}

	// ---- the user's calls
	var call1, call2 *task
	call2fn := func() error {
		switch w.Proto {
		case "chainsync":
			return lc.conn.ChainSync().Server.RollBackward(intersectPoint, theTip)
		case "blockfetch":
			return lc.conn.BlockFetch().Server.NoBlocks()
		}
		_, err := lc.conn.TxSubmission().Server.RequestTxIds(true, 1)
		return err
	}
	call2needle := map[string]string{
		"chainsync":    libPath + "/protocol/chainsync.(*Server).RollBackward",
		"blockfetch":   libPath + "/protocol/blockfetch.(*Server).NoBlocks",
		"txsubmission": libPath + "/protocol/txsubmission.(*Server).RequestTxIds",
	}[w.Proto]
	var c2mu sync.Mutex
	startCall2 := func() {
		c2mu.Lock()
		if call2 == nil {
			call2 = r.startCallLife(call2fn)
		}
		c2mu.Unlock()
	}
	if tx {
		if err := lc.peer.write(rp.pid, message("txsubmission", "Init", r.fx)); err != nil {
			return nil, "the raw peer could not write Init: " + err.Error()
		}
		call1 = r.startCallLife(func() error {
			_, err := lc.conn.TxSubmission().Server.RequestTxIds(true, 1)
			return err
		})
		// call 2 is made the moment call 1 has returned (as a loop around RequestTxIds would)
		go func() {
			<-call1.done
			startCall2()
		}()
		if !lc.peer.waitRequests(1, 60*time.Second) {
			return nil, "the blocking RequestTxIds did not reach the peer within 60s"
		}
		// the Init that opened generation 1 is not part of the case (its callback runs after the state transition
		// that lets the request out: wait for it)
		for t0 := time.Now(); handled.Load() < 1; time.Sleep(time.Millisecond) {
			if time.Since(t0) > 60*time.Second {
				return nil, "the Init callback of generation 1 did not run"
			}
		}
		handled.Store(0)
	}
	when := int((r.seed >> 40) % 3) // chain-sync / block-fetch: call 2 before the script, after its first step, after it
	if !tx && when == 0 {
		startCall2()
	}

	// ---- the script
	// waitCount waits for the n-th Unreg / Reg event.  If it does not come although the Done has got its handler and the
	// library has come to rest, the code does not go through the life cycle of the model: that is reported, not waited for.
	waitCount := func(c *atomic.Int32, n int32, what string) string {
		deadline := time.Now().Add(90 * time.Second)
		t0 := time.Now()
		for c.Load() < n {
			if time.Now().After(deadline) {
				return what + " was not seen within 90s"
			}
			if !tx && time.Since(t0) > time.Second && !doneHandled.Load() && lifeAtRest(r.base, 200*time.Millisecond) {
				// the Done waits behind a request the server has not answered: the answer is call 2 - make it now
				startCall2()
			}
			if time.Since(t0) > 3*time.Second && doneHandled.Load() && lifeAtRest(r.base, 300*time.Millisecond) && c.Load() < n {
				lr.dis("rest:unpredicted:no-"+strings.Fields(what)[len(strings.Fields(what))-2],
					"the Done has been handled and the library is at rest, but "+what+" has not happened: ServerRestart.tla has no such behaviour (the old instance stops and unregisters, the new one registers)")
				return ""
			}
			time.Sleep(200 * time.Microsecond)
		}
		return ""
	}
	for i, x := range w.Script {
		if firstDone >= 0 && i > firstDone {
			switch w.Timing {
			case "mid":
				if why := waitCount(&unregs, 1, "the old instance's Unreg event"); why != "" {
					return nil, why
				}
			case "late":
				if why := waitCount(&regs, 2, "the new instance's Reg event"); why != "" {
					return nil, why
				}
			}
		}
		var err error
		switch x {
		case "done":
			err = lc.peer.write(rp.pid, message(w.Proto, rp.doneMsg, r.fx))
		case "req":
			err = lc.peer.write(rp.pid, message(w.Proto, rp.reqMsg, r.fx))
		case "close":
			err = lc.b.Close()
		default:
			return nil, "unknown step " + x
		}
		if err != nil {
			r.note("step %d (%s): write failed: %v", i+1, x, err)
		}
		lc.peer.played.Add(1)
		if !tx && when == 1 && i == 0 {
			startCall2()
		}
	}
	r.obs.Played = len(w.Script)
	if w.Timing == "early" {
		// the handler of the Done is held: let the muxer read everything (EOF included), then let it go
		// (a Done that is overtaken by the end of the connection never gets a handler: then there is nobody to hold)
		if !waitRest(r.base, 60*time.Second) {
			return nil, "early: the library did not come to rest with the handler held"
		}
		select {
		case <-caught:
			lifeStats["restart early: the handler was held"]++
		default:
		}
		release()
	}
	if !tx {
		startCall2()
	}
	if !waitRest(r.base, 90*time.Second) {
		return nil, "the library did not come to rest within 90s after the script"
	}
	c2mu.Lock()
	made2 := call2 != nil
	c2mu.Unlock()
	if !made2 {
		// tx-submission: call 1 has not returned at rest - the model has no such rest
		return nil, "call 1 (RequestTxIds) has not returned although the library is at rest"
	}

	// ---- observation at rest
	imu.Lock()
	all := append([]*protocol.Protocol{}, insts...)
	imu.Unlock()
	cur := current()
	seen := map[*protocol.Protocol]bool{cur: true}
	old := map[string]bool{}
	for _, p := range all {
		seen[p] = true
		if p != cur {
			old[ptrOf(p)] = true
		}
	}
	rest := map[string]any{
		"oldalive": loopsOf(r.base, old),
		"up":       !muxDown.Load(),
		"gens":     len(seen),
		"nreg":     int(regs.Load()),
		"handled":  int(handled.Load()),
		"ret1":     call1 == nil || call1.returned(),
		"ret2":     call2.returned(),
	}
	oldalive := rest["oldalive"].([]string)
	if lr.obligation(len(oldalive) > 0, "rest", "oldalive", oldalive, "rest:old-instance="+strings.Join(oldalive, "+"),
		"goroutines of a protocol instance that was replaced on Done are still there although the library is at rest: "+strings.Join(oldalive, ", ")) {
		lifeStats["restart cases with goroutines of an old instance at rest"]++
	} else if out := outside(w.Pred, "rest", rest); out != "" {
		lr.dis("rest:unpredicted:"+out, fmt.Sprintf("at rest %v is none of the observations ServerRestart.tla reaches for this case", rest))
	}
	if rest["up"] == true && !call2.returned() {
		// not a breach of C15 (the call returns when the connection ends), but worth a number: the call obtained the new
		// instance between initProtocol and Start and sits in enqueueMessage on a queue that did not exist yet
		if g := snapshot()[call2.gid]; g != nil && strings.Contains(g.text, "enqueueMessage") {
			lifeStats["restart cases where the server call sits in enqueueMessage of a not yet started instance while the connection is up"]++
		}
	}

	// ---- Close, and the end
	closeRet, errClosed, errs, why := r.closeAndDrain(lc)
	if why != "" {
		return nil, why
	}
	r.obs.Errors = errs
	end := map[string]any{"closeret": closeRet, "errclosed": errClosed}
	ret := func(t *task, needle, what string) (bool, string) {
		if t == nil {
			return true, ""
		}
		switch r.where(t, needle, 20*time.Second, what) {
		case "ret":
			if t.pan != "" {
				lr.dis(what+"=panic", what+" panicked: "+t.pan)
			}
			return true, ""
		case "parked":
			return false, ""
		}
		return false, what + " neither returned nor is provably parked"
	}
	r1, why := ret(call1, libPath+"/protocol/txsubmission.(*Server).RequestTxIds", "call1")
	if why != "" {
		return nil, why
	}
	r2, why := ret(call2, call2needle, "call2")
	if why != "" {
		return nil, why
	}
	end["ret1"], end["ret2"] = r1, r2
	alive, ok := r.finalLeftovers()
	if !ok {
		return nil, "the leftover goroutines did not become stable within 60s"
	}
	end["alive"] = alive
	imu.Lock()
	for _, p := range insts {
		seen[p] = true
	}
	imu.Unlock()
	seen[current()] = true
	end["gens"], end["nreg"], end["handled"] = len(seen), int(regs.Load()), int(handled.Load())

	bad := lr.obligation(!r1, "end", "ret1", false, "call1=hang", "RequestTxIds never returns although the connection has been closed")
	bad = lr.obligation(!r2, "end", "ret2", false, "call2=hang", "the server call never returns although the connection has been closed") || bad
	bad = lr.obligation(len(alive) > 0, "end", "alive", alive, "leak="+strings.Join(alive, "+"), "goroutines started for the connection remain after Close: "+strings.Join(alive, ", ")) || bad
	bad = lr.obligation(!closeRet, "end", "closeret", false, "close=hang", "Close did not return") || bad
	bad = lr.obligation(closeRet && !errClosed, "end", "errclosed", false, "errchan=open", "ErrorChan was not closed after Close returned") || bad
	if out := outside(w.Pred, "end", end); out != "" && !bad {
		lr.dis("end:unpredicted:"+out, fmt.Sprintf("the final observation %v is none of the observations ServerRestart.tla reaches for this case", end))
	}
	lifeStats[fmt.Sprintf("restart %s: nreg=%d handled=%d up=%v", w.Timing, rest["nreg"], rest["handled"], rest["up"])]++
	end["rest"] = rest
	return end, ""
}
