// c28: replays every case of spec/ledger/Witness.tla (locks of the spent and
// collateral outputs, required signers, vkey witnesses (key, sigValid),
// bootstrap witnesses (key, variant, sigValid)) on real transactions of every
// era.  Keys are real ed25519 keys, Byron locks are real Byron addresses whose
// root is derived (here, independently of the library) from the key, a chain
// code and the address attributes, an invalid signature is a real signature
// with one flipped bit / made by another key / made over another transaction.
//
// The verdict "signature validation accepts" is observed on the era's own
// Cases with p2 = true are the same transactions flagged is_valid = false
// (phase-2 invalid): in Alonzo, Babbage and Conway the third element of the
// envelope is false; a Dijkstra envelope cannot say so, there the decoded
// transaction is flagged the way the library's block decoding flags the
// members of a block's invalid_transactions.  Signature validation is a
// phase-1 check: the specification's verdict does not read the flag.
//
// Cases with a non-empty dup list the named vkey witness / bootstrap witness /
// required signer that many times (the witness "sets" and the required
// signers are lists on the wire; the same bytes are written again, next to the
// first listing or at the end of the list).  The specification's verdict is a
// function of the sets.
//
// UtxoValidationRules list: the entries named UtxoValidateSignatures,
// UtxoValidateRequiredVKeyWitnesses and UtxoValidateCollateralVKeyWitnesses
// are run one by one on the decoded transaction; accepted = none of them
// returns an error.  The expected verdict is the `accept` field computed by
// TLC; nothing is decided here.
package main

import (
	"crypto/ed25519"
	"crypto/sha3"
	"encoding/binary"
	"encoding/hex"
	"encoding/json"
	"fmt"
	"hash/crc32"
	"math/rand"
	"os"
	"reflect"
	"runtime"
	"sort"
	"strings"
	"sync"

	mockledger "github.com/blinklabs-io/ouroboros-mock/ledger"
	"golang.org/x/crypto/blake2b"

	"github.com/blinklabs-io/gouroboros/ledger/allegra"
	"github.com/blinklabs-io/gouroboros/ledger/alonzo"
	"github.com/blinklabs-io/gouroboros/ledger/babbage"
	"github.com/blinklabs-io/gouroboros/ledger/common"
	"github.com/blinklabs-io/gouroboros/ledger/conway"
	"github.com/blinklabs-io/gouroboros/ledger/dijkstra"
	"github.com/blinklabs-io/gouroboros/ledger/mary"
	"github.com/blinklabs-io/gouroboros/ledger/shelley"

	"verifharness/vh"
)

// ---------------------------------------------------------------- rows

type lock struct {
	Kind string
	K    int
}

func (l *lock) UnmarshalJSON(b []byte) error {
	var raw []any
	if err := json.Unmarshal(b, &raw); err != nil {
		return err
	}
	if len(raw) != 2 {
		return fmt.Errorf("lock %s", b)
	}
	l.Kind, _ = raw[0].(string)
	f, _ := raw[1].(float64)
	l.K = int(f)
	return nil
}

type vwit struct {
	K  int
	Ok bool
}

func (w *vwit) UnmarshalJSON(b []byte) error {
	var raw []any
	if err := json.Unmarshal(b, &raw); err != nil {
		return err
	}
	if len(raw) != 2 {
		return fmt.Errorf("vw %s", b)
	}
	f, _ := raw[0].(float64)
	w.K = int(f)
	w.Ok, _ = raw[1].(bool)
	return nil
}

type bwit struct {
	K, V int
	Ok   bool
}

func (w *bwit) UnmarshalJSON(b []byte) error {
	var raw []any
	if err := json.Unmarshal(b, &raw); err != nil {
		return err
	}
	if len(raw) != 3 {
		return fmt.Errorf("bw %s", b)
	}
	f, _ := raw[0].(float64)
	g, _ := raw[1].(float64)
	w.K, w.V = int(f), int(g)
	w.Ok, _ = raw[2].(bool)
	return nil
}

// dups: the elements of a case that are listed more than once
type dups struct {
	VW  [][]any `json:"vw"`  // [key, sigValid, times]
	BW  [][]any `json:"bw"`  // [key, variant, sigValid, times]
	Req [][]int `json:"req"` // [key, times]
}

func num(x any) int { f, _ := x.(float64); return int(f) }

func (r *row) timesVW(w vwit) int {
	for _, d := range r.Dup.VW {
		if len(d) == 3 && num(d[0]) == w.K && d[1] == any(w.Ok) {
			return num(d[2])
		}
	}
	return 1
}

func (r *row) timesBW(w bwit) int {
	for _, d := range r.Dup.BW {
		if len(d) == 4 && num(d[0]) == w.K && num(d[1]) == w.V && d[2] == any(w.Ok) {
			return num(d[3])
		}
	}
	return 1
}

func (r *row) timesReq(k int) int {
	for _, d := range r.Dup.Req {
		if len(d) == 2 && d[0] == k {
			return d[1]
		}
	}
	return 1
}

func (r *row) hasDup() bool { return len(r.Dup.VW)+len(r.Dup.BW)+len(r.Dup.Req) > 0 }

// checkDup: every dup entry names a listed element and a count >= 2
func (r *row) checkDup() error {
	n := 0
	for _, w := range r.VW {
		if t := r.timesVW(w); t > 1 {
			n++
		}
	}
	for _, w := range r.BW {
		if t := r.timesBW(w); t > 1 {
			n++
		}
	}
	for _, k := range r.Req {
		if t := r.timesReq(k); t > 1 {
			n++
		}
	}
	if n != len(r.Dup.VW)+len(r.Dup.BW)+len(r.Dup.Req) {
		return fmt.Errorf("dup of case %s names an element that is not listed, or a count below 2", r.caseKey())
	}
	return nil
}

func star(n int) string {
	if n > 1 {
		return fmt.Sprintf("*%d", n)
	}
	return ""
}

type row struct {
	Ins    []lock   `json:"ins"`
	Coll   []lock   `json:"coll"`
	Req    []int    `json:"req"`
	VW     []vwit   `json:"vw"`
	BW     []bwit   `json:"bw"`
	Ord    []lock   `json:"ord"` // non-empty: the inputs in the order the ledger sees them
	P2     bool     `json:"p2"`  // flagged is_valid = false (eras of FlagEras only)
	Dup    dups     `json:"dup"` // elements listed more than once
	Accept bool     `json:"accept"`
	Silent bool     `json:"silent"`
	Why    []string `json:"why"`
}

func lockName(l lock) string {
	if l.Kind == "script" {
		return "script"
	}
	return fmt.Sprintf("%s%d", l.Kind, l.K)
}

func (r *row) normalise() {
	if len(r.Ord) > 0 {
		r.Ins = append([]lock{}, r.Ord...)
	} else {
		sort.Slice(r.Ins, func(i, j int) bool { return lockName(r.Ins[i]) < lockName(r.Ins[j]) })
	}
	sort.Slice(r.Coll, func(i, j int) bool { return lockName(r.Coll[i]) < lockName(r.Coll[j]) })
	sort.Ints(r.Req)
	sort.Slice(r.VW, func(i, j int) bool {
		if r.VW[i].K != r.VW[j].K {
			return r.VW[i].K < r.VW[j].K
		}
		return r.VW[i].Ok && !r.VW[j].Ok
	})
	sort.Slice(r.BW, func(i, j int) bool {
		a, b := r.BW[i], r.BW[j]
		if a.K != b.K {
			return a.K < b.K
		}
		if a.V != b.V {
			return a.V < b.V
		}
		return a.Ok && !b.Ok
	})
}

func p2tag(p2 bool) string {
	if p2 {
		return ":p2invalid"
	}
	return ""
}

func okc(b bool) string {
	if b {
		return "v"
	}
	return "x"
}

// caseKey is the stable name of a case: no random material in it.
func (r *row) caseKey() string {
	var ins, coll, req, vw, bw []string
	for _, l := range r.Ins {
		ins = append(ins, lockName(l))
	}
	if len(r.Ord) > 0 {
		// an ordered case: "a>b" = a is the first input
		ins = []string{strings.Join(ins, ">")}
	}
	for _, l := range r.Coll {
		coll = append(coll, lockName(l))
	}
	for _, k := range r.Req {
		req = append(req, fmt.Sprint(k)+star(r.timesReq(k)))
	}
	for _, w := range r.VW {
		vw = append(vw, fmt.Sprintf("%d%s", w.K, okc(w.Ok))+star(r.timesVW(w)))
	}
	for _, w := range r.BW {
		bw = append(bw, fmt.Sprintf("%d.%d%s", w.K, w.V, okc(w.Ok))+star(r.timesBW(w)))
	}
	j := func(x []string) string {
		if len(x) == 0 {
			return "-"
		}
		return strings.Join(x, "+")
	}
	k := fmt.Sprintf("ins=%s:coll=%s:req=%s:vw=%s:bw=%s", j(ins), j(coll), j(req), j(vw), j(bw))
	if r.P2 {
		k += ":p2invalid"
	}
	return k
}

// ---------------------------------------------------------------- tiny CBOR writer

func cborHead(major byte, n uint64) []byte {
	m := major << 5
	switch {
	case n < 24:
		return []byte{m | byte(n)}
	case n <= 0xff:
		return []byte{m | 24, byte(n)}
	case n <= 0xffff:
		b := []byte{m | 25, 0, 0}
		binary.BigEndian.PutUint16(b[1:], uint16(n))
		return b
	case n <= 0xffffffff:
		b := []byte{m | 26, 0, 0, 0, 0}
		binary.BigEndian.PutUint32(b[1:], uint32(n))
		return b
	}
	b := []byte{m | 27, 0, 0, 0, 0, 0, 0, 0, 0}
	binary.BigEndian.PutUint64(b[1:], n)
	return b
}

func cUint(n uint64) []byte  { return cborHead(0, n) }
func cBytes(b []byte) []byte { return append(cborHead(2, uint64(len(b))), b...) }
func cTag(t uint64, item []byte) []byte {
	return append(cborHead(6, t), item...)
}
func cArr(items ...[]byte) []byte {
	out := cborHead(4, uint64(len(items)))
	for _, it := range items {
		out = append(out, it...)
	}
	return out
}

type kv struct {
	k uint64
	v []byte
}

func cMap(items ...kv) []byte {
	out := cborHead(5, uint64(len(items)))
	for _, it := range items {
		out = append(out, cUint(it.k)...)
		out = append(out, it.v...)
	}
	return out
}

func blake224(b []byte) []byte {
	h, _ := blake2b.New(28, nil)
	h.Write(b)
	return h.Sum(nil)
}

// ---------------------------------------------------------------- concrete universe

const networkID = 1

type key struct {
	priv ed25519.PrivateKey
	pub  ed25519.PublicKey
	hash []byte // Blake2b-224 of the verification key
}

// bootID is the material of one bootstrap witness identity (key, variant).
type bootID struct {
	cc    []byte // chain code, 32 bytes
	attrs []byte // CBOR of the address attributes map
	root  []byte // Byron address root derived from (key, cc, attrs)
	how   string // how variant 1 differs from variant 0
}

type universe struct {
	addrKind  map[int]string // owner -> shape of its key address
	keys      map[int]key
	boot      map[[2]int]bootID
	script    []byte // native script CBOR (all-of [])
	scriptH   []byte
	byronAddr map[int][]byte // owner -> Byron address bytes (root of variant 0)
}

// byronRoot is the Byron address root of a public-key address:
// blake2b_224(sha3_256(cbor([0, [0, xpub], attributes]))), xpub = key ++ chain code.
func byronRoot(pub, cc, attrs []byte) []byte {
	xpub := append(append([]byte{}, pub...), cc...)
	pre := append(cborHead(4, 3), cUint(0)...)
	pre = append(pre, cArr(cUint(0), cBytes(xpub))...)
	pre = append(pre, attrs...)
	s := sha3.Sum256(pre)
	return blake224(s[:])
}

// byronAddress is the wire form [#6.24(bytes .cbor [root, attributes, 0]), crc32].
func byronAddress(root, attrs []byte) []byte {
	payload := append(cborHead(4, 3), cBytes(root)...)
	payload = append(payload, attrs...)
	payload = append(payload, cUint(0)...)
	return cArr(cTag(24, cBytes(payload)), cUint(uint64(crc32.ChecksumIEEE(payload))))
}

func newUniverse(rng *rand.Rand) *universe {
	u := &universe{keys: map[int]key{}, boot: map[[2]int]bootID{}, byronAddr: map[int][]byte{}, addrKind: map[int]string{}}
	for k := 1; k <= 3; k++ {
		seed := make([]byte, ed25519.SeedSize)
		rng.Read(seed)
		priv := ed25519.NewKeyFromSeed(seed)
		pub := priv.Public().(ed25519.PublicKey)
		u.keys[k] = key{priv: priv, pub: pub, hash: blake224(pub)}
	}
	rnd := func(n int) []byte { b := make([]byte, n); rng.Read(b); return b }
	// attributes of the three identities: empty map; derivation path {1: bytes};
	// network magic {2: bytes .cbor uint32}
	attrsOf := map[int][]byte{
		1: cMap(kv{1, cBytes(cBytes(rnd(28)))}),
		2: {0xa0},
		3: cMap(kv{2, cBytes(cborHead(0, uint64(rng.Uint32()|1<<24)))}),
	}
	for k := 1; k <= 3; k++ {
		cc := rnd(32)
		u.boot[[2]int{k, 0}] = bootID{cc: cc, attrs: attrsOf[k], root: byronRoot(u.keys[k].pub, cc, attrsOf[k])}
		// variant 1: the same key with another chain code, or with other attributes
		b1 := bootID{cc: cc, attrs: attrsOf[k], how: "attributes"}
		if rng.Intn(2) == 0 {
			b1.cc, b1.how = rnd(32), "chaincode"
		} else if k == 2 {
			b1.attrs = cMap(kv{2, cBytes(cborHead(0, 764824073))})
		} else {
			b1.attrs = []byte{0xa0}
		}
		b1.root = byronRoot(u.keys[k].pub, b1.cc, b1.attrs)
		u.boot[[2]int{k, 1}] = b1
		u.byronAddr[k] = byronAddress(u.boot[[2]int{k, 0}].root, attrsOf[k])
	}
	kinds := []string{"enterprise", "base_key_key", "base_key_script", "pointer"}
	u.addrKind[1] = kinds[rng.Intn(4)]
	u.addrKind[2] = kinds[rng.Intn(4)]
	u.script = cArr(cUint(1), cArr()) // all-of []
	u.scriptH = blake224(append([]byte{0}, u.script...))
	return u
}

func (u *universe) address(l lock) []byte {
	switch l.Kind {
	case "key":
		// the payment credential is the owner's key hash in every shape
		pay := u.keys[l.K].hash
		switch u.addrKind[l.K] {
		case "base_key_key":
			return append(append([]byte{0x00 | networkID}, pay...), u.keys[3].hash...)
		case "base_key_script":
			return append(append([]byte{0x20 | networkID}, pay...), u.scriptH...)
		case "pointer":
			return append(append([]byte{0x40 | networkID}, pay...), 0x81, 0x23, 0x02, 0x03)
		}
		return append([]byte{0x60 | networkID}, pay...)
	case "byron":
		return u.byronAddr[l.K]
	}
	return append([]byte{0x70 | networkID}, u.scriptH...)
}

// utxoRef is the (fixed) output reference of the output with lock l in role
// "in" or "coll".
// pos is the place of the input in the ledger's order: the references sort
// (by transaction id) the way the case lists its inputs.
func utxoRef(role string, l lock, pos int) ([]byte, uint64) {
	h := blake2b.Sum256([]byte("c28:" + role + ":" + lockName(l)))
	h[0] = byte(0x10 + 0x40*pos)
	ix := uint64(len(lockName(l)) % 3)
	if role == "coll" {
		ix += 3
	}
	return h[:], ix
}

var allLocks = []lock{{"key", 1}, {"key", 2}, {"byron", 1}, {"byron", 2}, {"script", 0}}

// ---------------------------------------------------------------- eras

type eraEnv struct {
	name      string
	pp        common.ProtocolParameters
	rules     []common.UtxoValidationRuleFunc
	sigRules  []common.UtxoValidationRuleFunc
	sigNames  []string
	alonzoUp  bool // has collateral (13) and required signers (14)
	sets      bool // accepts #6.258 sets (Conway and later)
	fourParts bool // [body, wits, is_valid, aux] envelope
	// how a transaction of the era gets IsValid() = false: "" (it cannot),
	// "envelope" (third element false) or "block" (flagged after decoding, as
	// a member of a block's invalid_transactions is)
	flag string
	decodeTx  func([]byte) (common.Transaction, error)
	decodeOut func([]byte) (common.TransactionOutput, error)
	ls        common.LedgerState
}

func ruleName(r common.UtxoValidationRuleFunc) string {
	f := runtime.FuncForPC(reflect.ValueOf(r).Pointer())
	if f == nil {
		return "?"
	}
	n := f.Name()
	if i := strings.LastIndex(n, "/"); i >= 0 {
		n = n[i+1:]
	}
	return n
}

var sigRuleSuffixes = []string{".UtxoValidateSignatures", ".UtxoValidateRequiredVKeyWitnesses", ".UtxoValidateCollateralVKeyWitnesses"}

func eras(u *universe) ([]*eraEnv, error) {
	shOut := func(b []byte) (common.TransactionOutput, error) {
		return shelley.NewShelleyTransactionOutputFromCbor(b)
	}
	baOut := func(b []byte) (common.TransactionOutput, error) {
		return babbage.NewBabbageTransactionOutputFromCbor(b)
	}
	alp := mockledger.NewMockAlonzoProtocolParams()
	bap := mockledger.NewMockBabbageProtocolParams()
	cop := mockledger.NewMockConwayProtocolParams()
	dip := mockledger.NewMockConwayProtocolParams()
	dip.ProtocolVersion.Major = 12
	out := []*eraEnv{
		{name: "shelley", pp: &shelley.ShelleyProtocolParameters{MaxTxSize: 16384, MinUtxoValue: 1_000_000, ProtocolMajor: 2},
			rules:     shelley.UtxoValidationRules,
			decodeTx:  func(b []byte) (common.Transaction, error) { return shelley.NewShelleyTransactionFromCbor(b) },
			decodeOut: shOut},
		{name: "allegra", pp: &allegra.AllegraProtocolParameters{MaxTxSize: 16384, MinUtxoValue: 1_000_000, ProtocolMajor: 3},
			rules:     allegra.UtxoValidationRules,
			decodeTx:  func(b []byte) (common.Transaction, error) { return allegra.NewAllegraTransactionFromCbor(b) },
			decodeOut: shOut},
		{name: "mary", pp: &mary.MaryProtocolParameters{MaxTxSize: 16384, MinUtxoValue: 1_000_000, ProtocolMajor: 4},
			rules:    mary.UtxoValidationRules,
			decodeTx: func(b []byte) (common.Transaction, error) { return mary.NewMaryTransactionFromCbor(b) },
			decodeOut: func(b []byte) (common.TransactionOutput, error) {
				return mary.NewMaryTransactionOutputFromCbor(b)
			}},
		{name: "alonzo", pp: &alp, rules: alonzo.UtxoValidationRules, alonzoUp: true, fourParts: true, flag: "envelope",
			decodeTx: func(b []byte) (common.Transaction, error) { return alonzo.NewAlonzoTransactionFromCbor(b) },
			decodeOut: func(b []byte) (common.TransactionOutput, error) {
				return alonzo.NewAlonzoTransactionOutputFromCbor(b)
			}},
		{name: "babbage", pp: &bap, rules: babbage.UtxoValidationRules, alonzoUp: true, fourParts: true, flag: "envelope",
			decodeTx:  func(b []byte) (common.Transaction, error) { return babbage.NewBabbageTransactionFromCbor(b) },
			decodeOut: baOut},
		{name: "conway", pp: &cop, rules: conway.UtxoValidationRules, alonzoUp: true, fourParts: true, sets: true, flag: "envelope",
			decodeTx:  func(b []byte) (common.Transaction, error) { return conway.NewConwayTransactionFromCbor(b) },
			decodeOut: baOut},
		{name: "dijkstra", pp: &dijkstra.DijkstraProtocolParameters{ConwayProtocolParameters: dip},
			rules: dijkstra.UtxoValidationRules, alonzoUp: true, fourParts: true, sets: true, flag: "block",
			decodeTx:  func(b []byte) (common.Transaction, error) { return dijkstra.NewDijkstraTransactionFromCbor(b) },
			decodeOut: baOut},
	}
	for _, e := range out {
		for _, r := range e.rules {
			n := ruleName(r)
			for _, suf := range sigRuleSuffixes {
				if strings.HasSuffix(n, suf) {
					e.sigRules = append(e.sigRules, r)
					e.sigNames = append(e.sigNames, n)
				}
			}
		}
		// the fixed UTxO set: one output per lock and role
		var utxos []common.Utxo
		for _, rp := range []struct {
			role string
			pos  int
		}{{"in", 0}, {"in", 1}, {"in", 2}, {"coll", 0}} {
			role := rp.role
			for _, l := range allLocks {
				txid, ix := utxoRef(role, l, rp.pos)
				o, err := e.decodeOut(cArr(cBytes(u.address(l)), cUint(50_000_000)))
				if err != nil {
					return nil, fmt.Errorf("%s: output with %s address does not decode: %w", e.name, lockName(l), err)
				}
				utxos = append(utxos, common.Utxo{
					Id:     shelley.NewShelleyTransactionInput(hex.EncodeToString(txid), int(ix)),
					Output: o,
				})
			}
		}
		e.ls = mockledger.NewLedgerStateBuilder().WithNetworkId(networkID).WithUtxos(utxos).Build()
	}
	return out, nil
}

// ---------------------------------------------------------------- building a case

var sigCache sync.Map

func sign(k key, msg []byte) []byte {
	ck := string(msg) + string(k.pub)
	if v, ok := sigCache.Load(ck); ok {
		return v.([]byte)
	}
	s := ed25519.Sign(k.priv, msg)
	sigCache.Store(ck, s)
	return s
}

var badKinds = []string{"flip", "otherkey", "othermsg"}

// signature returns a signature of key k over msg that is valid, or invalid in
// the way `kind` says.  bit is the bit to flip for kind "flip".
func (u *universe) signature(k int, msg []byte, ok bool, kind string, bit int) []byte {
	if ok {
		return append([]byte{}, sign(u.keys[k], msg)...)
	}
	switch kind {
	case "otherkey":
		return append([]byte{}, sign(u.keys[k%3+1], msg)...)
	case "othermsg":
		other := blake2b.Sum256(append([]byte("other:"), msg...))
		return append([]byte{}, sign(u.keys[k], other[:])...)
	}
	s := append([]byte{}, sign(u.keys[k], msg)...)
	s[bit/8] ^= 1 << (bit % 8)
	return s
}

type built struct {
	txBytes []byte
	tx      common.Transaction
	bad     []string // how each invalid signature was made, in witness order
}

// mix is a small deterministic hash of the case for choosing corruption kinds
// and orders (no global random state: cases are independent of replay order).
func mix(seed int64, s string, salt int) int {
	h := blake2b.Sum256([]byte(fmt.Sprintf("%d|%s|%d", seed, s, salt)))
	return int(binary.BigEndian.Uint32(h[:4]) & 0x7fffffff)
}

func build(e *eraEnv, u *universe, r *row, seed int64) (*built, error) {
	ck := r.caseKey()
	// Conway and later: half of the cases write their sets with tag 258
	set := func(items ...[]byte) []byte { return cArr(items...) }
	if e.sets && mix(seed, ck, 500)%2 == 0 {
		set = func(items ...[]byte) []byte { return cTag(258, cArr(items...)) }
	}
	var ins, coll, req [][]byte
	for i, l := range r.Ins {
		txid, ix := utxoRef("in", l, i)
		ins = append(ins, cArr(cBytes(txid), cUint(ix)))
	}
	for _, l := range r.Coll {
		txid, ix := utxoRef("coll", l, 0)
		coll = append(coll, cArr(cBytes(txid), cUint(ix)))
	}
	// an element listed n times: the same bytes again, right after the first
	// listing or at the end of the list
	var reqLate, vkLate, bwLate [][]byte
	again := func(list, late *[][]byte, item []byte, times, salt int) {
		for t := 1; t < times; t++ {
			if mix(seed, ck, salt+t)%2 == 0 {
				*list = append(*list, item)
			} else {
				*late = append(*late, item)
			}
		}
	}
	for i, k := range r.Req {
		req = append(req, cBytes(u.keys[k].hash))
		again(&req, &reqLate, cBytes(u.keys[k].hash), r.timesReq(k), 600+10*i)
	}
	req = append(req, reqLate...)
	payTo := append([]byte{0x60 | networkID}, u.keys[1].hash...)
	body := []kv{
		{0, set(ins...)},
		{1, cArr(cArr(cBytes(payTo), cUint(48_000_000)))},
		{2, cUint(2_000_000)},
	}
	if len(coll) > 0 {
		body = append(body, kv{13, set(coll...)})
	}
	if len(req) > 0 {
		body = append(body, kv{14, set(req...)})
	}
	bodyBytes := cMap(body...)
	bh := blake2b.Sum256(bodyBytes)
	b := &built{}
	var vk, bw [][]byte
	for i, w := range r.VW {
		kind := badKinds[mix(seed, ck, i)%3]
		bit := mix(seed, ck, 100+i) % 512
		if !w.Ok {
			b.bad = append(b.bad, fmt.Sprintf("vkey%d:%s", w.K, kind))
		}
		item := cArr(cBytes(u.keys[w.K].pub), cBytes(u.signature(w.K, bh[:], w.Ok, kind, bit)))
		vk = append(vk, item)
		again(&vk, &vkLate, item, r.timesVW(w), 700+10*i)
	}
	vk = append(vk, vkLate...)
	for i, w := range r.BW {
		kind := badKinds[mix(seed, ck, 200+i)%3]
		bit := mix(seed, ck, 300+i) % 512
		if !w.Ok {
			b.bad = append(b.bad, fmt.Sprintf("boot%d.%d:%s", w.K, w.V, kind))
		}
		id := u.boot[[2]int{w.K, w.V}]
		item := cArr(cBytes(u.keys[w.K].pub), cBytes(u.signature(w.K, bh[:], w.Ok, kind, bit)),
			cBytes(id.cc), cBytes(id.attrs))
		bw = append(bw, item)
		again(&bw, &bwLate, item, r.timesBW(w), 800+10*i)
	}
	bw = append(bw, bwLate...)
	// witness order is not part of the case: rotate it
	if n := len(vk); n > 1 {
		s := mix(seed, ck, 400) % n
		vk = append(vk[s:], vk[:s]...)
	}
	var wits []kv
	if len(vk) > 0 {
		wits = append(wits, kv{0, set(vk...)})
	}
	for _, l := range r.Ins {
		if l.Kind == "script" {
			wits = append(wits, kv{1, set(u.script)})
		}
	}
	if len(bw) > 0 {
		wits = append(wits, kv{2, set(bw...)})
	}
	witBytes := cMap(wits...)
	if r.P2 && e.flag == "" {
		return nil, fmt.Errorf("a %s transaction cannot be flagged is_valid = false", e.name)
	}
	if e.fourParts {
		isValid := []byte{0xf5}
		if r.P2 && e.flag == "envelope" {
			isValid = []byte{0xf4}
		}
		b.txBytes = cArr(bodyBytes, witBytes, isValid, []byte{0xf6})
	} else {
		b.txBytes = cArr(bodyBytes, witBytes, []byte{0xf6})
	}
	tx, err := e.decodeTx(b.txBytes)
	if err != nil {
		return nil, fmt.Errorf("decode %s transaction %x: %w", e.name, b.txBytes, err)
	}
	if r.P2 && e.flag == "block" {
		// the envelope cannot carry the flag: the block does (invalid_transactions),
		// and block decoding writes it into the decoded transaction's TxIsValid
		dt, ok := tx.(*dijkstra.DijkstraTransaction)
		if !ok {
			return nil, fmt.Errorf("%s transaction decodes to %T: no way to flag it", e.name, tx)
		}
		dt.TxIsValid = false
	}
	if tx.IsValid() == r.P2 {
		return nil, fmt.Errorf("%s transaction built with is_valid = %v decodes with IsValid() = %v", e.name, !r.P2, tx.IsValid())
	}
	b.tx = tx
	return b, nil
}

type verdict struct {
	accept bool
	fails  []string
}

func judge(e *eraEnv, tx common.Transaction) (v verdict, panicked any) {
	defer func() {
		if p := recover(); p != nil {
			panicked = p
		}
	}()
	v.accept = true
	for i, r := range e.sigRules {
		if err := r(tx, 1000, e.ls, e.pp); err != nil {
			v.accept = false
			msg := err.Error()
			if len(msg) > 160 {
				msg = msg[:160]
			}
			v.fails = append(v.fails, e.sigNames[i]+": "+msg)
		}
	}
	return
}

// ---------------------------------------------------------------- main

func main() {
	rep := vh.NewReporter()
	if len(os.Args) < 2 {
		rep.Dead("usage: c28 cases.ndjson [era,era,...]")
	}
	rows, err := vh.ReadNDJSON[row](os.Args[1])
	if err != nil || len(rows) == 0 {
		rep.Dead("cases: %v (%d rows)", err, len(rows))
	}
	only := map[string]bool{}
	if len(os.Args) > 2 && os.Args[2] != "" {
		for _, e := range strings.Split(os.Args[2], ",") {
			only[e] = true
		}
	}
	// the eras whose transactions can be flagged is_valid = false come from the
	// specification (FlagEras); the driver only knows how to do it
	flagEras := map[string]bool{}
	if fe := os.Getenv("C28_FLAG_ERAS"); fe != "" {
		for _, e := range strings.Split(fe, ",") {
			flagEras[e] = true
		}
	} else {
		for _, r := range rows {
			if r.P2 {
				rep.Dead("flagged cases, but C28_FLAG_ERAS (the specification's FlagEras) is not set")
			}
		}
	}
	seed := vh.Seed()
	rng := rand.New(rand.NewSource(seed))
	u := newUniverse(rng)
	envs, err := eras(u)
	if err != nil {
		rep.Dead("%v", err)
	}
	for i := range rows {
		rows[i].normalise()
		if err := rows[i].checkDup(); err != nil {
			rep.Dead("%v", err)
		}
	}
	for _, e := range envs {
		if flagEras[e.name] && e.flag == "" {
			rep.Dead("the specification flags %s transactions; the driver does not know how", e.name)
		}
		if !flagEras[e.name] && e.flag != "" {
			rep.Dead("%s transactions can be flagged (%s); the specification's FlagEras does not list the era", e.name, e.flag)
		}
		delete(flagEras, e.name)
	}
	if len(flagEras) > 0 {
		rep.Dead("FlagEras of the specification names unknown eras: %v", flagEras)
	}

	// the universe must be what the rows talk about: distinct key hashes and roots
	seen := map[string]bool{}
	for k := 1; k <= 3; k++ {
		seen[string(u.keys[k].hash)] = true
		for v := 0; v <= 1; v++ {
			seen[string(u.boot[[2]int{k, v}].root)] = true
		}
	}
	if len(seen) != 9 {
		rep.Dead("key hashes / roots of the universe are not distinct")
	}

	// sanity of the binding itself, per era: the address of every lock must
	// come back from the decoded output as the lock the row means
	for _, e := range envs {
		for _, l := range allLocks {
			txid, ix := utxoRef("in", l, 2)
			ut, err := e.ls.UtxoById(shelley.NewShelleyTransactionInput(hex.EncodeToString(txid), int(ix)))
			if err != nil || ut.Output == nil {
				rep.Dead("%s: mock ledger does not return the %s output: %v", e.name, lockName(l), err)
			}
			addr := ut.Output.Address()
			var want []byte
			switch l.Kind {
			case "key":
				want = u.keys[l.K].hash
			case "byron":
				want = u.boot[[2]int{l.K, 0}].root
			default:
				want = u.scriptH
			}
			var got []byte
			switch p := addr.PayloadPayload().(type) {
			case common.AddressPayloadKeyHash:
				got = p.Hash.Bytes()
				if l.Kind == "script" {
					rep.Dead("%s: script address decoded as key address", e.name)
				}
			case common.AddressPayloadScriptHash:
				got = p.Hash.Bytes()
				if l.Kind != "script" {
					rep.Dead("%s: %s address decoded as script address", e.name, lockName(l))
				}
			}
			if string(got) != string(want) {
				rep.Dead("%s: %s address decodes to credential %x, built %x", e.name, lockName(l), got, want)
			}
			if (l.Kind == "byron") != (addr.Type() == common.AddressTypeByron) {
				rep.Dead("%s: %s address has type %d", e.name, lockName(l), addr.Type())
			}
		}
	}

	type job struct {
		e *eraEnv
		r *row
		i int
	}
	jobs := make(chan job, 1024)
	var wg sync.WaitGroup
	var mu sync.Mutex
	silentRejected := map[string]int{}
	reported, suppressed := map[string]int{}, 0
	// five replays per (era, direction, reason) are enough
	more := func(class string) bool {
		mu.Lock()
		defer mu.Unlock()
		reported[class]++
		if reported[class] > 5 {
			suppressed++
			return false
		}
		return true
	}
	acceptedPerEra, rejectedPerEra := map[string]int{}, map[string]int{}
	flaggedAccepted, flaggedRejected := map[string]int{}, map[string]int{}
	dupRefused, dupAccepted, dupRejected := map[string]int{}, map[string]int{}, map[string]int{}
	skipped, unflaggable := 0, 0
	workers := runtime.NumCPU()
	if workers > 6 {
		workers = 6
	}
	for w := 0; w < workers; w++ {
		wg.Add(1)
		go func() {
			defer wg.Done()
			for j := range jobs {
				e, r := j.e, j.r
				key := "era=" + e.name + ":" + r.caseKey()
				b, err := build(e, u, r, seed)
				if err != nil && r.hasDup() && strings.HasPrefix(err.Error(), "decode ") {
					// a decoder that refuses a set with a repeated element is within
					// its rights: nothing is accepted
					mu.Lock()
					dupRefused[e.name]++
					mu.Unlock()
					continue
				}
				if err != nil {
					// every case is a well-formed transaction of the era
					rep.Dead("%s: %v", key, err)
				}
				replay := map[string]any{
					"era": e.name, "case": r.caseKey(), "spec_accept": r.Accept, "spec_why": r.Why,
					"tx_cbor": hex.EncodeToString(b.txBytes), "invalid_signatures": b.bad,
					"p2invalid": r.P2, "tx_is_valid": b.tx.IsValid(), "listed_more_than_once": r.Dup,
					"rules": e.sigNames, "seed": seed,
				}
				v, p := judge(e, b.tx)
				trivial := len(r.Ins) == 1 && r.Ins[0].Kind == "script" && len(r.Coll)+len(r.Req)+len(r.VW)+len(r.BW) == 0
				rep.Case(key, !trivial)
				if p != nil {
					rep.Disagree("panic:"+key, fmt.Sprintf("panic in library code: %v", p), replay)
					continue
				}
				replay["code_accept"] = v.accept
				replay["code_failures"] = v.fails
				mu.Lock()
				if r.hasDup() {
					if v.accept {
						dupAccepted[e.name]++
					} else {
						dupRejected[e.name]++
					}
				}
				if r.P2 {
					if v.accept {
						flaggedAccepted[e.name]++
					} else {
						flaggedRejected[e.name]++
					}
				}
				if v.accept {
					acceptedPerEra[e.name]++
				} else {
					rejectedPerEra[e.name]++
				}
				mu.Unlock()
				switch {
				case v.accept && !r.Accept:
					if !more(e.name + ":accept:" + strings.Join(r.Why, "+") + p2tag(r.P2)) {
						continue
					}
					rep.Disagree(key+":code=accept:spec=reject",
						fmt.Sprintf("signature validation of %s accepts (rules %v) a transaction the specification rejects because of %v",
							e.name, e.sigNames, r.Why), replay)
				case !v.accept && r.Accept && r.Silent:
					mu.Lock()
					silentRejected[e.name]++
					mu.Unlock()
				case !v.accept && r.Accept:
					if !more(e.name + ":reject" + p2tag(r.P2)) {
						continue
					}
					rep.Disagree(key+":code=reject:spec=accept",
						fmt.Sprintf("signature validation of %s rejects a transaction whose owners and required signers are all witnessed by valid signatures: %v",
							e.name, v.fails), replay)
				}
				if j.i%9973 == 17 || (r.P2 && j.i%7919 == 101) || (r.hasDup() && j.i%7919 == 202) {
					rep.Sample(map[string]any{"case": key, "tx_is_valid": b.tx.IsValid(), "spec_accept": r.Accept, "spec_why": r.Why,
						"code_accept": v.accept, "code_failures": v.fails, "tx": hex.EncodeToString(b.txBytes)})
				}
			}
		}()
	}
	for _, e := range envs {
		if len(only) > 0 && !only[e.name] {
			continue
		}
		for i := range rows {
			r := &rows[i]
			if !e.alonzoUp && (len(r.Coll) > 0 || len(r.Req) > 0) {
				skipped++ // the era's transaction body has neither collateral nor required signers
				continue
			}
			if r.P2 && e.flag == "" {
				unflaggable++ // the era's transactions have no is_valid flag
				continue
			}
			jobs <- job{e, r, i}
		}
	}
	close(jobs)
	wg.Wait()

	names := map[string][]string{}
	flagHow := map[string]string{}
	for _, e := range envs {
		names[e.name] = e.sigNames
		if e.flag != "" {
			flagHow[e.name] = e.flag
		}
	}
	rep.Extra["signature_rules_found_in_era_lists"] = names
	rep.Extra["accepted_per_era"] = acceptedPerEra
	rep.Extra["rejected_per_era"] = rejectedPerEra
	rep.Extra["rows"] = len(rows)
	rep.Extra["rows_not_applicable_pre_alonzo"] = skipped
	rep.Extra["flagged_rows_not_applicable_pre_alonzo"] = unflaggable
	rep.Extra["phase2_flag_realisation"] = flagHow
	rep.Extra["element_listed_more_than_once_accepted_per_era"] = dupAccepted
	rep.Extra["element_listed_more_than_once_rejected_per_era"] = dupRejected
	rep.Extra["element_listed_more_than_once_refused_by_the_decoder_per_era"] = dupRefused
	rep.Extra["flagged_is_valid_false_accepted_per_era"] = flaggedAccepted
	rep.Extra["flagged_is_valid_false_rejected_per_era"] = flaggedRejected
	rep.Extra["property_silent_byron_collateral_with_bootstrap_witness_rejected"] = silentRejected
	rep.Extra["key_address_shapes"] = map[string]string{"owner1": u.addrKind[1], "owner2": u.addrKind[2]}
	if suppressed > 0 {
		rep.Extra["further_disagreements_of_an_already_reported_era_and_reason"] = suppressed
	}
	rep.Extra["variant1_realisation"] = map[string]string{
		"owner1": u.boot[[2]int{1, 1}].how, "owner2": u.boot[[2]int{2, 1}].how,
	}
	rep.Extra["c28_note"] = "verdict = the entries of <era>.UtxoValidationRules named UtxoValidateSignatures / " +
		"UtxoValidateRequiredVKeyWitnesses / UtxoValidateCollateralVKeyWitnesses, each run on the decoded transaction; " +
		"a case whose collateral is a Byron address witnessed by a bootstrap witness obliges the code only to reject " +
		"when the specification rejects (the property is an implication); a :p2invalid case is the same transaction " +
		"flagged is_valid = false (envelope: third element false; block: TxIsValid of the decoded transaction cleared, as " +
		"block decoding does for the block's invalid_transactions), judged by the same rules with the same expected verdict"
	rep.Finish()
}
