// c20: supported-version tables (C20).
//
//	c20 dump <out.json> <nMagic>        the code's own version tables as JSON: the two Cardano
//	                                    version lists, the two DMQ lists, GetProtocolVersion(v)
//	                                    for every v in 0..65535 that is known, and the version
//	                                    maps generated for every (magic, diffusion, peer sharing,
//	                                    query); they become the constants of
//	                                    spec/net/VersionTable.tla (TB binding)
//	c20 replay <cases20.ndjson>         every TLC row (table, version, magic, flags): generate
//	                                    the version data, encode it, decode it with that version's
//	                                    own decoder and compare the four accessors
package main

import (
	"fmt"
	"math/rand"
	"os"
	"sort"
	"strconv"

	"encoding/json"

	"github.com/blinklabs-io/gouroboros/cbor"
	"github.com/blinklabs-io/gouroboros/protocol"

	"verifharness/vh"
)

var tableNames = []string{"", "ntc", "ntn", "dmq_ntc", "dmq_ntn"}

// magicOf maps the abstract magic index of the specification to a concrete
// network magic: the extremes, mainnet, and seeded random values beyond.
func magicOf(mi int) uint32 {
	switch mi {
	case 0:
		return 0
	case 1:
		return 1
	case 2:
		return 764824073
	case 3:
		return 0xFFFFFFFF
	}
	r := rand.New(rand.NewSource(vh.Seed()*1000 + int64(mi)))
	return r.Uint32()
}

func lists() [][]uint16 {
	return [][]uint16{nil,
		protocol.GetProtocolVersionsNtC(), protocol.GetProtocolVersionsNtN(),
		protocol.GetProtocolVersionsDMQNtC(), protocol.GetProtocolVersionsDMQNtN()}
}

func generate(t int, magic uint32, d, p, q bool) protocol.ProtocolVersionMap {
	switch t {
	case 1:
		return protocol.GetProtocolVersionMap(protocol.ProtocolModeNodeToClient, magic, d, p, q)
	case 2:
		return protocol.GetProtocolVersionMap(protocol.ProtocolModeNodeToNode, magic, d, p, q)
	case 3:
		return protocol.GetProtocolVersionMapDMQNtC(magic, q)
	case 4:
		return protocol.GetProtocolVersionMapDMQNtN(magic, d, p, q)
	}
	return nil
}

func main() {
	rep := vh.NewReporter()
	if len(os.Args) < 3 {
		rep.Dead("usage: c20 dump <out.json> <nMagic> | replay <cases.ndjson>")
	}
	switch os.Args[1] {
	case "dump":
		n := 4
		if len(os.Args) > 3 {
			if v, err := strconv.Atoi(os.Args[3]); err == nil {
				n = v
			}
		}
		dump(rep, os.Args[2], n)
	case "replay":
		replay(rep, os.Args[2])
	default:
		rep.Dead("unknown mode %q", os.Args[1])
	}
	rep.Finish()
}

func b2i(b bool) int {
	if b {
		return 1
	}
	return 0
}

func dump(rep *vh.Reporter, out string, nMagic int) {
	ls := lists()
	jl := make([][]int, 4)
	for t := 1; t <= 4; t++ {
		jl[t-1] = []int{}
		for _, v := range ls[t] {
			jl[t-1] = append(jl[t-1], int(v))
		}
	}
	// GetProtocolVersion(v) for the whole 16-bit space; only non-zero answers are written
	known := []map[string]any{}
	cur := map[string]any{"v": 0}
	rep.Guard("GetProtocolVersion:scan-0..65535", cur, func() {
		for v := 0; v <= 0xFFFF; v++ {
			cur["v"] = v
			pv := protocol.GetProtocolVersion(uint16(v))
			hasDec := pv.NewVersionDataFromCborFunc != nil
			anyFlag := pv.EnableShelleyEra || pv.EnableAllegraEra || pv.EnableMaryEra || pv.EnableAlonzoEra ||
				pv.EnableBabbageEra || pv.EnableConwayEra || pv.EnableDijkstraEra || pv.EnableLocalQueryProtocol ||
				pv.EnableLocalTxMonitorProtocol || pv.EnableKeepAliveProtocol || pv.EnableFullDuplex ||
				pv.EnablePeerSharingProtocol || pv.PeerSharingUseV11
			if !hasDec && !anyFlag {
				continue
			}
			known = append(known, map[string]any{
				"v": v, "dec": hasDec,
				"eras": []bool{pv.EnableShelleyEra, pv.EnableAllegraEra, pv.EnableMaryEra, pv.EnableAlonzoEra,
					pv.EnableBabbageEra, pv.EnableConwayEra, pv.EnableDijkstraEra},
				"lq": pv.EnableLocalQueryProtocol, "txm": pv.EnableLocalTxMonitorProtocol,
				"ka": pv.EnableKeepAliveProtocol, "fd": pv.EnableFullDuplex,
				"ps": pv.EnablePeerSharingProtocol, "psv11": pv.PeerSharingUseV11,
			})
			rep.Case(fmt.Sprintf("version=%d", v), true)
		}
	})
	magics := [][2]int{}
	for mi := 0; mi < nMagic; mi++ {
		m := magicOf(mi)
		magics = append(magics, [2]int{int(m >> 16), int(m & 0xFFFF)})
	}
	genkeys := []map[string]any{}
	genrows := []map[string]any{}
	for t := 1; t <= 4; t++ {
		for mi := 0; mi < nMagic; mi++ {
			for bits := 0; bits < 8; bits++ {
				d, p, q := bits&1 != 0, bits&2 != 0, bits&4 != 0
				var m protocol.ProtocolVersionMap
				key := fmt.Sprintf("generate:table=%s:magic=%d:d=%d:p=%d:q=%d", tableNames[t], mi, b2i(d), b2i(p), b2i(q))
				rep.Guard(key, nil, func() { m = generate(t, magicOf(mi), d, p, q) })
				keys := []int{}
				for v := range m {
					keys = append(keys, int(v))
				}
				sort.Ints(keys)
				genkeys = append(genkeys, map[string]any{"t": t, "mi": mi, "d": d, "p": p, "q": q, "keys": keys})
				for _, v := range keys {
					vd := m[uint16(v)]
					row := map[string]any{"t": t, "mi": mi, "d": d, "p": p, "q": q, "v": v, "nil": vd == nil}
					if vd != nil {
						rep.Guard(key+fmt.Sprintf(":v=%d", v), nil, func() {
							mg := vd.NetworkMagic()
							row["hi"], row["lo"] = int(mg>>16), int(mg&0xFFFF)
							row["gd"], row["gp"], row["gq"] = vd.DiffusionMode(), vd.PeerSharing(), vd.Query()
						})
					}
					if _, ok := row["gq"]; !ok {
						row["hi"], row["lo"], row["gd"], row["gp"], row["gq"] = -1, -1, false, false, false
						row["nil"] = true
					}
					genrows = append(genrows, row)
					rep.Case(key+fmt.Sprintf(":v=%d", v), true)
				}
			}
		}
	}
	tables := map[string]any{"lists": jl, "known": known, "magics": magics, "genkeys": genkeys, "genrows": genrows}
	buf, err := json.Marshal(tables)
	if err != nil {
		rep.Dead("marshal: %v", err)
	}
	if err := os.WriteFile(out, buf, 0o644); err != nil {
		rep.Dead("write: %v", err)
	}
	rep.Sample(map[string]any{"lists": jl})
	if len(known) > 0 {
		rep.Sample(map[string]any{"GetProtocolVersion": known[len(known)-1]})
	}
	rep.Extra["c20_versions_scanned"] = 0x10000
	rep.Extra["c20_versions_known"] = len(known)
}

// ------------------------------------------------------------------ replay

type row20 struct {
	T       int      `json:"t"`
	V       int      `json:"v"`
	Mi      int      `json:"mi"`
	D       bool     `json:"d"`
	P       bool     `json:"p"`
	Q       bool     `json:"q"`
	Carried []string `json:"carried"`
}

func has(xs []string, s string) bool {
	for _, x := range xs {
		if x == s {
			return true
		}
	}
	return false
}

type acc struct {
	Magic uint32 `json:"magic"`
	D     bool   `json:"diffusion"`
	P     bool   `json:"peer_sharing"`
	Q     bool   `json:"query"`
}

func accOf(vd protocol.VersionData) acc {
	return acc{vd.NetworkMagic(), vd.DiffusionMode(), vd.PeerSharing(), vd.Query()}
}

func replay(rep *vh.Reporter, path string) {
	rows, err := vh.ReadNDJSON[row20](path)
	if err != nil || len(rows) == 0 {
		rep.Dead("cases: %v", err)
	}
	for _, r := range rows {
		magic := magicOf(r.Mi)
		key := fmt.Sprintf("codec:table=%s:version=%d:magic=%d:d=%d:p=%d:q=%d", tableNames[r.T], r.V, r.Mi, b2i(r.D), b2i(r.P), b2i(r.Q))
		replayObj := map[string]any{"row": r, "magic": magic}
		rep.Guard(key, replayObj, func() {
			m := generate(r.T, magic, r.D, r.P, r.Q)
			vd, ok := m[uint16(r.V)]
			rep.Case(key, true)
			if !ok || vd == nil {
				rep.Disagree(key+":not_generated", fmt.Sprintf("the %s version map has no data for listed version %d", tableNames[r.T], r.V), replayObj)
				return
			}
			pv := protocol.GetProtocolVersion(uint16(r.V))
			if pv.NewVersionDataFromCborFunc == nil {
				rep.Disagree(key+":no_decoder", fmt.Sprintf("listed %s version %d has no version-data decoder", tableNames[r.T], r.V), replayObj)
				return
			}
			wire, err := cbor.Encode(vd)
			if err != nil {
				rep.Disagree(key+":encode", fmt.Sprintf("version data of %s version %d does not encode: %v", tableNames[r.T], r.V, err), replayObj)
				return
			}
			replayObj["wire"] = fmt.Sprintf("%x", wire)
			dec, err := pv.NewVersionDataFromCborFunc(wire)
			if err != nil || dec == nil {
				rep.Disagree(key+":decode", fmt.Sprintf("%s version %d: its own decoder rejects its generated data %x: %v", tableNames[r.T], r.V, wire, err), replayObj)
				return
			}
			g, d := accOf(vd), accOf(dec)
			replayObj["generated"], replayObj["decoded"] = g, d
			if g != d {
				rep.Disagree(key+":round_trip", fmt.Sprintf("%s version %d: generated %+v, decoded with the version's own decoder %+v (wire %x)", tableNames[r.T], r.V, g, d, wire), replayObj)
			}
			// what the version's data format carries must come back as requested
			if d.Magic != magic {
				rep.Disagree(key+":magic", fmt.Sprintf("%s version %d: requested magic %d, decoded %d", tableNames[r.T], r.V, magic, d.Magic), replayObj)
			}
			if has(r.Carried, "d") && d.D != r.D {
				rep.Disagree(key+":diffusion", fmt.Sprintf("%s version %d: requested diffusion mode %v, decoded %v", tableNames[r.T], r.V, r.D, d.D), replayObj)
			}
			if has(r.Carried, "p") && d.P != r.P {
				rep.Disagree(key+":peer_sharing", fmt.Sprintf("%s version %d: requested peer sharing %v, decoded %v", tableNames[r.T], r.V, r.P, d.P), replayObj)
			}
			if has(r.Carried, "q") && d.Q != r.Q {
				rep.Disagree(key+":query", fmt.Sprintf("%s version %d: requested query %v, decoded %v", tableNames[r.T], r.V, r.Q, d.Q), replayObj)
			}
			if r.Mi == 2 && r.D && r.P && r.Q && (r.V == 32783 || r.V == 10 || r.V == 12 || r.V == 14 || r.V == 4097) {
				rep.Sample(map[string]any{"table": tableNames[r.T], "version": r.V, "carried": r.Carried, "wire": fmt.Sprintf("%x", wire), "decoded": d})
			}
		})
	}
}
