// c06: replays the TLC-generated multi-asset cases (spec/ledger/MultiAsset.tla)
// against common.MultiAsset[*big.Int]: Compare, Add, Asset, cbor Encode/Decode.
//
// Abstract -> concrete map (deterministic from the row, the round and VERIF_SEED):
//   - policy p (1,2,3)        -> 28-byte hashes, increasing bytewise with p
//   - name   <<l1,..,ln>>     -> n blocks of B bytes, block(l) increasing bytewise with l
//     (B=1: names of 0..2 bytes; B=16: names of 0/16/32 bytes, 32 needs the 2-byte
//     CBOR head so the shorter-first rule is exercised across the head boundary)
//   - quantity q              -> q*M, M in {1, 2^31, 2^62, 2^63, 2^64+1}
//     (addition-preserving, so the model's row times M is the exact oracle)
//   - "up to zeros": in total-mode rows a zero may be stored explicitly or be
//     absent (the model proves the verdicts do not depend on it); partial-mode
//     rows fix the form themselves (9 = absent).
//
// Every expected verdict (eq, sum, norm, enc) is read from the row.
package main

import (
	"bytes"
	"encoding/hex"
	"encoding/json"
	"fmt"
	"math/big"
	"math/rand"
	"os"
	"runtime"
	"sort"
	"strings"
	"sync"

	"github.com/blinklabs-io/gouroboros/cbor"
	"github.com/blinklabs-io/gouroboros/ledger/common"

	"verifharness/vh"
)

const absent = 9

type MA = common.MultiAsset[*big.Int]

type keyRow struct {
	I    int   `json:"i"`
	P    int   `json:"p"`
	Name []int `json:"name"`
}

type encGroup struct {
	P       int
	Entries []encEntry
}
type encEntry struct {
	Name []int
	Q    int
}

func (g *encGroup) UnmarshalJSON(b []byte) error {
	var raw []json.RawMessage
	if err := json.Unmarshal(b, &raw); err != nil {
		return err
	}
	if len(raw) != 2 {
		return fmt.Errorf("enc group: want 2 elements")
	}
	if err := json.Unmarshal(raw[0], &g.P); err != nil {
		return err
	}
	return json.Unmarshal(raw[1], &g.Entries)
}
func (e *encEntry) UnmarshalJSON(b []byte) error {
	var raw []json.RawMessage
	if err := json.Unmarshal(b, &raw); err != nil {
		return err
	}
	if len(raw) != 2 {
		return fmt.Errorf("enc entry: want 2 elements")
	}
	if err := json.Unmarshal(raw[0], &e.Name); err != nil {
		return err
	}
	return json.Unmarshal(raw[1], &e.Q)
}

type valRow struct {
	A    []int      `json:"a"`
	Norm []int      `json:"norm"`
	Enc  []encGroup `json:"enc"`
	EncN []encGroup `json:"encn"`
}
type pairRow struct {
	A   []int `json:"a"`
	B   []int `json:"b"`
	Eq  bool  `json:"eq"`
	Sum []int `json:"sum"`
}
type tripleRow struct {
	A    []int `json:"a"`
	B    []int `json:"b"`
	C    []int `json:"c"`
	EqAB bool  `json:"eqab"`
	EqBC bool  `json:"eqbc"`
	EqAC bool  `json:"eqac"`
	Sum  []int `json:"sum"`
}

// ---- concrete key universe ------------------------------------------------

type ckey struct {
	policy common.Blake2b224
	name   []byte
}

type universe struct {
	label  string
	keys   []ckey // index = position in the model's KeySeq
	pol    map[int]common.Blake2b224
	blocks [][]byte
	bsize  int
}

func (u *universe) nameOf(letters []int) []byte {
	var out []byte
	for _, l := range letters {
		out = append(out, u.blocks[l]...)
	}
	return out
}

// mkUniverse builds the monotone map for round r.
func mkUniverse(krows []keyRow, r int, rng *rand.Rand) *universe {
	u := &universe{pol: map[int]common.Blake2b224{}}
	// policies 1..3
	pols := make([][]byte, 3)
	switch r % 3 {
	case 0: // random
		for i := range pols {
			pols[i] = make([]byte, 28)
			rng.Read(pols[i])
		}
		u.label = "pol=random"
	case 1: // common 27-byte prefix: order decided by the last byte only
		pre := make([]byte, 27)
		rng.Read(pre)
		for i := range pols {
			pols[i] = append(append([]byte{}, pre...), byte(rng.Intn(256)))
		}
		// make the last bytes distinct
		pols[0][27], pols[1][27], pols[2][27] = 0x00, 0x7f+byte(rng.Intn(2)), 0xff
		u.label = "pol=prefix"
	case 2: // extremes
		pols[0] = bytes.Repeat([]byte{0x00}, 28)
		pols[1] = make([]byte, 28)
		rng.Read(pols[1])
		pols[1][0] = 0x01 + byte(rng.Intn(0xfd))
		pols[2] = bytes.Repeat([]byte{0xff}, 28)
		u.label = "pol=extremes"
	}
	sort.Slice(pols, func(i, j int) bool { return bytes.Compare(pols[i], pols[j]) < 0 })
	for i := 0; i < 3; i++ {
		u.pol[i+1] = common.NewBlake2b224(pols[i])
	}
	// letter blocks 0..2
	u.bsize = []int{1, 16}[r%2]
	u.blocks = make([][]byte, 3)
	for {
		for i := range u.blocks {
			u.blocks[i] = make([]byte, u.bsize)
			rng.Read(u.blocks[i])
		}
		sort.Slice(u.blocks, func(i, j int) bool { return bytes.Compare(u.blocks[i], u.blocks[j]) < 0 })
		if !bytes.Equal(u.blocks[0], u.blocks[1]) && !bytes.Equal(u.blocks[1], u.blocks[2]) {
			break
		}
	}
	u.label += fmt.Sprintf(",block=%d", u.bsize)
	u.keys = make([]ckey, len(krows))
	for _, k := range krows {
		u.keys[k.I-1] = ckey{policy: u.pol[k.P], name: u.nameOf(k.Name)}
	}
	return u
}

// ---- scales ---------------------------------------------------------------

type scale struct {
	label string
	m     *big.Int
}

func scales() []scale {
	p := func(e uint) *big.Int { return new(big.Int).Lsh(big.NewInt(1), e) }
	return []scale{
		{"1", big.NewInt(1)},
		{"2^31", p(31)},
		{"2^62", p(62)},
		{"2^63", p(63)},
		{"2^64+1", new(big.Int).Add(p(64), big.NewInt(1))},
	}
}

func mul(q int, m *big.Int) *big.Int { return new(big.Int).Mul(big.NewInt(int64(q)), m) }

// ---- building a concrete value ---------------------------------------------

const (
	repExact = iota // as the row says: 9 absent, 0 explicit zero
	repDrop         // zeros absent
	repMixed        // each zero absent or explicit by a seeded coin, plus empty policy maps
)

var repNames = []string{"exact", "dropzeros", "mixed"}

func build(u *universe, arr []int, m *big.Int, rep int, rng *rand.Rand) *MA {
	data := map[common.Blake2b224]map[cbor.ByteString]*big.Int{}
	order := rng.Perm(len(arr)) // insertion order must not matter
	for _, i := range order {
		q := arr[i]
		if q == absent {
			continue
		}
		if q == 0 {
			if rep == repDrop || (rep == repMixed && rng.Intn(2) == 0) {
				continue
			}
		}
		k := u.keys[i]
		if data[k.policy] == nil {
			data[k.policy] = map[cbor.ByteString]*big.Int{}
		}
		data[k.policy][cbor.NewByteString(k.name)] = mul(q, m)
	}
	if rep == repMixed {
		for _, p := range u.pol {
			if _, ok := data[p]; !ok && rng.Intn(3) == 0 {
				data[p] = map[cbor.ByteString]*big.Int{} // a policy with no assets
			}
		}
	}
	ma := common.NewMultiAsset[*big.Int](data)
	return &ma
}

func get(arr []int, i int) int {
	if arr[i] == absent {
		return 0
	}
	return arr[i]
}

func fmtArr(a []int) string {
	s := make([]string, len(a))
	for i, v := range a {
		if v == absent {
			s[i] = "_"
		} else {
			s[i] = fmt.Sprint(v)
		}
	}
	return strings.Join(s, ",")
}

func bigOrZero(v *big.Int) *big.Int {
	if v == nil {
		return new(big.Int)
	}
	return v
}

// assetsMismatch compares ma.Asset on every key of the universe with want[i]*M.
func assetsMismatch(u *universe, ma *MA, want []int, m *big.Int) string {
	for i, k := range u.keys {
		got := bigOrZero(ma.Asset(k.policy, k.name))
		exp := mul(get(want, i), m)
		if got.Cmp(exp) != 0 {
			return fmt.Sprintf("key %d: Asset = %s, model %s", i+1, got, exp)
		}
	}
	return ""
}

// domain lists the stored (policy,name) pairs as indexes into the universe;
// -1 for a key outside the universe, -2 for a policy that stores no asset.
func domain(u *universe, ma *MA) []int {
	var out []int
	for _, p := range ma.Policies() {
		names := ma.Assets(p)
		if len(names) == 0 {
			out = append(out, -2)
		}
		for _, n := range names {
			idx := -1
			for i, k := range u.keys {
				if k.policy == p && bytes.Equal(k.name, n) {
					idx = i
				}
			}
			out = append(out, idx)
		}
	}
	sort.Ints(out)
	return out
}

func presentIdx(arr []int) []int {
	var out []int
	for i, v := range arr {
		if v != absent {
			out = append(out, i)
		}
	}
	return out
}

func sameInts(a, b []int) bool {
	if len(a) != len(b) {
		return false
	}
	for i := range a {
		if a[i] != b[i] {
			return false
		}
	}
	return true
}

// ---- reference CBOR (RFC 8949 4.2.1 deterministic, preferred integers) ------

func head(major byte, n uint64) []byte {
	mb := major << 5
	switch {
	case n < 24:
		return []byte{mb | byte(n)}
	case n <= 0xff:
		return []byte{mb | 24, byte(n)}
	case n <= 0xffff:
		return []byte{mb | 25, byte(n >> 8), byte(n)}
	case n <= 0xffffffff:
		return []byte{mb | 26, byte(n >> 24), byte(n >> 16), byte(n >> 8), byte(n)}
	}
	out := []byte{mb | 27}
	for s := 56; s >= 0; s -= 8 {
		out = append(out, byte(n>>uint(s)))
	}
	return out
}

func encInt(v *big.Int) []byte {
	if v.Sign() >= 0 {
		if v.IsUint64() {
			return head(0, v.Uint64())
		}
		b := v.Bytes()
		return append(append([]byte{0xc2}, head(2, uint64(len(b)))...), b...)
	}
	n := new(big.Int).Neg(v)
	n.Sub(n, big.NewInt(1))
	if n.IsUint64() {
		return head(1, n.Uint64())
	}
	b := n.Bytes()
	return append(append([]byte{0xc3}, head(2, uint64(len(b)))...), b...)
}

// encBytes turns the model's Enc (entries already in the model's canonical order)
// into bytes.
func encBytes(u *universe, enc []encGroup, m *big.Int) []byte {
	out := head(5, uint64(len(enc)))
	for _, g := range enc {
		p := u.pol[g.P]
		out = append(out, head(2, 28)...)
		out = append(out, p[:]...)
		out = append(out, head(5, uint64(len(g.Entries)))...)
		for _, e := range g.Entries {
			n := u.nameOf(e.Name)
			out = append(out, head(2, uint64(len(n)))...)
			out = append(out, n...)
			out = append(out, encInt(mul(e.Q, m))...)
		}
	}
	return out
}

// ---- the checks -------------------------------------------------------------

type ctx struct {
	rep    *vh.Reporter
	u      *universe
	ks     string
	mode   string
	mu     sync.Mutex
	notes  map[string]int
	sample sync.Once
}

// guard is vh.Guard without the per-case stderr marker: cases run in parallel and
// number in the millions; a panic in library code is still attributed to its case.
func (c *ctx) guard(key string, replay any, f func()) {
	defer func() {
		if p := recover(); p != nil {
			c.rep.Disagree("panic:"+key, fmt.Sprintf("panic in library code: %v", p), replay)
		}
	}()
	f()
}

func (c *ctx) note(k string) {
	c.mu.Lock()
	c.notes[k]++
	c.mu.Unlock()
}

func (c *ctx) replay(extra map[string]any) map[string]any {
	out := map[string]any{"keyset": c.ks, "mode": c.mode, "universe": c.u.label}
	ks := make([]map[string]string, len(c.u.keys))
	for i, k := range c.u.keys {
		ks[i] = map[string]string{"policy": hex.EncodeToString(k.policy[:]), "name": hex.EncodeToString(k.name)}
	}
	out["keys"] = ks
	for k, v := range extra {
		out[k] = v
	}
	return out
}

func (c *ctx) checkVal(v valRow, sc scale, rng *rand.Rand) {
	base := fmt.Sprintf("ks=%s:mode=%s:a=%s:M=%s", c.ks, c.mode, fmtArr(v.A), sc.label)
	rp := c.replay(map[string]any{"a": v.A, "M": sc.m.String(), "norm": v.Norm})
	nontrivial := len(presentIdx(v.A)) > 0
	c.guard(base+":op=unary", rp, func() {
		a := build(c.u, v.A, sc.m, repExact, rng)
		// Asset agrees with the model's Get
		c.rep.Case(base, nontrivial)
		if d := assetsMismatch(c.u, a, v.A, sc.m); d != "" {
			c.rep.Disagree(base+":op=asset", d, rp)
		}
		// reflexive; equal to its normal form in both directions
		n := build(c.u, v.Norm, sc.m, repExact, rng)
		if !a.Compare(a) {
			c.rep.Disagree(base+":op=reflexive", "Compare(a,a) = false", rp)
		}
		if !a.Compare(n) || !n.Compare(a) {
			c.rep.Disagree(base+":op=eqnorm", fmt.Sprintf("Compare(a,Norm a) = %v, Compare(Norm a,a) = %v, model true",
				a.Compare(n), n.Compare(a)), rp)
		}
		// encoding: deterministic, canonical; the model's Enc(a) lists every stored
		// entry, Enc(Norm a) only the non-zero ones. The property does not say
		// whether a stored zero is written, so either is accepted (and counted).
		wantFull := encBytes(c.u, v.Enc, sc.m)
		wantNorm := encBytes(c.u, v.EncN, sc.m)
		var first []byte
		for round := 0; round < 3; round++ {
			x := build(c.u, v.A, sc.m, repExact, rng) // fresh insertion order
			got, err := cbor.Encode(x)
			if err != nil {
				c.rep.Disagree(base+":op=encode", "Encode error: "+err.Error(), rp)
				return
			}
			if round == 0 {
				first = got
				switch {
				case bytes.Equal(got, wantFull):
					if !bytes.Equal(wantFull, wantNorm) {
						c.note("encode_writes_stored_zero_entries")
					}
				case bytes.Equal(got, wantNorm):
					c.note("encode_drops_stored_zero_entries")
				default:
					c.rep.Disagree(base+":op=encode", fmt.Sprintf("Encode = %x, model (canonical key order) %x", got, wantFull), rp)
					return
				}
			} else if !bytes.Equal(got, first) {
				c.rep.Disagree(base+":op=encode-deterministic", fmt.Sprintf("two encodings of one value differ: %x vs %x", first, got), rp)
				return
			}
		}
		gotN, err := cbor.Encode(n)
		if err != nil || !bytes.Equal(gotN, wantNorm) {
			c.rep.Disagree(base+":op=encode-norm", fmt.Sprintf("Encode(Norm a) = %x (%v), model %x", gotN, err, wantNorm), rp)
			return
		}
		// decoding an encoding: equal value, zero quantities removed
		for _, enc := range [][]byte{first, wantFull} {
			var d MA
			if _, err := cbor.Decode(enc, &d); err != nil {
				c.rep.Disagree(base+":op=decode", fmt.Sprintf("Decode(%x): %v", enc, err), rp)
				return
			}
			if msg := assetsMismatch(c.u, &d, v.Norm, sc.m); msg != "" {
				c.rep.Disagree(base+":op=decode", "decoded value: "+msg, rp)
				return
			}
			dom := domain(c.u, &d)
			emptyPolicy := false
			for len(dom) > 0 && dom[0] == -2 {
				// a policy left with no assets stores no quantity: the model has no such
				// form and the property is silent on it; accepted and counted
				dom, emptyPolicy = dom[1:], true
			}
			if emptyPolicy {
				c.note("decode_leaves_empty_policy_map")
			}
			if !sameInts(dom, presentIdx(v.Norm)) {
				c.rep.Disagree(base+":op=decode-zeros", fmt.Sprintf("decoded value stores keys %v, model Norm stores %v", dom, presentIdx(v.Norm)), rp)
				return
			}
			if !d.Compare(a) || !a.Compare(&d) {
				c.rep.Disagree(base+":op=decode", "decoded value does not Compare equal to the original", rp)
				return
			}
			re, err := cbor.Encode(&d)
			if emptyPolicy {
				continue
			}
			if err != nil || !bytes.Equal(re, wantNorm) {
				c.rep.Disagree(base+":op=reencode", fmt.Sprintf("Encode(Decode(enc)) = %x (%v), model %x", re, err, wantNorm), rp)
				return
			}
		}
	})
	c.sample.Do(func() {
		c.rep.Sample(map[string]any{"kind": "value", "a": v.A, "M": sc.label, "enc_model": v.Enc,
			"enc_bytes": hex.EncodeToString(encBytes(c.u, v.Enc, sc.m))})
	})
}

func (c *ctx) checkPair(p pairRow, sc scale, rep int, rng *rand.Rand) {
	base := fmt.Sprintf("ks=%s:mode=%s:a=%s:b=%s:M=%s:rep=%s", c.ks, c.mode, fmtArr(p.A), fmtArr(p.B), sc.label, repNames[rep])
	rp := c.replay(map[string]any{"a": p.A, "b": p.B, "M": sc.m.String(), "rep": repNames[rep], "eq": p.Eq, "sum": p.Sum})
	c.guard(base+":op=pair", rp, func() {
		a := build(c.u, p.A, sc.m, rep, rng)
		b := build(c.u, p.B, sc.m, rep, rng)
		// Compare is the model's Eq
		c.rep.Case(base, true)
		if got := a.Compare(b); got != p.Eq {
			c.rep.Disagree(base+":op=compare", fmt.Sprintf("Compare(a,b) = %v, model Eq = %v", got, p.Eq), rp)
		}
		// Add is per-key addition and leaves its argument alone
		bDom := domain(c.u, b)
		a.Add(b)
		if d := assetsMismatch(c.u, a, p.Sum, sc.m); d != "" {
			c.rep.Disagree(base+":op=add", "after a.Add(b): "+d, rp)
			return
		}
		if d := assetsMismatch(c.u, b, p.B, sc.m); d != "" {
			c.rep.Disagree(base+":op=add-operand", "a.Add(b) changed b: "+d, rp)
			return
		}
		if !sameInts(bDom, domain(c.u, b)) {
			c.rep.Disagree(base+":op=add-operand", "a.Add(b) changed the key set of b", rp)
			return
		}
		// the sum compares equal to the model's sum in any zero form
		s := build(c.u, p.Sum, sc.m, (rep+1)%3, rng)
		if !a.Compare(s) || !s.Compare(a) {
			c.rep.Disagree(base+":op=add-compare", fmt.Sprintf("Compare(a+b, model sum) = %v / %v, model true", a.Compare(s), s.Compare(a)), rp)
			return
		}
		// and survives an encode/decode round trip
		enc, err := cbor.Encode(a)
		if err != nil {
			c.rep.Disagree(base+":op=add-encode", "Encode(a+b): "+err.Error(), rp)
			return
		}
		var d MA
		if _, err := cbor.Decode(enc, &d); err != nil {
			c.rep.Disagree(base+":op=add-decode", fmt.Sprintf("Decode(Encode(a+b)) %x: %v", enc, err), rp)
			return
		}
		if msg := assetsMismatch(c.u, &d, p.Sum, sc.m); msg != "" {
			c.rep.Disagree(base+":op=add-decode", "Decode(Encode(a+b)): "+msg, rp)
			return
		}
		if !d.Compare(a) {
			c.rep.Disagree(base+":op=add-decode", "Decode(Encode(a+b)) does not Compare equal to a+b", rp)
			return
		}
		// the sum and the operand are independent values afterwards: updating the
		// sum's quantities in place must not reach into b
		for _, k := range c.u.keys {
			if x := a.Asset(k.policy, k.name); x != nil {
				x.Add(x, big.NewInt(1))
			}
		}
		if d := assetsMismatch(c.u, b, p.B, sc.m); d != "" {
			c.rep.Disagree(base+":op=add-alias", "a.Add(b) left a quantity cell shared between a and b (b changed when a's cell was updated in place): "+d, rp)
			return
		}
		// x.Add(x): the diagonal rows give the model's a+a
		if sameInts(p.A, p.B) {
			x := build(c.u, p.A, sc.m, rep, rng)
			x.Add(x)
			if msg := assetsMismatch(c.u, x, p.Sum, sc.m); msg != "" {
				c.rep.Disagree(base+":op=add-self", "after x.Add(x): "+msg, rp)
			}
		}
	})
}

func (c *ctx) checkTriple(t tripleRow, sc scale, rep int, rng *rand.Rand) {
	base := fmt.Sprintf("ks=%s:mode=%s:a=%s:b=%s:c=%s:M=%s:rep=%s", c.ks, c.mode, fmtArr(t.A), fmtArr(t.B), fmtArr(t.C), sc.label, repNames[rep])
	rp := c.replay(map[string]any{"a": t.A, "b": t.B, "c": t.C, "M": sc.m.String(), "rep": repNames[rep], "sum": t.Sum})
	c.guard(base+":op=triple", rp, func() {
		mk := func(arr []int) *MA { return build(c.u, arr, sc.m, rep, rng) }
		c.rep.Case(base, true)
		a, b, cc := mk(t.A), mk(t.B), mk(t.C)
		if a.Compare(b) != t.EqAB || b.Compare(cc) != t.EqBC || a.Compare(cc) != t.EqAC {
			c.rep.Disagree(base+":op=transitive", fmt.Sprintf("Compare ab/bc/ac = %v/%v/%v, model %v/%v/%v",
				a.Compare(b), b.Compare(cc), a.Compare(cc), t.EqAB, t.EqBC, t.EqAC), rp)
		}
		l := mk(t.A) // (a+b)+c
		l.Add(mk(t.B))
		l.Add(mk(t.C))
		r := mk(t.B) // a+(b+c)
		r.Add(mk(t.C))
		r2 := mk(t.A)
		r2.Add(r)
		if msg := assetsMismatch(c.u, l, t.Sum, sc.m); msg != "" {
			c.rep.Disagree(base+":op=assoc", "(a+b)+c: "+msg, rp)
			return
		}
		if msg := assetsMismatch(c.u, r2, t.Sum, sc.m); msg != "" {
			c.rep.Disagree(base+":op=assoc", "a+(b+c): "+msg, rp)
			return
		}
		if !l.Compare(r2) || !r2.Compare(l) {
			c.rep.Disagree(base+":op=assoc", "Compare((a+b)+c, a+(b+c)) = false", rp)
		}
	})
}

// informational records what happens just outside the property's domain; nothing
// here is ever a disagreement.
func informational(rep *vh.Reporter) {
	probe := func(name string, f func() any) {
		defer func() {
			if p := recover(); p != nil {
				rep.Extra[name] = fmt.Sprintf("panic: %v", p)
			}
		}()
		rep.Extra[name] = f()
	}
	pol := common.NewBlake2b224(bytes.Repeat([]byte{7}, 28))
	name := cbor.NewByteString([]byte("t"))
	// generic machine-word instantiations wrap on overflow (not what the ledger uses)
	probe("c06_info_int64_add_maxint64_plus_1", func() any {
		a := common.NewMultiAsset[int64](map[common.Blake2b224]map[cbor.ByteString]int64{pol: {name: 1<<63 - 1}})
		b := common.NewMultiAsset[int64](map[common.Blake2b224]map[cbor.ByteString]int64{pol: {name: 1}})
		a.Add(&b)
		return fmt.Sprint(a.Asset(pol, []byte("t")))
	})
	probe("c06_info_uint64_add_maxuint64_plus_1", func() any {
		a := common.NewMultiAsset[uint64](map[common.Blake2b224]map[cbor.ByteString]uint64{pol: {name: 1<<64 - 1}})
		b := common.NewMultiAsset[uint64](map[common.Blake2b224]map[cbor.ByteString]uint64{pol: {name: 1}})
		a.Add(&b)
		return fmt.Sprint(a.Asset(pol, []byte("t")))
	})
	// the Go zero value of the struct (never produced by NewMultiAsset or by decoding a map)
	probe("c06_info_zero_value_struct_add", func() any {
		var z MA
		b := common.NewMultiAsset[*big.Int](map[common.Blake2b224]map[cbor.ByteString]*big.Int{pol: {name: big.NewInt(1)}})
		z.Add(&b)
		return "ok"
	})
	probe("c06_info_zero_value_struct_encoding", func() any {
		var z MA
		enc, err := cbor.Encode(&z)
		return fmt.Sprintf("%x err=%v", enc, err)
	})
}

// parallel runs f(i) for i in [0,n) on all CPUs.
func parallel(n int, f func(i int)) {
	w := runtime.GOMAXPROCS(0)
	if w > 8 {
		w = 8
	}
	var wg sync.WaitGroup
	ch := make(chan int, 1024)
	for k := 0; k < w; k++ {
		wg.Add(1)
		go func() {
			defer wg.Done()
			for i := range ch {
				f(i)
			}
		}()
	}
	for i := 0; i < n; i++ {
		ch <- i
	}
	close(ch)
	wg.Wait()
}

// usage: c06 <keyset-label> <mode> <dir with keys.ndjson and vals/pairs/triples.ndjson> <nscales> <rounds>
// nscales s: row i is replayed at scales {(i+j) mod 5 : j < s} (s=5: all scales);
// rounds: number of concrete key universes (policy shape / name block size rotate).
func main() {
	rep := vh.NewReporter()
	if len(os.Args) < 6 {
		rep.Dead("usage: c06 keyset mode dir nscales rounds")
	}
	ks, mode, dir := os.Args[1], os.Args[2], os.Args[3]
	var nsc int
	fmt.Sscan(os.Args[4], &nsc)
	if nsc < 1 || nsc > 5 {
		rep.Dead("nscales must be 1..5")
	}
	krows, err := vh.ReadNDJSON[keyRow](dir + "/keys.ndjson")
	if err != nil || len(krows) == 0 {
		rep.Dead("keys: %v", err)
	}
	scs := scales()
	seed := vh.Seed()
	var rounds int
	fmt.Sscan(os.Args[5], &rounds)
	if rounds < 1 || rounds > 6 {
		rep.Dead("rounds must be 1..6")
	}
	notes := map[string]int{}
	nrows := 0
	for r := 0; r < rounds; r++ {
		// the universe of round r; rounds rotate policy shape and name block size
		u := mkUniverse(krows, r+int(seed), rand.New(rand.NewSource(seed*1000+int64(r))))
		c := &ctx{rep: rep, u: u, ks: ks, mode: mode, notes: notes}
		rowRng := func(kind, i int) *rand.Rand {
			return rand.New(rand.NewSource(seed*1_000_003 + int64(r)*7919 + int64(kind)*104729 + int64(i)))
		}
		if vals, err := vh.ReadNDJSON[valRow](dir + "/vals.ndjson"); err == nil {
			nrows += len(vals)
			parallel(len(vals), func(i int) {
				rng := rowRng(1, i)
				for _, sc := range scs { // values are few: every scale
					c.checkVal(vals[i], sc, rng)
				}
			})
		}
		if pairs, err := vh.ReadNDJSON[pairRow](dir + "/pairs.ndjson"); err == nil {
			nrows += len(pairs)
			parallel(len(pairs), func(i int) {
				rng := rowRng(2, i)
				for j := 0; j < nsc; j++ {
					sc := scs[(i+j+r)%len(scs)]
					rp := repExact
					if mode == "total" {
						rp = (i/len(scs) + j + r) % 3
					}
					c.checkPair(pairs[i], sc, rp, rng)
				}
			})
			if r == 0 && len(pairs) > 0 {
				p := pairs[len(pairs)/3]
				rep.Sample(map[string]any{"kind": "pair", "a": p.A, "b": p.B, "eq": p.Eq, "sum": p.Sum})
			}
		}
		if triples, err := vh.ReadNDJSON[tripleRow](dir + "/triples.ndjson"); err == nil {
			nrows += len(triples)
			parallel(len(triples), func(i int) {
				rng := rowRng(3, i)
				for j := 0; j < nsc; j++ {
					sc := scs[(i+j+r)%len(scs)]
					rp := repExact
					if mode == "total" {
						rp = (i/len(scs) + j + r) % 3
					}
					c.checkTriple(triples[i], sc, rp, rng)
				}
			})
			if r == 0 && len(triples) > 0 {
				t := triples[len(triples)/2]
				rep.Sample(map[string]any{"kind": "triple", "a": t.A, "b": t.B, "c": t.C, "sum": t.Sum, "eqab": t.EqAB})
			}
		}
	}
	if nrows == 0 {
		rep.Dead("no case rows under %s", dir)
	}
	informational(rep)
	for k, v := range notes {
		rep.Extra["c06_"+ks+"_"+mode+"_"+k] = v
	}
	rep.Finish()
}
