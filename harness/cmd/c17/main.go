//go:build verif

// Command c17 replays the cases of spec/net/Connection.tla on real
// ouroboros.Connections.  One case = one configuration (client/server,
// node-to-node / node-to-client / DMQ, full duplex requested locally, the
// peer's advertised diffusion mode and peer-sharing flag, negotiated version,
// and the local options that never go on the wire: WithKeepAlive on or off),
// optionally a history (one running role of one mini-protocol is stopped
// through the API - Client.Stop() / Server.Stop() - after set-up and before
// the probe) and one inbound segment (protocol number x direction).  The connection runs
// on an in-memory pipe against a raw segment-level peer that performs the
// handshake by hand (selecting exactly the row's version with the row's flags)
// and then writes the one segment.  Observed: which accessors are non-nil,
// which (protocol, role) pairs were registered with the muxer, whether the
// muxer delivered the segment, whether the responder's handler / application
// callback ran, whether ErrorChan reported an error.  Every expectation comes
// from the row; this driver only builds bytes and compares.
//
//	c17 cases.ndjson ...      replay all rows (one file per slice of the configuration space)
//	c17 -replay replay.json   re-run one recorded case
package main

import (
	"encoding/json"
	"fmt"
	"io"
	"log/slog"
	"net"
	"os"
	"reflect"
	"runtime"
	"sort"
	"strings"
	"sync"
	"sync/atomic"
	"time"

	fcbor "github.com/fxamacker/cbor/v2"

	ouroboros "github.com/blinklabs-io/gouroboros"
	"github.com/blinklabs-io/gouroboros/cbor"
	"github.com/blinklabs-io/gouroboros/muxer"
	"github.com/blinklabs-io/gouroboros/protocol"
	"github.com/blinklabs-io/gouroboros/protocol/blockfetch"
	"github.com/blinklabs-io/gouroboros/protocol/chainsync"
	pcommon "github.com/blinklabs-io/gouroboros/protocol/common"
	"github.com/blinklabs-io/gouroboros/protocol/keepalive"
	"github.com/blinklabs-io/gouroboros/protocol/leiosfetch"
	"github.com/blinklabs-io/gouroboros/protocol/leiosnotify"
	"github.com/blinklabs-io/gouroboros/protocol/leiosvotes"
	"github.com/blinklabs-io/gouroboros/protocol/localmessagenotification"
	"github.com/blinklabs-io/gouroboros/protocol/localmessagesubmission"
	"github.com/blinklabs-io/gouroboros/protocol/localstatequery"
	"github.com/blinklabs-io/gouroboros/protocol/localtxmonitor"
	"github.com/blinklabs-io/gouroboros/protocol/localtxsubmission"
	"github.com/blinklabs-io/gouroboros/protocol/peersharing"
	"github.com/blinklabs-io/gouroboros/protocol/txsubmission"

	"verifharness/hs"
	"verifharness/netx"
	"verifharness/vh"
)

const (
	setupDeadline = 40 * time.Second // handshake + NewConnection; beyond this the endpoint is stuck, not slow
	// "Nothing (more) happens" is decided from the muxer's own events: once the
	// read loop has demonstrably read the probe segment (Recv event), the case
	// waits for a grace period without any further event / error, not for a fixed
	// deadline.  A mismatch seen that way in the first, fully concurrent pass is
	// never reported: the case is re-run in a small pool with a long grace.
	unreadFirst = 8 * time.Second         // first pass: the segment was not even read by then
	graceFirst  = 1500 * time.Millisecond // first pass: quiet time after the segment was read
	unreadFinal = 25 * time.Second
	graceFinal  = 8 * time.Second
	finalPool   = 4  // concurrency of the second pass
	coarseMax   = 12 // disagreements reported (and second-pass runs spent) per coarse class
)

// ---------------------------------------------------------------------------
// rows

type segRow struct {
	Id      int      `json:"id"`
	Resp    bool     `json:"resp"`
	Deliver string   `json:"deliver"`
	App     string   `json:"app"`
	Err     string   `json:"err"`
	Gate    bool     `json:"gate"`
	Why     []string `json:"why"`
}

type row struct {
	Server      bool     `json:"server"`
	Kind        string   `json:"kind"`
	Lfd         bool     `json:"lfd"`
	Pfd         bool     `json:"pfd"`
	Ver         int      `json:"ver"`
	Lps         bool     `json:"lps"`
	Pps         bool     `json:"pps"`
	Lka         *bool    `json:"lka,omitempty"` // local WithKeepAlive; rows recorded before the dimension existed ran with it on
	Stop        *stopRow `json:"stop,omitempty"` // the history: this role was stopped before the probe (id 0 / absent: none)
	Live        [][]any  `json:"live,omitempty"`
	Optional    [][]any  `json:"optional,omitempty"`
	Roles       []string `json:"roles"`
	Enabled     []int    `json:"enabled"`
	Constructed [][]any  `json:"constructed"`
	Registered  [][]any  `json:"registered"`
	Segs        []segRow `json:"segs"`
}

type stopRow struct {
	Id   int    `json:"id"`
	Role string `json:"role"` // "init" | "resp"
}

// stopped is the row's history (nil: a freshly set-up connection is probed).
func (r *row) stopped() *stopRow {
	if r.Stop == nil || r.Stop.Id == 0 {
		return nil
	}
	return r.Stop
}

func b01(b bool) int {
	if b {
		return 1
	}
	return 0
}

// cfgKey names the configuration and its history; baseKey the configuration alone.
func (r *row) cfgKey() string {
	k := r.baseKey()
	if st := r.stopped(); st != nil {
		k += fmt.Sprintf(":stop=%d/%s", st.Id, st.Role) // keys of rows without a history are the keys from before the dimension existed
	}
	return k
}

func (r *row) baseKey() string {
	side := "client"
	if r.Server {
		side = "server"
	}
	k := fmt.Sprintf("%s:%s:v=%d:lfd=%d:pfd=%d:lps=%d:pps=%d", r.Kind, side, r.Ver, b01(r.Lfd), b01(r.Pfd), b01(r.Lps), b01(r.Pps))
	if !r.keepAliveOpt() {
		k += ":lka=0" // the keys of the rows with the option on are the keys from before the dimension existed
	}
	return k
}

// keepAliveOpt is the row's local WithKeepAlive option.
func (r *row) keepAliveOpt() bool { return r.Lka == nil || *r.Lka }

func (s *segRow) key() string {
	d := "req"
	if s.Resp {
		d = "resp"
	}
	return fmt.Sprintf("seg=%d/%s", s.Id, d)
}

type job struct {
	Row     *row `json:"row"`
	Seg     int  `json:"seg"`     // index into Row.Segs
	Variant int  `json:"variant"` // seeds magic / fragmentation / peer-sharing wire value
}

type observed struct {
	Accessors  map[string]bool `json:"accessors_non_nil"`
	Registered []string        `json:"registered_with_muxer"`
	Delivered  bool            `json:"muxer_delivered"`
	Handled    bool            `json:"handler_ran"`
	App        bool            `json:"application_callback_ran"`
	Errors     []string        `json:"error_chan"`
	Closed     bool            `json:"error_chan_closed"`
	MuxErr     []string        `json:"muxer_err_events"`
	MuxExit    bool            `json:"muxer_read_loop_exited"`
	Read       bool            `json:"muxer_read_the_segment"`
	Quiet      bool            `json:"decided_by_quiet_period"`
	WriteErr   string          `json:"probe_write_error,omitempty"`
	Waited     string          `json:"waited"`
	Stopped    string          `json:"history_stop,omitempty"`
	LiveAfter  []string        `json:"registered_after_the_stop,omitempty"`
	PeerSaw    []string        `json:"segments_sent_by_connection,omitempty"`
}

type replay struct {
	Job      job       `json:"job"`
	Seed     int64     `json:"seed"`
	Magic    uint32    `json:"magic"`
	Version  uint16    `json:"wire_version"`
	Fragment bool      `json:"fragmented_reads"`
	Probe    string    `json:"probe_payload_hex"`
	Expected segRow    `json:"expected"`
	Observed *observed `json:"observed,omitempty"`
}

var (
	rep  *vh.Reporter
	seed int64
	// at most this many disagreements are reported per (configuration, set-up | direction);
	// the rest is counted (one defect shows on every protocol number of a configuration)
	limit = newLimiter(4)
	// and at most coarseMax per (kind, side, direction | set-up, kind of mismatch)
	coarse = newLimiter(coarseMax)

	statMu sync.Mutex
	stats  = map[string]int{}
)

type limiter struct {
	mu     sync.Mutex
	max    int
	counts map[string]int
}

func newLimiter(max int) *limiter { return &limiter{max: max, counts: map[string]int{}} }

func (l *limiter) take(class string) bool {
	l.mu.Lock()
	defer l.mu.Unlock()
	l.counts[class]++
	return l.counts[class] <= l.max
}

func (l *limiter) full(class string) bool {
	l.mu.Lock()
	defer l.mu.Unlock()
	return l.counts[class] >= l.max
}

func (l *limiter) total() int {
	l.mu.Lock()
	defer l.mu.Unlock()
	n := 0
	for _, c := range l.counts {
		n += c
	}
	return n
}

func stat(k string) {
	statMu.Lock()
	stats[k]++
	statMu.Unlock()
}

// ---------------------------------------------------------------------------
// event collection (verif hooks).  Muxer events are keyed by the muxer (claimed
// through Connection.Muxer() once NewConnection has returned); protocol events
// by the connection's logger, which every protocol instance hands back.

type muxEv struct {
	Ev       string
	Id       uint16
	Response bool
	Role     muxer.ProtocolRole
	Text     string
}

type muxLog struct {
	mu     sync.Mutex
	evs    []muxEv
	notify chan struct{}
}

type protoKey struct {
	id   uint16
	role protocol.ProtocolRole
}

type caseLog struct {
	mu      sync.Mutex
	handled map[protoKey]int
	app     atomic.Bool
	notify  chan struct{}
}

var (
	muxLogs  sync.Map // *muxer.Muxer -> *muxLog (never deleted: keeps the address from being reused)
	caseLogs sync.Map // *slog.Logger -> *caseLog
)

func poke(ch chan struct{}) {
	select {
	case ch <- struct{}{}:
	default:
	}
}

func installTracers() {
	muxer.VerifTracer = func(m *muxer.Muxer, e muxer.VerifEvent) {
		switch e.Ev {
		case "Reg", "Unreg", "Recv", "Route", "Deliver", "Drop", "Err", "Exit":
		default:
			return
		}
		v, ok := muxLogs.Load(m)
		if !ok {
			v, _ = muxLogs.LoadOrStore(m, &muxLog{notify: make(chan struct{}, 1)})
		}
		l := v.(*muxLog)
		l.mu.Lock()
		l.evs = append(l.evs, muxEv{Ev: e.Ev, Id: e.ProtoId, Response: e.Response, Role: e.Role, Text: e.Text})
		l.mu.Unlock()
		poke(l.notify)
	}
	protocol.VerifTracer = func(p *protocol.Protocol, e protocol.VerifEvent) {
		if e.Ev != "Handle" {
			return
		}
		v, ok := caseLogs.Load(p.Logger())
		if !ok {
			return
		}
		l := v.(*caseLog)
		l.mu.Lock()
		l.handled[protoKey{e.Id, e.Role}]++
		l.mu.Unlock()
		poke(l.notify)
	}
}

// ---------------------------------------------------------------------------
// bytes

func enc(m any) []byte {
	b, err := cbor.Encode(m)
	if err != nil {
		rep.Dead("cannot encode %T: %v", m, err)
	}
	return b
}

func fill(n int, b byte) []byte {
	out := make([]byte, n)
	for i := range out {
		out[i] = b
	}
	return out
}

// firstRequest is a well-formed first message of the protocol's initiator,
// permitted in the protocol's initial state.
func firstRequest(id int) []byte {
	pt := pcommon.NewPoint(42, fill(32, 0xab))
	switch id {
	case 2, 5:
		return enc(chainsync.NewMsgRequestNext())
	case 3:
		return enc(blockfetch.NewMsgRequestRange(pt, pt))
	case 4:
		return enc(txsubmission.NewMsgInit())
	case 6:
		return enc(localtxsubmission.NewMsgSubmitTx(6, []byte{0x84, 0xa0, 0xa0, 0xf5, 0xf6}))
	case 7:
		return enc(localstatequery.NewMsgAcquire(pt))
	case 8:
		return enc(keepalive.NewMsgKeepAlive(0x1234))
	case 9:
		return enc(localtxmonitor.NewMsgAcquire())
	case 10:
		return enc(peersharing.NewMsgShareRequest(3))
	case 14:
		return enc(localmessagesubmission.NewMsgSubmitMessage(pcommon.DmqMessage{
			MessageID:    fill(32, 1),
			Payload:      pcommon.DmqMessagePayload{MessageBody: []byte("c17"), KESPeriod: 1, ExpiresAt: 4000000000},
			KESSignature: fill(448, 2),
			OperationalCertificate: pcommon.OperationalCertificate{
				KESVerificationKey: fill(32, 3), IssueNumber: 1, KESPeriod: 1, ColdSignature: fill(64, 4),
			},
			ColdVerificationKey: fill(32, 5),
		}))
	case 15:
		return enc(localmessagenotification.NewMsgRequestMessages(false))
	case 18:
		return enc(leiosnotify.NewMsgNotificationRequestNext())
	case 19:
		return enc(leiosfetch.NewMsgBlockRequest(pt))
	case 20:
		return enc(leiosvotes.NewMsgVotesRequestNext(1))
	}
	return hs.Array(hs.Uint(0))
}

// someResponse is a message of the protocol's responder (the muxer routes it
// by the direction bit alone; the initiator has asked nothing).
func someResponse(id int) []byte {
	switch id {
	case 2, 5:
		return enc(chainsync.NewMsgAwaitReply())
	case 3:
		return enc(blockfetch.NewMsgNoBlocks())
	case 4:
		return enc(txsubmission.NewMsgRequestTxIds(false, 0, 1))
	case 6:
		return enc(localtxsubmission.NewMsgAcceptTx())
	case 7:
		return enc(localstatequery.NewMsgAcquired())
	case 8:
		return enc(keepalive.NewMsgKeepAliveResponse(0x1234))
	case 9:
		return enc(localtxmonitor.NewMsgAcquired(42))
	case 10:
		return enc(peersharing.NewMsgSharePeers(nil))
	case 14:
		return enc(localmessagesubmission.NewMsgAcceptMessage())
	}
	return hs.Array(hs.Uint(1))
}

func wireVersion(r *row) uint16 {
	switch r.Kind {
	case "ntc":
		return uint16(r.Ver) + protocol.ProtocolVersionNtCOffset
	case "dmq":
		return uint16(r.Ver) + protocol.ProtocolVersionDMQNtCOffset
	}
	return uint16(r.Ver)
}

// peerVersionData is what the raw peer advertises for the row (handshake CDDL).
func peerVersionData(r *row, magic uint32, pick uint64) []byte {
	switch r.Kind {
	case "ntn":
		initiatorOnly := !r.Pfd
		switch {
		case r.Ver >= 13:
			return hs.DataUBUB(magic, initiatorOnly, uint64(b01(r.Pps)), false)
		case r.Ver >= 11:
			ps := uint64(0)
			if r.Pps {
				ps = 1 + pick%2 // v11/12: 1 = private, 2 = public; both mean "takes part"
			}
			return hs.DataUBUB(magic, initiatorOnly, ps, false)
		}
		return hs.DataUB(magic, initiatorOnly)
	case "ntc":
		if r.Ver >= 15 {
			return hs.DataUB(magic, false)
		}
		return hs.DataU(magic)
	}
	return hs.DataUB(magic, false) // DMQ node-to-client: [magic, query]
}

var magics = []uint32{764824073, 1, 2, 42, 0xffffffff, 3141592}

// ---------------------------------------------------------------------------
// the raw peer

type rawPeer struct {
	conn net.Conn
	mu   sync.Mutex
	saw  []string
	done chan struct{}
}

func (p *rawPeer) drain() {
	defer close(p.done)
	for {
		id, fromResp, _, err := hs.ReadSegment(p.conn)
		if err != nil {
			return
		}
		p.mu.Lock()
		if len(p.saw) < 64 {
			d := "req"
			if fromResp {
				d = "resp"
			}
			p.saw = append(p.saw, fmt.Sprintf("%d/%s", id, d))
		}
		p.mu.Unlock()
	}
}

// handshake performs the raw side of the handshake; it returns a description of
// what went wrong ("" if the version was agreed).
func (p *rawPeer) handshake(r *row, version uint16, data []byte) string {
	_ = p.conn.SetDeadline(time.Now().Add(setupDeadline))
	defer p.conn.SetDeadline(time.Time{})
	if r.Server {
		// we are the initiator: propose exactly the row's version
		msg := hs.Array(hs.Uint(0), hs.Map(map[uint16][]byte{version: data}))
		if err := hs.WriteSegment(p.conn, 0, false, msg); err != nil {
			return "writing the proposal: " + err.Error()
		}
		// The accept is handed to the muxer without waiting for the write, and the
		// connection goes on to start its protocols: an initiator that speaks first
		// (keep-alive, tx-submission Init on a duplex connection) may overtake it on
		// the wire.  Segment order between protocols is not this property's subject.
		var payload []byte
		for n := 0; ; n++ {
			id, fromResp, pl, err := hs.ReadSegment(p.conn)
			if err != nil {
				return "reading the handshake reply: " + err.Error()
			}
			if id == 0 {
				if !fromResp {
					return "handshake reply without the responder flag"
				}
				payload = pl
				break
			}
			p.mu.Lock()
			p.saw = append(p.saw, fmt.Sprintf("%d/%s(before the handshake reply)", id, map[bool]string{true: "resp", false: "req"}[fromResp]))
			p.mu.Unlock()
			stat("segment_overtook_handshake_accept")
			if n > 32 {
				return "32 segments and no handshake reply"
			}
		}
		var m []fcbor.RawMessage
		if err := fcbor.Unmarshal(payload, &m); err != nil || len(m) < 2 {
			return fmt.Sprintf("handshake reply is not an array: %x", payload)
		}
		var tag, v uint64
		_ = fcbor.Unmarshal(m[0], &tag)
		_ = fcbor.Unmarshal(m[1], &v)
		if tag != 1 || v != uint64(version) {
			return fmt.Sprintf("the responder did not accept version %d: %x", version, payload)
		}
		return ""
	}
	// we are the responder: read the proposal, accept the row's version
	id, fromResp, payload, err := hs.ReadSegment(p.conn)
	if err != nil {
		return "reading the proposal: " + err.Error()
	}
	if id != 0 || fromResp {
		return fmt.Sprintf("first segment: protocol %d, responder flag %v", id, fromResp)
	}
	var m []fcbor.RawMessage
	if err := fcbor.Unmarshal(payload, &m); err != nil || len(m) != 2 {
		return fmt.Sprintf("proposal is not a 2-array: %x", payload)
	}
	var tab map[uint16]fcbor.RawMessage
	if err := fcbor.Unmarshal(m[1], &tab); err != nil {
		return "proposal table: " + err.Error()
	}
	if _, ok := tab[version]; !ok {
		return fmt.Sprintf("UNSUPPORTED: the initiator does not propose version %d", version)
	}
	if err := hs.WriteSegment(p.conn, 0, true, hs.MsgAccept(version, data)); err != nil {
		return "writing the accept: " + err.Error()
	}
	return ""
}

// ---------------------------------------------------------------------------
// one case

// roleHandle is the Client / Server object of protocol id on the connection
// (nil if the connection has none).
func roleHandle(c *ouroboros.Connection, id int, role string) any {
	pick := func(client, server any) any {
		v := client
		if role == "resp" {
			v = server
		}
		if rv := reflect.ValueOf(v); !rv.IsValid() || (rv.Kind() == reflect.Pointer && rv.IsNil()) {
			return nil
		}
		return v
	}
	switch id {
	case 2, 5:
		if p := c.ChainSync(); p != nil {
			return pick(p.Client, p.Server)
		}
	case 3:
		if p := c.BlockFetch(); p != nil {
			return pick(p.Client, p.Server)
		}
	case 4:
		if p := c.TxSubmission(); p != nil {
			return pick(p.Client, p.Server)
		}
	case 6:
		if p := c.LocalTxSubmission(); p != nil {
			return pick(p.Client, p.Server)
		}
	case 7:
		if p := c.LocalStateQuery(); p != nil {
			return pick(p.Client, p.Server)
		}
	case 8:
		if p := c.KeepAlive(); p != nil {
			return pick(p.Client, p.Server)
		}
	case 9:
		if p := c.LocalTxMonitor(); p != nil {
			return pick(p.Client, p.Server)
		}
	case 10:
		if p := c.PeerSharing(); p != nil {
			return pick(p.Client, p.Server)
		}
	case 14:
		if p := c.LocalMessageSubmission(); p != nil {
			return pick(p.Client, p.Server)
		}
	case 15:
		if p := c.LocalMessageNotification(); p != nil {
			return pick(p.Client, p.Server)
		}
	}
	return nil
}

// stopRole stops one role of one mini-protocol the way an application does:
// Client.Stop() / Server.Stop() (the protocol's own Stop where it has one, the
// embedded Protocol.Stop otherwise).  It returns "" once the muxer has
// unregistered exactly that pair (Unreg event), a description of why the
// history could not be established otherwise.
func stopRole(c *ouroboros.Connection, ml *muxLog, st *stopRow) string {
	h := roleHandle(c, st.Id, st.Role)
	if h == nil {
		return fmt.Sprintf("the connection has no %s object for protocol %d", map[string]string{"init": "Client", "resp": "Server"}[st.Role], st.Id)
	}
	done := make(chan string, 1)
	go func() {
		defer func() {
			if x := recover(); x != nil {
				done <- fmt.Sprintf("Stop panicked: %v", x)
			}
		}()
		switch v := h.(type) {
		case interface{ Stop() error }:
			_ = v.Stop() // (a Done message that could not be sent is not this property's subject)
		case interface{ Stop() }:
			v.Stop()
		default:
			done <- fmt.Sprintf("%T has no Stop method", h)
			return
		}
		done <- ""
	}()
	want := muxer.ProtocolRoleInitiator
	if st.Role == "resp" {
		want = muxer.ProtocolRoleResponder
	}
	unreg := func() bool {
		ml.mu.Lock()
		defer ml.mu.Unlock()
		for _, e := range ml.evs {
			if e.Ev == "Unreg" && int(e.Id) == st.Id && e.Role == want {
				return true
			}
		}
		return false
	}
	deadline := time.After(setupDeadline)
	viaProtocol := false
	for {
		select {
		case why := <-done:
			if why != "" {
				return why
			}
			if unreg() {
				return ""
			}
			if viaProtocol {
				// unregistering happens inside Protocol.Stop: nothing more will come
				return "Protocol.Stop returned without unregistering the role from the muxer"
			}
			// This role's own Stop only says Done to the peer (or the role was not
			// running in the eyes of its wrapper): the stop of the instance is the
			// embedded Protocol.Stop every role has.
			pv := reflect.ValueOf(h)
			if pv.Kind() == reflect.Pointer {
				pv = pv.Elem()
			}
			var pp *protocol.Protocol
			if pv.Kind() == reflect.Struct {
				if f := pv.FieldByName("Protocol"); f.IsValid() && f.CanInterface() {
					pp, _ = f.Interface().(*protocol.Protocol)
				}
			}
			if pp == nil {
				return "Stop returned without unregistering the role from the muxer, and the role has no embedded Protocol"
			}
			stat(fmt.Sprintf("history:stopped_through_the_embedded_Protocol.Stop:%d/%s", st.Id, st.Role))
			viaProtocol = true
			go func() {
				defer func() {
					if x := recover(); x != nil {
						done <- fmt.Sprintf("Protocol.Stop panicked: %v", x)
					}
				}()
				pp.Stop()
				done <- ""
			}()
		case <-deadline:
			if unreg() {
				return "" // the role is gone; that Stop is still waiting for something is another property's subject
			}
			return "Stop did not unregister the role within " + setupDeadline.String()
		}
	}
}

func accessors(c *ouroboros.Connection) map[int]bool {
	return map[int]bool{
		2:  c.ChainSync() != nil, // node-to-node chain-sync and node-to-client chain-sync share the accessor
		3:  c.BlockFetch() != nil,
		4:  c.TxSubmission() != nil,
		5:  c.ChainSync() != nil,
		6:  c.LocalTxSubmission() != nil,
		7:  c.LocalStateQuery() != nil,
		8:  c.KeepAlive() != nil,
		9:  c.LocalTxMonitor() != nil,
		10: c.PeerSharing() != nil,
		14: c.LocalMessageSubmission() != nil,
		15: c.LocalMessageNotification() != nil,
		18: c.LeiosNotify() != nil,
		19: c.LeiosFetch() != nil,
		20: c.LeiosVotes() != nil,
	}
}

var setupReported sync.Map // cfgKey+item -> struct{}: the per-configuration comparison is reported once

func roleName(r muxer.ProtocolRole) string {
	if r == muxer.ProtocolRoleInitiator {
		return "init"
	}
	return "resp"
}

// run executes one case; it returns a non-empty text if the case could not be
// decided (set-up did not finish, nothing observable within the patience).
func run(j *job, final bool) (undecided string, class string) {
	r := j.Row
	sg := &r.Segs[j.Seg]
	pick := hs.Mix(seed, r.cfgKey(), sg.key(), j.Variant)
	magic := magics[pick%uint64(len(magics))]
	fragment := (pick>>8)%2 == 1
	version := wireVersion(r)
	data := peerVersionData(r, magic, pick>>16)
	var payload []byte
	if sg.Resp {
		payload = someResponse(sg.Id)
	} else {
		payload = firstRequest(sg.Id)
	}
	key := r.cfgKey() + ":" + sg.key()
	slim := *r
	slim.Segs = []segRow{*sg}
	rp := &replay{Job: job{Row: &slim, Seg: 0, Variant: j.Variant}, Seed: seed, Magic: magic, Version: version, Fragment: fragment,
		Probe: fmt.Sprintf("%x", payload), Expected: *sg}
	unread, grace := unreadFirst, graceFirst
	if final {
		unread, grace = unreadFinal, graceFinal
	}

	rep.Guard(key, rp, func() {
		a, b := netx.Pipe(int64(pick>>20), fragment)
		defer a.Close()
		defer b.Close()
		peer := &rawPeer{conn: b, done: make(chan struct{})}
		logger := slog.New(slog.NewJSONHandler(io.Discard, nil))
		cl := &caseLog{handled: map[protoKey]int{}, notify: make(chan struct{}, 1)}
		caseLogs.Store(logger, cl)
		defer caseLogs.Delete(logger)

		psCfg := peersharing.NewConfig(peersharing.WithShareRequestFunc(
			func(peersharing.CallbackContext, int) ([]peersharing.PeerAddress, error) {
				cl.app.Store(true)
				poke(cl.notify)
				return nil, nil
			}))
		opts := []ouroboros.ConnectionOptionFunc{
			ouroboros.WithConnection(a),
			ouroboros.WithNetworkMagic(magic),
			ouroboros.WithServer(r.Server),
			ouroboros.WithFullDuplex(r.Lfd),
			ouroboros.WithPeerSharing(r.Lps),
			ouroboros.WithKeepAlive(r.keepAliveOpt()), // local only: whether the application runs the keep-alive initiator
			ouroboros.WithLogger(logger),
			ouroboros.WithPeerSharingConfig(psCfg),
		}
		switch r.Kind {
		case "ntn":
			opts = append(opts, ouroboros.WithNodeToNode(true))
		case "dmq":
			opts = append(opts, ouroboros.WithDMQ(true))
		}
		type res struct {
			c   *ouroboros.Connection
			err error
		}
		ch := make(chan res, 1)
		go func() {
			c, err := ouroboros.NewConnection(opts...)
			ch <- res{c, err}
		}()
		if why := peer.handshake(r, version, data); why != "" {
			_ = b.Close()
			select {
			case x := <-ch:
				if x.c != nil {
					closeConn(x.c)
				}
				if x.err != nil {
					why += "; NewConnection: " + x.err.Error()
				}
			case <-time.After(setupDeadline):
			}
			undecided = "handshake with the raw peer failed: " + why
			return
		}
		go peer.drain()
		var c *ouroboros.Connection
		select {
		case x := <-ch:
			if x.err != nil {
				undecided = "NewConnection failed after the raw peer agreed the version: " + x.err.Error()
				return
			}
			c = x.c
		case <-time.After(setupDeadline):
			undecided = "NewConnection did not return"
			return
		}
		defer closeConn(c)
		if v, _ := c.ProtocolVersion(); v != version {
			undecided = fmt.Sprintf("connection reports version %d, the raw peer agreed %d", v, version)
			return
		}
		v, ok := muxLogs.Load(c.Muxer())
		if !ok {
			undecided = "no muxer events for this connection (tracer not installed?)"
			return
		}
		ml := v.(*muxLog)

		// --- set-up observations (final once NewConnection has returned)
		ob := &observed{Accessors: map[string]bool{}}
		rp.Observed = ob
		acc := accessors(c)
		for id, nn := range acc {
			ob.Accessors[fmt.Sprint(id)] = nn
		}
		reg := map[string]bool{}
		ml.mu.Lock()
		nSetup := len(ml.evs)
		for _, e := range ml.evs {
			if e.Ev == "Reg" && e.Id != 0 {
				reg[fmt.Sprintf("%d/%s", e.Id, roleName(e.Role))] = true
			}
		}
		ml.mu.Unlock()
		for k := range reg {
			ob.Registered = append(ob.Registered, k)
		}
		sort.Strings(ob.Registered)
		compareSetup(r, rp, acc, reg)

		// --- the history: one running role is stopped before the peer's segment arrives
		if st := r.stopped(); st != nil {
			if !reg[fmt.Sprintf("%d/%s", st.Id, st.Role)] {
				// the set-up comparison of the configuration reports this; there is nothing to stop
				stat(fmt.Sprintf("history:not_run_role_not_registered:%d/%s", st.Id, st.Role))
				return
			}
			if why := stopRole(c, ml, st); why != "" {
				undecided = "history could not be established: " + why
				return
			}
			ob.Stopped = fmt.Sprintf("%d/%s", st.Id, st.Role)
			live := map[string]bool{}
			ml.mu.Lock()
			nSetup = len(ml.evs)
			for _, e := range ml.evs {
				if e.Id == 0 {
					continue
				}
				switch e.Ev {
				case "Reg":
					live[fmt.Sprintf("%d/%s", e.Id, roleName(e.Role))] = true
				case "Unreg":
					delete(live, fmt.Sprintf("%d/%s", e.Id, roleName(e.Role)))
				}
			}
			ml.mu.Unlock()
			for k := range live {
				ob.LiveAfter = append(ob.LiveAfter, k)
			}
			sort.Strings(ob.LiveAfter)
			stat("history:stopped:" + ob.Stopped)
		}

		// --- the probe
		role := muxer.ProtocolRoleResponder
		prole := protocol.ProtocolRoleServer
		if sg.Resp {
			role = muxer.ProtocolRoleInitiator
			prole = protocol.ProtocolRoleClient
		}
		_ = b.SetWriteDeadline(time.Now().Add(setupDeadline))
		if err := hs.WriteSegment(b, uint16(sg.Id), sg.Resp, payload); err != nil {
			ob.WriteErr = err.Error()
		}
		snapshot := func() {
			ml.mu.Lock()
			ob.MuxErr = ob.MuxErr[:0]
			for _, e := range ml.evs[nSetup:] {
				if e.Ev == "Recv" && int(e.Id) == sg.Id && e.Response == sg.Resp {
					ob.Read = true
				}
				if e.Ev == "Deliver" && int(e.Id) == sg.Id && e.Role == role {
					ob.Delivered = true
				}
				if e.Ev == "Err" {
					ob.MuxErr = append(ob.MuxErr, e.Text)
				}
				if e.Ev == "Exit" {
					ob.MuxExit = true
				}
			}
			ml.mu.Unlock()
			cl.mu.Lock()
			ob.Handled = cl.handled[protoKey{uint16(sg.Id), prole}] > 0
			cl.mu.Unlock()
			ob.App = cl.app.Load()
		}
		settled := func() bool {
			if ob.Closed {
				// the Deliver event is emitted after the hand-over: it is final only
				// once the muxer's read loop has exited (same goroutine)
				return ob.MuxExit
			}
			if !ob.Delivered {
				return false
			}
			if sg.Resp {
				return true
			}
			if sg.Id == 10 {
				// the guard sits between the engine's handler and the callback
				return ob.App || len(ob.Errors) > 0
			}
			return ob.Handled
		}
		start := time.Now()
		lastProgress := start
		errCh := c.ErrorChan()
		fp := func() string {
			return fmt.Sprint(ob.Read, ob.Delivered, ob.Handled, ob.App, ob.Closed, ob.MuxExit, len(ob.Errors), len(ob.MuxErr))
		}
		for {
			before := fp()
			snapshot()
			if fp() != before {
				lastProgress = time.Now()
			}
			if settled() {
				ob.Waited = "settled after " + time.Since(start).Round(time.Millisecond).String()
				break
			}
			now := time.Now()
			var wait time.Duration
			if ob.Read || ob.Delivered || len(ob.Errors) > 0 || ob.Closed {
				wait = lastProgress.Add(grace).Sub(now)
				if wait <= 0 {
					ob.Quiet = true
					ob.Waited = fmt.Sprintf("the muxer read the segment; nothing more for %s (%s after the write)", grace, now.Sub(start).Round(time.Millisecond))
					break
				}
			} else {
				wait = start.Add(unread).Sub(now)
				if wait <= 0 {
					ob.Quiet = true
					ob.Waited = "the muxer has not read the segment after " + unread.String()
					break
				}
			}
			t := time.NewTimer(wait)
			select {
			case err, ok := <-errCh:
				if !ok {
					ob.Closed = true
					errCh = nil
				} else if err != nil {
					ob.Errors = append(ob.Errors, err.Error())
				}
			case <-ml.notify:
			case <-cl.notify:
			case <-t.C:
			}
			t.Stop()
		}
		// an error that is already on its way is still counted
		if !ob.Closed && len(ob.Errors) == 0 {
			select {
			case err, ok := <-errCh:
				if ok && err != nil {
					ob.Errors = append(ob.Errors, err.Error())
				}
			default:
			}
		}
		peer.mu.Lock()
		ob.PeerSaw = append([]string(nil), peer.saw...)
		peer.mu.Unlock()

		undecided, class = compareProbe(r, sg, key, rp, ob, final)
	})
	return undecided, class
}

func closeConn(c *ouroboros.Connection) {
	done := make(chan struct{})
	go func() { _ = c.Close(); close(done) }()
	select {
	case <-done:
	case <-time.After(30 * time.Second):
	}
}

func tri(want string, got bool) bool {
	switch want {
	case "yes":
		return got
	case "no":
		return !got
	}
	return true
}

func yn(b bool) string {
	if b {
		return "yes"
	}
	return "no"
}

func compareSetup(r *row, rp *replay, acc map[int]bool, reg map[string]bool) {
	once := func(item string) bool {
		_, loaded := setupReported.LoadOrStore(r.baseKey()+"|"+item, struct{}{})
		return !loaded
	}
	for _, it := range r.Constructed {
		id := int(it[0].(float64))
		want := it[1].(string)
		got, known := acc[id]
		if !known {
			continue
		}
		if (id == 2 && r.Kind != "ntn") || (id == 5 && r.Kind != "ntc") {
			continue // one ChainSync() accessor serves both chain-sync numbers
		}
		if !tri(want, got) && once(fmt.Sprintf("acc%d", id)) && limit.take(r.baseKey()+":setup") && coarse.take(sideKey(r)+":setup:accessor") {
			rep.Disagree(fmt.Sprintf("setup:%s:accessor=%d", r.baseKey(), id),
				fmt.Sprintf("protocol %d: the specification says constructed=%s (enabled by the negotiation: %v), the connection's accessor is non-nil=%v",
					id, want, r.Enabled, got), rp)
		}
		if want == "any" {
			stat(fmt.Sprintf("open:constructed:%s:id=%d:%s", r.Kind, id, yn(got)))
		}
	}
	for _, it := range r.Registered {
		id := int(it[0].(float64))
		role := it[1].(string)
		want := it[2].(string)
		got := reg[fmt.Sprintf("%d/%s", id, role)]
		if !tri(want, got) && once(fmt.Sprintf("reg%d%s", id, role)) && limit.take(r.baseKey()+":setup") && coarse.take(sideKey(r)+":setup:registered/"+role+"="+yn(got)) {
			rep.Disagree(fmt.Sprintf("setup:%s:registered=%d/%s", r.baseKey(), id, role),
				fmt.Sprintf("protocol %d role %s: the specification says started=%s (negotiated roles %v, enabled protocols %v), registered with the muxer=%v",
					id, role, want, r.Roles, r.Enabled, got), rp)
		}
		if want == "any" {
			stat(fmt.Sprintf("open:registered:%s:id=%d/%s:%s", r.Kind, id, role, yn(got)))
		}
	}
	// nothing may be registered that the table does not know
	known := map[string]bool{}
	for _, it := range r.Registered {
		known[fmt.Sprintf("%d/%s", int(it[0].(float64)), it[1].(string))] = true
	}
	for k := range reg {
		if !known[k] && once("extra"+k) {
			rep.Disagree(fmt.Sprintf("setup:%s:registered=%s", r.baseKey(), k),
				"a protocol number outside the specification's table was registered with the muxer: "+k, rp)
		}
	}
}

// RoleForSeg is the local role a segment is addressed to.
func RoleForSeg(sg *segRow) string {
	if sg.Resp {
		return "init"
	}
	return "resp"
}

func sideKey(r *row) string {
	if r.Server {
		return r.Kind + ":server"
	}
	return r.Kind + ":client"
}

func compareProbe(r *row, sg *segRow, key string, rp *replay, ob *observed, final bool) (string, string) {
	gotErr := len(ob.Errors) > 0
	var bad, sig []string
	if !tri(sg.Deliver, ob.Delivered) {
		sig = append(sig, "deliver")
		bad = append(bad, fmt.Sprintf("delivered by the muxer: expected %s, observed %v", sg.Deliver, ob.Delivered))
	}
	if !sg.Resp {
		app := ob.Handled
		if sg.Id == 10 {
			app = ob.App
		}
		if !tri(sg.App, app) {
			sig = append(sig, "app")
			bad = append(bad, fmt.Sprintf("request reached the responder's handler/callback: expected %s, observed %v", sg.App, app))
		}
	}
	if sg.Gate && !gotErr {
		sig = append(sig, "noerror")
		bad = append(bad, "the connection must close with an error (direction gate), ErrorChan reported none")
	}
	if sg.Gate && gotErr && !ob.Closed {
		sig = append(sig, "notclosed")
		bad = append(bad, "an error was reported but ErrorChan was not closed")
	}
	class := sideKey(r) + map[bool]string{true: ":resp:", false: ":req:"}[sg.Resp] + strings.Join(sig, "+")
	if r.stopped() != nil {
		class += ":after-stop" // histories have their own budget of reported disagreements
	}
	if len(bad) > 0 && ob.Quiet && !final {
		return "not settled: " + strings.Join(bad, "; "), class
	}
	rep.Case(key, true)
	rep.Sample(map[string]any{"case": key, "expected": map[string]any{"deliver": sg.Deliver, "app": sg.App, "err": sg.Err, "why": sg.Why},
		"observed": map[string]any{"delivered": ob.Delivered, "handled": ob.Handled, "app": ob.App, "errors": ob.Errors, "closed": ob.Closed, "stopped_before": ob.Stopped}})
	if len(bad) > 0 {
		// both counters always count; a disagreement is reported while neither is exhausted
		a := limit.take(r.cfgKey() + map[bool]string{true: ":resp", false: ":req"}[sg.Resp])
		b := coarse.take(class)
		if a && b {
			hist := ""
			if st := r.stopped(); st != nil {
				hist = fmt.Sprintf("after %d/%s was stopped (still obliged to run: %v, registered by the muxer's events: %v): ", st.Id, st.Role, r.Live, ob.LiveAfter)
			}
			rep.Disagree(key, fmt.Sprintf("%snegotiated roles %v, enabled %v, specification: %v; %s; muxer errors %v, ErrorChan %v; %s",
				hist, r.Roles, r.Enabled, sg.Why, strings.Join(bad, "; "), ob.MuxErr, ob.Errors, ob.Waited), rp)
		}
		return "", class
	}
	// observations the property does not decide
	if sg.Err == "yes" && !sg.Gate && !gotErr {
		stat("soft:no_error_although_model_says_" + strings.Join(sg.Why, "+"))
	}
	if sg.Gate {
		reason := "other"
		for _, t := range ob.MuxErr {
			switch {
			case strings.Contains(t, "not configured as"):
				reason = "direction check"
			case strings.Contains(t, "unknown protocol") && reason == "other":
				reason = "no receiver registered"
			}
		}
		stat("gate_case_rejected_by:" + reason)
	}
	if sg.Deliver == "any" {
		stat(fmt.Sprintf("open:deliver:%s:id=%d/%s:%s", r.Kind, sg.Id, map[bool]string{true: "resp", false: "req"}[sg.Resp], yn(ob.Delivered)))
	}
	o := "routed"
	if len(sg.Why) > 0 {
		o = strings.Join(sg.Why, "+")
	}
	if r.stopped() != nil {
		o = "after-stop:" + o
		if sg.Id == r.Stop.Id {
			if RoleForSeg(sg) == r.Stop.Role {
				stat(fmt.Sprintf("open:segment_for_the_stopped_role:delivered=%s:error=%s", yn(ob.Delivered), yn(gotErr)))
			} else {
				stat("history:probed_the_surviving_role_of_the_stopped_protocol")
			}
		}
	}
	stat("spec_outcome:" + o)
	return "", class
}

// ---------------------------------------------------------------------------

func checkVersionCoverage(rows []row) {
	have := map[string]map[uint16]bool{"ntn": {}, "ntc": {}, "dmq": {}}
	for i := range rows {
		have[rows[i].Kind][wireVersion(&rows[i])] = true
	}
	lib := map[string][]uint16{
		"ntn": protocol.GetProtocolVersionsNtN(),
		"ntc": protocol.GetProtocolVersionsNtC(),
		"dmq": protocol.GetProtocolVersionsDMQNtC(),
	}
	missing := []string{}
	for kind, vs := range lib {
		for _, v := range vs {
			if !have[kind][v] {
				missing = append(missing, fmt.Sprintf("%s/%d", kind, v))
			}
		}
	}
	sort.Strings(missing)
	if len(missing) > 0 {
		// versions the library supports but the model does not enumerate: nothing is claimed about them
		rep.Extra["library_versions_not_in_the_model"] = missing
	}
}

func main() {
	rep = vh.NewReporter()
	seed = vh.Seed()
	installTracers()
	args := os.Args[1:]
	var jobs []*job
	if len(args) == 2 && args[0] == "-replay" {
		b, err := os.ReadFile(args[1])
		if err != nil {
			rep.Dead("%v", err)
		}
		var rp replay
		if err := json.Unmarshal(b, &rp); err != nil {
			rep.Dead("replay file: %v", err)
		}
		seed = rp.Seed
		j := rp.Job
		jobs = append(jobs, &j)
	} else {
		if len(args) < 1 {
			rep.Dead("usage: c17 cases.ndjson [more.ndjson ...] | c17 -replay file")
		}
		// the slices of the configuration space come from separate TLC runs
		var rows []row
		seen := map[string]bool{}
		for _, a := range args {
			rs, err := vh.ReadNDJSON[row](a)
			if err != nil {
				rep.Dead("%v", err)
			}
			if len(rs) == 0 {
				rep.Dead("%s holds no rows", a)
			}
			for i := range rs {
				if k := rs[i].cfgKey(); seen[k] {
					rep.Dead("configuration %s is emitted twice (overlapping slices)", k)
				} else {
					seen[k] = true
				}
			}
			rows = append(rows, rs...)
		}
		checkVersionCoverage(rows)
		variants := 1
		if vh.Tier() == "thorough" {
			variants = 3
		}
		for i := range rows {
			for s := range rows[i].Segs {
				nv := variants
				if rows[i].stopped() != nil && rows[i].Kind != "ntn" {
					nv = 1 // histories on the unidirectional kinds: one variant (the other role never existed)
				}
				for v := 0; v < nv; v++ {
					jobs = append(jobs, &job{Row: &rows[i], Seg: s, Variant: v})
				}
			}
		}
		rep.Extra["configurations"] = len(rows)
		nOff := 0
		for i := range rows {
			if !rows[i].keepAliveOpt() {
				nOff++
			}
		}
		rep.Extra["configurations_with_keep_alive_option_off"] = nOff
		nStop := 0
		for i := range rows {
			if rows[i].stopped() != nil {
				nStop++
			}
		}
		rep.Extra["configurations_with_a_stopped_role_history"] = nStop
		rep.Extra["variants_per_case"] = variants
	}
	workers := 2 * runtime.GOMAXPROCS(0)
	if workers > 32 {
		workers = 32
	}
	var wg sync.WaitGroup
	ch := make(chan *job, 1024)
	var mu sync.Mutex
	var retry []*job
	why := map[*job]string{}
	classOf := map[*job]string{}
	for w := 0; w < workers; w++ {
		wg.Add(1)
		go func() {
			defer wg.Done()
			for j := range ch {
				if t, cls := run(j, false); t != "" {
					mu.Lock()
					retry = append(retry, j)
					why[j] = t
					classOf[j] = cls
					mu.Unlock()
				}
			}
		}()
	}
	for _, j := range jobs {
		ch <- j
	}
	close(ch)
	wg.Wait()
	// Cases whose first run ended in a quiet period with a mismatch (or whose set-up
	// did not finish) are re-run in a small pool with a long grace period; only that
	// run can report them.  Once a coarse class has its coarseMax disagreements the
	// remaining cases of the class are counted, not re-run.
	sort.Slice(retry, func(a, b int) bool {
		ka := retry[a].Row.cfgKey() + retry[a].Row.Segs[retry[a].Seg].key()
		kb := retry[b].Row.cfgKey() + retry[b].Row.Segs[retry[b].Seg].key()
		return ka < kb
	})
	unsupported := map[string]bool{}
	skipped := map[string]int{}
	rch := make(chan *job)
	var rwg sync.WaitGroup
	for w := 0; w < finalPool; w++ {
		rwg.Add(1)
		go func() {
			defer rwg.Done()
			for j := range rch {
				if t, _ := run(j, true); t != "" {
					rep.Dead("%s:%s twice undecided: %s (first: %s)", j.Row.cfgKey(), j.Row.Segs[j.Seg].key(), t, why[j])
				}
			}
		}()
	}
	reran := 0
	for _, j := range retry {
		if strings.Contains(why[j], "UNSUPPORTED") {
			unsupported[fmt.Sprintf("%s/%d", j.Row.Kind, j.Row.Ver)] = true
			continue
		}
		if cls := classOf[j]; cls != "" && coarse.full(cls) {
			skipped[cls]++
			continue
		}
		reran++
		rch <- j
	}
	close(rch)
	rwg.Wait()
	if len(skipped) > 0 {
		rep.Extra["first_pass_mismatches_not_rerun_class_already_reported"] = skipped
	}
	if len(unsupported) > 0 {
		ks := []string{}
		for k := range unsupported {
			ks = append(ks, k)
		}
		sort.Strings(ks)
		rep.Dead("the model enumerates versions the library does not propose: %v", ks)
	}
	rep.Extra["first_pass_undecided"] = len(retry)
	rep.Extra["rerun_in_small_pool"] = reran
	if n := limit.total(); n > 0 {
		rep.Extra["disagreements_found"] = n
		rep.Extra["disagreements_reported_at_most"] = fmt.Sprintf("%d per configuration and direction, %d per coarse class", limit.max, coarse.max)
	}
	rep.Extra["observations"] = stats
	rep.Finish()
}
