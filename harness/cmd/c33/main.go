// c33: replays every TLC-generated case of spec/ledger/Withdrawals.tla on the
// real Conway withdrawal gate.
//
// For each case a real, signed Conway or Dijkstra transaction is built as CBOR
// (one spending input, one output, the case's withdrawals from registered
// key-hash reward accounts, vkey witnesses of the payment key and of every
// stake key), decoded with the era's decoder and checked at three places:
//
//	func    conway.UtxoValidateWithdrawals(tx, slot, ledgerState, params)
//	list    every entry of conway.UtxoValidationRules / dijkstra.UtxoValidationRules,
//	        run one by one; only the two gate error types are looked at
//	verify  common.VerifyTransaction over the whole rule list; the transaction is
//	        built so that a delegated PV10 baseline passes every rule, hence the
//	        result of VerifyTransaction is the verdict of the gate
//
// The expected verdict is the `verdict` field of the TLC row.
package main

import (
	"crypto/ed25519"
	"encoding/binary"
	"errors"
	"fmt"
	"math"
	"math/rand"
	"os"
	"sort"
	"strings"

	"github.com/blinklabs-io/gouroboros/ledger/babbage"
	"github.com/blinklabs-io/gouroboros/ledger/common"
	"github.com/blinklabs-io/gouroboros/ledger/conway"
	"github.com/blinklabs-io/gouroboros/ledger/dijkstra"
	"github.com/blinklabs-io/gouroboros/ledger/shelley"
	mockledger "github.com/blinklabs-io/ouroboros-mock/ledger"
	"golang.org/x/crypto/blake2b"

	"verifharness/vh"
)

// ---------------------------------------------------------------- rows

type wd struct {
	Amt   int  `json:"amt"`
	Deleg bool `json:"deleg"`
}

type row struct {
	PV      uint   `json:"pv"`
	Valid   bool   `json:"valid"`
	Cap     string `json:"cap"`
	Params  string `json:"params"`
	Wds     []wd   `json:"wds"`
	Verdict string `json:"verdict"`
}

func (r *row) wdsKey() string {
	if len(r.Wds) == 0 {
		return "none"
	}
	p := make([]string, len(r.Wds))
	for i, w := range r.Wds {
		p[i] = fmt.Sprintf("%d%s", w.Amt, map[bool]string{true: "d", false: "u"}[w.Deleg])
	}
	return strings.Join(p, "+")
}

func (r *row) key() string {
	v := 0
	if r.Valid {
		v = 1
	}
	return fmt.Sprintf("pv=%d:valid=%d:cap=%s:params=%s:wds=%s", r.PV, v, r.Cap, r.Params, r.wdsKey())
}

// ---------------------------------------------------------------- tiny CBOR writer

type enc struct{ b []byte }

func (e *enc) head(major byte, n uint64) {
	switch {
	case n < 24:
		e.b = append(e.b, major<<5|byte(n))
	case n <= 0xff:
		e.b = append(e.b, major<<5|24, byte(n))
	case n <= 0xffff:
		e.b = append(e.b, major<<5|25)
		e.b = binary.BigEndian.AppendUint16(e.b, uint16(n))
	case n <= 0xffffffff:
		e.b = append(e.b, major<<5|26)
		e.b = binary.BigEndian.AppendUint32(e.b, uint32(n))
	default:
		e.b = append(e.b, major<<5|27)
		e.b = binary.BigEndian.AppendUint64(e.b, n)
	}
}
func (e *enc) uint(n uint64)  { e.head(0, n) }
func (e *enc) bytes(b []byte) { e.head(2, uint64(len(b))); e.b = append(e.b, b...) }
func (e *enc) array(n int)    { e.head(4, uint64(n)) }
func (e *enc) mapn(n int)     { e.head(5, uint64(n)) }
func (e *enc) tag(n uint64)   { e.head(6, n) }
func (e *enc) raw(b []byte)   { e.b = append(e.b, b...) }

// ---------------------------------------------------------------- keys and addresses

type keypair struct {
	priv ed25519.PrivateKey
	pub  ed25519.PublicKey
	hash [28]byte
}

func newKey(rng *rand.Rand) *keypair {
	seed := make([]byte, ed25519.SeedSize)
	rng.Read(seed)
	priv := ed25519.NewKeyFromSeed(seed)
	k := &keypair{priv: priv, pub: priv.Public().(ed25519.PublicKey)}
	h, _ := blake2b.New(28, nil)
	h.Write(k.pub)
	copy(k.hash[:], h.Sum(nil))
	return k
}

const network = 0 // the mock ledger state's default network id (testnet)

func payAddr(k *keypair) []byte    { return append([]byte{0x60 | network}, k.hash[:]...) } // enterprise, key hash
func rewardAddr(k *keypair) []byte { return append([]byte{0xE0 | network}, k.hash[:]...) } // reward account, key hash

// ---------------------------------------------------------------- the transaction

var spendTxId = func() []byte {
	b := make([]byte, 32)
	for i := range b {
		b[i] = 0x5E
	}
	return b
}()

const inputAda = uint64(10_000_000)
const fee = uint64(1_000_000)

// buildTx encodes body, signs its hash with the payment key and all stake
// keys, and returns the transaction CBOR. ok=false if the amounts do not fit
// the value-conservation equation in 64 bits (then only func/list are observed).
func buildTx(params string, pay *keypair, stakes []*keypair, amounts []uint64, order []int, setTags bool, fourElems bool, isValid bool) ([]byte, bool) {
	sum := uint64(0)
	fits := true
	for _, a := range amounts {
		if sum+a < sum {
			fits = false
		}
		sum += a
	}
	outAda := inputAda - fee + sum
	if outAda < sum {
		fits = false
	}
	b := &enc{}
	n := 3
	if len(amounts) > 0 {
		n++
	}
	b.mapn(n)
	b.uint(0)
	if setTags {
		b.tag(258)
	}
	b.array(1)
	b.array(2)
	b.bytes(spendTxId)
	b.uint(0)
	b.uint(1)
	b.array(1)
	b.mapn(2)
	b.uint(0)
	b.bytes(payAddr(pay))
	b.uint(1)
	b.uint(outAda)
	b.uint(2)
	b.uint(fee)
	if len(amounts) > 0 {
		b.uint(5)
		b.mapn(len(amounts))
		for _, i := range order {
			b.bytes(rewardAddr(stakes[i]))
			b.uint(amounts[i])
		}
	}
	h := blake2b.Sum256(b.b)
	w := &enc{}
	w.mapn(1)
	w.uint(0)
	if setTags {
		w.tag(258)
	}
	signers := append([]*keypair{pay}, stakes[:len(amounts)]...)
	w.array(len(signers))
	for _, k := range signers {
		w.array(2)
		w.bytes(k.pub)
		w.bytes(ed25519.Sign(k.priv, h[:]))
	}
	t := &enc{}
	if fourElems {
		t.array(4)
	} else {
		t.array(3)
	}
	t.raw(b.b)
	t.raw(w.b)
	if fourElems {
		if isValid {
			t.b = append(t.b, 0xf5)
		} else {
			t.b = append(t.b, 0xf4)
		}
	}
	t.b = append(t.b, 0xf6)
	return t.b, fits
}

// incapable hides every optional capability of the wrapped ledger state (in
// particular common.DRepDelegationState), as the repository's own test does.
type incapable struct{ common.LedgerState }

type outcome string

func classify(err error) outcome {
	if err == nil {
		return "ok"
	}
	var e1 conway.WithdrawalNotDelegatedToDRepError
	var e2 conway.DRepDelegationStateUnavailableError
	switch {
	case errors.As(err, &e1):
		return "NotDelegated"
	case errors.As(err, &e2):
		return "StateUnavailable"
	}
	return outcome("other: " + err.Error())
}

func allowed(verdict string, got outcome) bool {
	switch verdict {
	case "ok", "NotDelegated", "StateUnavailable":
		return string(got) == verdict
	case "free-NotDelegated":
		return got == "ok" || got == "NotDelegated"
	case "free-StateUnavailable":
		return got == "ok" || got == "StateUnavailable"
	}
	return false
}

type bundle struct {
	name   string
	rules  []common.UtxoValidationRuleFunc
	decode func([]byte) (common.Transaction, error)
}

func pparams(kind string, pv uint) common.ProtocolParameters {
	cp := mockledger.NewMockConwayProtocolParams()
	cp.ProtocolVersion = common.ProtocolParametersProtocolVersion{Major: pv}
	cp.MinFeeA = 44
	cp.MinFeeB = 155381
	if kind == "dijkstra" {
		return &dijkstra.DijkstraProtocolParameters{ConwayProtocolParameters: cp, MaxRefScriptSizePerTx: 200 * 1024, MaxRefScriptSizePerBlock: 1024 * 1024}
	}
	return &cp
}

func main() {
	rep := vh.NewReporter()
	if len(os.Args) < 2 {
		rep.Dead("usage: c33 cases.ndjson")
	}
	rows, err := vh.ReadNDJSON[row](os.Args[1])
	if err != nil || len(rows) == 0 {
		rep.Dead("cases: %v (%d rows)", err, len(rows))
	}
	sort.SliceStable(rows, func(i, j int) bool { return rows[i].key() < rows[j].key() })
	rng := rand.New(rand.NewSource(vh.Seed()))
	pay := newKey(rng)
	stakes := []*keypair{}
	for i := 0; i < 8; i++ {
		stakes = append(stakes, newKey(rng))
	}
	bundles := map[string]*bundle{
		"conway": {"conway", conway.UtxoValidationRules, func(b []byte) (common.Transaction, error) {
			return conway.NewConwayTransactionFromCbor(b)
		}},
		"dijkstra": {"dijkstra", dijkstra.UtxoValidationRules, func(b []byte) (common.Transaction, error) {
			return dijkstra.NewDijkstraTransactionFromCbor(b)
		}},
	}
	spendOut, err := babbage.NewBabbageTransactionOutputFromCbor(func() []byte {
		e := &enc{}
		e.mapn(2)
		e.uint(0)
		e.bytes(payAddr(pay))
		e.uint(1)
		e.uint(inputAda)
		return e.b
	}())
	if err != nil {
		rep.Dead("spend output: %v", err)
	}
	utxos := []common.Utxo{{Id: shelley.NewShelleyTransactionInput(fmt.Sprintf("%x", spendTxId), 0), Output: spendOut}}

	nonZero := []uint64{1, 1_000_000, 1 << 61}
	bigPV := []uint{20, 1 << 31, math.MaxUint32}
	verified, verifySkipped := 0, 0
	freeSeen := map[string]int{}
	reported := map[string]bool{}
	sampleSeen := map[string]int{}
	outside := map[string]int{} // behaviour outside the property's statement, evidence only
	disagree := func(key, desc string, replay map[string]any) {
		if reported[key] {
			return
		}
		reported[key] = true
		var rp any
		if len(reported) <= 6 {
			rp = replay
		}
		rep.Disagree(key, desc, rp)
	}

	// run one concrete instance of row r; maxAmounts replaces every non-zero
	// amount by 2^64-1 (the gate only asks "zero or not")
	runOne := func(r *row, pv uint, maxAmounts bool, crossParams bool, tag string) map[string]string {
		seen := map[string]string{}
		bd := bundles[r.Params]
		n := len(r.Wds)
		amounts := make([]uint64, n)
		for i, w := range r.Wds {
			if w.Amt > 0 {
				if maxAmounts {
					amounts[i] = math.MaxUint64
				} else {
					amounts[i] = nonZero[rng.Intn(len(nonZero))]
				}
			}
		}
		order := rng.Perm(n)
		// which stake key plays which withdrawal: shuffled, so map/sort order
		// of the addresses is unrelated to the kind of withdrawal
		keyOf := rng.Perm(len(stakes))[:n]
		ks := make([]*keypair, n)
		for i := range ks {
			ks[i] = stakes[keyOf[i]]
		}
		four := r.Params == "conway" || rng.Intn(2) == 0
		encValid := r.Valid || r.Params == "dijkstra" // Dijkstra cannot encode is_valid=false
		raw, fits := buildTx(r.Params, pay, ks, amounts, order, rng.Intn(2) == 0, four, encValid)
		key := r.key() + tag
		replay := map[string]any{"row": *r, "pv_used": pv, "amounts": amounts, "tx_cbor": fmt.Sprintf("%x", raw), "variant": tag}
		tx, err := bd.decode(raw)
		if err != nil {
			rep.Dead("%s: cannot decode built transaction: %v (%x)", key, err, raw)
		}
		if dt, ok := tx.(*dijkstra.DijkstraTransaction); ok && !r.Valid {
			// a phase-2-invalid Dijkstra transaction is marked by its block
			// (invalid_transactions), not by its own encoding
			dt.TxIsValid = false
		}
		if tx.IsValid() != r.Valid {
			rep.Dead("%s: decoded isValid=%v, case says %v", key, tx.IsValid(), r.Valid)
		}
		if got := len(tx.Withdrawals()); got != n {
			rep.Dead("%s: decoded %d withdrawals, built %d", key, got, n)
		}
		for a, amt := range tx.Withdrawals() {
			cred, ok := a.StakeCredential()
			if !ok || cred.CredType != common.CredentialTypeAddrKeyHash {
				rep.Dead("%s: withdrawal account is not a key-hash reward account", key)
			}
			found := false
			for i, k := range ks {
				if cred.Credential == common.Blake2b224(k.hash) {
					found = amt != nil && amt.IsUint64() && amt.Uint64() == amounts[i]
				}
			}
			if !found {
				rep.Dead("%s: decoded withdrawal does not match the built one", key)
			}
		}
		// ledger state: all accounts registered; delegation per case
		lb := mockledger.NewLedgerStateBuilder().WithUtxos(utxos)
		deleg := map[common.Blake2b224]bool{}
		for i, k := range ks {
			lb = lb.WithRewardAccountBalance(common.Blake2b224(k.hash), amounts[i])
			deleg[common.Blake2b224(k.hash)] = r.Wds[i].Deleg
		}
		queried := 0
		drepKinds := []int{common.DrepTypeAddrKeyHash, common.DrepTypeAbstain, common.DrepTypeNoConfidence}
		dk := drepKinds[rng.Intn(len(drepKinds))]
		lb = lb.WithDRepDelegation(func(c common.Credential) (*common.Drep, error) {
			queried++
			if deleg[c.Credential] {
				return &common.Drep{Type: dk}, nil
			}
			return nil, nil
		})
		var ls common.LedgerState = lb.Build()
		if r.Cap == "incapable" {
			ls = incapable{ls}
			if _, ok := ls.(common.DRepDelegationState); ok {
				rep.Dead("incapable wrapper still answers delegation queries")
			}
		} else if _, ok := ls.(common.DRepDelegationState); !ok {
			rep.Dead("mock ledger state does not implement DRepDelegationState")
		}
		ppKind := r.Params
		if crossParams {
			ppKind = map[string]string{"conway": "dijkstra", "dijkstra": "conway"}[r.Params]
		}
		pp := pparams(ppKind, pv)
		nontrivial := len(r.Wds) > 0
		rep.Case(key, nontrivial)
		if strings.HasPrefix(r.Verdict, "free-") {
			freeSeen[r.Verdict]++
		}

		// (a) the rule function
		rep.Guard(key, replay, func() {
			got := classify(conway.UtxoValidateWithdrawals(tx, 1000, ls, pp))
			seen["func"] = string(got)
			if strings.HasPrefix(r.Verdict, "free-") {
				freeSeen[r.Verdict+" -> "+string(got)]++
			}
			if strings.HasPrefix(string(got), "other:") && r.Verdict != "NotDelegated" && r.Verdict != "StateUnavailable" {
				// rejected for a reason C33 does not talk about: recorded only
				outside["func rejected by something else than the gate"]++
				return
			}
			if !allowed(r.Verdict, got) {
				disagree(key+":at=func", fmt.Sprintf("spec verdict %s, conway.UtxoValidateWithdrawals returned %s", r.Verdict, got), replay)
			}
		})
		if crossParams {
			return seen
		}
		// (b) every entry of the era's rule list
		gate := map[outcome]bool{}
		var panics []string
		for i, rule := range bd.rules {
			func() {
				defer func() {
					if p := recover(); p != nil {
						panics = append(panics, fmt.Sprintf("rule[%d]: %v", i, p))
					}
				}()
				if k := classify(rule(tx, 1000, ls, pp)); k == "NotDelegated" || k == "StateUnavailable" {
					gate[k] = true
				}
			}()
		}
		if len(panics) > 0 {
			replay["list_panics"] = panics
		}
		var listGot outcome = "ok"
		switch {
		case gate["NotDelegated"] && gate["StateUnavailable"]:
			listGot = "both"
		case gate["NotDelegated"]:
			listGot = "NotDelegated"
		case gate["StateUnavailable"]:
			listGot = "StateUnavailable"
		}
		seen["list"] = string(listGot)
		if !allowed(r.Verdict, listGot) {
			disagree(key+":at=list", fmt.Sprintf("spec verdict %s, the entries of %s.UtxoValidationRules raise: %s", r.Verdict, bd.name, listGot), replay)
		}
		// (c) VerifyTransaction over the whole list
		if !fits || maxAmounts {
			verifySkipped++
			return seen
		}
		rep.Guard(key, replay, func() {
			err := common.VerifyTransaction(tx, 1000, ls, pp, bd.rules)
			got := classify(err)
			seen["verify"] = string(got)
			if !r.Valid {
				// a transaction flagged phase-2-invalid without failing scripts is
				// rejected by other rules; C33 only says: not by the gate
				if got == "NotDelegated" || got == "StateUnavailable" {
					disagree(key+":at=verify", fmt.Sprintf("spec verdict %s, VerifyTransaction failed with %s", r.Verdict, got), replay)
				}
				return
			}
			if strings.HasPrefix(string(got), "other:") {
				// VerifyTransaction stops at the first failing rule; a rejection by
				// a rule C33 does not talk about says nothing about the gate (the
				// list observation above covers it): recorded only
				outside["VerifyTransaction rejected by another rule"]++
				return
			}
			verified++
			if !allowed(r.Verdict, got) {
				disagree(key+":at=verify", fmt.Sprintf("spec verdict %s, VerifyTransaction(%s rules) returned %s", r.Verdict, bd.name, got), replay)
			}
		})
		return seen
	}

	// baseline: a delegated, valid PV10 transaction with two withdrawals must
	// pass the complete rule list of both eras, else the driver proves nothing
	for _, p := range []string{"conway", "dijkstra"} {
		base := &row{PV: 10, Valid: true, Cap: "capable", Params: p, Wds: []wd{{1, true}, {1, true}}, Verdict: "ok"}
		bd := bundles[p]
		raw, _ := buildTx(p, pay, stakes[:2], []uint64{5, 7}, []int{0, 1}, true, true, true)
		tx, err := bd.decode(raw)
		if err != nil {
			rep.Dead("baseline %s: decode: %v", p, err)
		}
		lb := mockledger.NewLedgerStateBuilder().WithUtxos(utxos).
			WithRewardAccountBalance(common.Blake2b224(stakes[0].hash), 5).
			WithRewardAccountBalance(common.Blake2b224(stakes[1].hash), 7).
			WithDRepDelegation(func(common.Credential) (*common.Drep, error) { return &common.Drep{}, nil })
		if err := common.VerifyTransaction(tx, 1000, lb.Build(), pparams(p, base.PV), bd.rules); err != nil {
			rep.Dead("baseline %s transaction does not pass the era's rule list: %v", p, err)
		}
	}

	for ri := range rows {
		r := &rows[ri]
		pvs := []uint{r.PV}
		if r.PV == 20 {
			pvs = bigPV // order-isomorphic: the gate only compares with 10 and 12
		}
		var seen map[string]string
		for pi, pv := range pvs {
			tag := ""
			if pi > 0 {
				tag = fmt.Sprintf(":pvmap=%d", pv)
			}
			o := runOne(r, pv, false, false, tag)
			if pi == 0 {
				seen = o
			}
		}
		if len(r.Wds) > 0 {
			runOne(r, r.PV, true, false, ":amt=max")
			runOne(r, r.PV, false, true, ":crossparams")
		}
		if r.Verdict != "ok" && len(r.Wds) == 2 && sampleSeen[r.Verdict+r.Params] == 0 {
			sampleSeen[r.Verdict+r.Params]++
			rep.Sample(map[string]any{"case": r.key(), "spec_verdict": r.Verdict, "observed": seen})
		}
	}
	rep.Extra["free_cases_observed"] = freeSeen
	if len(outside) > 0 {
		rep.Extra["observed_outside_the_property"] = outside
	}
	rep.Extra["verify_transaction_runs_on_valid_cases"] = verified
	rep.Extra["verify_transaction_not_run_amt_max_variant_or_sum_over_64_bits"] = verifySkipped
	rep.Extra["observation_points"] = "conway.UtxoValidateWithdrawals; every entry of conway/dijkstra.UtxoValidationRules; common.VerifyTransaction on signed, balanced transactions decoded from CBOR"
	rep.Finish()
}
