// c23: replays the block-fetch cases TLC generated from spec/net/BlockFetchClient.tla
// on the real blockfetch.Client. Every case runs in its own real protocol engine
// over netx.MuxPair (two real muxers on a fragmenting in-memory pipe). The other
// end is a raw peer: it registers the block-fetch protocol id with its muxer,
// reads RequestRange from the segment payloads and answers every request with
// the hand-encoded response shape of the case (NoBlocks, or StartBatch . Block* .
// BatchDone) built from real mainnet blocks (internal/testdata/*.hex), then
// optionally closes the connection. The abstract block identities of the case
// (1, 2, 3) are mapped onto distinct fixture blocks; the requested point is the
// slot/hash of the block with the case's identity p.
//
// The client's callback configuration is part of the case (cfg: which of BlockFunc,
// BlockRawFunc, BatchDoneFunc are set); blockfetch.Config is built from the row.
// Deliveries and BatchDoneFunc invocations are attributed to the request the raw
// peer received last, not to what the caller is doing: a follow-up request may be
// issued while the previous range batch is still in flight (it then waits for the
// busy lock inside the library), and without a BatchDoneFunc that is the only way
// to issue it. Whether the follow-up is issued eagerly or after the batch was seen
// completing is drawn from the case seed; the model covers both (Acquire is
// enabled only when the lock is free).
//
// The observed outcome (per call: ok<block id> / err / nil, blocks handed to
// the block callback in order, BatchDoneFunc count) must be one of the outcomes TLC
// reached for that case ("allowed", terminal states of the model). A call that
// has not returned after the deadline although every outcome of the model
// returns is reported as a hang only if the goroutine dump shows the calling
// goroutine blocked inside the library call.
package main

import (
	"bytes"
	"encoding/hex"
	"encoding/json"
	"fmt"
	"io"
	"log/slog"
	"math/rand"
	"os"
	"path/filepath"
	"reflect"
	"regexp"
	"runtime"
	"sort"
	"strconv"
	"strings"
	"sync"
	"sync/atomic"
	"time"

	fxcbor "github.com/fxamacker/cbor/v2"

	"github.com/blinklabs-io/gouroboros/ledger"
	"github.com/blinklabs-io/gouroboros/muxer"
	"github.com/blinklabs-io/gouroboros/protocol"
	"github.com/blinklabs-io/gouroboros/protocol/blockfetch"
	pcommon "github.com/blinklabs-io/gouroboros/protocol/common"

	"verifharness/netx"
	"verifharness/vh"
)

type callRes struct {
	B   int    `json:"b"`
	Ret string `json:"ret"`
}

type outcome struct {
	Res   []callRes `json:"res"`
	Deliv [][]int   `json:"deliv"`
	Bd    []int     `json:"bd"`
}

type caseRow struct {
	Mode    string    `json:"mode"`
	P       int       `json:"p"`
	Nob     bool      `json:"nob"`
	Blocks  []int     `json:"blocks"`
	Close   bool      `json:"close"`
	Follow  string    `json:"follow"`
	Fp      int       `json:"fp"`
	Cfg     string    `json:"cfg"` // callback configuration; "" (old replay files) = "bf+bdf"
	Bf      bool      `json:"bf"`
	Raw     bool      `json:"raw"`
	Bdf     bool      `json:"bdf"`
	Allowed []outcome `json:"allowed"`
	Idx     int       `json:"idx"`
	Rseed   *int64    `json:"rseed,omitempty"`
}

type fixture struct {
	name  string
	typ   uint
	raw   []byte
	hash  []byte
	slot  uint64
	block ledger.Block
}

var fixtureTypes = []struct {
	name string
	typ  uint
}{
	{"byron", ledger.BlockTypeByronMain}, {"shelley", ledger.BlockTypeShelley},
	{"allegra", ledger.BlockTypeAllegra}, {"mary", ledger.BlockTypeMary},
	{"alonzo", ledger.BlockTypeAlonzo}, {"babbage", ledger.BlockTypeBabbage},
	{"conway", ledger.BlockTypeConway},
}

func loadFixtures(rep *vh.Reporter) []fixture {
	root := os.Getenv("VERIF_REPO")
	if root == "" {
		root = "/repo"
	}
	var out []fixture
	for _, ft := range fixtureTypes {
		p := filepath.Join(root, "internal", "testdata", ft.name+"_block.hex")
		txt, err := os.ReadFile(p)
		if err != nil {
			rep.Dead("fixture %s: %v", p, err)
		}
		raw, err := hex.DecodeString(strings.TrimSpace(string(txt)))
		if err != nil {
			rep.Dead("fixture %s: %v", p, err)
		}
		b, err := ledger.NewBlockFromCbor(ft.typ, raw)
		if err != nil {
			rep.Dead("fixture %s does not decode with body-hash validation: %v", ft.name, err)
		}
		out = append(out, fixture{ft.name, ft.typ, raw, b.Hash().Bytes(), b.SlotNumber(), b})
	}
	for i := range out {
		for j := i + 1; j < len(out); j++ {
			if bytes.Equal(out[i].hash, out[j].hash) {
				rep.Dead("fixtures %s and %s have the same hash", out[i].name, out[j].name)
			}
		}
	}
	return out
}

// ---------------------------------------------------------------- raw peer

func bstrHeader(n int) []byte {
	switch {
	case n < 24:
		return []byte{0x40 + byte(n)}
	case n < 1<<8:
		return []byte{0x58, byte(n)}
	case n < 1<<16:
		return []byte{0x59, byte(n >> 8), byte(n)}
	default:
		return []byte{0x5a, byte(n >> 24), byte(n >> 16), byte(n >> 8), byte(n)}
	}
}

func uintHeader(n uint) []byte {
	if n < 24 {
		return []byte{byte(n)}
	}
	return []byte{0x18, byte(n)}
}

// msgBlock = [4, 24(h'[type, block]')]
func msgBlock(f fixture) []byte {
	wrapped := append([]byte{0x82}, uintHeader(f.typ)...)
	wrapped = append(wrapped, f.raw...)
	out := []byte{0x82, 0x04, 0xd8, 0x18}
	out = append(out, bstrHeader(len(wrapped))...)
	return append(out, wrapped...)
}

var (
	msgStartBatch = []byte{0x81, 0x02}
	msgNoBlocks   = []byte{0x81, 0x03}
	msgBatchDone  = []byte{0x81, 0x05}
)

type peer struct {
	mb       *muxer.Muxer
	scripts  [][][]byte // per request: the messages to answer with
	closeEnd bool
	rng      *rand.Rand
	answered atomic.Int32
	received atomic.Int32
	written  chan struct{} // closed when the last script has been written (and the close done)
	problem  atomic.Value
	down     atomic.Bool // the connection went down under the peer while it was writing a script
}

func (p *peer) run() {
	sendCh, recvCh, doneCh := p.mb.RegisterProtocol(blockfetch.ProtocolId, muxer.ProtocolRoleResponder)
	if sendCh == nil {
		p.problem.Store("raw peer could not register with its muxer")
		close(p.written)
		return
	}
	go func() {
		var buf []byte
		closed := false
		for seg := range recvCh {
			buf = append(buf, seg.Payload...)
			for len(buf) > 0 {
				var v []fxcbor.RawMessage
				dec := fxcbor.NewDecoder(bytes.NewReader(buf))
				if err := dec.Decode(&v); err != nil {
					break // incomplete message: wait for the next segment
				}
				buf = buf[dec.NumBytesRead():]
				if len(v) == 0 || len(v[0]) != 1 || v[0][0] != 0x00 {
					continue // ClientDone or anything else: no answer
				}
				p.received.Add(1)
				k := int(p.answered.Load())
				if k >= len(p.scripts) {
					p.problem.Store("raw peer received more requests than the case has calls")
					continue
				}
				for _, m := range p.scripts[k] {
					switch p.write(sendCh, doneCh, m) {
					case writeTimeout:
						p.problem.Store("raw peer could not write its script (muxer did not take a segment within 60s)")
					case writeDown:
						// the peer itself closes only after its last script: the other side (the client
						// under test) took the connection down. That is behaviour, not a harness failure:
						// the observed outcome decides.
						p.down.Store(true)
					}
				}
				p.answered.Add(1)
				if k == len(p.scripts)-1 && !closed {
					closed = true
					if p.closeEnd {
						time.Sleep(time.Duration(p.rng.Intn(3)) * time.Millisecond)
						p.mb.Stop()
					}
					close(p.written)
				}
			}
		}
	}()
}

const (
	writeOK = iota
	writeDown
	writeTimeout
)

// write sends one message as 1..3 segments and waits until the muxer has written them.
func (p *peer) write(sendCh chan *muxer.Segment, doneCh chan bool, m []byte) int {
	parts := 1 + p.rng.Intn(3)
	for len(m) > 0 {
		n := len(m)
		if parts > 1 && n > 1 {
			n = 1 + p.rng.Intn(n)
			parts--
		}
		if n > muxer.SegmentMaxPayloadLength {
			n = muxer.SegmentMaxPayloadLength
		}
		seg := muxer.NewSegment(blockfetch.ProtocolId, m[:n], true)
		dc := make(chan error, 1)
		seg.SetDeliveryChan(dc)
		select {
		case sendCh <- seg:
		case <-doneCh:
			return writeDown
		case <-time.After(60 * time.Second):
			return writeTimeout
		}
		select {
		case err := <-dc:
			if err != nil {
				return writeDown
			}
		case <-doneCh:
			return writeDown
		case <-time.After(60 * time.Second):
			return writeTimeout
		}
		m = m[n:]
	}
	return writeOK
}

// ---------------------------------------------------------------- goroutine inspection

var reGid = regexp.MustCompile(`^goroutine (\d+) \[`)

func curGid() int {
	buf := make([]byte, 64)
	buf = buf[:runtime.Stack(buf, false)]
	m := reGid.FindSubmatch(buf)
	if m == nil {
		return -1
	}
	n, _ := strconv.Atoi(string(m[1]))
	return n
}

func allStacks() string {
	buf := make([]byte, 1<<20)
	for {
		n := runtime.Stack(buf, true)
		if n < len(buf) {
			return string(buf[:n])
		}
		buf = make([]byte, 2*len(buf))
	}
}

// blockedInLibrary reports whether goroutine gid is parked (select / channel / lock) with
// a frame of the named blockfetch client method on its stack; it returns a short description.
func blockedInLibrary(dump string, gid int, method string) (bool, string) {
	for _, g := range strings.Split(dump, "\n\n") {
		hdr := fmt.Sprintf("goroutine %d [", gid)
		if !strings.HasPrefix(g, hdr) {
			continue
		}
		line := g[:strings.IndexByte(g+"\n", '\n')]
		state := strings.TrimSuffix(strings.TrimPrefix(line, hdr), "]:")
		st := strings.Split(state, ",")[0]
		parked := st == "select" || strings.HasPrefix(st, "chan ") || strings.HasPrefix(st, "sync.") || st == "semacquire"
		in := strings.Contains(g, "blockfetch.(*Client)."+method+"(")
		return parked && in, fmt.Sprintf("caller goroutine [%s] in blockfetch.(*Client).%s=%v", state, method, in)
	}
	return false, "caller goroutine not found in the dump"
}

// handlerEvidence looks for a recvLoop goroutine of this client parked inside a handler.
func handlerEvidence(dump string, clientPtr string) string {
	for _, g := range strings.Split(dump, "\n\n") {
		if !strings.Contains(g, "protocol.(*Protocol).recvLoop") {
			continue
		}
		for _, h := range []string{"handleBatchDone", "handleBlock", "handleStartBatch", "handleNoBlocks"} {
			if strings.Contains(g, "blockfetch.(*Client)."+h+"("+clientPtr) {
				line := g[:strings.IndexByte(g+"\n", '\n')]
				return fmt.Sprintf("recvLoop of this client parked in %s: %s", h, line)
			}
		}
	}
	return ""
}

// ---------------------------------------------------------------- one case

type recorder struct {
	mu     sync.Mutex
	delivF []int // blocks BlockFunc received
	delivR []int // blocks BlockRawFunc received
	bd     int
}

// deliv is what "the block callback" received. With both callbacks configured the property
// does not say which one is used: either is accepted (the one that received more).
func (rc *recorder) deliv() []int {
	if len(rc.delivR) >= len(rc.delivF) {
		return append([]int{}, rc.delivR...)
	}
	return append([]int{}, rc.delivF...)
}

const defaultCfg = "bf+bdf"

func shapeName(c *caseRow) string {
	if c.Nob {
		return "NB"
	}
	s := "SB"
	for _, b := range c.Blocks {
		s += ".B" + strconv.Itoa(b)
	}
	return s + ".BD"
}

func b2i(b bool) int {
	if b {
		return 1
	}
	return 0
}

func caseKey(c *caseRow) string {
	k := fmt.Sprintf("mode=%s:p=%d:shape=%s:close=%d:follow=%s", c.Mode, c.P, shapeName(c), b2i(c.Close), c.Follow)
	if c.Cfg != defaultCfg {
		// the configuration every case had before it became a dimension keeps its key
		k += ":cfg=" + c.Cfg
	}
	return k
}

type call struct {
	mode   string
	p      int
	blocks []int
	nob    bool
}

type result struct {
	obs      outcome
	obsName  string
	notes    []string
	dead     string
	maxRetMs int64
	eager    bool
}

var deadline = 10 * time.Second

func runCase(c *caseRow, fx []fixture, seed int64) (r result) {
	rng := rand.New(rand.NewSource(seed))
	// abstract identities 1..3 -> three distinct fixtures, rotating with the case index and the seed
	perm := rng.Perm(len(fx))
	fix := func(id int) fixture { return fx[perm[(id-1)%len(perm)]] }
	// follow-up issued right after the first call returned (batch possibly in flight) or after
	// the batch was seen completing (BatchDoneFunc; without one: all its blocks delivered)
	r.eager = rng.Intn(2) == 0
	idOf := func(h []byte) int {
		for id := 1; id <= 3; id++ {
			if bytes.Equal(fix(id).hash, h) {
				return id
			}
		}
		return -1
	}
	idOfRaw := func(raw []byte) int {
		for id := 1; id <= 3; id++ {
			if bytes.Equal(fix(id).raw, raw) {
				return id
			}
		}
		return -1
	}
	calls := []call{{c.Mode, c.P, c.Blocks, c.Nob}}
	if c.Follow != "none" {
		calls = append(calls, call{c.Follow, c.Fp, []int{c.Fp}, false})
	}
	var scripts [][][]byte
	for _, cl := range calls {
		var s [][]byte
		if cl.nob {
			s = append(s, msgNoBlocks)
		} else {
			s = append(s, msgStartBatch)
			for _, b := range cl.blocks {
				s = append(s, msgBlock(fix(b)))
			}
			s = append(s, msgBatchDone)
		}
		scripts = append(scripts, s)
	}

	ma, mb, _, _ := netx.MuxPair(seed, true)
	defer func() { ma.Stop(); mb.Stop() }()
	go func() {
		for range mb.ErrorChan() {
		}
	}()
	go func() {
		for range ma.ErrorChan() {
		}
	}()
	errCh := make(chan error, 16)
	var engineErrs atomic.Int32
	go func() {
		for range errCh {
			engineErrs.Add(1)
		}
	}()

	recs := make([]*recorder, len(calls))
	for i := range recs {
		recs[i] = &recorder{}
	}
	pr := &peer{mb: mb, scripts: scripts, closeEnd: c.Close, rng: rand.New(rand.NewSource(seed + 17)), written: make(chan struct{})}
	// the batch a callback belongs to is the one of the request the peer received last
	// (the blocks of request k are written after it was received, and request k+1 is sent
	// only after the client gave the busy lock back)
	curRec := func() *recorder {
		k := int(pr.received.Load()) - 1
		if k < 0 {
			k = 0
		}
		if k >= len(recs) {
			k = len(recs) - 1
		}
		return recs[k]
	}
	opts := []blockfetch.BlockFetchOptionFunc{
		// state timeouts are C14's subject: keep them out of the way of a loaded machine
		blockfetch.WithBatchStartTimeout(10 * time.Minute),
		blockfetch.WithBlockTimeout(10 * time.Minute),
	}
	if c.Bf {
		opts = append(opts, blockfetch.WithBlockFunc(func(_ blockfetch.CallbackContext, _ uint, b ledger.Block) error {
			id := -3 // BlockFunc called without a block
			if b != nil {
				id = idOf(b.Hash().Bytes())
			}
			rc := curRec()
			rc.mu.Lock()
			rc.delivF = append(rc.delivF, id)
			rc.mu.Unlock()
			return nil
		}))
	}
	if c.Raw {
		opts = append(opts, blockfetch.WithBlockRawFunc(func(_ blockfetch.CallbackContext, _ uint, raw []byte) error {
			rc := curRec()
			rc.mu.Lock()
			rc.delivR = append(rc.delivR, idOfRaw(raw))
			rc.mu.Unlock()
			return nil
		}))
	}
	if c.Bdf {
		opts = append(opts, blockfetch.WithBatchDoneFunc(func(_ blockfetch.CallbackContext) error {
			rc := curRec()
			rc.mu.Lock()
			rc.bd++
			rc.mu.Unlock()
			return nil
		}))
	}
	cfg, err := blockfetch.NewConfig(opts...)
	if err != nil {
		r.dead = "blockfetch.NewConfig: " + err.Error()
		return
	}
	client := blockfetch.NewClient(protocol.ProtocolOptions{
		ConnectionId: netx.ConnId("c23"),
		Muxer:        ma,
		Logger:       slog.New(slog.NewTextHandler(io.Discard, nil)),
		ErrorChan:    errCh,
		Mode:         protocol.ProtocolModeNodeToNode,
		Role:         protocol.ProtocolRoleClient,
	}, &cfg)
	pr.run()
	client.Start()
	ma.Start()
	mb.Start()
	clientPtr := fmt.Sprintf("%p", client)

	r.obs = outcome{Res: []callRes{}, Deliv: make([][]int, len(calls)), Bd: make([]int, len(calls))}
	for i := range r.obs.Deliv {
		r.obs.Deliv[i] = []int{}
	}
	snapshot := func() {
		for i, rc := range recs {
			rc.mu.Lock()
			r.obs.Deliv[i] = rc.deliv()
			r.obs.Bd[i] = rc.bd
			if len(rc.delivR) > 0 && len(rc.delivF) > 0 {
				r.notes = append(r.notes, fmt.Sprintf("call %d: both BlockRawFunc (%v) and BlockFunc (%v) were invoked", i+1, rc.delivR, rc.delivF))
			}
			rc.mu.Unlock()
		}
	}
	var names []string
	defer func() {
		snapshot()
		// name of the observation, used in the disagreement key
		for i, cr := range r.obs.Res {
			if calls[i].mode == "block" {
				s := cr.Ret
				if cr.Ret == "ok" {
					s += strconv.Itoa(cr.B)
				}
				names = append(names, s)
			} else {
				var d []string
				for _, b := range r.obs.Deliv[i] {
					d = append(d, strconv.Itoa(b))
				}
				names = append(names, fmt.Sprintf("%s[%s]d%d", cr.Ret, strings.Join(d, "."), r.obs.Bd[i]))
			}
		}
		r.obsName = strings.Join(names, ",")
	}()

	for i, cl := range calls {
		f := fix(cl.p)
		point := pcommon.NewPoint(f.slot, f.hash)
		type ret struct {
			cr    callRes
			panic string
			err   string
		}
		retCh := make(chan ret, 1)
		gidCh := make(chan int, 1)
		method := "GetBlock"
		if cl.mode == "range" {
			method = "GetBlockRange"
		}
		t0 := time.Now()
		go func() {
			gidCh <- curGid()
			var out ret
			defer func() {
				if p := recover(); p != nil {
					out.panic = fmt.Sprint(p)
				}
				retCh <- out
			}()
			if cl.mode == "block" {
				b, err := client.GetBlock(point)
				switch {
				case err != nil:
					out.cr, out.err = callRes{Ret: "err"}, err.Error()
				case b == nil:
					out.cr = callRes{Ret: "ok", B: -2} // neither a block nor an error
				default:
					out.cr = callRes{Ret: "ok", B: idOf(b.Hash().Bytes())}
				}
			} else {
				if err := client.GetBlockRange(point, point); err != nil {
					out.cr, out.err = callRes{Ret: "err"}, err.Error()
				} else {
					out.cr = callRes{Ret: "nil"}
				}
			}
		}()
		gid := <-gidCh
		var got ret
		returned := false
		limit := deadline
		for attempt := 0; attempt < 3 && !returned; attempt++ {
			select {
			case got = <-retCh:
				returned = true
			case <-time.After(limit):
				dump := allStacks()
				ok1, d1 := blockedInLibrary(dump, gid, method)
				if pr.answered.Load() != pr.received.Load() {
					ok1, d1 = false, d1+"; the raw peer has not finished writing the answer to a request it received"
				}
				if ok1 {
					// look again a little later: still parked at the same place?
					select {
					case got = <-retCh:
						returned = true
						continue
					case <-time.After(1500 * time.Millisecond):
					}
					dump2 := allStacks()
					ok2, _ := blockedInLibrary(dump2, gid, method)
					if ok2 {
						r.obs.Res = append(r.obs.Res, callRes{Ret: "hang"})
						r.notes = append(r.notes, fmt.Sprintf("call %d (%s) has not returned %.1fs after the request: %s", i+1, method, time.Since(t0).Seconds(), d1))
						if h := handlerEvidence(dump2, clientPtr); h != "" {
							r.notes = append(r.notes, h)
						}
						if c.Close {
							r.notes = append(r.notes, "the peer had closed the connection")
						} else {
							// does closing the connection release the call? (information only)
							mb.Stop()
							select {
							case <-retCh:
								r.notes = append(r.notes, "the call returned after the connection was closed")
							case <-time.After(2 * time.Second):
								r.notes = append(r.notes, "still blocked 2s after the connection was closed as well")
							}
						}
						return
					}
				}
				r.notes = append(r.notes, "deadline passed but "+d1+": waiting longer")
				limit = 2 * deadline
			}
		}
		if !returned {
			r.dead = fmt.Sprintf("%s: call %d neither returned nor is parked in the library (overloaded machine?)", caseKey(c), i+1)
			return
		}
		if ms := time.Since(t0).Milliseconds(); ms > r.maxRetMs {
			r.maxRetMs = ms
		}
		if got.panic != "" {
			r.obs.Res = append(r.obs.Res, callRes{Ret: "panic"})
			r.notes = append(r.notes, "panic in "+method+": "+got.panic)
			return
		}
		if got.err != "" {
			r.notes = append(r.notes, fmt.Sprintf("call %d error: %s", i+1, got.err))
		}
		r.obs.Res = append(r.obs.Res, got.cr)
		if cl.mode == "range" && got.cr.Ret == "nil" {
			if i < len(calls)-1 && r.eager {
				// the follow-up is issued at once: it has to wait inside the library until the
				// batch is done and the lock is free
				continue
			}
			// the batch goes on in the background: wait until it is seen completing (BatchDoneFunc;
			// without one: every served block delivered) or the engine is down
			t1 := time.Now()
			for {
				recs[i].mu.Lock()
				bd, nd := recs[i].bd, len(recs[i].delivR)
				if len(recs[i].delivF) > nd {
					nd = len(recs[i].delivF)
				}
				recs[i].mu.Unlock()
				if (c.Bdf && bd > 0) || (!c.Bdf && nd >= len(cl.blocks)) || client.IsDone() {
					break
				}
				if time.Since(t1) > 2*deadline {
					if c.Bdf {
						r.obs.Res[len(r.obs.Res)-1].Ret = "nil-nocomplete"
						r.notes = append(r.notes, fmt.Sprintf("range call %d: neither BatchDoneFunc nor shutdown %.0fs after the batch started", i+1, time.Since(t1).Seconds()))
						return
					}
					r.notes = append(r.notes, fmt.Sprintf("range call %d: %d of %d blocks delivered %.0fs after the batch started", i+1, nd, len(cl.blocks), time.Since(t1).Seconds()))
					break
				}
				time.Sleep(500 * time.Microsecond)
			}
		}
	}
	if c.Close {
		// terminal states of the model have the engine down: let the shutdown finish
		t1 := time.Now()
		for !client.IsDone() && time.Since(t1) < deadline {
			time.Sleep(time.Millisecond)
		}
		if !client.IsDone() {
			r.notes = append(r.notes, "engine still up after the peer closed (not part of this property)")
		}
	}
	time.Sleep(20 * time.Millisecond) // surplus callbacks would show up now
	if s, ok := pr.problem.Load().(string); ok {
		r.dead = caseKey(c) + ": " + s
	}
	if pr.down.Load() {
		r.notes = append(r.notes, "the connection went down under the raw peer while it was still writing a script (the client side ended it)")
	}
	return
}

func norm(o outcome) string {
	for i := range o.Deliv {
		if o.Deliv[i] == nil {
			o.Deliv[i] = []int{}
		}
	}
	b, _ := json.Marshal(o)
	return string(b)
}

func main() {
	rep := vh.NewReporter()
	if len(os.Args) < 2 {
		rep.Dead("usage: c23 rows.ndjson")
	}
	if ms, err := strconv.Atoi(os.Getenv("VERIF_C23_DEADLINE_MS")); err == nil && ms > 0 {
		deadline = time.Duration(ms) * time.Millisecond
	}
	rows, err := vh.ReadNDJSON[caseRow](os.Args[1])
	if err != nil || len(rows) == 0 {
		rep.Dead("rows: %v (%d rows)", err, len(rows))
	}
	fx := loadFixtures(rep)
	seed := vh.Seed()
	workers := 48
	if len(rows) < workers {
		workers = len(rows)
	}
	jobs := make(chan int)
	var wg sync.WaitGroup
	var mu sync.Mutex
	hangs, maxRet := 0, int64(0)
	obsClasses := map[string]int{}
	byCfg := map[string]int{}
	eagerFollow := 0
	var deadMsg atomic.Value
	for w := 0; w < workers; w++ {
		wg.Add(1)
		go func() {
			defer wg.Done()
			for i := range jobs {
				c := &rows[i]
				if c.Cfg == "" {
					c.Cfg, c.Bf, c.Bdf = defaultCfg, true, true
				}
				if len(c.Allowed) == 0 {
					deadMsg.Store("case without allowed outcomes: " + caseKey(c))
					continue
				}
				cs := seed*1000003 + int64(c.Idx)*7919
				if c.Rseed != nil {
					cs = *c.Rseed
				}
				r := runCase(c, fx, cs)
				if r.dead != "" {
					deadMsg.Store(r.dead)
					continue
				}
				key := caseKey(c)
				rep.Case(key, true)
				got := norm(r.obs)
				ok := false
				var allowed []string
				for _, a := range c.Allowed {
					s := norm(a)
					allowed = append(allowed, s)
					if s == got || reflect.DeepEqual(a, r.obs) {
						ok = true
					}
				}
				sort.Strings(allowed)
				mu.Lock()
				if r.maxRetMs > maxRet {
					maxRet = r.maxRetMs
				}
				if strings.Contains(r.obsName, "hang") {
					hangs++
				}
				byCfg[c.Cfg]++
				if c.Mode == "range" && c.Follow != "none" && r.eager {
					eagerFollow++
				}
				obsClasses[c.Mode+":"+shapeName(c)+":close="+strconv.Itoa(b2i(c.Close))+" -> "+strings.SplitN(r.obsName, ",", 2)[0]]++
				mu.Unlock()
				if c.Idx%17 == int(seed%17) {
					rep.Sample(map[string]any{"case": key, "observed": r.obsName, "allowed": allowed})
				}
				if !ok {
					c.Rseed = &cs
					rep.Disagree(key+":obs="+r.obsName,
						fmt.Sprintf("observed %s; the specification allows only %s; %s", got, strings.Join(allowed, " | "), strings.Join(r.notes, "; ")),
						map[string]any{"row": c, "rseed": cs, "verif_seed": seed, "notes": r.notes})
				}
			}
		}()
	}
	for i := range rows {
		jobs <- i
	}
	close(jobs)
	wg.Wait()
	if s, ok := deadMsg.Load().(string); ok {
		rep.Dead("%s", s)
	}
	rep.Extra["c23_calls_reported_hanging"] = hangs
	rep.Extra["c23_slowest_returning_call_ms"] = maxRet
	rep.Extra["c23_hang_deadline_ms"] = deadline.Milliseconds()
	rep.Extra["c23_cases_by_callback_configuration"] = byCfg
	rep.Extra["c23_followups_issued_while_the_range_batch_may_be_in_flight"] = eagerFollow
	rep.Extra["c23_not_judged"] = "a range batch that carries blocks on a client without any block callback (the property is silent); with both BlockFunc and BlockRawFunc set either may receive the blocks"
	if len(obsClasses) <= 100 {
		rep.Extra["c23_first_call_observed_by_shape"] = obsClasses
	} else {
		// thorough tier: too many shapes to list; count the observation classes of the first call
		cls := map[string]int{}
		for k, n := range obsClasses {
			mode := k[:strings.IndexByte(k, ':')]
			o := k[strings.Index(k, " -> ")+4:]
			if i := strings.IndexAny(o, "[0123456789"); i > 0 {
				o = o[:i]
			}
			cls[mode+" -> "+o] += n
		}
		rep.Extra["c23_first_call_observed_by_class"] = cls
	}
	rep.Finish()
}
