// c34: replays the cases of spec/ledger/BodyHash.tla (era x mutation class x
// validation flag) on the real blocks of the repository's test data.
//
// A mutation class names a part of the block body (a Shelley..Conway
// segment, a field of the Dijkstra block body, a Byron payload, a Byron
// transaction body / witness list, the Byron transaction list) or a
// commitment field of the header.  The driver finds the byte range of that
// part in the real block with its own CBOR walker and searches it for
// single-byte mutations (bit flips, +-1, 0x00/0xff, random) and structural
// ones (drop / duplicate / swap elements, re-encode a head non-minimally or
// indefinite, replace by a tiny item, swap two segments) that still decode
// with SkipBodyHashValidation = true.  Every such block must then do what the
// TLC row says with validation on (decode_ok = false: ledger.NewBlockFromCbor
// returns an error); the unmutated blocks must decode both ways.  Nothing is
// decided here: the row's decode_ok is the oracle.
package main

import (
	"bytes"
	"encoding/hex"
	"encoding/json"
	"fmt"
	"math/rand"
	"os"
	"path/filepath"
	"regexp"
	"sort"
	"strings"

	"github.com/blinklabs-io/gouroboros/ledger"
	"github.com/blinklabs-io/gouroboros/ledger/common"
	"golang.org/x/crypto/blake2b"

	"verifharness/vh"
)

// ---------------------------------------------------------------- rows

type row struct {
	Era      string   `json:"era"`
	Mut      string   `json:"mut"`
	Target   string   `json:"target"`
	Config   string   `json:"config"` // skip | default | ssc_hash
	Validate bool     `json:"validate"`
	DecodeOk bool     `json:"decode_ok"`
	Failing  []string `json:"failing"`
	Excluded bool     `json:"excluded"`
}

// ---------------------------------------------------------------- CBOR walker

type span struct{ lo, hi int } // [lo, hi)

type node struct {
	span
	major    byte
	headLen  int    // bytes of the head (initial byte + argument)
	arg      uint64 // argument (length / value / tag)
	indef    bool
	children []node // array elements; map keys and values alternating; tag content
}

func readHead(b []byte, off int) (major byte, arg uint64, headLen int, indef bool, err error) {
	if off >= len(b) {
		return 0, 0, 0, false, fmt.Errorf("eof at %d", off)
	}
	ib := b[off]
	major, ai := ib>>5, ib&0x1f
	switch {
	case ai < 24:
		return major, uint64(ai), 1, false, nil
	case ai >= 24 && ai <= 27:
		n := 1 << (ai - 24)
		if off+1+n > len(b) {
			return 0, 0, 0, false, fmt.Errorf("eof in head at %d", off)
		}
		var v uint64
		for i := 0; i < n; i++ {
			v = v<<8 | uint64(b[off+1+i])
		}
		return major, v, 1 + n, false, nil
	case ai == 31:
		return major, 0, 1, true, nil
	}
	return 0, 0, 0, false, fmt.Errorf("reserved additional info at %d", off)
}

func walk(b []byte, off int, depth int) (node, error) {
	if depth > 64 {
		return node{}, fmt.Errorf("too deep")
	}
	major, arg, hl, indef, err := readHead(b, off)
	if err != nil {
		return node{}, err
	}
	n := node{span: span{off, off + hl}, major: major, headLen: hl, arg: arg, indef: indef}
	pos := off + hl
	switch major {
	case 0, 1:
		if indef {
			return node{}, fmt.Errorf("indefinite int at %d", off)
		}
	case 7:
		if indef {
			return node{}, fmt.Errorf("stray break at %d", off)
		}
	case 2, 3:
		if indef {
			for {
				if pos >= len(b) {
					return node{}, fmt.Errorf("eof in indefinite string")
				}
				if b[pos] == 0xff {
					pos++
					break
				}
				c, err := walk(b, pos, depth+1)
				if err != nil {
					return node{}, err
				}
				pos = c.hi
			}
		} else {
			if uint64(len(b)-pos) < arg {
				return node{}, fmt.Errorf("eof in string at %d", off)
			}
			pos += int(arg)
		}
	case 4, 5:
		cnt := arg
		if major == 5 {
			cnt *= 2
		}
		for i := uint64(0); indef || i < cnt; i++ {
			if pos >= len(b) {
				return node{}, fmt.Errorf("eof in container at %d", off)
			}
			if indef && b[pos] == 0xff {
				pos++
				break
			}
			c, err := walk(b, pos, depth+1)
			if err != nil {
				return node{}, err
			}
			n.children = append(n.children, c)
			pos = c.hi
		}
	case 6:
		c, err := walk(b, pos, depth+1)
		if err != nil {
			return node{}, err
		}
		n.children = []node{c}
		pos = c.hi
	}
	n.hi = pos
	return n, nil
}

// content is the span of a definite byte/text string's bytes.
func (n node) content() span { return span{n.lo + n.headLen, n.hi} }

func (n node) child(path ...int) (node, error) {
	cur := n
	for _, i := range path {
		if cur.major == 6 && len(cur.children) == 1 && i == -1 {
			cur = cur.children[0]
			continue
		}
		if i < 0 || i >= len(cur.children) {
			return node{}, fmt.Errorf("path %v: no child %d (have %d, major %d)", path, i, len(cur.children), cur.major)
		}
		cur = cur.children[i]
	}
	return cur, nil
}

func headBytes(major byte, n uint64) []byte {
	m := major << 5
	switch {
	case n < 24:
		return []byte{m | byte(n)}
	case n <= 0xff:
		return []byte{m | 24, byte(n)}
	case n <= 0xffff:
		return []byte{m | 25, byte(n >> 8), byte(n)}
	case n <= 0xffffffff:
		return []byte{m | 26, byte(n >> 24), byte(n >> 16), byte(n >> 8), byte(n)}
	}
	out := []byte{m | 27}
	for i := 7; i >= 0; i-- {
		out = append(out, byte(n>>(8*uint(i))))
	}
	return out
}

// widerHead is a non-minimal head for the same argument (nil if there is none).
func widerHead(major byte, n uint64, cur int) []byte {
	m := major << 5
	switch {
	case cur == 1 && n <= 0xff:
		return []byte{m | 24, byte(n)}
	case cur <= 2 && n <= 0xffff:
		return []byte{m | 25, byte(n >> 8), byte(n)}
	case cur <= 3 && n <= 0xffffffff:
		return []byte{m | 26, byte(n >> 24), byte(n >> 16), byte(n >> 8), byte(n)}
	}
	return nil
}

func splice(b []byte, s span, repl []byte) []byte {
	out := make([]byte, 0, len(b)-(s.hi-s.lo)+len(repl))
	out = append(out, b[:s.lo]...)
	out = append(out, repl...)
	out = append(out, b[s.hi:]...)
	return out
}

// ---------------------------------------------------------------- fixtures

type fixture struct {
	name, kind, path string
	btype            uint
	raw              []byte
	top              node
	parts            map[string]span // simple parts of the body
	commits          map[string]span // commitment fields of the header (content bytes / the count item)
	txs              []node          // Byron main: the [tx, witnesses] elements of the tx payload
	txPayload        node
}

var fixtureFiles = []struct {
	name, kind, path string
	btype            uint
}{
	{"byron_ebb_testnet", "byron_ebb", "protocol/chainsync/testdata/byron_ebb_testnet_8f8602837f7c6f8b8867dd1cbc1842cf51a27eaed2c70ef48325d00f8efb320f.hex", ledger.BlockTypeByronEbb},
	{"byron_main_mainnet", "byron_main", "internal/testdata/byron_block.hex", ledger.BlockTypeByronMain},
	{"byron_main_testnet", "byron_main", "protocol/chainsync/testdata/byron_main_block_testnet_f38aa5e8cf0b47d1ffa8b2385aa2d43882282db2ffd5ac0e3dadec1a6f2ecf08.hex", ledger.BlockTypeByronMain},
	{"shelley_mainnet", "shelley", "internal/testdata/shelley_block.hex", ledger.BlockTypeShelley},
	{"shelley_testnet", "shelley", "protocol/chainsync/testdata/shelley_block_testnet_02b1c561715da9e540411123a6135ee319b02f60b9a11a603d3305556c04329f.hex", ledger.BlockTypeShelley},
	{"allegra_mainnet", "allegra", "internal/testdata/allegra_block.hex", ledger.BlockTypeAllegra},
	{"mary_mainnet", "mary", "internal/testdata/mary_block.hex", ledger.BlockTypeMary},
	{"alonzo_mainnet", "alonzo", "internal/testdata/alonzo_block.hex", ledger.BlockTypeAlonzo},
	{"babbage_mainnet", "babbage", "internal/testdata/babbage_block.hex", ledger.BlockTypeBabbage},
	{"conway_mainnet", "conway", "internal/testdata/conway_block.hex", ledger.BlockTypeConway},
	{"dijkstra_musashi", "dijkstra", "ledger/dijkstra/testdata/musashi_dijkstra_block.hex", ledger.BlockTypeDijkstra},
}

var partNames = map[string][]string{
	"shelley": {"tx_bodies", "tx_witnesses", "aux_data"}, "allegra": {"tx_bodies", "tx_witnesses", "aux_data"},
	"mary":   {"tx_bodies", "tx_witnesses", "aux_data"},
	"alonzo": {"tx_bodies", "tx_witnesses", "aux_data", "invalid_txs"}, "babbage": {"tx_bodies", "tx_witnesses", "aux_data", "invalid_txs"},
	"conway":   {"tx_bodies", "tx_witnesses", "aux_data", "invalid_txs"},
	"dijkstra": {"invalid_txs", "transactions", "leios_cert", "peras_cert"},
}

// findOnce returns the span of needle inside b[s.lo:s.hi]; it must occur exactly once.
func findOnce(b []byte, s span, needle []byte) (span, error) {
	i := bytes.Index(b[s.lo:s.hi], needle)
	if i < 0 {
		return span{}, fmt.Errorf("value %x not in the header", needle)
	}
	if bytes.Contains(b[s.lo+i+1:s.hi], needle) {
		return span{}, fmt.Errorf("value %x occurs twice in the header", needle)
	}
	return span{s.lo + i, s.lo + i + len(needle)}, nil
}

func hashField(n node) (span, error) {
	if n.major != 2 || n.indef || n.arg != 32 {
		return span{}, fmt.Errorf("commitment at %d is not a 32-byte string (major %d, len %d)", n.lo, n.major, n.arg)
	}
	return n.content(), nil
}

// layout locates the parts and the commitment fields of a real block.
func (f *fixture) layout(blk common.Block) error {
	top, err := walk(f.raw, 0, 0)
	if err != nil {
		return err
	}
	if top.hi != len(f.raw) || top.major != 4 {
		return fmt.Errorf("block is not one CBOR array (ends at %d of %d)", top.hi, len(f.raw))
	}
	f.top = top
	f.parts, f.commits = map[string]span{}, map[string]span{}
	switch f.kind {
	case "shelley", "allegra", "mary", "alonzo", "babbage", "conway":
		names := partNames[f.kind]
		if len(top.children) != 1+len(names) {
			return fmt.Errorf("%s block has %d items", f.kind, len(top.children))
		}
		for i, n := range names {
			f.parts[n] = top.children[1+i].span
		}
		bh := blk.BlockBodyHash()
		s, err := findOnce(f.raw, top.children[0].span, bh.Bytes())
		if err != nil {
			return err
		}
		f.commits["body_hash"] = s
	case "dijkstra":
		if len(top.children) != 2 || len(top.children[1].children) != 4 {
			return fmt.Errorf("dijkstra block shape")
		}
		for i, n := range partNames[f.kind] {
			f.parts[n] = top.children[1].children[i].span
		}
		bh := blk.BlockBodyHash()
		s, err := findOnce(f.raw, top.children[0].span, bh.Bytes())
		if err != nil {
			return err
		}
		f.commits["body_hash"] = s
	case "byron_ebb":
		if len(top.children) != 3 {
			return fmt.Errorf("ebb has %d items", len(top.children))
		}
		f.parts["body"] = top.children[1].span
		c, err := top.child(0, 2)
		if err != nil {
			return err
		}
		if f.commits["body_hash"], err = hashField(c); err != nil {
			return err
		}
	case "byron_main":
		if len(top.children) != 3 {
			return fmt.Errorf("byron main block has %d items", len(top.children))
		}
		body := top.children[1]
		if len(body.children) != 4 {
			return fmt.Errorf("byron body has %d items", len(body.children))
		}
		f.txPayload = body.children[0]
		f.txs = body.children[0].children
		for _, t := range f.txs {
			if t.major != 4 || len(t.children) != 2 {
				return fmt.Errorf("byron tx payload element is not [tx, witnesses]")
			}
		}
		f.parts["ssc_payload"] = body.children[1].span
		f.parts["dlg_payload"] = body.children[2].span
		f.parts["upd_payload"] = body.children[3].span
		for name, path := range map[string][]int{
			"tx_merkle": {0, 2, 0, 1}, "tx_witnesses": {0, 2, 0, 2}, "dlg": {0, 2, 2}, "upd": {0, 2, 3},
		} {
			c, err := top.child(path...)
			if err != nil {
				return err
			}
			if f.commits[name], err = hashField(c); err != nil {
				return fmt.Errorf("%s: %w", name, err)
			}
		}
		cnt, err := top.child(0, 2, 0, 0)
		if err != nil {
			return err
		}
		if cnt.major != 0 || cnt.arg != uint64(len(f.txs)) {
			return fmt.Errorf("tx count field is %d/%d, payload has %d", cnt.major, cnt.arg, len(f.txs))
		}
		f.commits["tx_count"] = cnt.span
		ssc, err := top.child(0, 2, 1)
		if err != nil {
			return err
		}
		f.commits["ssc"] = ssc.span
	default:
		return fmt.Errorf("unknown kind %s", f.kind)
	}
	return nil
}

// recompute derives every commitment the specification names from the body
// bytes of the (unmutated) block with the real Blake2b-256, following the
// structure BodyHash.tla gives for the era.  It is compared with the header
// fields of the real blocks: that ties the model's commitment structure to
// real chain data independently of the library.
func (f *fixture) recompute() map[string][]byte {
	h := func(b []byte) []byte { x := blake2b.Sum256(b); return x[:] }
	raw := f.raw
	out := map[string][]byte{}
	switch f.kind {
	case "shelley", "allegra", "mary", "alonzo", "babbage", "conway":
		var cat []byte
		for _, n := range partNames[f.kind] {
			s := f.parts[n]
			cat = append(cat, h(raw[s.lo:s.hi])...)
		}
		out["body_hash"] = h(cat)
	case "dijkstra":
		b := f.top.children[1]
		out["body_hash"] = h(raw[b.lo:b.hi])
	case "byron_ebb":
		s := f.parts["body"]
		out["body_hash"] = h(raw[s.lo:s.hi])
	case "byron_main":
		d, u := f.parts["dlg_payload"], f.parts["upd_payload"]
		out["dlg"], out["upd"] = h(raw[d.lo:d.hi]), h(raw[u.lo:u.hi])
		wl := []byte{0x9f}
		var bodies [][]byte
		for _, t := range f.txs {
			bodies = append(bodies, raw[t.children[0].lo:t.children[0].hi])
			wl = append(wl, raw[t.children[1].lo:t.children[1].hi]...)
		}
		out["tx_witnesses"] = h(append(wl, 0xff))
		out["tx_merkle"] = merkle(bodies)
	}
	return out
}

// merkle is the Byron merkle root (leaf 0x00, node 0x01, split at the largest
// power of two below the count, empty list = hash of nothing).
func merkle(items [][]byte) []byte {
	h := func(b []byte) []byte { x := blake2b.Sum256(b); return x[:] }
	if len(items) == 0 {
		return h(nil)
	}
	var rec func(xs [][]byte) []byte
	rec = func(xs [][]byte) []byte {
		if len(xs) == 1 {
			return h(append([]byte{0}, xs[0]...))
		}
		p := 1
		for p*2 < len(xs) {
			p *= 2
		}
		return h(append(append([]byte{1}, rec(xs[:p])...), rec(xs[p:])...))
	}
	return rec(items)
}

// synthDijkstra puts the repository's real Dijkstra transaction into the real
// (empty) Dijkstra block and writes the hash of the new block body into the
// header, as the specification says a Dijkstra header commits.
func synthDijkstra(repo string, base *fixture) (*fixture, error) {
	data, err := os.ReadFile(filepath.Join(repo, "ledger/dijkstra/testdata/cardano_ledger_dijkstra_w30_tx.hex"))
	if err != nil {
		return nil, err
	}
	tx, err := hex.DecodeString(strings.TrimSpace(string(data)))
	if err != nil {
		return nil, err
	}
	top, err := walk(base.raw, 0, 0)
	if err != nil || len(top.children) != 2 || len(top.children[1].children) != 4 {
		return nil, fmt.Errorf("dijkstra block shape")
	}
	txs := top.children[1].children[1]
	if txs.major != 4 || txs.indef || len(txs.children) != 0 {
		return nil, fmt.Errorf("the real block is not empty")
	}
	old := blake2b.Sum256(base.raw[top.children[1].lo:top.children[1].hi])
	at, err := findOnce(base.raw, top.children[0].span, old[:])
	if err != nil {
		return nil, err
	}
	nb := splice(base.raw, txs.span, append([]byte{0x81}, tx...))
	ntop, err := walk(nb, 0, 0)
	if err != nil {
		return nil, err
	}
	nh := blake2b.Sum256(nb[ntop.children[1].lo:ntop.children[1].hi])
	copy(nb[at.lo:at.hi], nh[:])
	return &fixture{name: "dijkstra_synth_w30tx", kind: "dijkstra", path: "synth:dijkstra_musashi+w30_tx",
		btype: ledger.BlockTypeDijkstra, raw: nb}, nil
}

// ---------------------------------------------------------------- decoding

// verifyConfig is the caller's VerifyConfig of a configuration of the model.
func verifyConfig(config string) common.VerifyConfig {
	switch config {
	case "skip":
		return common.VerifyConfig{SkipBodyHashValidation: true}
	case "ssc_hash":
		return common.VerifyConfig{EnableByronSscProofHashValidation: true}
	}
	return common.VerifyConfig{}
}

func decode(f *fixture, b []byte, config string) (err error, panicked any) {
	defer func() {
		if p := recover(); p != nil {
			panicked = p
		}
	}()
	_, err = ledger.NewBlockFromCbor(f.btype, b, verifyConfig(config))
	return err, nil
}

// ---------------------------------------------------------------- mutation generators

type mutant struct {
	op string // stable name: operator and position relative to the part
	b  []byte
}

var tinyItems = [][]byte{{0x80}, {0xa0}, {0xf6}, {0x40}, {0x41, 0x00}, {0x00}, {0x81, 0x00}, {0x82, 0x00, 0x01}, {0xa1, 0x00, 0xa0}, {0xa1, 0x00, 0x80}, {0x9f, 0xff}, {0xbf, 0xff},
	// a Dijkstra leios certificate [signers, 48-byte aggregated signature]
	append([]byte{0x82, 0x41, 0x01, 0x58, 0x30}, make([]byte, 48)...)}

// byteMutants: n seeded single-byte mutations inside s (all offsets when the
// span is small).
func byteMutants(raw []byte, s span, n int, rng *rand.Rand) []mutant {
	var out []mutant
	ln := s.hi - s.lo
	if ln <= 0 {
		return nil
	}
	one := func(off int, kind int) {
		old := raw[s.lo+off]
		var nv byte
		var name string
		switch kind {
		case 0:
			bit := rng.Intn(8)
			nv, name = old^(1<<bit), fmt.Sprintf("flip@%d.%d", off, bit)
		case 1:
			nv, name = old+1, fmt.Sprintf("inc@%d", off)
		case 2:
			nv, name = old-1, fmt.Sprintf("dec@%d", off)
		case 3:
			nv, name = 0x00, fmt.Sprintf("zero@%d", off)
		case 4:
			nv, name = 0xff, fmt.Sprintf("ff@%d", off)
		default:
			nv = byte(rng.Intn(256))
			name = fmt.Sprintf("set@%d.%02x", off, nv)
		}
		if nv == old {
			return
		}
		m := append([]byte{}, raw...)
		m[s.lo+off] = nv
		out = append(out, mutant{name, m})
	}
	if ln*6 <= n {
		for off := 0; off < ln; off++ {
			for k := 0; k < 6; k++ {
				one(off, k)
			}
		}
		return out
	}
	for i := 0; i < n; i++ {
		one(rng.Intn(ln), rng.Intn(6))
	}
	return out
}

// containerOps: structural mutations of the container at node c (an array or
// a map inside the block), named with prefix.
func containerOps(raw []byte, c node, prefix string) []mutant {
	var out []mutant
	add := func(op string, s span, repl []byte) {
		out = append(out, mutant{prefix + op, splice(raw, s, repl)})
	}
	if c.major != 4 && c.major != 5 {
		return nil
	}
	per := 1
	if c.major == 5 {
		per = 2
	}
	n := len(c.children) / per
	elem := func(i int) span { return span{c.children[i*per].lo, c.children[i*per+per-1].hi} }
	inner := span{c.lo + c.headLen, c.hi}
	if c.indef {
		inner.hi--
	}
	rebuild := func(elems [][]byte) []byte {
		var body []byte
		for _, e := range elems {
			body = append(body, e...)
		}
		if c.indef {
			return append(append([]byte{c.major<<5 | 31}, body...), 0xff)
		}
		return append(headBytes(c.major, uint64(len(elems))), body...)
	}
	var elems [][]byte
	for i := 0; i < n; i++ {
		e := elem(i)
		elems = append(elems, raw[e.lo:e.hi])
	}
	without := func(i int) [][]byte {
		var o [][]byte
		o = append(o, elems[:i]...)
		return append(o, elems[i+1:]...)
	}
	if n >= 1 {
		add("drop_first", c.span, rebuild(without(0)))
		add("dup_first", c.span, rebuild(append(append([][]byte{}, elems...), elems[0])))
		if n >= 2 {
			add("drop_last", c.span, rebuild(without(n-1)))
			add("dup_last_in_place", c.span, rebuild(append(append([][]byte{}, elems[:n-1]...), elems[n-1], elems[n-1])))
			if !bytes.Equal(elems[0], elems[n-1]) {
				sw := append([][]byte{}, elems...)
				sw[0], sw[n-1] = sw[n-1], sw[0]
				add("swap_first_last", c.span, rebuild(sw))
			}
			if n >= 3 && !bytes.Equal(elems[0], elems[1]) {
				sw := append([][]byte{}, elems...)
				sw[0], sw[1] = sw[1], sw[0]
				add("swap_0_1", c.span, rebuild(sw))
			}
		}
		add("empty", c.span, rebuild(nil))
	}
	// the same content under another head
	if !c.indef {
		if w := widerHead(c.major, c.arg, c.headLen); w != nil {
			add("head_non_minimal", span{c.lo, c.lo + c.headLen}, w)
		}
		add("head_indefinite", c.span, append(append([]byte{c.major<<5 | 31}, raw[inner.lo:inner.hi]...), 0xff))
	} else {
		add("head_definite", c.span, append(headBytes(c.major, uint64(n)), raw[inner.lo:inner.hi]...))
	}
	// one more element
	if c.major == 4 {
		add("append_0", c.span, rebuild(append(append([][]byte{}, elems...), []byte{0x00})))
		add("append_empty_map", c.span, rebuild(append(append([][]byte{}, elems...), []byte{0xa0})))
	} else {
		add("add_entry_23_emptymap", c.span, rebuild(append(append([][]byte{}, elems...), []byte{0x17, 0xa0})))
		add("add_entry_23_0", c.span, rebuild(append(append([][]byte{}, elems...), []byte{0x17, 0x00})))
	}
	return out
}

// leafOps: re-encodings and small edits of leaf items directly inside c.
func leafOps(raw []byte, c node, prefix string, limit int) []mutant {
	var out []mutant
	cnt := 0
	var rec func(n node, path string, depth int)
	rec = func(n node, path string, depth int) {
		if cnt >= limit || depth > 6 {
			return
		}
		switch n.major {
		case 0, 1, 2, 3:
			if !n.indef {
				if w := widerHead(n.major, n.arg, n.headLen); w != nil {
					out = append(out, mutant{prefix + "leaf" + path + ":head_non_minimal", splice(raw, span{n.lo, n.lo + n.headLen}, w)})
					cnt++
				}
			}
			if n.major == 2 && !n.indef && n.arg > 0 {
				// one byte shorter / longer string
				s := n.content()
				out = append(out, mutant{prefix + "leaf" + path + ":bytes_truncated",
					splice(raw, n.span, append(headBytes(2, n.arg-1), raw[s.lo:s.hi-1]...))})
				out = append(out, mutant{prefix + "leaf" + path + ":bytes_extended",
					splice(raw, n.span, append(append(headBytes(2, n.arg+1), raw[s.lo:s.hi]...), 0x00))})
				cnt += 2
			}
		}
		for i, ch := range n.children {
			if i > 3 && i < len(n.children)-1 {
				continue // first few and the last child only
			}
			rec(ch, fmt.Sprintf("%s/%d", path, i), depth+1)
		}
	}
	rec(c, "", 0)
	return out
}

// structMutants: structural mutations of the part at span s.
func structMutants(raw []byte, s span, deep bool) []mutant {
	var out []mutant
	for i, t := range tinyItems {
		if bytes.Equal(raw[s.lo:s.hi], t) {
			continue
		}
		out = append(out, mutant{fmt.Sprintf("replace_by_%x", tinyItems[i]), splice(raw, s, t)})
	}
	n, err := walk(raw, s.lo, 0)
	if err != nil || n.hi != s.hi {
		return out
	}
	// a tagged container (e.g. #6.258 set): work on the content
	for n.major == 6 && len(n.children) == 1 {
		out = append(out, mutant{"untag", splice(raw, span{n.lo, n.lo + n.headLen}, nil)})
		n = n.children[0]
	}
	out = append(out, containerOps(raw, n, "")...)
	// inside the first and the last element
	idx := []int{0}
	if len(n.children) > 1 {
		idx = append(idx, len(n.children)-1)
	}
	for _, i := range idx {
		if i < len(n.children) {
			out = append(out, containerOps(raw, n.children[i], fmt.Sprintf("elem%d:", i))...)
			if deep {
				for j, g := range n.children[i].children {
					if j < 6 {
						out = append(out, containerOps(raw, g, fmt.Sprintf("elem%d/%d:", i, j))...)
					}
				}
			}
		}
	}
	lim := 12
	if deep {
		lim = 60
	}
	out = append(out, leafOps(raw, n, "", lim)...)
	return out
}

// byronTxMutants: structural mutations of the Byron transaction list.
func byronTxMutants(f *fixture, class string) []mutant {
	var out []mutant
	raw := f.raw
	p := f.txPayload
	var elems [][]byte
	for _, t := range f.txs {
		elems = append(elems, raw[t.lo:t.hi])
	}
	rebuild := func(es [][]byte) []byte {
		var body []byte
		for _, e := range es {
			body = append(body, e...)
		}
		if p.indef {
			return splice(raw, p.span, append(append([]byte{0x9f}, body...), 0xff))
		}
		return splice(raw, p.span, append(headBytes(4, uint64(len(es))), body...))
	}
	n := len(elems)
	switch class {
	case "tx_drop":
		for i := 0; i < n && i < 4; i++ {
			var es [][]byte
			es = append(es, elems[:i]...)
			es = append(es, elems[i+1:]...)
			out = append(out, mutant{fmt.Sprintf("drop_tx%d", i), rebuild(es)})
		}
	case "tx_dup":
		for i := 0; i < n && i < 4; i++ {
			out = append(out, mutant{fmt.Sprintf("append_copy_of_tx%d", i), rebuild(append(append([][]byte{}, elems...), elems[i]))})
			es := append([][]byte{}, elems[:i+1]...)
			es = append(es, elems[i:]...)
			out = append(out, mutant{fmt.Sprintf("double_tx%d_in_place", i), rebuild(es)})
		}
	case "tx_swap":
		for i := 0; i+1 < n && i < 4; i++ {
			if bytes.Equal(elems[i], elems[i+1]) {
				continue
			}
			es := append([][]byte{}, elems...)
			es[i], es[i+1] = es[i+1], es[i]
			out = append(out, mutant{fmt.Sprintf("swap_tx%d_tx%d", i, i+1), rebuild(es)})
		}
	}
	return out
}

// byronFramingMutants: the same transactions and payloads under another
// encoding of the list / pairs around them (no verdict is demanded).
func byronFramingMutants(f *fixture) []mutant {
	var out []mutant
	raw, p := f.raw, f.txPayload
	inner := span{p.lo + p.headLen, p.hi}
	if p.indef {
		inner.hi--
		out = append(out, mutant{"tx_payload_definite_length", splice(raw, p.span, append(headBytes(4, uint64(len(f.txs))), raw[inner.lo:inner.hi]...))})
	} else {
		out = append(out, mutant{"tx_payload_indefinite_length", splice(raw, p.span, append(append([]byte{0x9f}, raw[inner.lo:inner.hi]...), 0xff))})
	}
	for i, t := range f.txs {
		if i > 1 {
			break
		}
		// [tx, witnesses] -> [tx, witnesses, 0]
		e := append(headBytes(4, 3), raw[t.lo+t.headLen:t.hi]...)
		out = append(out, mutant{fmt.Sprintf("tx%d_pair_with_third_element", i), splice(raw, t.span, append(e, 0x00))})
		if w := widerHead(4, 2, t.headLen); w != nil && !t.indef {
			out = append(out, mutant{fmt.Sprintf("tx%d_pair_head_non_minimal", i), splice(raw, span{t.lo, t.lo + t.headLen}, w)})
		}
	}
	// the body array and the block array themselves
	body := f.top.children[1]
	if w := widerHead(4, body.arg, body.headLen); w != nil && !body.indef {
		out = append(out, mutant{"body_head_non_minimal", splice(raw, span{body.lo, body.lo + body.headLen}, w)})
	}
	if w := widerHead(4, f.top.arg, f.top.headLen); w != nil && !f.top.indef {
		out = append(out, mutant{"block_head_non_minimal", splice(raw, span{f.top.lo, f.top.lo + f.top.headLen}, w)})
	}
	return out
}

// ---------------------------------------------------------------- main

func main() {
	rep := vh.NewReporter()
	if len(os.Args) < 3 {
		rep.Dead("usage: c34 cases.ndjson <repo> [dump | only <fixture,...> | replay <file>]")
	}
	mode, modeArg := "", ""
	if len(os.Args) > 3 {
		mode = os.Args[3]
	}
	if len(os.Args) > 4 {
		modeArg = os.Args[4]
	}
	var rp struct {
		Fixture string `json:"fixture"`
		Mut     string `json:"mut"`
		Target  string `json:"target"`
		Op      string `json:"op"`
		Block   string `json:"block_cbor"`
		Config  string `json:"config"`
		Seed    int64  `json:"seed"`
	}
	if mode == "replay" {
		data, err := os.ReadFile(modeArg)
		if err != nil {
			rep.Dead("replay file: %v", err)
		}
		if err := json.Unmarshal(data, &rp); err != nil {
			rep.Dead("replay file: %v", err)
		}
	}
	rows, err := vh.ReadNDJSON[row](os.Args[1])
	if err != nil || len(rows) == 0 {
		rep.Dead("cases: %v (%d rows)", err, len(rows))
	}
	repo := os.Args[2]
	seed := vh.Seed()
	if mode == "replay" && rp.Seed != 0 {
		seed = rp.Seed
	}
	thorough := vh.Tier() == "thorough"
	byteBudget, commitBudget := 260, 24
	if thorough {
		byteBudget, commitBudget = 3000, 200
	}

	var fixtures []*fixture
	for _, ff := range fixtureFiles {
		if mode == "only" && !strings.Contains(","+modeArg+",", ","+ff.name+",") {
			continue
		}
		if mode == "replay" && ff.path != rp.Fixture && ff.kind != "dijkstra" {
			continue
		}
		data, err := os.ReadFile(filepath.Join(repo, ff.path))
		if err != nil {
			rep.Dead("fixture %s: %v", ff.path, err)
		}
		raw, err := hex.DecodeString(strings.TrimSpace(string(data)))
		if err != nil {
			rep.Dead("fixture %s: %v", ff.path, err)
		}
		fixtures = append(fixtures, &fixture{name: ff.name, kind: ff.kind, path: ff.path, btype: ff.btype, raw: raw})
	}

	// five more real mainnet Byron blocks (non-empty ssc payloads, one with a
	// transaction) that the repository keeps as constants of a test file
	extraByron := 0
	if src, err := os.ReadFile(filepath.Join(repo, "ledger/byron/sscstate_real_test.go")); err == nil {
		re := regexp.MustCompile(`(?m)^\s*real(\w+)Hex\s*=\s*"([0-9a-f]+)"`)
		for _, m := range re.FindAllStringSubmatch(string(src), -1) {
			name := "byron_main_" + strings.ToLower(m[1])
			if mode == "only" && !strings.Contains(","+modeArg+",", ","+name+",") {
				continue
			}
			path := "ledger/byron/sscstate_real_test.go#" + m[1]
			if mode == "replay" && path != rp.Fixture {
				continue
			}
			raw, err := hex.DecodeString(m[2])
			if err != nil || len(raw) < 100 {
				continue
			}
			fixtures = append(fixtures, &fixture{name: name, kind: "byron_main", path: path, btype: ledger.BlockTypeByronMain, raw: raw})
			extraByron++
		}
	}
	synthNote := "not built"
	for _, f := range fixtures {
		if f.kind != "dijkstra" {
			continue
		}
		sf, err := synthDijkstra(repo, f)
		if err != nil {
			synthNote = "not built: " + err.Error()
		} else if e, p := decode(sf, sf.raw, "skip"); e != nil || p != nil {
			synthNote = fmt.Sprintf("not used: does not decode without validation (%v %v)", e, p)
		} else {
			synthNote = "real Dijkstra block + the repository's real Dijkstra transaction, header body hash recomputed by the driver"
			if mode != "only" || strings.Contains(","+modeArg+",", ","+sf.name+",") {
				fixtures = append(fixtures, sf)
			}
		}
		break
	}
	if mode == "replay" {
		var keep []*fixture
		for _, f := range fixtures {
			if f.path == rp.Fixture {
				keep = append(keep, f)
			}
		}
		fixtures = keep
	}
	if len(fixtures) == 0 {
		rep.Dead("no fixture selected")
	}

	byEra := map[string][]row{}
	for _, r := range rows {
		byEra[r.Era] = append(byEra[r.Era], r)
	}
	for e := range byEra {
		rs := byEra[e]
		sort.Slice(rs, func(i, j int) bool {
			a, b := rs[i], rs[j]
			if a.Mut != b.Mut {
				return a.Mut < b.Mut
			}
			if a.Target != b.Target {
				return a.Target < b.Target
			}
			return a.Config < b.Config
		})
	}

	type stat struct{ Tried, Decodable, Rejected, Accepted int }
	stats := map[string]*stat{}
	excluded := map[string]*stat{}
	st := func(m map[string]*stat, k string) *stat {
		if m[k] == nil {
			m[k] = &stat{}
		}
		return m[k]
	}
	panicsOff := 0
	reported, suppressed := map[string]int{}, 0
	recomputed := 0
	perFixture := map[string]int{}
	sampled := map[string]bool{}

	for _, f := range fixtures {
		rng := rand.New(rand.NewSource(seed*1000003 + int64(len(f.name))*7919 + int64(f.raw[len(f.raw)/2])))
		byteBudget := byteBudget
		if len(f.raw) > 200000 {
			byteBudget /= 4 // the 648 kB epoch boundary block
		}
		ers := byEra[f.kind]
		if len(ers) == 0 {
			rep.Dead("no rows for era %s", f.kind)
		}
		// --- the unmutated block (rows mut = none)
		var base common.Block
		for _, r := range ers {
			if r.Mut != "none" {
				continue
			}
			key := fmt.Sprintf("blk=%s:mut=none:cfg=%s", f.name, r.Config)
			rep.Case(key, true)
			e, p := decode(f, f.raw, r.Config)
			replay := map[string]any{"fixture": f.path, "config": r.Config, "spec_decode_ok": r.DecodeOk}
			if p != nil {
				rep.Disagree("panic:"+key, fmt.Sprintf("panic decoding the unmutated block: %v", p), replay)
				continue
			}
			if (e == nil) != r.DecodeOk {
				rep.Disagree(key, fmt.Sprintf("real %s block %s: specification says it decodes, NewBlockFromCbor returned: %v", f.kind, f.name, e), replay)
			}
		}
		b0, err := ledger.NewBlockFromCbor(f.btype, f.raw, common.VerifyConfig{SkipBodyHashValidation: true})
		if err != nil {
			// reported above as a disagreement; nothing can be mutated
			continue
		}
		base = b0
		if err := f.layout(base); err != nil {
			rep.Dead("layout of %s: %v", f.name, err)
		}
		// the model's commitment structure, recomputed on the real block
		if !strings.HasPrefix(f.path, "synth:") {
			for k, v := range f.recompute() {
				c := f.commits[k]
				if !bytes.Equal(v, f.raw[c.lo:c.hi]) {
					rep.Dead("%s: commitment %s recomputed as the specification says is %x, the real header carries %x",
						f.name, k, v, f.raw[c.lo:c.hi])
				}
				recomputed++
			}
		}
		if mode == "dump" {
			fmt.Fprintf(os.Stderr, "%s (%s, %d bytes): parts %v commits %v txs %d\n", f.name, f.kind, len(f.raw), f.parts, f.commits, len(f.txs))
			for n, s := range f.parts {
				if s.hi-s.lo <= 40 {
					fmt.Fprintf(os.Stderr, "   %s = %x\n", n, f.raw[s.lo:s.hi])
				}
			}
		}

		// --- mutation classes (rows with validate = true carry the verdict;
		//     validate = false rows say the same block decodes unvalidated,
		//     which is the search filter itself)
		for _, r := range ers {
			if r.Mut == "none" || !r.Validate {
				continue
			}
			if mode == "replay" && (r.Mut != rp.Mut || r.Target != rp.Target || (rp.Config != "" && r.Config != rp.Config)) {
				continue
			}
			// the second validating configuration changes nothing outside Byron:
			// a quarter of the byte budget there
			byteBudget, cfgTag := byteBudget, ""
			if r.Config != "default" {
				cfgTag = ":cfg=" + r.Config
				if f.kind != "byron_main" {
					byteBudget /= 4
				}
			}
			var cands []mutant
			switch r.Mut {
			case "part":
				s, ok := f.parts[r.Target]
				if !ok {
					rep.Dead("%s has no part %s", f.name, r.Target)
				}
				cands = append(cands, byteMutants(f.raw, s, byteBudget, rng)...)
				cands = append(cands, structMutants(f.raw, s, thorough)...)
			case "commit":
				s, ok := f.commits[r.Target]
				if !ok {
					rep.Dead("%s has no commitment %s", f.name, r.Target)
				}
				cands = append(cands, byteMutants(f.raw, s, commitBudget, rng)...)
				if r.Target == "tx_count" {
					n := uint64(len(f.txs))
					for _, v := range []uint64{n + 1, n + 2, 0, 23, 24, 255} {
						if v != n {
							cands = append(cands, mutant{fmt.Sprintf("count_%d", v), splice(f.raw, s, headBytes(0, v))})
						}
					}
					if n > 0 {
						cands = append(cands, mutant{"count_minus_1", splice(f.raw, s, headBytes(0, n-1))})
					}
				}
			case "tx_body", "tx_witness":
				ci := 0
				if r.Mut == "tx_witness" {
					ci = 1
				}
				for i, t := range f.txs {
					if i >= 3 && i != len(f.txs)-1 && !thorough {
						continue
					}
					c := t.children[ci]
					pre := fmt.Sprintf("tx%d:", i)
					for _, m := range byteMutants(f.raw, c.span, byteBudget/2, rng) {
						cands = append(cands, mutant{pre + m.op, m.b})
					}
					for _, m := range structMutants(f.raw, c.span, thorough) {
						cands = append(cands, mutant{pre + m.op, m.b})
					}
				}
			case "tx_drop", "tx_dup", "tx_swap":
				cands = byronTxMutants(f, r.Mut)
			case "framing":
				cands = byronFramingMutants(f)
			case "swap_parts":
				names := partNames[f.kind]
				for i := 0; i+1 < len(names); i++ {
					a, b := f.parts[names[i]], f.parts[names[i+1]]
					if bytes.Equal(f.raw[a.lo:a.hi], f.raw[b.lo:b.hi]) {
						continue
					}
					m := append([]byte{}, f.raw[:a.lo]...)
					m = append(m, f.raw[b.lo:b.hi]...)
					m = append(m, f.raw[a.hi:b.lo]...)
					m = append(m, f.raw[a.lo:a.hi]...)
					m = append(m, f.raw[b.hi:]...)
					cands = append(cands, mutant{fmt.Sprintf("swap_%s_%s", names[i], names[i+1]), m})
				}
			default:
				rep.Dead("unknown mutation class %q", r.Mut)
			}
			class := fmt.Sprintf("%s:mut=%s:target=%s%s", f.kind, r.Mut, r.Target, cfgTag)
			fclass := f.name + ":" + r.Mut + ":" + r.Target + cfgTag
			if mode == "replay" && rp.Block != "" {
				// the recorded block itself, whatever the seed
				b, err := hex.DecodeString(rp.Block)
				if err != nil {
					rep.Dead("replay block: %v", err)
				}
				cands = []mutant{{rp.Op, b}}
			}
			seen := map[string]bool{}
			for _, m := range cands {
				if seen[m.op] || bytes.Equal(m.b, f.raw) {
					continue
				}
				if mode == "replay" && m.op != rp.Op {
					continue
				}
				seen[m.op] = true
				var s *stat
				if r.Excluded {
					s = st(excluded, class)
				} else {
					s = st(stats, class)
				}
				s.Tried++
				e0, p0 := decode(f, m.b, "skip")
				if p0 != nil {
					panicsOff++
					continue
				}
				if e0 != nil {
					continue // does not decode at all: not a case of the property
				}
				s.Decodable++
				perFixture[f.name]++
				key := fmt.Sprintf("blk=%s:mut=%s:target=%s:op=%s%s", f.name, r.Mut, r.Target, m.op, cfgTag)
				e1, p1 := decode(f, m.b, r.Config)
				replay := map[string]any{
					"fixture": f.path, "era": f.kind, "mut": r.Mut, "target": r.Target, "op": m.op,
					"spec_decode_ok": r.DecodeOk, "spec_failing": r.Failing, "seed": seed, "config": r.Config,
				}
				if len(m.b) <= 40000 {
					replay["block_cbor"] = hex.EncodeToString(m.b)
				}
				if r.Excluded {
					// the property says nothing about the ssc payload / proof
					if e1 == nil && p1 == nil {
						s.Accepted++
					} else {
						s.Rejected++
					}
					rep.Case(key, false)
					continue
				}
				rep.Case(key, true)
				if p1 != nil {
					rep.Disagree("panic:"+key, fmt.Sprintf("panic decoding with validation: %v", p1), replay)
					continue
				}
				if e1 == nil {
					s.Accepted++
				} else {
					s.Rejected++
				}
				if (e1 == nil) != r.DecodeOk {
					reported[fclass]++
					if reported[fclass] > 5 {
						suppressed++ // the same class of the same block: five replays are enough
						continue
					}
					got := "decodes"
					if e1 != nil {
						got = "fails: " + e1.Error()
					}
					rep.Disagree(key, fmt.Sprintf("%s block %s with %s mutated (%s) decodes without validation; with validation (config %s) the specification says decode_ok=%v (commitments %v), the code %s",
						f.kind, f.name, r.Target, m.op, r.Config, r.DecodeOk, r.Failing, got), replay)
				} else if !sampled[fclass] && e1 != nil && (len(sampled) < 3 || r.Mut != "commit") {
					sampled[fclass] = true
					msg := e1.Error()
					if len(msg) > 200 {
						msg = msg[:200]
					}
					rep.Sample(map[string]any{"case": key, "spec_decode_ok": r.DecodeOk, "spec_failing": r.Failing, "code_error": msg})
				}
			}
			if !r.Excluded {
				st(stats, class) // record classes without any candidate too
			}
		}
	}
	rep.Extra["per_class"] = stats
	rep.Extra["decodable_mutants_per_fixture"] = perFixture
	rep.Extra["excluded_ssc_classes"] = excluded
	rep.Extra["panics_with_validation_off"] = panicsOff
	rep.Extra["byron_blocks_from_sscstate_real_test"] = extraByron
	rep.Extra["fixtures"] = len(fixtures)
	if suppressed > 0 {
		rep.Extra["further_disagreements_of_an_already_reported_block_and_class"] = suppressed
	}
	rep.Extra["synthesised_dijkstra_block"] = synthNote
	rep.Extra["commitments_recomputed_from_real_bodies_equal_to_real_headers"] = recomputed
	rep.Extra["c34_note"] = "per_class (era:class, summed over the era's blocks): mutations tried / decodable with SkipBodyHashValidation / rejected / accepted with validation; " +
		"only decodable mutations are cases. excluded_ssc_classes: the Byron ssc payload and proof, about which the property says nothing."
	rep.Finish()
}
