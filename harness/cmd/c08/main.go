// c08: replays every case of spec/ledger/OutputValue.tla on real transactions.
//
// A case names an era, an output form and the asset quantities the outputs
// carry (a value class in a CBOR integer form, a PairForge pair, or a small
// transaction of the scaled domain). The driver writes the transaction bytes by
// hand (the library's encoder cannot produce out-of-range quantities on
// purpose), signs the body with a real ed25519 key, decodes it with the era's
// decoder and runs the era's whole UtxoValidationRules list against a mock
// ledger state that holds the spent outputs. "Accepted" = decoded and every
// rule passed. The expected verdict is the `accept` field TLC computed; this
// file owns only the big numbers (which TLC cannot represent) and makes value
// conservation hold where the case says it holds.
package main

import (
	"crypto/ed25519"
	"encoding/binary"
	"encoding/hex"
	"encoding/json"
	"fmt"
	"math/big"
	"math/rand"
	"os"
	"reflect"
	"runtime"
	"strings"

	mockledger "github.com/blinklabs-io/ouroboros-mock/ledger"
	"golang.org/x/crypto/blake2b"

	"github.com/blinklabs-io/gouroboros/ledger/alonzo"
	"github.com/blinklabs-io/gouroboros/ledger/babbage"
	"github.com/blinklabs-io/gouroboros/ledger/common"
	"github.com/blinklabs-io/gouroboros/ledger/conway"
	"github.com/blinklabs-io/gouroboros/ledger/dijkstra"
	"github.com/blinklabs-io/gouroboros/ledger/mary"
	"github.com/blinklabs-io/gouroboros/ledger/shelley"

	"verifharness/vh"
)

// ---- rows --------------------------------------------------------------------

type row struct {
	Kind     string  `json:"kind"`
	Era      string  `json:"era"`
	Of       string  `json:"of"`
	Cls      string  `json:"cls"`
	Form     string  `json:"form"`
	Rep      string  `json:"rep"`
	Pos      int     `json:"pos"`
	Comp     string  `json:"comp"`
	Mag      string  `json:"mag"`
	NForm    string  `json:"nform"`
	PForm    string  `json:"pform"`
	Order    string  `json:"order"`
	Ins      []int64 `json:"ins"`
	Outs     []int64 `json:"outs"`
	Accept   bool    `json:"accept"`
	Why      string  `json:"why"`
	Baseline bool    `json:"baseline"`
	Shape    string  `json:"shape"`    // plain | dupname:* | duppol:* (repeated map key, last occurrence wins)
	Eff      string  `json:"eff"`      // which occurrence survives decoding: case | decoy
	DupLegal bool    `json:"duplegal"` // the era accepts repeated keys (last wins)
	DupBase  bool    `json:"dupbaseline"`
}

// decoyQty is the in-range quantity of the other occurrence of a repeated key
const decoyQty = 5

type meta struct {
	MaxQ         int64 `json:"maxq"`
	RangeChecked bool  `json:"rangechecked"`
}

// ---- big numbers ---------------------------------------------------------------

func pow2(k uint) *big.Int    { return new(big.Int).Lsh(big.NewInt(1), k) }
func neg(x *big.Int) *big.Int { return new(big.Int).Neg(x) }
func add(x *big.Int, d int64) *big.Int {
	return new(big.Int).Add(x, big.NewInt(d))
}

var (
	two64  = pow2(64)
	maxQty = add(two64, -1)
	reps   = map[string]*big.Int{
		"m2p200": neg(pow2(200)), "m2p64m1": add(neg(two64), -1), "m2p64": neg(two64),
		"m2p63m1": add(neg(pow2(63)), -1), "m2p63": neg(pow2(63)), "m1": big.NewInt(-1),
		"zero": big.NewInt(0), "one": big.NewInt(1), "max": maxQty, "maxp1": two64,
		"2p64p1": add(two64, 1), "2p65": pow2(65), "2p200": pow2(200),
	}
	mags = map[string]*big.Int{"one": big.NewInt(1), "2p63": pow2(63), "max": maxQty, "maxp1": two64}
)

// inClass: does the representative lie in the class the row names? (a check of
// the table above, not a verdict)
func inClass(q *big.Int, cls string) bool {
	m63 := neg(pow2(63))
	switch cls {
	case "le_m2p63m1":
		return q.Cmp(m63) < 0
	case "m2p63":
		return q.Cmp(m63) == 0
	case "m1":
		return q.Cmp(big.NewInt(-1)) == 0
	case "zero":
		return q.Sign() == 0
	case "one":
		return q.Cmp(big.NewInt(1)) == 0
	case "max":
		return q.Cmp(maxQty) == 0
	case "maxp1":
		return q.Cmp(two64) == 0
	case "ge_maxp2":
		return q.Cmp(two64) > 0
	}
	return false
}

// chunks splits a positive number into at most 4 quantities of 1..2^64-1; nil if it cannot
func chunks(x *big.Int) []*big.Int {
	if x.Sign() <= 0 {
		return nil
	}
	var out []*big.Int
	rest := new(big.Int).Set(x)
	for rest.Sign() > 0 {
		if len(out) == 4 {
			return nil
		}
		p := new(big.Int).Set(rest)
		if p.Cmp(maxQty) > 0 {
			p.Set(maxQty)
		}
		out = append(out, p)
		rest.Sub(rest, p)
	}
	return out
}

// ---- minimal CBOR writer ---------------------------------------------------------

func head(major byte, n uint64) []byte {
	m := major << 5
	switch {
	case n < 24:
		return []byte{m | byte(n)}
	case n <= 0xff:
		return []byte{m | 24, byte(n)}
	case n <= 0xffff:
		b := []byte{m | 25, 0, 0}
		binary.BigEndian.PutUint16(b[1:], uint16(n))
		return b
	case n <= 0xffffffff:
		b := []byte{m | 26, 0, 0, 0, 0}
		binary.BigEndian.PutUint32(b[1:], uint32(n))
		return b
	}
	b := []byte{m | 27, 0, 0, 0, 0, 0, 0, 0, 0}
	binary.BigEndian.PutUint64(b[1:], n)
	return b
}

func cUint(n uint64) []byte  { return head(0, n) }
func cBytes(b []byte) []byte { return append(head(2, uint64(len(b))), b...) }
func cArr(items ...[]byte) []byte {
	out := head(4, uint64(len(items)))
	for _, it := range items {
		out = append(out, it...)
	}
	return out
}

type kv struct{ k, v []byte }

func cMap(items ...kv) []byte {
	out := head(5, uint64(len(items)))
	for _, it := range items {
		out = append(out, it.k...)
		out = append(out, it.v...)
	}
	return out
}

// encQty writes q in the given CBOR integer form.
func encQty(form string, q *big.Int) ([]byte, error) {
	switch form {
	case "uint":
		if q.Sign() < 0 || !q.IsUint64() {
			return nil, fmt.Errorf("%v is not a major-type-0 integer", q)
		}
		return head(0, q.Uint64()), nil
	case "nint":
		n := new(big.Int).Sub(big.NewInt(-1), q) // q = -1 - n
		if q.Sign() >= 0 || !n.IsUint64() {
			return nil, fmt.Errorf("%v is not a major-type-1 integer", q)
		}
		return head(1, n.Uint64()), nil
	case "big2":
		if q.Sign() < 0 {
			return nil, fmt.Errorf("%v is not a tag-2 bignum", q)
		}
		return append([]byte{0xc2}, cBytes(q.Bytes())...), nil
	case "big3":
		if q.Sign() >= 0 {
			return nil, fmt.Errorf("%v is not a tag-3 bignum", q)
		}
		n := new(big.Int).Sub(big.NewInt(-1), q)
		return append([]byte{0xc3}, cBytes(n.Bytes())...), nil
	}
	return nil, fmt.Errorf("unknown integer form %q", form)
}

// canonForm is the shortest form of q; bigForm the bignum form
func canonForm(q *big.Int) string {
	switch {
	case q.Sign() >= 0 && q.IsUint64():
		return "uint"
	case q.Sign() >= 0:
		return "big2"
	case new(big.Int).Sub(big.NewInt(-1), q).IsUint64():
		return "nint"
	}
	return "big3"
}

func bigForm(q *big.Int) string {
	if q.Sign() >= 0 {
		return "big2"
	}
	return "big3"
}

// ---- transaction plan ---------------------------------------------------------------

type asset struct {
	policy int // 0 = the case's token, 1 = the companion token
	qty    *big.Int
	form   string
	shape  string // "" / plain, or a repeated-key shape
}

type plan struct {
	era, of string
	ins     [][]asset // asset-carrying spent outputs (admissible quantities, canonical form)
	outs    [][]asset // produced outputs, in order
}

type world struct {
	owner    key
	policies [2][]byte
	names    [2][]byte
	txid     []byte
	datum    []byte
}

type key struct {
	priv ed25519.PrivateKey
	pub  ed25519.PublicKey
	hash []byte
}

func newKey(rng *rand.Rand) key {
	seed := make([]byte, ed25519.SeedSize)
	rng.Read(seed)
	priv := ed25519.NewKeyFromSeed(seed)
	pub := priv.Public().(ed25519.PublicKey)
	h, _ := blake2b.New(28, nil)
	h.Write(pub)
	return key{priv: priv, pub: pub, hash: h.Sum(nil)}
}

const (
	networkID = 1
	adaOut    = 10_000_000
	adaFeeIn  = 100_000_000
	feeCoin   = 2_000_000
)

func (w *world) value(coin uint64, as []asset) ([]byte, error) {
	if len(as) == 0 {
		return cUint(coin), nil
	}
	var pols []kv
	for _, a := range as {
		q, err := encQty(a.form, a.qty)
		if err != nil {
			return nil, err
		}
		pol, name, decoy := cBytes(w.policies[a.policy]), cBytes(w.names[a.policy]), cUint(decoyQty)
		one := func(v []byte) []byte { return cMap(kv{name, v}) }
		switch a.shape {
		case "", "plain":
			pols = append(pols, kv{pol, one(q)})
		case "dupname:same":
			pols = append(pols, kv{pol, cMap(kv{name, q}, kv{name, q})})
		case "dupname:decoyfirst":
			pols = append(pols, kv{pol, cMap(kv{name, decoy}, kv{name, q})})
		case "dupname:decoylast":
			pols = append(pols, kv{pol, cMap(kv{name, q}, kv{name, decoy})})
		case "duppol:same":
			pols = append(pols, kv{pol, one(q)}, kv{pol, one(q)})
		case "duppol:decoyfirst":
			pols = append(pols, kv{pol, one(decoy)}, kv{pol, one(q)})
		case "duppol:decoylast":
			pols = append(pols, kv{pol, one(q)}, kv{pol, one(decoy)})
		default:
			return nil, fmt.Errorf("unknown encoding shape %q", a.shape)
		}
	}
	return cArr(cUint(coin), cMap(pols...)), nil
}

func (w *world) output(of string, coin uint64, as []asset) ([]byte, error) {
	addr := cBytes(append([]byte{0x60 | networkID}, w.owner.hash...))
	val, err := w.value(coin, as)
	if err != nil {
		return nil, err
	}
	switch of {
	case "array2":
		return cArr(addr, val), nil
	case "array3":
		return cArr(addr, val, cBytes(w.datum)), nil
	case "map":
		return cMap(kv{cUint(0), addr}, kv{cUint(1), val}), nil
	}
	return nil, fmt.Errorf("unknown output form %q", of)
}

type eraEnv struct {
	pp        common.ProtocolParameters
	rules     []common.UtxoValidationRuleFunc
	decodeTx  func([]byte) (common.Transaction, error)
	decodeOut func([]byte) (common.TransactionOutput, error)
	isValid   bool // the transaction envelope carries the is_valid flag
}

func eraEnvs() map[string]*eraEnv {
	map0 := mockledger.NewMockMaryProtocolParams()
	alp := mockledger.NewMockAlonzoProtocolParams()
	bap := mockledger.NewMockBabbageProtocolParams()
	cop := mockledger.NewMockConwayProtocolParams()
	dip := mockledger.NewMockConwayProtocolParams()
	dip.ProtocolVersion.Major = 12
	baOut := func(b []byte) (common.TransactionOutput, error) {
		return babbage.NewBabbageTransactionOutputFromCbor(b)
	}
	return map[string]*eraEnv{
		"mary": {pp: &map0, rules: mary.UtxoValidationRules,
			decodeTx:  func(b []byte) (common.Transaction, error) { return mary.NewMaryTransactionFromCbor(b) },
			decodeOut: func(b []byte) (common.TransactionOutput, error) { return mary.NewMaryTransactionOutputFromCbor(b) }},
		"alonzo": {pp: &alp, rules: alonzo.UtxoValidationRules, isValid: true,
			decodeTx:  func(b []byte) (common.Transaction, error) { return alonzo.NewAlonzoTransactionFromCbor(b) },
			decodeOut: func(b []byte) (common.TransactionOutput, error) { return alonzo.NewAlonzoTransactionOutputFromCbor(b) }},
		"babbage": {pp: &bap, rules: babbage.UtxoValidationRules, isValid: true,
			decodeTx:  func(b []byte) (common.Transaction, error) { return babbage.NewBabbageTransactionFromCbor(b) },
			decodeOut: baOut},
		"conway": {pp: &cop, rules: conway.UtxoValidationRules, isValid: true,
			decodeTx:  func(b []byte) (common.Transaction, error) { return conway.NewConwayTransactionFromCbor(b) },
			decodeOut: baOut},
		"dijkstra": {pp: &dijkstra.DijkstraProtocolParameters{ConwayProtocolParameters: dip}, rules: dijkstra.UtxoValidationRules, isValid: true,
			decodeTx:  func(b []byte) (common.Transaction, error) { return dijkstra.NewDijkstraTransactionFromCbor(b) },
			decodeOut: baOut},
	}
}

type built struct {
	era     string
	txBytes []byte
	utxo    [][2]string // (index, output cbor hex) of every spent output, txid = world.txid
}

// build writes the transaction of a plan: input 0 pays the fee and the ada of
// the outputs, inputs 1.. carry the consumed tokens, the last output is the ada change.
func (w *world) build(p *plan) (*built, error) {
	b := &built{era: p.era}
	utxoForm := "array2"
	feeIn, err := w.output(utxoForm, adaFeeIn, nil)
	if err != nil {
		return nil, err
	}
	b.utxo = append(b.utxo, [2]string{"0", hex.EncodeToString(feeIn)})
	inputs := [][]byte{cArr(cBytes(w.txid), cUint(0))}
	for i, as := range p.ins {
		for _, a := range as {
			if a.qty.Sign() <= 0 || a.qty.Cmp(maxQty) > 0 || a.form != "uint" {
				return nil, fmt.Errorf("spent output %d would hold an inadmissible quantity %v", i, a.qty)
			}
		}
		o, err := w.output(utxoForm, adaOut, as)
		if err != nil {
			return nil, err
		}
		b.utxo = append(b.utxo, [2]string{fmt.Sprint(i + 1), hex.EncodeToString(o)})
		inputs = append(inputs, cArr(cBytes(w.txid), cUint(uint64(i+1))))
	}
	var outs [][]byte
	for _, as := range p.outs {
		o, err := w.output(p.of, adaOut, as)
		if err != nil {
			return nil, err
		}
		outs = append(outs, o)
	}
	change := int64(adaFeeIn) + int64(adaOut)*int64(len(p.ins)) - int64(adaOut)*int64(len(p.outs)) - feeCoin
	if change < 2_000_000 {
		return nil, fmt.Errorf("plan leaves %d lovelace of change", change)
	}
	ch, err := w.output(p.of, uint64(change), nil)
	if err != nil {
		return nil, err
	}
	outs = append(outs, ch)
	inSet := cArr(inputs...)
	if p.era == "conway" || p.era == "dijkstra" {
		inSet = append([]byte{0xd9, 0x01, 0x02}, inSet...) // tag 258 set
	}
	body := cMap(kv{cUint(0), inSet}, kv{cUint(1), cArr(outs...)}, kv{cUint(2), cUint(feeCoin)})
	bh := blake2b.Sum256(body)
	vk := cArr(cArr(cBytes(w.owner.pub), cBytes(ed25519.Sign(w.owner.priv, bh[:]))))
	if p.era == "conway" || p.era == "dijkstra" {
		vk = append([]byte{0xd9, 0x01, 0x02}, vk...)
	}
	wit := cMap(kv{cUint(0), vk})
	if p.era == "mary" {
		b.txBytes = cArr(body, wit, []byte{0xf6})
	} else {
		b.txBytes = cArr(body, wit, []byte{0xf5}, []byte{0xf6})
	}
	return b, nil
}

// ---- running a transaction on the real code --------------------------------------------

func ruleName(r common.UtxoValidationRuleFunc) string {
	f := runtime.FuncForPC(reflect.ValueOf(r).Pointer())
	if f == nil {
		return "?"
	}
	n := f.Name()
	if i := strings.LastIndex(n, "/"); i >= 0 {
		n = n[i+1:]
	}
	return n
}

type outcome struct {
	Accepted  bool     `json:"accepted"`
	DecodeErr string   `json:"decode_error,omitempty"`
	Failed    []string `json:"failed_rules,omitempty"`
	FirstErr  string   `json:"first_rule_error,omitempty"`
	OutQtys   []string `json:"decoded_output_quantities,omitempty"`
}

func execute(env *eraEnv, txid []byte, b *built) (*outcome, error) {
	var utxos []common.Utxo
	for _, u := range b.utxo {
		raw, err := hex.DecodeString(u[1])
		if err != nil {
			return nil, err
		}
		out, err := env.decodeOut(raw)
		if err != nil {
			return nil, fmt.Errorf("spent output does not decode: %w", err)
		}
		var idx uint32
		fmt.Sscan(u[0], &idx)
		utxos = append(utxos, common.Utxo{Id: shelley.NewShelleyTransactionInput(hex.EncodeToString(txid), int(idx)), Output: out})
	}
	ls := mockledger.NewLedgerStateBuilder().WithNetworkId(networkID).WithUtxos(utxos).Build()
	oc := &outcome{}
	tx, err := env.decodeTx(b.txBytes)
	if err != nil {
		oc.DecodeErr = err.Error()
		return oc, nil
	}
	for _, o := range tx.Outputs() {
		if as := o.Assets(); as != nil {
			for _, p := range as.Policies() {
				for _, n := range as.Assets(p) {
					if q := as.Asset(p, n); q != nil {
						oc.OutQtys = append(oc.OutQtys, q.String())
					}
				}
			}
		}
	}
	const slot = 1000
	verr := common.VerifyTransaction(tx, slot, ls, env.pp, env.rules)
	for _, r := range env.rules {
		if err := r(tx, slot, ls, env.pp); err != nil {
			oc.Failed = append(oc.Failed, ruleName(r))
			if oc.FirstErr == "" {
				oc.FirstErr = err.Error()
			}
		}
	}
	if (verr == nil) != (len(oc.Failed) == 0) {
		return nil, fmt.Errorf("VerifyTransaction (%v) and the rule-by-rule run (%v) differ", verr, oc.Failed)
	}
	oc.Accepted = verr == nil
	return oc, nil
}

// ---- plans of the three families ----------------------------------------------------------

func tok(q *big.Int, form string) asset { return asset{policy: 0, qty: q, form: form} }
func admissible(q *big.Int) asset       { return asset{policy: 0, qty: q, form: "uint"} }
func companion() asset                  { return asset{policy: 1, qty: big.NewInt(1), form: "uint"} }
func single(as ...asset) [][]asset      { return [][]asset{as} }
func eachOwn(qs []*big.Int) (r [][]asset) {
	for _, q := range qs {
		r = append(r, []asset{admissible(q)})
	}
	return r
}

// classPlan: the case quantity q in one output; value is conserved with
// admissible quantities only: inputs hold max(q,0)+1 resp. 1, further outputs
// hold 1 resp. -q+1 (split into quantities <= 2^64-1). The two representatives
// of magnitude 2^200 cannot be balanced by a handful of admissible quantities:
// their counterpart is the opposite number in a second output.
func classPlan(r *row) (*plan, *big.Int, error) {
	q, ok := reps[r.Rep]
	if !ok || !inClass(q, r.Cls) {
		return nil, nil, fmt.Errorf("representative %q is not in class %q", r.Rep, r.Cls)
	}
	p := &plan{era: r.Era, of: r.Of}
	caseOut := []asset{{policy: 0, qty: q, form: r.Form, shape: r.Shape}}
	var others [][]asset
	one := big.NewInt(1)
	written := q
	if r.Eff == "decoy" {
		q = big.NewInt(decoyQty) // the occurrence that survives decoding: value is conserved for it
	}
	switch {
	case q.BitLen() > 70:
		p.ins = single(admissible(one))
		others = [][]asset{{tok(new(big.Int).Neg(q), bigForm(new(big.Int).Neg(q)))}, {admissible(one)}}
	case q.Sign() >= 0:
		in := chunks(new(big.Int).Add(q, one))
		if in == nil {
			return nil, nil, fmt.Errorf("cannot balance %v", q)
		}
		p.ins = eachOwn(in)
		others = [][]asset{{admissible(one)}}
	default:
		c := chunks(new(big.Int).Add(new(big.Int).Neg(q), one))
		if c == nil {
			return nil, nil, fmt.Errorf("cannot balance %v", q)
		}
		p.ins = single(admissible(one))
		others = eachOwn(c)
	}
	if r.Comp == "other" {
		// the case output also holds one unit of a second token, spent from its own input
		if (r.Pos+len(r.Rep))%2 == 0 {
			caseOut = append([]asset{companion()}, caseOut...)
		} else {
			caseOut = append(caseOut, companion())
		}
		p.ins = append(p.ins, []asset{companion()})
	}
	if r.Pos == 1 {
		p.outs = append([][]asset{caseOut}, others...)
	} else {
		p.outs = append(others, caseOut)
	}
	return p, written, nil
}

func pairPlan(r *row) (*plan, error) {
	q, ok := mags[r.Mag]
	if !ok {
		return nil, fmt.Errorf("unknown magnitude %q", r.Mag)
	}
	pos, ng := []asset{tok(q, r.PForm)}, []asset{{policy: 0, qty: new(big.Int).Neg(q), form: r.NForm, shape: r.Shape}}
	p := &plan{era: r.Era, of: r.Of}
	if r.Order == "negfirst" {
		p.outs = [][]asset{ng, pos}
	} else {
		p.outs = [][]asset{pos, ng}
	}
	return p, nil
}

func txPlan(r *row, era, of string, scale *big.Int, enc, shape string) *plan {
	p := &plan{era: era, of: of}
	for _, i := range r.Ins {
		p.ins = append(p.ins, []asset{admissible(new(big.Int).Mul(big.NewInt(i), scale))})
	}
	for _, o := range r.Outs {
		q := new(big.Int).Mul(big.NewInt(o), scale)
		f := canonForm(q)
		if enc == "big" {
			f = bigForm(q)
		}
		p.outs = append(p.outs, []asset{{policy: 0, qty: q, form: f, shape: shape}})
	}
	return p
}

func ints(v []int64) string {
	s := make([]string, len(v))
	for i, x := range v {
		s[i] = fmt.Sprint(x)
	}
	return strings.Join(s, ",")
}

type eraForm struct{ era, of string }

var eraForms = []eraForm{
	{"mary", "array2"}, {"alonzo", "array2"}, {"alonzo", "array3"},
	{"babbage", "array2"}, {"babbage", "array3"}, {"babbage", "map"},
	{"conway", "array2"}, {"conway", "array3"}, {"conway", "map"},
	{"dijkstra", "array2"}, {"dijkstra", "array3"}, {"dijkstra", "map"},
}

// ---- main -------------------------------------------------------------------------------

type replayFile struct {
	Key        string      `json:"key"`
	Era        string      `json:"era"`
	TxCbor     string      `json:"tx_cbor"`
	TxID       string      `json:"spent_txid"`
	Utxo       [][2]string `json:"spent_outputs"`
	SpecAccept bool        `json:"spec_accept"`
}

func main() {
	rep := vh.NewReporter()
	envs := eraEnvs()
	if len(os.Args) >= 3 && os.Args[1] == "--replay" {
		raw, err := os.ReadFile(os.Args[2])
		if err != nil {
			rep.Dead("replay: %v", err)
		}
		var rf replayFile
		if err := json.Unmarshal(raw, &rf); err != nil {
			rep.Dead("replay: %v", err)
		}
		env, ok := envs[rf.Era]
		txb, e1 := hex.DecodeString(rf.TxCbor)
		txid, e2 := hex.DecodeString(rf.TxID)
		if !ok || e1 != nil || e2 != nil {
			rep.Dead("replay file is not a c08 replay: era %q %v %v", rf.Era, e1, e2)
		}
		rep.Guard(rf.Key, rf, func() {
			oc, err := execute(env, txid, &built{era: rf.Era, txBytes: txb, utxo: rf.Utxo})
			if err != nil {
				rep.Dead("replay: %v", err)
			}
			rep.Case(rf.Key, true)
			if oc.Accepted && !rf.SpecAccept {
				rep.Disagree(rf.Key, fmt.Sprintf("accepted (decoded output quantities %v); the specification rejects it", oc.OutQtys), rf)
			}
		})
		rep.Finish()
		return
	}
	if len(os.Args) < 3 {
		rep.Dead("usage: c08 cases.ndjson meta.ndjson | --replay file")
	}
	rows, err := vh.ReadNDJSON[row](os.Args[1])
	if err != nil || len(rows) == 0 {
		rep.Dead("cases: %v (%d rows)", err, len(rows))
	}
	metas, err := vh.ReadNDJSON[meta](os.Args[2])
	if err != nil || len(metas) != 1 || metas[0].MaxQ <= 0 {
		rep.Dead("meta: %v", err)
	}
	if !metas[0].RangeChecked {
		rep.Dead("the case file was produced by the defect configuration (RangeChecked = FALSE)")
	}
	scale, rem := new(big.Int).QuoRem(maxQty, big.NewInt(metas[0].MaxQ), new(big.Int))
	if rem.Sign() != 0 {
		rep.Dead("MaxQ = %d does not divide 2^64-1: the scaling would not be exact", metas[0].MaxQ)
	}

	rng := rand.New(rand.NewSource(vh.Seed()*1_000_003 + 8))
	w := &world{owner: newKey(rng), txid: make([]byte, 32), datum: make([]byte, 32)}
	rng.Read(w.txid)
	rng.Read(w.datum)
	for i := range w.policies {
		w.policies[i] = make([]byte, 28)
		rng.Read(w.policies[i])
		w.names[i] = make([]byte, 1+rng.Intn(32))
		rng.Read(w.names[i])
	}
	if vh.Seed()%3 == 0 {
		w.names[0] = []byte{} // the empty asset name is a legal name
	}
	perCase := 2
	if vh.Tier() == "thorough" {
		perCase = 4
	}

	stats := map[string]int{}
	silent := map[string]int{} // spec accepts, code rejects, property silent (non-canonical bignum form)
	suppressed := map[string]int{}
	reported := map[string]bool{}
	rejectedBy := map[string]int{}
	sampled := map[string]bool{}
	var silentExample string
	dupAccepted := map[string]int{} // repeated-key outputs with an in-range surviving quantity that were accepted

	run := func(r *row, key, group string, p *plan, canonical bool) {
		env, ok := envs[p.era]
		if !ok {
			rep.Dead("unknown era %q", p.era)
		}
		b, err := w.build(p)
		if err != nil {
			rep.Dead("cannot build %s: %v", key, err)
		}
		rf := replayFile{Key: key, Era: p.era, TxCbor: hex.EncodeToString(b.txBytes), TxID: hex.EncodeToString(w.txid),
			Utxo: b.utxo, SpecAccept: r.Accept}
		rep.Guard(key, rf, func() {
			oc, err := execute(env, w.txid, b)
			if err != nil {
				rep.Dead("%s: %v", key, err)
			}
			rep.Case(key, true)
			stats[r.Kind+":spec_"+map[bool]string{true: "accept", false: "reject"}[r.Accept]]++
			switch {
			case oc.DecodeErr != "":
				rejectedBy["decode"]++
			case !oc.Accepted:
				rejectedBy[oc.Failed[0]]++
			}
			if sk := r.Kind + "/" + r.Why; !sampled[sk] && (r.Kind != "tx" || len(r.Outs) >= 2) {
				sampled[sk] = true
				rep.Sample(map[string]any{"key": key, "spec_accept": r.Accept, "code": oc})
			}
			if r.DupBase && oc.Accepted {
				dupAccepted[p.era+"/"+p.of]++
			}
			if r.Shape != "" && r.Shape != "plain" {
				if oc.Accepted {
					stats["repeated_key_accepted:"+p.era]++
				} else {
					stats["repeated_key_rejected:"+p.era]++
				}
			}
			switch {
			case oc.Accepted && !r.Accept:
				g := group + ":" + p.era + ":" + p.of
				if reported[g] {
					suppressed[group]++
					return
				}
				reported[g] = true
				rep.Disagree(key, fmt.Sprintf("%s transaction accepted by the decoder and all %d rules of %s.UtxoValidationRules "+
					"(outputs decoded with quantities %v); the specification rejects it: %s",
					p.era, len(env.rules), p.era, oc.OutQtys, r.Why),
					map[string]any{"key": key, "era": p.era, "tx_cbor": rf.TxCbor, "spent_txid": rf.TxID,
						"spent_outputs": rf.Utxo, "spec_accept": r.Accept, "spec_reason": r.Why, "code": oc})
			case !oc.Accepted && r.Accept:
				why := oc.DecodeErr
				if why == "" {
					why = oc.Failed[0] + ": " + oc.FirstErr
				}
				if r.Baseline || (r.Kind == "tx" && canonical) {
					// the canonical encodings of in-range quantities must go through,
					// otherwise "accepted only if admissible" is vacuous for them
					rep.Dead("baseline %s is rejected (%s): tx %x", key, why, b.txBytes)
				}
				silent[group]++
				if silentExample == "" {
					silentExample = key + ": " + why
				}
			}
		})
	}

	seenBaseline := map[string]int{}
	for idx := range rows {
		r := &rows[idx]
		switch r.Kind {
		case "class":
			p, q, err := classPlan(r)
			if err != nil {
				rep.Dead("class case: %v", err)
			}
			if cf := canonForm(q); (r.Form == "uint" || r.Form == "nint") && cf != r.Form {
				rep.Dead("representative %s cannot be written as %s", r.Rep, r.Form)
			}
			key := fmt.Sprintf("class:cls=%s:rep=%s:form=%s:era=%s:of=%s:pos=%d:comp=%s:shape=%s", r.Cls, r.Rep, r.Form, r.Era, r.Of, r.Pos, r.Comp, r.Shape)
			if r.Baseline {
				seenBaseline[r.Era+"/"+r.Of]++
			}
			run(r, key, "class:"+r.Cls+":"+r.Shape, p, r.Form == "uint")
		case "pair":
			p, err := pairPlan(r)
			if err != nil {
				rep.Dead("pair case: %v", err)
			}
			key := fmt.Sprintf("pair:mag=%s:neg=%s:pos=%s:era=%s:of=%s:order=%s:shape=%s", r.Mag, r.NForm, r.PForm, r.Era, r.Of, r.Order, r.Shape)
			run(r, key, "pair:"+r.Mag+":"+r.Shape, p, false)
		case "tx":
			for k := 0; k < perCase; k++ {
				ef := eraForms[(idx*5+k*7+int(vh.Seed()))%len(eraForms)]
				// second replay: bignum forms and every token entry written twice
				// (same quantity, so the last-wins result is the case's transaction)
				enc, shape := "canon", "plain"
				if k%2 == 1 {
					enc, shape = "big", []string{"dupname:same", "duppol:same"}[idx%2]
				}
				key := fmt.Sprintf("tx:why=%s:ins=%s:outs=%s:era=%s:of=%s:enc=%s:shape=%s", r.Why, ints(r.Ins), ints(r.Outs), ef.era, ef.of, enc, shape)
				run(r, key, "tx:"+r.Why+":"+shape, txPlan(r, ef.era, ef.of, scale, enc, shape), enc == "canon")
			}
		default:
			rep.Dead("unknown case kind %q", r.Kind)
		}
	}
	for _, ef := range eraForms {
		if seenBaseline[ef.era+"/"+ef.of] < 2 {
			rep.Dead("no baseline case (quantity 1 and 2^64-1 in canonical form) for %s/%s", ef.era, ef.of)
		}
	}
	for _, ef := range eraForms {
		if ef.era == "mary" || ef.era == "alonzo" || ef.era == "babbage" {
			if dupAccepted[ef.era+"/"+ef.of] == 0 {
				rep.Dead("no %s/%s output with a repeated multi-asset key and an in-range surviving quantity was accepted: "+
					"the lenient (last-wins) decoding path of the pre-Conway eras was not exercised", ef.era, ef.of)
			}
		}
	}
	rep.Extra["c08_repeated_key_outputs_accepted_pre_conway"] = dupAccepted
	if stats["tx:spec_accept"] == 0 || stats["class:spec_accept"] == 0 {
		rep.Dead("no accepted case was replayed: %v", stats)
	}
	rep.Extra["c08_evaluations_by_family_and_spec_verdict"] = stats
	rep.Extra["c08_rejections_by_first_failing_stage"] = rejectedBy
	rep.Extra["c08_spec_accepts_code_rejects_property_silent"] = silent
	rep.Extra["c08_spec_accepts_code_rejects_example"] = silentExample
	rep.Extra["c08_disagreements_beyond_first_per_group_era_and_form"] = suppressed
	rep.Extra["c08_tx_scale"] = scale.String()
	rep.Extra["c08_observation_points"] = "era transaction decoder (New<Era>TransactionFromCbor) on hand-written bytes, then common.VerifyTransaction " +
		"with every entry of <era>.UtxoValidationRules (cross-checked rule by rule) against a mock ledger state holding the spent outputs"
	rep.Extra["c08_not_judged"] = []string{
		"in-range quantities written as tag-2 bignums: rejection or acceptance are both allowed (counted above)",
		"collateral-return outputs and mint fields (the property is about transaction outputs)",
		"whether explicit zero quantities are rejected (Conway CDDL) or pruned: zero is in range",
		"whether an era rejects a repeated policy / asset-name key outright (Conway, Dijkstra do) or takes the last occurrence: only accepted => surviving quantity in range",
	}
	rep.Finish()
}
