// c03: tagged-sum decoding follows the tag whatever the array-header form.
//
// Part 1 ("id"): every encoding TLC emitted from spec/ledger/CborHead.tla is fed
// to cbor.DecodeIdFromList; the spec's ListId is the oracle (expect = -1 means
// "names no variant": the library must return an error).
//
// Part 2 ("rehead"): for every tagged-sum decoder the property names, a valid
// minimal encoding of each variant is re-headed with every admissible array
// header the spec emitted for that list length (heads.ndjson) and decoded with
// the real decoder. Oracle (spec invariant ReheadSame: re-heading never changes
// ListId): the decoder yields the same variant as for the minimal form, or an
// error; a different variant is a disagreement.
package main

import (
	"bytes"
	"encoding/hex"
	"fmt"
	"math/rand"
	"net"
	"os"
	"reflect"
	"sort"
	"strings"

	"github.com/blinklabs-io/gouroboros/cbor"
	"github.com/blinklabs-io/gouroboros/ledger"
	"github.com/blinklabs-io/gouroboros/ledger/babbage"
	"github.com/blinklabs-io/gouroboros/ledger/byron"
	"github.com/blinklabs-io/gouroboros/ledger/common"
	"github.com/blinklabs-io/gouroboros/ledger/conway"
	"github.com/blinklabs-io/gouroboros/ledger/dijkstra"
	"github.com/blinklabs-io/gouroboros/protocol/localstatequery"
	"github.com/blinklabs-io/gouroboros/protocol/peersharing"

	"verifharness/vh"
)

type caseRow struct {
	Kind   string `json:"kind"`
	Af     string `json:"af"`
	N      int    `json:"n"`
	Uf     string `json:"uf"`
	V      int    `json:"v"`
	Fill   int    `json:"fill"`
	Bytes  []int  `json:"bytes"`
	Expect int    `json:"expect"`
}

type headRow struct {
	N   int    `json:"n"`
	Af  string `json:"af"`
	Hdr []int  `json:"hdr"`
	Trl []int  `json:"trl"`
}

func toBytes(rep *vh.Reporter, xs []int) []byte {
	out := make([]byte, len(xs))
	for i, x := range xs {
		if x < 0 || x > 255 {
			rep.Dead("spec emitted a non-byte %d", x)
		}
		out[i] = byte(x)
	}
	return out
}

// variant is one alternative of one tagged-sum decoder.
type variant struct {
	dec, name string
	inner     []byte                       // minimal encoding of the tagged list itself
	wrap      func([]byte) []byte          // embeds the (re-headed) list into the decoder's input; nil = identity
	obs       func([]byte) (string, error) // decodes with the real decoder, describes the variant produced
}

var rep *vh.Reporter
var rng *rand.Rand

func enc(v any) []byte {
	b, err := cbor.Encode(v)
	if err != nil {
		rep.Dead("cannot encode baseline input %T: %v", v, err)
	}
	return b
}

func raw(b []byte) cbor.RawMessage { return cbor.RawMessage(b) }

func rnd(n int) []byte {
	b := make([]byte, n)
	rng.Read(b)
	return b
}

func tname(v any) string {
	if v == nil {
		return "nil"
	}
	t := reflect.TypeOf(v)
	for t.Kind() == reflect.Pointer {
		t = t.Elem()
	}
	return t.Name()
}

// ---------------------------------------------------------------- observers

var sigA, sigB []byte

func obsNativeScript(data []byte) (string, error) {
	var ns common.NativeScript
	if _, err := cbor.Decode(data, &ns); err != nil {
		return "", err
	}
	// only key A signs, slot window [100, 200): separates all-of / any-of / n-of-k
	// and invalid-before / invalid-hereafter semantically, not just by Go type
	keys := map[common.Blake2b224]bool{common.NewBlake2b224(sigA): true}
	ev := ns.Evaluate(150, 100, 200, keys)
	return fmt.Sprintf("%s/eval=%v", tname(ns.Item()), ev), nil
}

func obsCert(data []byte) (string, error) {
	var w common.CertificateWrapper
	if _, err := cbor.Decode(data, &w); err != nil {
		return "", err
	}
	return fmt.Sprintf("%s/wrapper.Type=%d", tname(w.Certificate), w.Type), nil
}

func obsDrep(data []byte) (string, error) {
	var d common.Drep
	if _, err := cbor.Decode(data, &d); err != nil {
		return "", err
	}
	return fmt.Sprintf("Drep.Type=%d/credlen=%d", d.Type, len(d.Credential)), nil
}

func obsRelay(data []byte) (string, error) {
	var r common.PoolRelay
	if _, err := cbor.Decode(data, &r); err != nil {
		return "", err
	}
	return fmt.Sprintf("PoolRelay.Type=%d/port=%v/v4=%v/v6=%v/host=%v", r.Type, r.Port != nil, r.Ipv4 != nil,
		r.Ipv6 != nil, r.Hostname != nil), nil
}

func obsNonce(data []byte) (string, error) {
	var n common.Nonce
	if _, err := cbor.Decode(data, &n); err != nil {
		return "", err
	}
	return fmt.Sprintf("Nonce.Type=%d/zero=%v", n.Type, n.Value == [32]byte{}), nil
}

func obsDatumOption(data []byte) (string, error) {
	var d babbage.BabbageTransactionOutputDatumOption
	if _, err := cbor.Decode(data, &d); err != nil {
		return "", err
	}
	out, err := d.MarshalCBOR()
	if err != nil {
		return "", err
	}
	// the library's own (minimal) re-encoding: 0x82, then the variant it holds
	if len(out) < 2 || out[0] != 0x82 {
		return "", fmt.Errorf("unexpected re-encoding %x", out)
	}
	return fmt.Sprintf("DatumOption.kind=%d", out[1]), nil
}

func obsConwayGov(data []byte) (string, error) {
	var g conway.ConwayGovAction
	if _, err := cbor.Decode(data, &g); err != nil {
		return "", err
	}
	return fmt.Sprintf("%s/wrapper.Type=%d", tname(g.Action), g.Type), nil
}

func obsDijkstraGov(data []byte) (string, error) {
	var g dijkstra.DijkstraGovAction
	if _, err := cbor.Decode(data, &g); err != nil {
		return "", err
	}
	return fmt.Sprintf("%s/wrapper.Type=%d", tname(g.Action), g.Type), nil
}

func obsPeer(data []byte) (string, error) {
	var p peersharing.PeerAddress
	if _, err := cbor.Decode(data, &p); err != nil {
		return "", err
	}
	return fmt.Sprintf("PeerAddress.iplen=%d", len(p.IP)), nil
}

// describes a decoded LSQ query down to its leaf
func queryPath(q any) string {
	switch v := q.(type) {
	case *localstatequery.QueryWrapper:
		return "Wrapper>" + queryPath(v.Query)
	case *localstatequery.BlockQuery:
		return "Block>" + queryPath(v.Query)
	case *localstatequery.ShelleyQuery:
		return fmt.Sprintf("Shelley(era=%d)>", v.Era) + queryPath(v.Query)
	case *localstatequery.HardForkQuery:
		return "HardFork>" + queryPath(v.Query)
	case *localstatequery.ShelleyCborQuery:
		return "GetCBOR>" + queryPath(v.Query)
	default:
		return tname(q)
	}
}

func obsQuery(data []byte) (string, error) {
	var q localstatequery.QueryWrapper
	if _, err := cbor.Decode(data, &q); err != nil {
		return "", err
	}
	return queryPath(&q), nil
}

func obsHotCred(data []byte) (string, error) {
	var h localstatequery.HotCredAuthStatusValue
	if _, err := cbor.Decode(data, &h); err != nil {
		return "", err
	}
	return fmt.Sprintf("HotCredAuthStatus=%d/cred=%v/anchor=%v", h.Status, h.Credential != nil, h.Anchor != nil), nil
}

func obsWithOrigin(data []byte) (string, error) {
	var w localstatequery.WithOriginSlot
	if _, err := cbor.Decode(data, &w); err != nil {
		return "", err
	}
	return fmt.Sprintf("WithOriginSlot.HasSlot=%v", w.HasSlot), nil
}

func obsRelayAccessPoint(data []byte) (string, error) {
	var r localstatequery.RelayAccessPoint
	if _, err := cbor.Decode(data, &r); err != nil {
		return "", err
	}
	return fmt.Sprintf("RelayAccessPoint.Kind=%d", r.Kind), nil
}

func errPath(e error) string {
	switch v := e.(type) {
	case *ledger.ShelleyTxValidationError:
		s := fmt.Sprintf("ShelleyTxValidationError(era=%d)[", v.Era)
		for i, f := range v.Err.Failures {
			if i > 0 {
				s += ","
			}
			s += errPath(f)
		}
		return s + "]"
	case *ledger.UtxowFailure:
		return "UtxowFailure>" + errPath(v.Err)
	case *ledger.UtxoFailure:
		return fmt.Sprintf("UtxoFailure(era=%d)>", v.Era) + errPath(v.Err)
	case *ledger.ShelleyUtxowFailure:
		return "ShelleyUtxowFailure>" + errPath(v.Err)
	case *ledger.AlonzoUtxowFailure:
		return "AlonzoUtxowFailure>" + errPath(v.Err)
	case *ledger.BabbageUtxoFailure:
		return "BabbageUtxoFailure>" + errPath(v.Err)
	case *ledger.ConwayUtxowFailure:
		return "ConwayUtxowFailure>" + errPath(v.Err)
	case *ledger.UnknownUtxowFailureError:
		return fmt.Sprintf("UnknownUtxowFailure(tag=%d)", v.FailureType)
	case *ledger.UnknownUtxoFailureError:
		return fmt.Sprintf("UnknownUtxoFailure(tag=%d)", v.FailureType)
	case *ledger.UnknownApplyTxFailureError:
		return fmt.Sprintf("UnknownApplyTxFailure(tag=%d)", v.FailureType)
	case nil:
		return "nil"
	default:
		return tname(e)
	}
}

func obsTxValidationError(data []byte) (string, error) {
	e, err := ledger.NewShelleyTxValidationErrorFromCbor(data)
	if err != nil {
		return "", err
	}
	return errPath(e), nil
}

func obsErr[T any, PT interface {
	*T
	error
}](data []byte) (string, error) {
	var v T
	if _, err := cbor.Decode(data, &v); err != nil {
		return "", err
	}
	return errPath(PT(&v)), nil
}

func obsByronInput(data []byte) (string, error) {
	var i byron.ByronTransactionInput
	if _, err := cbor.Decode(data, &i); err != nil {
		return "", err
	}
	return fmt.Sprintf("ByronTransactionInput/idx=%d", i.OutputIndex), nil
}

// ---------------------------------------------------------------- the variants

func buildVariants() []variant {
	var vs []variant
	add := func(dec, name string, inner []byte, wrap func([]byte) []byte, obs func([]byte) (string, error)) {
		vs = append(vs, variant{dec, name, inner, wrap, obs})
	}
	h28 := func() []byte { return rnd(28) }
	h32 := func() []byte { return rnd(32) }
	keyCred := func() []any { return []any{0, h28()} }
	scriptCred := func() []any { return []any{1, h28()} }
	anchor := func() []any { return []any{"https://example.invalid/a.json", h32()} }
	rat := func(n, d uint64) cbor.Tag { return cbor.Tag{Number: 30, Content: []any{n, d}} }
	govId := func() []any { return []any{h32(), 1} }

	// --- native scripts (ledger/common/script.go)
	sigA, sigB = h28(), h28()
	pkA := []any{0, sigA}
	pkB := []any{0, sigB}
	add("native_script", "pubkey", enc(pkA), nil, obsNativeScript)
	add("native_script", "all", enc([]any{1, []any{pkA, pkB}}), nil, obsNativeScript)
	add("native_script", "any", enc([]any{2, []any{pkA, pkB}}), nil, obsNativeScript)
	add("native_script", "n_of_k", enc([]any{3, 2, []any{pkA, pkB}}), nil, obsNativeScript)
	add("native_script", "invalid_before", enc([]any{4, uint64(120)}), nil, obsNativeScript)
	add("native_script", "invalid_hereafter", enc([]any{5, uint64(120)}), nil, obsNativeScript)
	add("native_script", "require_guard", enc([]any{6, keyCred()}), nil, obsNativeScript)
	// the same alternatives one level down (a script inside an all-of list)
	nest := func(b []byte) []byte { return enc([]any{1, []any{raw(b)}}) }
	obsNested := func(data []byte) (string, error) {
		var ns common.NativeScript
		if _, err := cbor.Decode(data, &ns); err != nil {
			return "", err
		}
		all, ok := ns.Item().(*common.NativeScriptAll)
		if !ok || len(all.Scripts) != 1 {
			return "", fmt.Errorf("outer script is %T", ns.Item())
		}
		keys := map[common.Blake2b224]bool{common.NewBlake2b224(sigA): true}
		return fmt.Sprintf("All>%s/eval=%v", tname(all.Scripts[0].Item()), ns.Evaluate(150, 100, 200, keys)), nil
	}
	add("native_script_nested", "all", enc([]any{1, []any{pkA, pkB}}), nest, obsNested)
	add("native_script_nested", "any", enc([]any{2, []any{pkA, pkB}}), nest, obsNested)
	add("native_script_nested", "invalid_before", enc([]any{4, uint64(120)}), nest, obsNested)

	// --- certificates 0..18 (ledger/common/certs.go)
	drepKey := []any{0, h28()}
	add("certificate", "00_stake_registration", enc([]any{0, keyCred()}), nil, obsCert)
	add("certificate", "01_stake_deregistration", enc([]any{1, keyCred()}), nil, obsCert)
	add("certificate", "02_stake_delegation", enc([]any{2, keyCred(), h28()}), nil, obsCert)
	add("certificate", "03_pool_registration", enc([]any{3, h28(), h32(), uint64(500000000), uint64(340000000),
		rat(1, 20), h28(), []any{h28()}, []any{[]any{1, 3001, "relay.example.invalid"}},
		[]any{"https://example.invalid/p.json", h32()}}), nil, obsCert)
	add("certificate", "04_pool_retirement", enc([]any{4, h28(), uint64(300)}), nil, obsCert)
	add("certificate", "05_genesis_key_delegation", enc([]any{5, h28(), h28(), h32()}), nil, obsCert)
	add("certificate", "06_move_instantaneous_rewards", enc([]any{6, []any{0, uint64(1000)}}), nil, obsCert)
	add("certificate", "07_registration", enc([]any{7, keyCred(), uint64(2000000)}), nil, obsCert)
	add("certificate", "08_deregistration", enc([]any{8, keyCred(), uint64(2000000)}), nil, obsCert)
	add("certificate", "09_vote_delegation", enc([]any{9, keyCred(), drepKey}), nil, obsCert)
	add("certificate", "10_stake_vote_delegation", enc([]any{10, keyCred(), h28(), drepKey}), nil, obsCert)
	add("certificate", "11_stake_registration_delegation", enc([]any{11, keyCred(), h28(), uint64(2000000)}), nil, obsCert)
	add("certificate", "12_vote_registration_delegation", enc([]any{12, keyCred(), drepKey, uint64(2000000)}), nil, obsCert)
	add("certificate", "13_stake_vote_registration_delegation", enc([]any{13, keyCred(), h28(), drepKey, uint64(2000000)}), nil, obsCert)
	add("certificate", "14_auth_committee_hot", enc([]any{14, keyCred(), scriptCred()}), nil, obsCert)
	add("certificate", "15_resign_committee_cold", enc([]any{15, keyCred(), nil}), nil, obsCert)
	add("certificate", "16_registration_drep", enc([]any{16, keyCred(), uint64(500000000), nil}), nil, obsCert)
	add("certificate", "17_deregistration_drep", enc([]any{17, keyCred(), uint64(500000000)}), nil, obsCert)
	add("certificate", "18_update_drep", enc([]any{18, keyCred(), anchor()}), nil, obsCert)

	// --- DRep and pool relay (tagged sums inside certificates)
	add("drep", "0_key_hash", enc([]any{0, h28()}), nil, obsDrep)
	add("drep", "1_script_hash", enc([]any{1, h28()}), nil, obsDrep)
	add("drep", "2_abstain", enc([]any{2}), nil, obsDrep)
	add("drep", "3_no_confidence", enc([]any{3}), nil, obsDrep)
	add("pool_relay", "0_single_host_addr", enc([]any{0, 3001, []byte{10, 0, 0, 1}, nil}), nil, obsRelay)
	add("pool_relay", "1_single_host_name", enc([]any{1, 3001, "relay.example.invalid"}), nil, obsRelay)
	add("pool_relay", "2_multi_host_name", enc([]any{2, "relays.example.invalid"}), nil, obsRelay)

	// --- nonce (ledger/common/nonce.go)
	add("nonce", "0_neutral", enc([]any{0}), nil, obsNonce)
	add("nonce", "1_nonce", enc([]any{1, h32()}), nil, obsNonce)

	// --- datum option (ledger/babbage/babbage.go)
	add("datum_option", "0_hash", enc([]any{0, h32()}), nil, obsDatumOption)
	add("datum_option", "1_inline", enc([]any{1, cbor.Tag{Number: 24, Content: enc(uint64(42))}}), nil, obsDatumOption)

	// --- governance actions (ledger/conway/gov.go, ledger/dijkstra/gov.go)
	rewardAcct := append([]byte{0xe1}, h28()...)
	govs := []struct {
		name string
		v    []any
	}{
		{"0_parameter_change", []any{0, nil, map[uint]any{0: uint64(44)}, nil}},
		{"1_hard_fork_initiation", []any{1, govId(), []any{10, 0}}},
		{"2_treasury_withdrawal", []any{2, map[any]any{cbor.ByteString{}: 0}, nil}},
		{"3_no_confidence", []any{3, govId()}},
		{"4_update_committee", []any{4, nil, []any{keyCred()}, map[any]any{}, rat(2, 3)}},
		{"5_new_constitution", []any{5, nil, []any{anchor(), nil}}},
		{"6_info", []any{6}},
	}
	for _, g := range govs {
		v := g.v
		if g.name == "2_treasury_withdrawal" {
			v = []any{2, map[cbor.ByteString]uint64{cbor.NewByteString(rewardAcct): 1000000}, nil}
		}
		b := enc(v)
		add("gov_action_conway", g.name, b, nil, obsConwayGov)
		add("gov_action_dijkstra", g.name, b, nil, obsDijkstraGov)
	}

	// --- peer sharing address (protocol/peersharing/messages.go)
	add("peer_address", "0_ipv4", enc(peersharing.PeerAddress{IP: net.IPv4(10, 1, 2, 3), Port: 3001}), nil, obsPeer)
	add("peer_address", "1_ipv6_v13", enc(peersharing.PeerAddress{IP: net.ParseIP("2001:db8::1"), Port: 3001}), nil, obsPeer)
	add("peer_address", "1_ipv6_v11", enc([]any{1, uint32(1), uint32(2), uint32(3), uint32(4), uint32(0), uint32(0), 3001}), nil, obsPeer)

	// --- local-state-query query wrappers (protocol/localstatequery/queries.go)
	add("lsq_query", "0_block", enc([]any{0, []any{2, []any{1}}}), nil, obsQuery)
	add("lsq_query", "1_system_start", enc([]any{1}), nil, obsQuery)
	add("lsq_query", "2_chain_block_no", enc([]any{2}), nil, obsQuery)
	add("lsq_query", "3_chain_point", enc([]any{3}), nil, obsQuery)
	inBlock := func(b []byte) []byte { return enc([]any{0, raw(b)}) }
	add("lsq_block_query", "0_shelley", enc([]any{0, []any{6, []any{1}}}), inBlock, obsQuery)
	add("lsq_block_query", "2_hard_fork", enc([]any{2, []any{1}}), inBlock, obsQuery)
	inHardFork := func(b []byte) []byte { return enc([]any{0, []any{2, raw(b)}}) }
	add("lsq_hard_fork_query", "0_era_history", enc([]any{0}), inHardFork, obsQuery)
	add("lsq_hard_fork_query", "1_current_era", enc([]any{1}), inHardFork, obsQuery)
	inShelley := func(b []byte) []byte { return enc([]any{0, []any{0, []any{6, raw(b)}}}) }
	for _, tag := range []int{0, 1, 2, 3, 4, 5, 7, 8, 11, 12, 13, 14, 16, 19, 20, 21, 23, 24, 25, 26, 27, 28, 29, 30, 31, 32} {
		b := enc([]any{tag})
		var q localstatequery.QueryWrapper
		if _, err := cbor.Decode(inShelley(b), &q); err != nil {
			continue // this leaf takes arguments; covered (if at all) by the explicit variants below
		}
		add("lsq_shelley_query", fmt.Sprintf("%02d_simple", tag), b, inShelley, obsQuery)
	}
	addr := append([]byte{0x61}, h28()...)
	add("lsq_shelley_query", "06_utxo_by_address", enc([]any{6, []any{addr}}), inShelley, obsQuery)
	add("lsq_shelley_query", "09_get_cbor", enc([]any{9, []any{1}}), inShelley, obsQuery)
	add("lsq_shelley_query", "10_filtered_deleg", enc([]any{10, []any{[]any{0, h28()}}}), inShelley, obsQuery)
	add("lsq_shelley_query", "15_utxo_by_txin", enc([]any{15, []any{[]any{h32(), 0}}}), inShelley, obsQuery)
	add("lsq_shelley_query", "34_ledger_peer_snapshot", enc([]any{34, 1}), inShelley, obsQuery)
	add("lsq_shelley_query", "36_pool_distr2", enc([]any{36, []any{}}), inShelley, obsQuery)

	// --- local-state-query result wrappers
	add("lsq_hot_cred_status", "0_not_authorized", enc([]any{0}), nil, obsHotCred)
	add("lsq_hot_cred_status", "1_authorized", enc([]any{1, keyCred()}), nil, obsHotCred)
	add("lsq_hot_cred_status", "2_resigned", enc([]any{2, nil}), nil, obsHotCred)
	add("lsq_with_origin_slot", "0_origin", enc([]any{0}), nil, obsWithOrigin)
	add("lsq_with_origin_slot", "1_at", enc([]any{1, uint64(7)}), nil, obsWithOrigin)
	add("lsq_relay_access_point", "0_ipv4", enc([]any{0, uint32(0x0a000001), 3001}), nil, obsRelayAccessPoint)
	add("lsq_relay_access_point", "1_ipv6", enc([]any{1, []any{uint32(1), uint32(2), uint32(3), uint32(4)}, 3001}), nil, obsRelayAccessPoint)
	add("lsq_relay_access_point", "2_domain", enc([]any{2, []byte("relay.example.invalid"), 3001}), nil, obsRelayAccessPoint)
	add("lsq_relay_access_point", "3_srv", enc([]any{3, []byte("_cardano._tcp.example.invalid")}), nil, obsRelayAccessPoint)

	// --- tx-submission failure reasons (ledger/error.go)
	hashes := []any{h28(), h28()}
	// Conway UTXOW failures reached through the wire shape [[era, [[0, utxow]]]]
	inTxErr := func(era int) func([]byte) []byte {
		return func(b []byte) []byte {
			return enc([]any{[]any{era, []any{[]any{0, raw(b)}}}})
		}
	}
	utxow := []struct {
		name string
		v    []any
	}{
		// the payload shape is the one the library's decoder accepts: [tag, value]
		{"01_invalid_witnesses", []any{1, []any{1, []any{h32()}}}},
		{"02_missing_vkey_witnesses", []any{2, []any{2, hashes}}},
		{"03_missing_script_witnesses", []any{3, []any{3, hashes}}},
		{"04_script_witness_not_validating", []any{4, []any{4, hashes}}},
		{"05_missing_tx_body_metadata_hash", []any{5, []any{5, h32()}}},
		{"06_missing_tx_metadata", []any{6, []any{6, h32()}}},
		{"08_invalid_metadata", []any{8}},
		{"09_extraneous_script_witnesses", []any{9, []any{9, hashes}}},
		{"00_utxo_failure", []any{0, []any{6, []any{4}}}},
	}
	for _, u := range utxow {
		b := enc(u.v)
		add("failure_utxow_conway", u.name, b, inTxErr(6), obsTxValidationError)
		add("failure_conway_utxow_direct", u.name, b, nil, obsErr[ledger.ConwayUtxowFailure])
	}
	shelleyUtxow := []struct {
		name string
		v    []any
	}{
		{"00_invalid_witnesses", []any{0, []any{0, []any{h32()}}}},
		{"01_missing_vkey_witnesses", []any{1, []any{1, hashes}}},
		{"02_missing_script_witnesses", []any{2, []any{2, hashes}}},
		{"03_script_witness_not_validating", []any{3, []any{3, hashes}}},
		{"04_utxo_failure", []any{4, []any{1, []any{3}}}},
		{"05_missing_tx_body_metadata_hash", []any{5, []any{5, h32()}}},
		{"06_missing_tx_metadata", []any{6, []any{6, h32()}}},
		{"08_invalid_metadata", []any{8}},
		{"09_extraneous_script_witnesses", []any{9, []any{9, hashes}}},
	}
	for _, u := range shelleyUtxow {
		b := enc(u.v)
		add("failure_utxow_shelley", u.name, b, inTxErr(1), obsTxValidationError)
		add("failure_shelley_utxow_direct", u.name, b, nil, obsErr[ledger.ShelleyUtxowFailure])
	}
	// the LEDGER-level constructor list [tag, payload]
	inLedger := func(era int) func([]byte) []byte {
		return func(b []byte) []byte { return enc([]any{[]any{era, []any{raw(b)}}}) }
	}
	add("failure_ledger_conway", "0_utxow", enc([]any{0, []any{8}}), inLedger(6), obsTxValidationError)
	add("failure_ledger_conway", "9_incomplete_withdrawals", enc([]any{9, map[cbor.ByteString]any{cbor.NewByteString(rewardAcct): []any{1, 2}}}), inLedger(6), obsTxValidationError)
	add("failure_ledger_shelley", "0_utxow", enc([]any{0, []any{8}}), inLedger(1), obsTxValidationError)
	add("failure_ledger_shelley", "3_incomplete_withdrawals", enc([]any{3, map[cbor.ByteString]any{cbor.NewByteString(rewardAcct): []any{1, 2}}}), inLedger(1), obsTxValidationError)
	// UTXO failures [era, [tag, ...]] (cbor.DecodeById)
	inUtxo := func(era int) func([]byte) []byte {
		return func(b []byte) []byte { return enc([]any{era, raw(b)}) }
	}
	utxoConway := []struct {
		name string
		v    []any
	}{
		{"01_bad_inputs", []any{1, []any{[]any{h32(), 0}}}},
		{"03_max_tx_size", []any{3, 20000, 16384}},
		{"04_input_set_empty", []any{4}},
		{"05_fee_too_small", []any{5, uint64(200000), uint64(170000)}},
		{"06_value_not_conserved", []any{6, uint64(10), uint64(11)}},
		{"07_wrong_network", []any{7, 1, []any{addr}}},
		{"08_wrong_network_withdrawal", []any{8, 1, []any{rewardAcct}}},
		{"16_wrong_network_in_tx_body", []any{16, 1, 0}},
		{"18_too_many_collateral_inputs", []any{18, 3, 4}},
		{"19_no_collateral_inputs", []any{19}},
	}
	for _, u := range utxoConway {
		add("failure_utxo_conway", u.name, enc(u.v), inUtxo(6), obsErr[ledger.UtxoFailure])
	}
	utxoBabbage := []struct {
		name string
		v    []any
	}{
		{"00_bad_inputs", []any{0, []any{[]any{h32(), 0}}}},
		{"02_max_tx_size", []any{2, 20000, 16384}},
		{"03_input_set_empty", []any{3}},
		{"04_fee_too_small", []any{4, uint64(200000), uint64(170000)}},
		{"05_value_not_conserved", []any{5, uint64(10), uint64(11)}},
		{"08_wrong_network", []any{8, 1, []any{addr}}},
		{"20_no_collateral_inputs", []any{20}},
	}
	for _, u := range utxoBabbage {
		add("failure_utxo_babbage", u.name, enc(u.v), inUtxo(5), obsErr[ledger.UtxoFailure])
	}
	add("failure_alonzo_utxow_direct", "0_shelley_in_alonzo", enc([]any{0, []any{8}}), nil, obsErr[ledger.AlonzoUtxowFailure])
	add("failure_babbage_utxo_direct", "1_alonzo_in_babbage", enc([]any{1, []any{5, []any{4, uint64(2), uint64(1)}}}), nil, obsErr[ledger.BabbageUtxoFailure])

	// --- Byron transaction input (ledger/byron/byron.go): one decodable alternative
	add("byron_tx_input", "0_regular", enc([]any{0, cbor.Tag{Number: 24, Content: enc([]any{h32(), uint32(3)})}}), nil, obsByronInput)
	return vs
}

func main() {
	rep = vh.NewReporter()
	if len(os.Args) < 3 {
		rep.Dead("usage: c03 cases.ndjson heads.ndjson")
	}
	rng = rand.New(rand.NewSource(vh.Seed()))
	rows, err := vh.ReadNDJSON[caseRow](os.Args[1])
	if err != nil || len(rows) == 0 {
		rep.Dead("cases: %v (%d rows)", err, len(rows))
	}
	heads, err := vh.ReadNDJSON[headRow](os.Args[2])
	if err != nil || len(heads) == 0 {
		rep.Dead("heads: %v (%d rows)", err, len(heads))
	}

	// ------------------------------------------------ part 1: DecodeIdFromList
	// Disagreements are reported per class (kind, list length, array-header form):
	// the uint form / id value / filler of the failing encodings are listed in the
	// description and the replay file.
	type idFail struct {
		Key   string `json:"key"`
		Bytes string `json:"bytes_hex"`
		Spec  int    `json:"spec_id"`
		Got   int    `json:"library_id"`
	}
	sort.SliceStable(rows, func(i, j int) bool {
		a, b := rows[i], rows[j]
		if a.Kind != b.Kind {
			return a.Kind < b.Kind
		}
		if a.N != b.N {
			return a.N < b.N
		}
		if a.Af != b.Af {
			return a.Af < b.Af
		}
		if a.Uf != b.Uf {
			return a.Uf < b.Uf
		}
		if a.V != b.V {
			return a.V < b.V
		}
		if a.Fill != b.Fill {
			return a.Fill < b.Fill
		}
		return fmt.Sprint(a.Bytes) < fmt.Sprint(b.Bytes)
	})
	idOK, idRejected, noIdOK, illSkipped := 0, 0, 0, 0
	classFails := map[string][]idFail{}
	classSize := map[string]int{}
	var classOrder []string
	sampled := map[string]bool{}
	for _, c := range rows {
		data := toBytes(rep, c.Bytes)
		if c.Kind == "illformed" {
			// not an encoding of anything: the property is silent (decoder totality is C02)
			illSkipped++
			continue
		}
		if c.Expect == -2 {
			rep.Dead("spec emitted an abstract (Big) id for %x", data)
		}
		var key, class string
		switch c.Kind {
		case "id":
			class = fmt.Sprintf("id:n=%d:af=%s", c.N, c.Af)
			key = fmt.Sprintf("%s:uf=%s:v=%d:fill=%d", class, c.Uf, c.V, c.Fill)
		case "nonuint", "empty":
			class = fmt.Sprintf("%s:n=%d:af=%s", c.Kind, c.N, c.Af)
			key = fmt.Sprintf("%s:bytes=%x", class, data)
		default:
			class = c.Kind
			key = fmt.Sprintf("%s:bytes=%x", c.Kind, data)
		}
		if _, ok := classSize[class]; !ok {
			classOrder = append(classOrder, class)
		}
		classSize[class]++
		rep.Guard(key, map[string]any{"bytes_hex": hex.EncodeToString(data), "spec_id": c.Expect}, func() {
			got, err := cbor.DecodeIdFromList(data)
			// non-trivial: anything but the all-minimal form the fixtures already use
			rep.Case(key, !(c.Kind == "id" && c.Af == "min" && c.Uf == "min"))
			switch {
			case c.Expect >= 0 && err != nil:
				if c.Af == "min" && c.Uf == "min" {
					classFails[class] = append(classFails[class], idFail{key, hex.EncodeToString(data), c.Expect, -1})
					return
				}
				// "This holds whether the list length is encoded minimally, non-minimally or as an
				// indefinite-length list": an admissible header form that is refused does not produce
				// the variant its first element names (DESIGN C03, reading decision). Reported under
				// its own class so that it can be told apart from a wrong variant.
				idRejected++
				rc := class + ":refused"
				if _, ok := classSize[rc]; !ok {
					classOrder = append(classOrder, rc)
				}
				classSize[rc] = classSize[class]
				classFails[rc] = append(classFails[rc], idFail{key, hex.EncodeToString(data), c.Expect, -1})
			case c.Expect >= 0 && got != c.Expect:
				classFails[class] = append(classFails[class], idFail{key, hex.EncodeToString(data), c.Expect, got})
			case c.Expect >= 0:
				idOK++
			case err == nil:
				classFails[class] = append(classFails[class], idFail{key, hex.EncodeToString(data), c.Expect, got})
			default:
				noIdOK++
			}
		})
		want := (c.Kind == "id" && c.N == 2 && c.Fill == 0 &&
			((c.Af == "u8" && c.Uf == "min" && c.V == 0) || (c.Af == "indef" && c.Uf == "u8" && c.V == 24))) ||
			(c.Kind == "nonuint" && c.N == 1 && c.Af == "u16" && !sampled["nonuint"]) ||
			(c.Kind == "empty" && c.Af == "indef")
		if want {
			sampled[c.Kind] = true
			rep.Sample(map[string]any{"key": key, "bytes": hex.EncodeToString(data), "spec_id": c.Expect})
		}
	}
	for _, class := range classOrder {
		fs := classFails[class]
		if len(fs) == 0 {
			continue
		}
		f := fs[0]
		var desc string
		if f.Spec >= 0 && f.Got >= 0 {
			desc = fmt.Sprintf("DecodeIdFromList(%s) = %d, the first element is %d", f.Bytes, f.Got, f.Spec)
		} else if f.Spec >= 0 && strings.HasSuffix(class, ":refused") {
			desc = fmt.Sprintf("DecodeIdFromList(%s) refuses an admissible encoding of a list whose first element is %d", f.Bytes, f.Spec)
		} else if f.Spec >= 0 {
			desc = fmt.Sprintf("DecodeIdFromList(%s) fails on the canonical encoding of id %d", f.Bytes, f.Spec)
		} else {
			desc = fmt.Sprintf("DecodeIdFromList(%s) = %d, but the input names no variant", f.Bytes, f.Got)
		}
		desc += fmt.Sprintf(" (%d of the %d encodings of this class disagree; first: %s)", len(fs), classSize[class], f.Key)
		if len(fs) > 60 {
			fs = fs[:60]
		}
		rep.Disagree(class, desc, map[string]any{"class": class, "failing": fs, "spec_id_-1_means": "names no variant"})
	}
	rep.Extra["id_cases"] = len(rows)
	rep.Extra["id_returned_spec_id"] = idOK
	rep.Extra["id_noid_rejected_as_spec_says"] = noIdOK
	rep.Extra["id_valid_nonpreferred_encoding_rejected_with_error"] = idRejected
	rep.Extra["id_illformed_not_judged"] = illSkipped

	// ------------------------------------------------ part 2: re-headed variants
	byN := map[int][]headRow{}
	for _, h := range heads {
		byN[h.N] = append(byN[h.N], h)
	}
	for n := range byN {
		sort.Slice(byN[n], func(i, j int) bool { return byN[n][i].Af < byN[n][j].Af })
	}
	variants := buildVariants()
	same, rejected, decoders := 0, 0, map[string]bool{}
	var rejectedKeys []string
	for _, v := range variants {
		decoders[v.dec] = true
		if len(v.inner) == 0 || v.inner[0] < 0x80 || v.inner[0] > 0x97 {
			rep.Dead("%s/%s: baseline is not a minimally headed list: %x", v.dec, v.name, v.inner)
		}
		n := int(v.inner[0] - 0x80)
		hs := byN[n]
		if len(hs) == 0 {
			rep.Dead("%s/%s: the spec emitted no headers for list length %d", v.dec, v.name, n)
		}
		wrap := v.wrap
		if wrap == nil {
			wrap = func(b []byte) []byte { return b }
		}
		var base string
		var baseErr error
		rep.Guard(fmt.Sprintf("rehead:dec=%s:var=%s:af=baseline", v.dec, v.name), nil, func() {
			base, baseErr = v.obs(wrap(v.inner))
		})
		if baseErr != nil || base == "" {
			rep.Dead("%s/%s: minimal encoding %x does not decode: %v", v.dec, v.name, wrap(v.inner), baseErr)
		}
		// one disagreement per (decoder, variant); the key names every header form
		// under which the variant changes
		var badForms, refusedForms []string
		var badReplays []map[string]any
		firstDesc, firstRefused := "", ""
		for _, h := range hs {
			hdr, trl := toBytes(rep, h.Hdr), toBytes(rep, h.Trl)
			re := append(append(append([]byte{}, hdr...), v.inner[1:]...), trl...)
			if h.Af == "min" && !bytes.Equal(re, v.inner) {
				rep.Dead("%s/%s: spec's minimal header %x differs from the library's %x", v.dec, v.name, hdr, v.inner[:1])
			}
			input := wrap(re)
			key := fmt.Sprintf("rehead:dec=%s:var=%s:af=%s", v.dec, v.name, h.Af)
			replay := map[string]any{"form": h.Af, "input_hex": hex.EncodeToString(input)}
			rep.Guard(key, replay, func() {
				got, err := v.obs(input)
				rep.Case(key, h.Af != "min")
				if err != nil {
					rejected++
					rejectedKeys = append(rejectedKeys, key)
					refusedForms = append(refusedForms, h.Af)
					if firstRefused == "" {
						firstRefused = fmt.Sprintf("%s %s: %x (%s array header) is refused (%v); the minimal form %x decodes as %q",
							v.dec, v.name, input, h.Af, err, wrap(v.inner), base)
					}
					return
				}
				if got != base {
					replay["decodes_as"] = got
					badForms = append(badForms, h.Af)
					badReplays = append(badReplays, replay)
					if firstDesc == "" {
						firstDesc = fmt.Sprintf("%s %s: %x (%s array header) decodes as %q, the minimal form %x as %q",
							v.dec, v.name, input, h.Af, got, wrap(v.inner), base)
					}
					return
				}
				same++
			})
		}
		if len(badForms) > 0 {
			sort.Strings(badForms)
			key := fmt.Sprintf("rehead:dec=%s:var=%s:af=%s", v.dec, v.name, strings.Join(badForms, "+"))
			rep.Disagree(key, firstDesc, map[string]any{"decoder": v.dec, "variant": v.name,
				"minimal_hex": hex.EncodeToString(wrap(v.inner)), "minimal_decodes_as": base, "reheaded": badReplays})
		}
		if len(refusedForms) > 0 {
			sort.Strings(refusedForms)
			key := fmt.Sprintf("rehead:dec=%s:var=%s:refused=%s", v.dec, v.name, strings.Join(refusedForms, "+"))
			rep.Disagree(key, firstRefused, map[string]any{"decoder": v.dec, "variant": v.name,
				"minimal_hex": hex.EncodeToString(wrap(v.inner)), "minimal_decodes_as": base, "refused_forms": refusedForms})
		}
		if v.dec == "native_script" && v.name == "all" {
			rep.Sample(map[string]any{"decoder": v.dec, "variant": v.name, "minimal": hex.EncodeToString(v.inner), "decodes_as": base})
		}
	}
	rep.Extra["rehead_decoders"] = len(decoders)
	rep.Extra["rehead_variants"] = len(variants)
	rep.Extra["rehead_same_variant"] = same
	rep.Extra["rehead_rejected_with_error"] = rejected
	if len(rejectedKeys) > 12 {
		rejectedKeys = rejectedKeys[:12]
	}
	rep.Extra["rehead_rejected_examples"] = rejectedKeys
	rep.Extra["note"] = "every admissible header form (minimal, 1/2/4/8-byte non-minimal, indefinite) must decode to the variant the first element names; a refusal is reported under a :refused / refused= key"
	rep.Finish()
}
